"""C14 -- syncsafe integers (BitPaddedInt / to_str / has_valid_padding) and unsynchronisation
(unsynch.encode / unsynch.decode): proofs over the hand model Model.Id3Util; exhaustive small-domain
correspondence of the extracted model with mutagen.id3._util; direct oracle on the real functions taken
from the property statement (independent reference codecs); hand-built ID3v2.3/2.4 tags in every layering of the
unsynchronisation flags (tag level, frame level), zlib compression and the data length indicator that the reader
supports, read with mutagen and compared with the bytes that went in (Model.C14_Layers proves that the source's
order -- destuff, then inflate -- inverts that layering for any inflate/deflate pair)."""
import io, os, re, sys, json, struct, itertools, subprocess
from common import zs, zp, hx, unhx, coq_bytes, vm_shard
import common

PROP = "C14"
PROP_FILES = ["props/C14.v"]
TRUSTED = [
    "modelled rather than verified: Model.Id3Util is a hand transcription of mutagen/id3/_util.py (BitPaddedInt.__new__, "
    "to_str, has_valid_padding, unsynch.encode/decode); it is tied to /repo on every run by the exhaustive correspondence below "
    "(value/bytes and exception class), not by regeneration",
    "Python int/bytes semantics assumed by the model: >> & << on non-negative ints = Z.shiftr/Z.land/Z.shiftl, "
    "bytearray.split/join, bytearray item assignment raising IndexError/ValueError",
    "non-termination is modelled as EOutOfFuel; the theorems exclude it for every input they cover",
    "tag level: Model.C14_Layers is a hand transcription of the flag handling of Frame._fromData (v2.3 and v2.4 branches) and of the "
    "whole-tag destuffing at the head of read_frames (v2.2 / v2.3; v2.2 frames carry no flags), with zlib.decompress an arbitrary function (Section variable); it is tied to /repo "
    "by a per-run vm_compute correspondence against Frame._fromData and read_frames (a few dozen flag/data combinations, zlib replaced by a one-entry "
    "table in the model) and by the tag-level oracle; header parsing, frame cutting (read_frames loop, determine_bpi) and the frame "
    "specs are tested by the oracle, not proved",
    "Python's zlib module is the reference deflate/inflate of the hand-built tags (plus a hand-made stored-block deflate writer checked against it)",
]
MANIFEST = {
    "text": "full for the codecs: machine-checked theorems, for every integer, width, bits in 1..8, both byte orders and every byte string "
            "(no size bound): to_str of a fitting value has the requested width, all padding bits clear and decodes back with BitPaddedInt; "
            "the growing form has length max(minwidth, digits); too wide and negative values give ValueError, never truncation or a loop; "
            "BitPaddedInt(int) re-reads the int's bytes; unsynch.decode(unsynch.encode(s)) = s, encode output has no 0xFF followed by >= 0xE0 "
            "and never ends in 0xFF, decode rejects exactly the unsafe strings. The model is tied to the implementation by an exhaustive "
            "correspondence (integers below 2^16 x bits x widths x byte order, all strings over a sync-relevant alphabet to length 7); "
            "for the flag handling of Frame._fromData (model with zlib abstract): for every inflate/deflate pair with inflate(deflate b) = b and every "
            "combination of tag-level flag, frame flag, compression and data length indicator the frame laid out as the ID3 specification says "
            "(deflate, syncsafe length bytes, then stuffing) is read back as the original frame bytes, and the swapped order is refuted; "
            "the use of all this when reading tags is checked by a direct oracle on hand-built tags covering every such layering",
    "note": "Modelled, not verified: the hand models of id3/_util.py and of the flag layers of Frame._fromData (tied by correspondence, not "
            "regenerated; zlib is an abstract function in the model). Reading whole tags (header flag in v2.3, per-frame / global flag in v2.4, "
            "x compression x data length indicator) is a runtime oracle over hand-built tags, not a theorem. "
            "The model cannot exhibit memory exhaustion; a hang of the implementation is detected by a watchdog subprocess.",
    "technique": "Coq proof (digit arithmetic by induction with explicit provably sufficient fuel; split/join list lemmas) over a hand "
                 "Gallina model + exhaustive correspondence via extracted OCaml model + direct oracle with independent reference codecs",
    "design_ref": "DESIGN.md section 5, C14",
}
RULE = ("correspondence: every (value, bits 1..8, byte order, (width,minwidth) in {0..5}x4, (-1,4), (-1,0)) with value below 2^14 (quick) / "
        "2^16 (thorough) plus a lattice around every bits-carry up to 2^35 and random values up to 2^80, for to_str, BitPaddedInt(int), "
        "BitPaddedInt(bytes), has_valid_padding(int|bytes); every byte string over {00,01,7F,80,DF,E0,FE,FF} up to length 5 (quick) / 7 "
        "(thorough) plus random long strings for unsynch.encode/decode; value or bytes and exception class compared with the extracted model. "
        "direct oracle: the same inputs against the property statement with independent reference codecs; negative values in a watchdog "
        "subprocess; hand-built tags: v2.2 {whole-tag unsynchronisation} (6-byte frame headers: MCI = the payload itself, UFI, TT2, TP1, PIC), v2.3 {whole-tag unsynchronisation} x {plain, compressed frames (4-byte size + zlib)} and v2.4 {tag-level flag} x "
        "{frame flag} x {plain, data length indicator, zlib + data length indicator, zlib without the indicator flag}, zlib streams from "
        "Python's zlib at levels 0/6 (9 in the mixtures), with a sync flush (00 00 FF FF inside) and from a hand-made stored-block writer (NLEN = FF..), "
        "padded and unpadded, plus random per-frame mixtures; tag-level unsynchronisation x the other header flags: 0x40 without an "
        "extended header (body starts with a frame id; v2.3, v2.4), a real extended header (v2.3: 6-byte and 10-byte+CRC forms, inside the "
        "whole-tag unsynchronisation; v2.4: syncsafe forms minimal / CRC / update+CRC+restrictions), experimental 0x20 (v2.2, v2.3, v2.4), "
        "v2.4 extended header size fields across the 7-bit carries (6..15, 127/128, 131/132, 259/260, 387/388, 515/516, 16383/16384 ...) "
        "backed by that many bytes and followed by two frames that must read back exactly, and size fields with a top bit set (must be "
        "rejected, not masked), each x tag flag x frame flag; footer 0x10 with a 3DI footer (v2.4; ignored bit in v2.2) -- the frames must read exactly as without those flags (not built: v2.2 "
        "with 0x40 and v2.3 with 0x10, which the reader rejects; v2.3 extended headers whose own CRC bytes need stuffing are judged like the rest, a reader that loses all "
        "frames behind such a header is reported once per run under the class v23-ext-header-stuffed, with a directed minimal case (found "
        "by enumeration) in both tiers); payloads = every alphabet string to length 3 (quick; the three-byte ones on a rotating third of the layouts) / 4, long FF runs, "
        "FF 00 runs, random alphabet and random byte strings; five/six frames per tag (MCDI = the payload itself, PRIV x2, UFID, TIT2 "
        "UTF-16 with BOM, TPE1 latin-1) must read back exactly and like the flag-free tag. "
        "non-trivial = value > 0 / non-empty string / rejected input; distinct by (function, parameters, input)")

ALPHABET = (0x00, 0x01, 0x7F, 0x80, 0xDF, 0xE0, 0xFE, 0xFF)
WIDTHS = [(0, 4), (1, 4), (2, 4), (3, 4), (4, 4), (5, 4), (-1, 4), (-1, 0)]


def _impl():
    import mutagen.id3._util as U
    return U


# ---------------------------------------------------------------------------------------------
# independent reference code (never mutagen's own functions)

def ref_decode(bs, bits, be):
    """value of a digit string, `bits` significant bits per byte"""
    mask = (1 << bits) - 1
    n, sh = 0, 0
    for b in (reversed(bs) if be else bs):
        n += (b & mask) << sh
        sh += bits
    return n


def ref_bpi_int(v, bits):
    mask = (1 << bits) - 1
    n, sh = 0, 0
    while v:
        n += (v & 0xFF & mask) << sh
        v >>= 8
        sh += bits
    return n


def ref_le_digits(n, bits):
    """least significant first base-2**bits digits of n (bits >= 1), no padding"""
    out = bytearray()
    while n:
        out.append(n % (1 << bits))
        n //= 1 << bits
    return bytes(out)


def expected_len(v, bits, width, mw):
    """length of the encoding, or None when the value must be rejected"""
    if width >= 0:
        return width if v < (1 << (bits * width)) else None
    return max(mw, -(-v.bit_length() // bits))


UNSAFE = re.compile(rb"\xff(?:[\xe0-\xff]|\Z)", re.S)


def ref_unsafe(s):
    """a false sync (FF followed by >= E0) or a trailing FF"""
    return UNSAFE.search(s) is not None


def ref_destuff(s):
    return s.replace(b"\xff\x00", b"\xff")


def ref_unsynch_encode(s):
    """textbook byte-by-byte stuffing (slow, obviously right)"""
    out = bytearray()
    for i, b in enumerate(s):
        out.append(b)
        if b == 0xFF and (i + 1 == len(s) or s[i + 1] >= 0xE0 or s[i + 1] == 0x00):
            out.append(0x00)
    return bytes(out)


def ref_destuff_slow(s):
    out = bytearray()
    i = 0
    while i < len(s):
        out.append(s[i])
        if s[i] == 0xFF and i + 1 < len(s) and s[i + 1] == 0x00:
            i += 1
        i += 1
    return bytes(out)


def ref_unsafe_slow(s):
    for i, b in enumerate(s):
        if b == 0xFF and (i + 1 == len(s) or s[i + 1] >= 0xE0):
            return True
    return False


def reference_selftest():
    """the fast references agree with the slow byte-by-byte ones on every alphabet string up to length 4"""
    for n in range(0, 5):
        for t in itertools.product(ALPHABET, repeat=n):
            s = bytes(t)
            assert ref_unsafe(s) == ref_unsafe_slow(s), s
            assert ref_destuff(s) == ref_destuff_slow(s), s
            e = ref_unsynch_encode(s)
            assert not ref_unsafe(e) and ref_destuff(e) == s, s


def chunks(seq, n):
    buf = []
    for x in seq:
        buf.append(x)
        if len(buf) == n:
            yield buf
            buf = []
    if buf:
        yield buf


class Viol:
    """record at most a few violations per description (the check de-duplicates by `what`)"""
    def __init__(self, ctx):
        self.ctx, self.n = ctx, {}

    def __call__(self, what, data):
        k = self.n.get(what, 0)
        self.n[what] = k + 1
        if k < (1 if isinstance(data, dict) and data.get("class") else 2):    # a classified (known-finding) report: once
            self.ctx.violation("oracle", what, data)

    def total(self):
        return sum(self.n.values())


def _viol(ctx):
    if not hasattr(ctx, "_c14_viol"):
        ctx._c14_viol = Viol(ctx)
    return ctx._c14_viol


def _disagree(ctx, runner, what, data):
    if len(ctx.disagreements) < 6:
        ctx.disagree(runner, what, data)
    ctx.count("disagreements-total")


def lattice_values():
    s = {0, 1, 2, 127, 128, 254, 255, 256, 2048, 4080, 65307, 65535, 65536, 65537, (1 << 24) - 1, 1 << 24,
         (1 << 28) - 1, 1 << 28, (1 << 28) + 1, (1 << 32) - 1, 1 << 32, (1 << 32) + 1, (1 << 35) - 1, 1 << 35}
    for b in range(1, 9):
        k = 1
        while b * k <= 35:
            for d in (-2, -1, 0, 1):
                s.add((1 << (b * k)) + d)
            k += 1
    for k in range(1, 20):
        s.add(k * 255)
    return sorted(x for x in s if x >= 0)


def random_values(rng, n):
    out = []
    for _ in range(n):
        out.append(rng.getrandbits(rng.choice((17, 20, 28, 32, 35, 40, 56, 64, 80))))
    return out


# ---------------------------------------------------------------------------------------------
# to_str

def oracle_to_str(V, U, v, bits, be, width, mw, r):
    """r: bytes or '!ExcName' as returned by the implementation; property statement for 1 <= bits <= 8, v >= 0"""
    BPI = U.BitPaddedInt
    d = {"fn": "to_str", "value": v, "bits": bits, "bigendian": be, "width": width, "minwidth": mw,
         "observed": r if isinstance(r, str) else r.hex()}
    exp = expected_len(v, bits, width, mw)
    if exp is None:
        if r != "!ValueError":
            V("to_str: a value that does not fit the width is not rejected with ValueError", d)
            return False
        return True
    if isinstance(r, str):
        V("to_str: a value that fits is rejected", d)
        return False
    ok = True
    if len(r) != exp:
        V("to_str: wrong length of the encoded string", d); ok = False
    if r and max(r) >= (1 << bits):
        V("to_str: padding bits set in an encoded byte", d); ok = False
    elif BPI.has_valid_padding(r, bits) is not True:
        V("has_valid_padding(bytes) is false on an encoding with clear padding bits", d); ok = False
    if ref_decode(r, bits, be) != v:
        V("to_str: encoded bytes do not decode to the value (reference decoder)", d); ok = False
    try:
        back = BPI(r, bits, be)
    except Exception as e:
        back = "!" + type(e).__name__
    if back != v:
        V("BitPaddedInt(to_str(v)) differs from v", dict(d, decoded=str(back))); ok = False
    if be:
        try:
            back = BPI(int.from_bytes(r, "big"), bits)
        except Exception as e:
            back = "!" + type(e).__name__
        if back != v:
            V("BitPaddedInt(int) of a to_str-encoded size field differs from the value", dict(d, decoded=str(back))); ok = False
    return ok


def run_to_str(ctx, U, values, bits_list, widths, use_model=True, oracle=True, tag="range"):
    V = _viol(ctx)
    to_str = U.BitPaddedInt.to_str
    for bits in bits_list:
        for be in (True, False):
            for width, mw in widths:
                if bits == 0 and width == -1:
                    continue   # while value: value >>= 0 never ends for value > 0 (outside the property: bits >= 1)
                for chunk in chunks(values, 2048):
                    impl = []
                    for v in chunk:
                        try:
                            r = to_str(v, bits, be, width, mw)
                        except Exception as e:
                            r = "!" + type(e).__name__
                        impl.append(r)
                        if oracle:
                            oracle_to_str(V, U, v, bits, be, width, mw, r)
                            ctx.oracle_cases += 1
                        ctx.case("ts%d%d%d.%d.%x" % (bits, be, width, mw, v) if v else None,
                                 {"fn": "to_str", "value": v, "bits": bits, "bigendian": be, "width": width, "minwidth": mw,
                                  "impl": r if isinstance(r, str) else r.hex()} if ctx.evaluations % 100003 == 0 else None)
                    ctx.count("to_str:%s:bits%d" % (tag, bits), len(chunk))
                    if use_model:
                        rep = ctx.model.call("c14_to_str", zs(bits), "1" if be else "0", zs(width), zs(mw), *[zs(v) for v in chunk]).split(" ")
                        ctx.corr_cases += len(chunk)
                        if len(rep) != len(chunk):
                            _disagree(ctx, "c14.to_str", "model reply malformed: %s" % " ".join(rep)[:200], {"fn": "to_str"})
                            continue
                        for v, r, m in zip(chunk, impl, rep):
                            ri = r if isinstance(r, str) else "x" + r.hex()
                            if ri != m:
                                _disagree(ctx, "c14.to_str", "to_str(%d, bits=%d, bigendian=%s, width=%d, minwidth=%d): impl=%s model=%s" % (v, bits, be, width, mw, ri, m),
                                          {"fn": "to_str", "value": v, "bits": bits, "bigendian": be, "width": width, "minwidth": mw})


# ---------------------------------------------------------------------------------------------
# BitPaddedInt(int), BitPaddedInt(bytes), has_valid_padding

def run_bpi_int(ctx, U, values, bits_list, use_model=True, oracle=True):
    V = _viol(ctx)
    BPI = U.BitPaddedInt
    for bits in bits_list:
        for chunk in chunks(values, 4096):
            impl, hv = [], []
            for v in chunk:
                try:
                    r = "%x" % BPI(v, bits)
                except Exception as e:
                    r = "!" + type(e).__name__
                impl.append(r)
                if bits <= 8:
                    try:
                        h = "1" if BPI.has_valid_padding(v, bits) else "0"
                    except Exception as e:
                        h = "!" + type(e).__name__
                else:
                    h = None
                hv.append(h)
                if oracle and 0 <= bits <= 8:
                    d = {"fn": "bpi_int", "value": v, "bits": bits, "observed": r}
                    if r != "%x" % ref_bpi_int(v, bits):
                        V("BitPaddedInt(int) differs from re-reading the int's bytes as bits-bit groups", d)
                    # bigendian only says how as_str() renders: the number read from an int is the same
                    try:
                        x = BPI(v, bits, False)
                        rl = "%x" % x
                        if rl == r and bits >= 1 and x.as_str(width=-1, minwidth=0) != ref_le_digits(ref_bpi_int(v, bits), bits):
                            rl += " as_str=" + x.as_str(width=-1, minwidth=0).hex()
                    except Exception as e:
                        rl = "!" + type(e).__name__
                    if rl != "%x" % ref_bpi_int(v, bits):
                        V("BitPaddedInt(int, bigendian=False) differs from the value of the int's bytes / renders wrongly", dict(d, bigendian=False, observed=rl))
                    nb = (v.bit_length() + 7) // 8
                    want = "1" if all(((v >> (8 * i)) & 0xFF) < (1 << bits) for i in range(nb)) else "0"
                    if h != want:
                        V("has_valid_padding(int) wrong", dict(d, observed=h))
                    ctx.oracle_cases += 1
                ctx.case("bi%d.%x" % (bits, v) if v else None)
            ctx.count("bpi_int:bits%d" % bits, len(chunk))
            if use_model:
                rep = ctx.model.call("c14_bpi_int", zs(bits), *[zs(v) for v in chunk]).split(" ")
                ctx.corr_cases += len(chunk)
                for v, r, m in zip(chunk, impl, rep):
                    if r != m:
                        _disagree(ctx, "c14.bpi_int", "BitPaddedInt(%d, bits=%d): impl=%s model=%s" % (v, bits, r, m), {"fn": "bpi_int", "value": v, "bits": bits})
                if bits <= 8:
                    rep = ctx.model.call("c14_hvp_int", zs(bits), *[zs(v) for v in chunk]).split(" ")
                    ctx.corr_cases += len(chunk)
                    for v, r, m in zip(chunk, hv, rep):
                        if r != m:
                            _disagree(ctx, "c14.hvp_int", "has_valid_padding(%d, bits=%d): impl=%s model=%s" % (v, bits, r, m), {"fn": "hvp_int", "value": v, "bits": bits})


def run_bpi_bytes(ctx, U, strings, bits_list, use_model=True, oracle=True):
    V = _viol(ctx)
    BPI = U.BitPaddedInt
    for bits in bits_list:
        for chunk in chunks(strings, 4096):
            hv = []
            for s in chunk:
                try:
                    h = "1" if BPI.has_valid_padding(s, bits) else "0"
                except Exception as e:
                    h = "!" + type(e).__name__
                hv.append(h)
                if oracle and bits <= 8:
                    want = "1" if all(b < (1 << bits) for b in s) else "0"
                    if h != want:
                        V("has_valid_padding(bytes) is not 'every byte below 2**bits'", {"fn": "hvp_bytes", "data": s.hex(), "bits": bits, "observed": h})
                    ctx.oracle_cases += 1
            if use_model:
                rep = ctx.model.call("c14_hvp_bytes", zs(bits), *[hx(s) for s in chunk]).split(" ")
                ctx.corr_cases += len(chunk)
                for s, r, m in zip(chunk, hv, rep):
                    if r != m:
                        _disagree(ctx, "c14.hvp_bytes", "has_valid_padding(%s, bits=%d): impl=%s model=%s" % (s.hex(), bits, r, m), {"fn": "hvp_bytes", "data": s.hex(), "bits": bits})
            for be in (True, False):
                impl = []
                for s in chunk:
                    try:
                        r = "%x" % BPI(s, bits, be)
                    except Exception as e:
                        r = "!" + type(e).__name__
                    impl.append(r)
                    if oracle:
                        if r != "%x" % ref_decode(s, bits, be):
                            V("BitPaddedInt(bytes) differs from the reference digit sum", {"fn": "bpi_bytes", "data": s.hex(), "bits": bits, "bigendian": be, "observed": r})
                        ctx.oracle_cases += 1
                    ctx.case("bb%d%d.%s" % (bits, be, s.hex()) if s else None)
                ctx.count("bpi_bytes:bits%d" % bits, len(chunk))
                if use_model:
                    rep = ctx.model.call("c14_bpi_bytes", zs(bits), "1" if be else "0", *[hx(s) for s in chunk]).split(" ")
                    ctx.corr_cases += len(chunk)
                    for s, r, m in zip(chunk, impl, rep):
                        if r != m:
                            _disagree(ctx, "c14.bpi_bytes", "BitPaddedInt(%s, bits=%d, bigendian=%s): impl=%s model=%s" % (s.hex(), bits, be, r, m),
                                      {"fn": "bpi_bytes", "data": s.hex(), "bits": bits, "bigendian": be})


# ---------------------------------------------------------------------------------------------
# negative values: in a watchdog subprocess (the historical failure mode is an endless loop)

CHILD = r"""
import sys, json, signal, resource
resource.setrlimit(resource.RLIMIT_AS, (2 << 30, 2 << 30))
from mutagen.id3._util import BitPaddedInt
class Hang(BaseException): pass
def on_alarm(*a): raise Hang()
signal.signal(signal.SIGALRM, on_alarm)
cases = json.loads(sys.stdin.read())
hangs = 0
for i, c in enumerate(cases):
    if hangs >= 3:
        break
    print("BEGIN %d" % i, flush=True)
    signal.alarm(4)
    try:
        if c[0] == "to_str":
            r = "x" + BitPaddedInt.to_str(c[1], c[2], c[3], c[4], c[5]).hex()
        else:
            r = "%x" % BitPaddedInt(c[1], c[2])
    except (Hang, MemoryError):
        r = "HANG"
        hangs += 1
    except Exception as e:
        r = "!" + type(e).__name__
    signal.alarm(0)
    print("END %d %s" % (i, r), flush=True)
"""


def negative_cases(thorough):
    vals = [-1, -2, -127, -128, -255, -256, -65536, -(1 << 28), -(1 << 35)]
    bitsl = (1, 7, 8) if not thorough else (1, 2, 3, 4, 5, 6, 7, 8)
    cases = []
    for v in vals:
        for bits in bitsl:
            cases.append(["bpi_int", v, bits])
            for be in (True, False):
                for width, mw in ((-1, 4), (-1, 0), (0, 4), (1, 4), (4, 4), (5, 4)):
                    cases.append(["to_str", v, bits, be, width, mw])
    return cases


def run_negative(ctx, use_model=True, thorough=False):
    V = _viol(ctx)
    cases = negative_cases(thorough)
    env = dict(os.environ, PYTHONPATH=common.REPO)
    p = subprocess.Popen([sys.executable, "-c", CHILD], stdin=subprocess.PIPE, stdout=subprocess.PIPE, stderr=subprocess.PIPE, env=env)
    try:
        out, err = p.communicate(json.dumps(cases).encode(), timeout=60 + 5 * 40)
        out = out.decode()
    except subprocess.TimeoutExpired:
        p.kill()
        out, err = p.communicate()
        out = out.decode()
    results = {}
    last_begin = None
    for line in out.splitlines():
        parts = line.split(" ")
        if parts[0] == "BEGIN":
            last_begin = int(parts[1])
        elif parts[0] == "END":
            results[int(parts[1])] = parts[2]
    hangs = 0
    for i, c in enumerate(cases):
        r = results.get(i)
        if r is None:
            if i == last_begin and p.returncode != 0:
                r = "HANG"   # the child was killed (timeout / memory) inside this case
            else:
                continue   # not reached: the child stops after three hangs
        ctx.oracle_cases += 1
        ctx.case("neg" + json.dumps(c))
        ctx.count("negative:" + c[0])
        if c[0] == "to_str":
            d = {"fn": "to_str", "value": c[1], "bits": c[2], "bigendian": c[3], "width": c[4], "minwidth": c[5], "observed": r}
            if r == "HANG":
                hangs += 1
                V("to_str: negative value loops instead of raising ValueError", d)
            elif r != "!ValueError":
                V("to_str: negative value not rejected with ValueError", d)
        else:
            d = {"fn": "bpi_int", "value": c[1], "bits": c[2], "observed": r}
            if r == "HANG":
                hangs += 1
                V("BitPaddedInt(int): negative value loops instead of raising ValueError", d)
            elif r != "!ValueError":
                V("BitPaddedInt(int): negative value not rejected with ValueError", d)
        if use_model and r != "HANG":
            if c[0] == "to_str":
                m = ctx.model.call("c14_to_str", zs(c[2]), "1" if c[3] else "0", zs(c[4]), zs(c[5]), zs(c[1]))
            else:
                m = ctx.model.call("c14_bpi_int", zs(c[2]), zs(c[1]))
            ctx.corr_cases += 1
            if m != r:
                _disagree(ctx, "c14.negative", "%r: impl=%s model=%s" % (c, r, m), {"fn": c[0], "case": c})
        if hangs >= 3:
            break
    if not results and not hangs:
        _disagree(ctx, "c14.negative", "watchdog subprocess produced no result: %s" % err.decode()[-300:], {})


def check_negative_one(c):
    """replay helper: one case through the watchdog; returns the observed result string"""
    env = dict(os.environ, PYTHONPATH=common.REPO)
    p = subprocess.Popen([sys.executable, "-c", CHILD], stdin=subprocess.PIPE, stdout=subprocess.PIPE, stderr=subprocess.PIPE, env=env)
    try:
        out, _ = p.communicate(json.dumps([c]).encode(), timeout=30)
    except subprocess.TimeoutExpired:
        p.kill()
        return "HANG"
    m = re.search(r"END 0 (\S+)", out.decode())
    return m.group(1) if m else "HANG"


# ---------------------------------------------------------------------------------------------
# unsynch

def oracle_unsynch(V, U, s, e, d):
    """s: input; e: encode(s) (bytes or '!Exc'); d: decode(s) (bytes or '!Exc')"""
    ok = True
    if isinstance(e, str):
        V("unsynch.encode raised", {"fn": "unsynch_encode", "data": s.hex(), "observed": e}); ok = False
    else:
        dd = {"fn": "unsynch_encode", "data": s.hex(), "observed": e.hex()}
        if ref_unsafe(e):
            V("unsynch.encode output contains a false sync (FF followed by >= E0) or ends in FF", dd); ok = False
        if ref_destuff(e) != s:
            V("unsynch.encode output does not destuff to the input (reference decoder)", dd); ok = False
        try:
            back = U.unsynch.decode(e)
        except Exception as ex:
            back = "!" + type(ex).__name__
        if back != s:
            V("unsynch.decode(unsynch.encode(s)) differs from s", dict(dd, decoded=back if isinstance(back, str) else back.hex())); ok = False
    dd = {"fn": "unsynch_decode", "data": s.hex(), "observed": d if isinstance(d, str) else d.hex()}
    if ref_unsafe(s):
        if d != "!ValueError":
            V("unsynch.decode accepts data with a false sync or a trailing FF", dd); ok = False
    elif isinstance(d, str):
        V("unsynch.decode rejects safe data", dd); ok = False
    elif d != ref_destuff(s):
        V("unsynch.decode of safe data differs from reference destuffing", dd); ok = False
    return ok


def run_unsynch(ctx, U, strings, use_model=True, tag="alphabet"):
    V = _viol(ctx)
    enc, dec = U.unsynch.encode, U.unsynch.decode
    for chunk in chunks(strings, 4096):
        ie, idc = [], []
        for s in chunk:
            try:
                e = enc(s)
            except Exception as ex:
                e = "!" + type(ex).__name__
            try:
                d = dec(s)
            except Exception as ex:
                d = "!" + type(ex).__name__
            ie.append(e)
            idc.append(d)
            oracle_unsynch(V, U, s, e, d)
            ctx.oracle_cases += 2
            ctx.case(b"u" + s if s else None,
                     {"fn": "unsynch", "data": s.hex()[:64], "encode": (e if isinstance(e, str) else e.hex())[:80],
                      "decode": (d if isinstance(d, str) else d.hex())[:80]} if ctx.evaluations % 9973 == 0 else None)
        ctx.count("unsynch:%s" % tag, len(chunk))
        if use_model:
            args = [hx(s) for s in chunk]
            me = ctx.model.call("c14_unsynch_encode", *args).split(" ")
            md = ctx.model.call("c14_unsynch_decode", *args).split(" ")
            ctx.corr_cases += 2 * len(chunk)
            if len(me) != len(chunk) or len(md) != len(chunk):
                _disagree(ctx, "c14.unsynch", "model reply malformed: %s" % (" ".join(me)[:100]), {"fn": "unsynch"})
                continue
            for s, e, d, a, b in zip(chunk, ie, idc, me, md):
                es = e if isinstance(e, str) else "x" + e.hex()
                ds = d if isinstance(d, str) else "x" + d.hex()
                if es != a:
                    _disagree(ctx, "c14.unsynch_encode", "unsynch.encode(%s): impl=%s model=%s" % (s.hex(), es, a), {"fn": "unsynch_encode", "data": s.hex()})
                if ds != b:
                    _disagree(ctx, "c14.unsynch_decode", "unsynch.decode(%s): impl=%s model=%s" % (s.hex(), ds, b), {"fn": "unsynch_decode", "data": s.hex()})


def alphabet_strings(maxlen, minlen=0):
    for n in range(minlen, maxlen + 1):
        for t in itertools.product(ALPHABET, repeat=n):
            yield bytes(t)


def random_strings(rng, n, maxlen):
    pool = bytes(ALPHABET) * 4 + bytes(range(256))
    out = []
    for _ in range(n):
        ln = rng.choice((rng.randrange(0, 40), rng.randrange(0, maxlen)))
        out.append(bytes(rng.choice(pool) for _ in range(ln)))
    return out


# ---------------------------------------------------------------------------------------------
# tag level: hand-built tags, every layering of unsynchronisation / compression / data length indicator the
# reader supports.  The writer side here is the ID3v2.3 / v2.4 specification, built by hand (own syncsafe
# ints, own stuffing, Python's zlib or the hand-made stored-block deflate below) -- never mutagen's writer.
#   v2.4 frame:  body -> [zlib] -> [4-byte syncsafe data length] -> [stuffing, frame flag 0x0002 or tag flag 0x80]
#   v2.3 tag:    frame = [4-byte plain decompressed size + zlib, flag 0x0080]; whole tag body stuffed (flag 0x80)
# so the reader must undo the stuffing BEFORE inflating, and must not destuff the inflated plaintext.

def syncsafe4(n):
    assert 0 <= n < (1 << 28)
    return bytes([(n >> 21) & 0x7F, (n >> 14) & 0x7F, (n >> 7) & 0x7F, n & 0x7F])


def ref_adler32(s):
    a, b = 1, 0
    for c in s:
        a = (a + c) % 65521
        b = (b + a) % 65521
    return (b << 16) | a


def stored_deflate(body, cuts):
    """hand-made zlib stream of stored (uncompressed) deflate blocks, `body` cut at the given positions (a
    repeated or 0 position gives an empty block: 00 00 00 FF FF).  Every block header carries NLEN = ~LEN, so
    the stream is full of FF bytes: FF FF for an empty block, xx FF for a block shorter than 256 bytes."""
    pos = [0] + sorted(min(max(c, 0), len(body)) for c in cuts) + [len(body)]
    pieces = [body[pos[i]:pos[i + 1]] for i in range(len(pos) - 1)]
    out = bytearray(b"\x78\x01")
    for i, p in enumerate(pieces):
        assert len(p) < 65536
        out.append(1 if i == len(pieces) - 1 else 0)
        out += struct.pack("<HH", len(p), len(p) ^ 0xFFFF)
        out += p
    out += struct.pack(">I", ref_adler32(body))
    return bytes(out)


ZMODES = ("z0", "z6", "z9", "sync", "hand")


def deflate(body, zmode):
    import zlib
    if zmode == "z0":
        return zlib.compress(body, 0)
    if zmode == "z6":
        return zlib.compress(body)
    if zmode == "z9":
        return zlib.compress(body, 9)
    if zmode == "sync":   # a sync flush in the middle leaves the marker 00 00 FF FF inside the stream
        c = zlib.compressobj(6)
        h = len(body) // 2
        return c.compress(body[:h]) + c.flush(zlib.Z_SYNC_FLUSH) + c.compress(body[h:]) + c.flush()
    if zmode == "hand":   # empty stored block first, then the body in two stored blocks
        return stored_deflate(body, [0, len(body) // 2])
    raise ValueError(zmode)


def tag_selftest():
    """the hand-made deflate streams inflate (Python's zlib) to the body; the layers really need stuffing"""
    import zlib
    for body in (b"", b"\x00", b"\x00abc", b"\xff\x00\xff", bytes(range(256)) * 3, b"\xff" * 256):
        assert ref_adler32(body) == zlib.adler32(body)
        for cuts in ([], [0], [1], [0, 0, 2], [len(body) // 2], [0, len(body) // 2]):
            assert zlib.decompress(stored_deflate(body, cuts)) == body, (body, cuts)
        for zm in ZMODES:
            z = deflate(body, zm)
            assert zlib.decompress(z) == body, (body, zm)
            e = ref_unsynch_encode(z)
            assert not ref_unsafe(e) and ref_destuff_slow(e) == z
            if zm in ("sync", "hand"):
                assert e != z, (body, zm)   # 00 00 FF FF is in the stream
    z = deflate(b"\x00abc", "z0")
    assert ref_unsynch_encode(z) != z       # stored block < 256 bytes: NLEN high byte FF, then the 00


TITLE = "ÿþtitleÿ"
ARTIST = "ÿ artist é ÿþ"


PICHEAD = b"\x89"     # first byte of the picture data: keeps it from being all zero (an all-zero rest after an encoded text
                      # is read as padding below v2.4 -- a quirk of EncodedTextSpec unrelated to this property)


def frame_bodies(payload, ver=4):
    """(frame id, frame body) of the frames carrying `payload` and FF-rich text.  MCDI is a plain binary frame:
    its body IS the payload, so the byte after a stored-block header is under the payload's control.
    ver 2: the ID3v2.2 frames (3-character ids): MCI = the payload itself, UFI, TT2 UTF-16, TP1 latin-1, PIC."""
    if ver == 2:
        fr = [
            (b"UFI", b"http://x\x00" + payload),
            (b"TT2", b"\x01\xff\xfe" + TITLE.encode("utf-16-le")),
            (b"TP1", b"\x00" + ARTIST.encode("latin-1")),
            (b"PIC", b"\x00PNG\x03d\x00" + PICHEAD + payload),
        ]
        if payload:
            fr.insert(0, (b"MCI", payload))
        return fr
    fr = [
        (b"PRIV", b"own\x00" + payload),
        (b"TIT2", b"\x01\xff\xfe" + TITLE.encode("utf-16-le")),
        (b"UFID", b"http://x\x00" + payload),
        (b"TPE1", b"\x00" + ARTIST.encode("latin-1")),     # encoding byte 00 right after a stored-block header
        (b"PRIV", b"\x00" + payload),                      # empty owner: 00 first, then the payload
    ]
    if payload:
        fr.insert(0, (b"MCDI", payload))   # (an empty frame is dropped by every reader)
    return fr


def frame_spec(layout, i):
    """[frame unsynchronisation flag, zmode or None, data length indicator flag] of the i-th frame"""
    fs = layout["frames"]
    fu, zm, dl = fs[i % len(fs)]
    return bool(fu), zm, bool(dl)


class Built:
    """a hand-built tag plus what went into it"""
    def __init__(self):
        self.raw = b""
        self.stuffed_deflate = 0      # frames whose deflate stream needed stuffed bytes
        self.ff00_plain = 0           # compressed + unsynchronised frames whose plaintext contains FF 00
        self.stuffed = 0              # frames / tags changed by the stuffing at all
        self.ext_stuffed = False      # v2.3: the whole-tag stuffing changed the extended header itself
        self.footer = b""


def build_layout(layout, payload, zcache=None):
    ver, tu, pad = layout["version"], bool(layout["tag_unsynch"]), layout.get("padding", 0)
    zcache = {} if zcache is None else zcache

    def z(body, zm):
        k = (body, zm)
        if k not in zcache:
            zcache[k] = deflate(body, zm)
        return zcache[k]

    B = Built()
    out = b""
    for i, (fid, body) in enumerate(frame_bodies(payload, ver)):
        fu, zm, dl = frame_spec(layout, i)
        flags, data = 0, body
        if ver == 2:      # 6-byte header: id, 3-byte plain size of the (decoded) body; no flags
            assert len(body) < (1 << 24)
            out += fid + struct.pack(">L", len(body))[1:] + body
        elif ver == 4:
            if zm:
                data = z(body, zm)
                flags |= 0x0008
            if dl:
                flags |= 0x0001
            if zm or dl:      # the reader skips four bytes for either flag
                data = syncsafe4(len(body)) + data
            if fu:
                flags |= 0x0002
            if fu or tu:
                e = ref_unsynch_encode(data)
                if e != data:
                    B.stuffed += 1
                    if zm:
                        B.stuffed_deflate += 1
                if zm and b"\xff\x00" in body:
                    B.ff00_plain += 1
                data = e
            out += fid + syncsafe4(len(data)) + struct.pack(">H", flags) + data
        else:
            if zm:
                data = struct.pack(">L", len(body)) + z(body, zm)
                flags |= 0x0080
                if tu:
                    if ref_unsynch_encode(data) != data:
                        B.stuffed_deflate += 1
                    if b"\xff\x00" in body:
                        B.ff00_plain += 1
            out += fid + struct.pack(">IH", len(data), flags) + data
    ext, xflags = layout.get("ext"), layout.get("xflags", 0)
    hflags = (0x80 if tu else 0) | xflags
    exthdr = b""
    if ext:
        hflags |= 0x40
        if ext != "bogus":    # "bogus": the flag without an extended header (the body starts with a frame id)
            exthdr = ext_header(ver, ext, out, pad)
    out = exthdr + out + b"\x00" * pad
    if ver in (2, 3) and tu:
        e = ref_unsynch_encode(out)
        B.stuffed += e != out
        B.ext_stuffed = e[:len(exthdr) + 1] != out[:len(exthdr) + 1]
        out = e
    B.raw = b"ID3" + bytes([ver, 0, hflags]) + syncsafe4(len(out)) + out
    if ver == 4 and xflags & 0x10:      # footer: the header again under "3DI", not counted in the size
        B.footer = b"3DI" + B.raw[3:10]
        B.raw += B.footer
    return B


def syncsafe5(n):
    return bytes([(n >> 28) & 0x7F]) + syncsafe4(n & ((1 << 28) - 1))


def ext_header(ver, ext, frames, pad):
    """a real extended header, by the ID3v2.3 / v2.4 specification.
    v2.3: size (plain, excluding itself: 6 or 10), 2 flag bytes (0x8000 = CRC present), size of padding, [CRC-32 of the frames]
    v2.4: size (syncsafe, whole extended header), number of flag bytes (1), flags (0x40 update, 0x20 CRC, 0x10 restrictions),
          each set flag followed by a length byte and its data (CRC: 5 syncsafe bytes over frames and padding)"""
    import zlib
    if ver == 3:
        if ext == "v23-6":
            return struct.pack(">LHL", 6, 0, pad)
        if ext == "v23-10crc":
            return struct.pack(">LHLL", 10, 0x8000, pad, zlib.crc32(frames) & 0xFFFFFFFF)
    if ver == 4:
        crc = b"\x05" + syncsafe5(zlib.crc32(frames + b"\x00" * pad) & 0xFFFFFFFF)
        if ext == "v24-min":
            body = b"\x01\x00"
        elif ext == "v24-crc":
            body = b"\x01\x20" + crc
        elif ext == "v24-all":
            body = b"\x01\x70" + b"\x00" + crc + b"\x01\xff"
        else:
            raise ValueError(ext)
        return syncsafe4(4 + len(body)) + body
    raise ValueError((ver, ext))


def L(ver, tu, fu, zm, dl, pad=0, ext=None, xflags=0):
    l = {"version": ver, "tag_unsynch": int(tu), "padding": pad, "frames": [[int(fu), zm, int(dl)]]}
    if ext:
        l["ext"] = ext          # "bogus" (flag 0x40 without an extended header) or a real extended header form
    if xflags:
        l["xflags"] = xflags    # further header flag bits: 0x20 experimental, 0x10 footer (v2.4)
    return l


def layout_name(l):
    fs = l["frames"]
    if len(fs) == 1:
        fu, zm, dl = fs[0]
        f = ("frame-unsynch=%d " % fu if l["version"] == 4 else "") + ("z=%s" % (zm or "-") if l["version"] > 2 else "") + (" datalen=%d" % dl if l["version"] == 4 else "")
    else:
        f = "mixed per-frame flags"
    return "v2.%d tag-unsynch=%d %s%s%s%s" % (l["version"], l["tag_unsynch"], f, " padded" if l.get("padding") else "",
                                            " ext=%s" % l["ext"] if l.get("ext") else "", " hdrflags+=%02x" % l["xflags"] if l.get("xflags") else "")


def uniform_layouts():
    out = []
    for tu in (0, 1):
        out.append(L(2, tu, 0, None, 0))
        out.append(L(2, tu, 0, None, 0, 7))
    zmodes = tuple(z for z in ZMODES if z != "z9")    # (level 9 only in the random per-frame mixtures)
    for tu in (0, 1):
        for zm in (None,) + zmodes:
            out.append(L(3, tu, 0, zm, 0))
        out.append(L(3, tu, 0, None, 0, 7))
        out.append(L(3, tu, 0, "hand", 0, 7))
    for tu in (0, 1):
        for fu in (0, 1):
            out.append(L(4, tu, fu, None, 0))
            out.append(L(4, tu, fu, None, 1))
            for zm in zmodes:
                out.append(L(4, tu, fu, zm, 1))
            out.append(L(4, tu, fu, "z6", 0))     # compression flag without the data length flag: the reader
            out.append(L(4, tu, fu, "hand", 0))   # still skips the four bytes
        out.append(L(4, tu, 1, None, 0, 7))
        out.append(L(4, tu, 1, "hand", 1, 7))
    return out


def header_flag_layouts():
    """tag-level unsynchronisation x the other header flags.  Kept: what the unchanged reader accepts -- v2.2 has no
    extended header (0x40 there is the compression bit: the tag is rejected), v2.3 rejects 0x10; both are not built."""
    out = []
    out.append(L(2, 1, 0, None, 0, 0, None, 0x20))
    out.append(L(2, 1, 0, None, 0, 7, None, 0x30))
    for tu in (0, 1):
        for ext in ("bogus", "v23-6", "v23-10crc"):
            out.append(L(3, tu, 0, None, 0, 0, ext))
    out.append(L(3, 1, 0, "hand", 0, 0, "bogus"))
    out.append(L(3, 1, 0, None, 0, 7, "v23-6"))
    out.append(L(3, 1, 0, None, 0, 7, "v23-10crc", 0x20))
    out.append(L(3, 1, 0, None, 0, 0, None, 0x20))
    out.append(L(3, 1, 0, None, 0, 0, "bogus", 0x20))
    for tu, fu in ((1, 0), (1, 1), (0, 1)):
        out.append(L(4, tu, fu, None, 0, 0, "bogus"))
    out.append(L(4, 1, 0, "hand", 1, 0, "bogus"))
    for ext in ("v24-min", "v24-crc", "v24-all"):
        out.append(L(4, 1, 1, None, 0, 0, ext))
    out.append(L(4, 1, 0, None, 0, 7, "v24-crc"))
    out.append(L(4, 1, 1, None, 0, 0, None, 0x20))
    out.append(L(4, 1, 1, None, 0, 0, None, 0x10))
    out.append(L(4, 1, 0, None, 0, 0, "bogus", 0x30))
    out.append(L(4, 1, 0, "z6", 1, 0, "v24-all", 0x30))
    return out


UNIFORM = uniform_layouts() + header_flag_layouts()
# replay files of the earlier, narrower oracle ("fn": "tag", "variant": index)
OLD_VARIANTS = [L(3, 1, 0, None, 0), L(3, 1, 0, None, 0, 7), L(4, 0, 1, None, 0), L(4, 0, 1, None, 1), L(4, 1, 1, None, 0), L(4, 1, 0, None, 0)]


def mixed_layout(rng, ver):
    if ver == 2:
        return L(2, rng.randrange(2), 0, None, 0, rng.choice((0, 2, 5, 6, 10, 11)), None, rng.choice((0, 0, 0x20, 0x10, 0x30)))
    fs = []
    for _ in range(6):
        zm = rng.choice((None, None) + ZMODES)
        fs.append([rng.randrange(2) if ver == 4 else 0, zm, (1 if zm else rng.randrange(2)) if ver == 4 else 0])
    l = {"version": ver, "tag_unsynch": rng.randrange(2), "padding": rng.choice((0, 0, 1, 7, 10, 11)), "frames": fs}
    ext = rng.choice((None, None, "bogus") + (("v23-6", "v23-10crc") if ver == 3 else ("v24-min", "v24-crc", "v24-all")))
    if ext:
        l["ext"] = ext
    xf = rng.choice((0, 0, 0x20) if ver == 3 else (0, 0, 0x20, 0x10, 0x30))
    if xf:
        l["xflags"] = xf
    return l


def load_tag(data):
    from mutagen.id3 import ID3
    try:
        return ID3(io.BytesIO(data))
    except Exception as e:
        return "!" + type(e).__name__


def tag_view(t):
    """canonical view of the loaded frames"""
    if isinstance(t, str):
        return t
    view = {}
    for k in sorted(t.keys()):
        f = t[k]
        view[k] = repr(f)
    view["#unknown"] = [bytes(u).hex() for u in t.unknown_frames]
    return view


def oracle_layout(V, payload, layout, zcache=None, plain_views=None, stats=None):
    """load the hand-built tag; every frame must read back as the bytes that were layered into it, and the
    whole tag must read like the flag-free tag of the same version"""
    d = {"fn": "tagx", "layout": layout, "layout_name": layout_name(layout), "payload": payload.hex()}
    B = build_layout(layout, payload, zcache)
    if stats is not None:
        stats(B)
    t = load_tag(B.raw)
    if B.ext_stuffed and not isinstance(t, str) and not t.keys():
        # v2.3, whole tag unsynchronised, and the stuffing falls inside the extended header (an FF in its CRC): a reader
        # that cuts the extended header from the still stuffed bytes starts the frames late and loses all of them.
        # Classified (one report per run, matched by a known finding); any other misreading of such a tag is judged below.
        V(EXT_STUFFED_WHAT, dict(d, **{"class": EXT_STUFFED_CLASS, "tag": B.raw.hex() if len(B.raw) <= 400 else B.raw[:400].hex() + "...",
                                       "observed": "loaded, no frame decoded; unknown=%d" % len(t.unknown_frames)}))
        return False
    if isinstance(t, str):
        V("tag: hand-built tag does not load", dict(d, observed=t))
        return False
    ok = True
    bin_msg = "tag: binary frame data read from the tag differs from the original frame bytes"

    def hexs(fr):
        return [f.data.hex() for f in fr] if fr else None

    if payload:
        mcdi = t.getall("MCDI")
        if len(mcdi) != 1 or mcdi[0].data != payload:
            V(bin_msg, dict(d, frame="MCDI", observed=hexs(mcdi))); ok = False
    ufid, tit2, tpe1 = t.getall("UFID"), t.getall("TIT2"), t.getall("TPE1")
    if layout["version"] == 2:     # (the v2.2 frames are presented under their v2.4 names: PIC -> APIC ...)
        apic = t.getall("APIC")
        if len(apic) != 1 or apic[0].data != PICHEAD + payload or apic[0].desc != "d" or int(apic[0].type) != 3:
            V(bin_msg, dict(d, frame="PIC", observed=hexs(apic))); ok = False
    else:
        for owner in ("own", ""):
            priv = [f for f in t.getall("PRIV") if f.owner == owner]
            if len(priv) != 1 or priv[0].data != payload:
                V(bin_msg, dict(d, frame="PRIV:" + owner, observed=hexs(priv))); ok = False
        if len(t.getall("PRIV")) != 2:
            V(bin_msg, dict(d, frame="PRIV", observed=hexs(t.getall("PRIV")))); ok = False
    if len(ufid) != 1 or ufid[0].data != payload or ufid[0].owner != "http://x":
        V(bin_msg, dict(d, frame="UFID", observed=hexs(ufid))); ok = False
    for name, fr, want in (("TIT2", tit2, TITLE), ("TPE1", tpe1, ARTIST)):
        if len(fr) != 1 or list(fr[0].text) != [want]:
            V("tag: text frame read from the tag differs from the original",
              dict(d, frame=name, observed=repr(fr[0].text) if fr else None)); ok = False
    if tuple(t.version) != (2, layout["version"], 0):
        V("tag: version of the loaded tag differs from the header", dict(d, observed=list(t.version))); ok = False
    if t.size != len(B.raw) - len(B.footer):
        V("tag: header size (BitPaddedInt) differs from the tag length", dict(d, observed=t.size)); ok = False
    if t.unknown_frames:
        V("tag: a frame of the hand-built tag is not decoded (kept as unknown)", dict(d, observed=[bytes(u).hex() for u in t.unknown_frames][:2])); ok = False
    # against the flag-free tag of the same version
    ver = layout["version"]
    if plain_views is None:
        plain_views = {}
    if ver not in plain_views:
        plain_views[ver] = tag_view(load_tag(build_layout(L(ver, 0, 0, None, 0), payload).raw))
    if tag_view(t) != plain_views[ver]:
        V("tag: frames read with the unsynchronisation / compression flags differ from the plain tag", d); ok = False
    return ok


EXT_STUFFED_WHAT = "tag: v2.3 extended header inside an unsynchronised tag is cut from the still-stuffed bytes (frames behind it are lost)"
EXT_STUFFED_CLASS = "v23-ext-header-stuffed"
EXT_STUFFED_LAYOUT = L(3, 1, 0, None, 0, 0, "v23-10crc")
_directed = {}


def directed_ext_stuffed():
    """the shortest (then smallest) payload for which the CRC of the v2.3 extended header contains an FF that the
    whole-tag unsynchronisation has to stuff -- found by enumeration, so it follows the frames of frame_bodies()"""
    if "p" not in _directed:
        _directed["p"] = None
        for n in (0, 1, 2, 3):
            for t in itertools.product(range(256), repeat=n):
                if build_layout(EXT_STUFFED_LAYOUT, bytes(t)).ext_stuffed:
                    _directed["p"] = bytes(t)
                    break
            if _directed["p"] is not None:
                break
    return _directed["p"]


def run_tags(ctx, payloads, nmixed=3):
    V = _viol(ctx)
    rng = ctx.rng
    # directed, both tiers: the stuffed v2.3 extended header (first, so that the one classified report is the minimal one)
    p = directed_ext_stuffed()
    if p is not None:
        oracle_layout(V, p, EXT_STUFFED_LAYOUT)
        ctx.oracle_cases += 1
        ctx.count("tag:directed v2.3 extended header with a stuffed CRC")
        ctx.case(b"tdx" + p)

    def stats(B):
        if B.stuffed:
            ctx.count("tag-content:stuffing inserted")
        if B.stuffed_deflate:
            ctx.count("tag-content:stuffing inside a deflate stream")
        if B.ext_stuffed:
            ctx.count("tag-content:v2.3 extended header itself stuffed")
        if B.ff00_plain:
            ctx.count("tag-content:FF 00 in the plaintext of a compressed unsynchronised frame")

    for j, p in enumerate(payloads):
        zcache, plain = {}, {}
        # quick tier: the 512 three-byte alphabet payloads take every third layout each (rotating); all other payloads
        # (shorter, long runs, random) take every layout
        thin = len(p) == 3 and not ctx.thorough
        layouts = [(i, l) for i, l in enumerate(UNIFORM) if not thin or (i + j) % 3 == 0]
        for k in range(nmixed):
            layouts.append((len(UNIFORM) + k, mixed_layout(rng, 2 + (k + len(p)) % 3)))
        for i, l in layouts:
            oracle_layout(V, p, l, zcache, plain, stats)
            ctx.oracle_cases += 1
            ctx.count("tag:" + (layout_name(l) if i < len(UNIFORM) else "v2.%d random mixture of per-frame and header flags" % l["version"]))
            ctx.case(b"t%d." % i + p if i < len(UNIFORM) else b"tm" + json.dumps(l, sort_keys=True).encode() + p)
    run_headers(ctx)


HEADER_ALPHABET = (0x00, 0x01, 0x7F, 0x80, 0xFF)
HEADER_BODY_MAX = 1 << 22     # a declared size up to this is backed by that many (padding) bytes


def oracle_header(V, ver, size4):
    """the tag size of an ID3v2.2 / 2.3 / 2.4 header is a 4-byte syncsafe integer: a field with any top bit set does
    not fit and must be rejected (MutagenError), never read with the bit masked off; a clean field is that number"""
    import mutagen
    from mutagen.id3 import ID3
    valid = all(b < 0x80 for b in size4)
    want = ref_decode(size4, 7, True)
    body = want if valid and want <= HEADER_BODY_MAX else 64
    raw = b"ID3" + bytes([ver, 0, 0]) + size4 + b"\x00" * body
    try:
        t = ID3(io.BytesIO(raw))
        r = "loaded size=%d" % (t.size - 10)
    except mutagen.MutagenError:
        t, r = None, "rejected"
    except Exception as e:
        t, r = None, "!" + type(e).__name__
    d = {"fn": "header", "version": ver, "size": size4.hex(), "observed": r}
    if not valid:
        if r != "rejected":
            V("tag: header size with padding bit set is not rejected", d)
            return False
    elif t is not None:
        if t.size - 10 != want:
            V("tag: header size (BitPaddedInt) differs from the syncsafe value of the size field", d)
            return False
    elif body == want or r != "rejected":
        V("tag: header with a valid syncsafe size is not loaded", d)
        return False
    return True


EXT_SIZES = list(range(6, 16)) + [126, 127, 128, 129, 131, 132, 133, 255, 256, 259, 260, 387, 388, 389, 515, 516, 2048, 16383, 16384, 16388, 16515, 16516]
EXT_BAD_FIELDS = [bytes([a, b, c, e]) for a, b in ((0, 0), (0, 0x80), (0x80, 0), (0xFF, 0xFF), (0, 1)) for c in (0x00, 0x01, 0x7F, 0x80, 0xFF)
                  for e in (0x00, 0x06, 0x0A, 0x7F, 0x80, 0x86, 0x8A, 0xFF) if max(a, b, c, e) >= 0x80]
EXT_PAYLOAD = b"\xff\x00\xfe\xff"


def oracle_exthdr(V, size4, tu, fu):
    """v2.4 extended header: the size field is a syncsafe integer counting the whole extended header.  A clean field n is
    followed by n - 4 bytes (number of flag bytes, flags, filler the reader skips) and two frames that must read back
    exactly; a field with a top bit set must be rejected (MutagenError), not read with the bit masked off -- enough bytes
    follow for the masked size to fit."""
    import mutagen
    from mutagen.id3 import ID3
    valid = all(b < 0x80 for b in size4)
    n = ref_decode(bytes(b & 0x7F for b in size4), 7, True)
    ext = size4 + (b"\x01\x00" + b"\x00" * max(n - 6, 0) if valid else b"\x01\x00" + b"\x00" * ((max(n, 6) + 8) if n <= (1 << 16) else 64))
    frames = b""
    for fid, body in ((b"MCDI", EXT_PAYLOAD), (b"TIT2", b"\x01\xff\xfe" + TITLE.encode("utf-16-le"))):
        data = ref_unsynch_encode(body) if (tu or fu) else body
        frames += fid + syncsafe4(len(data)) + struct.pack(">H", 0x0002 if fu else 0) + data
    body = ext + frames
    raw = b"ID3\x04\x00" + bytes([0x40 | (0x80 if tu else 0)]) + syncsafe4(len(body)) + body
    try:
        t = ID3(io.BytesIO(raw))
        mc, ti = t.getall("MCDI"), t.getall("TIT2")
        good = len(mc) == 1 and mc[0].data == EXT_PAYLOAD and len(ti) == 1 and list(ti[0].text) == [TITLE] and not t.unknown_frames
        r = "loaded, frames %s" % ("exact" if good else "wrong: MCDI=%s TIT2=%r" % ([f.data.hex() for f in mc], [list(f.text) for f in ti]))
    except mutagen.MutagenError:
        t, good, r = None, False, "rejected"
    except Exception as e:
        t, good, r = None, False, "!" + type(e).__name__
    d = {"fn": "exthdr", "size": size4.hex(), "tag_unsynch": int(tu), "frame_unsynch": int(fu), "observed": r,
         "tag": raw.hex() if len(raw) <= 300 else raw[:300].hex() + "..."}
    if not valid:
        if r != "rejected":
            V("tag: v2.4 extended header size with padding bit set is not rejected", d)
            return False
    elif t is None:
        V("tag: v2.4 tag with a valid syncsafe extended header size is not loaded", d)
        return False
    elif not good:
        V("tag: frames behind a v2.4 extended header differ from the original frame bytes", d)
        return False
    return True


def run_headers(ctx):
    V = _viol(ctx)
    for tu in (0, 1):
        for fu in (0, 1):
            for size4 in [syncsafe4(n) for n in EXT_SIZES] + EXT_BAD_FIELDS:
                oracle_exthdr(V, size4, tu, fu)
                ctx.oracle_cases += 1
                ctx.count("ext-header-size:v2.4 %s" % ("syncsafe" if max(size4) < 0x80 else "padding bit set"))
                ctx.case(b"xhdr%d%d" % (tu, fu) + size4)
    for ver in (2, 3, 4):
        for t in itertools.product(HEADER_ALPHABET, repeat=4):
            size4 = bytes(t)
            oracle_header(V, ver, size4)
            ctx.oracle_cases += 1
            ctx.count("header-size:v2.%d" % ver)
            ctx.case(b"hdr%d" % ver + size4)


def tag_payloads(rng, maxlen, nrandom):
    out = list(alphabet_strings(maxlen))
    for n in (126, 127, 128, 129, 251, 252, 255, 256, 300):
        out.append(b"\xff" * n)
        out.append(b"\xff\x00" * (n // 2))
        out.append((b"\xff\xe0\x00\xff\x00")[:5] * (n // 5) + b"\xff")
        out.append(bytes(rng.choice(ALPHABET) for _ in range(n)))
        out.append(bytes(rng.randrange(256) for _ in range(n)))
    for _ in range(nrandom):
        out.append(bytes(rng.choice(ALPHABET) for _ in range(rng.randrange(0, 200))))
        out.append(bytes(rng.randrange(256) for _ in range(rng.randrange(0, 400))))
    return out


# ---------------------------------------------------------------------------------------------
# vm_compute cross-check shard

def impl_from_data(ver, tu, flags, data):
    """the implementation's flag handling, observed through a plain binary frame (correspondence only: private API)"""
    import mutagen
    from mutagen.id3 import MCDI
    from mutagen.id3._tags import ID3Header
    h = ID3Header()
    h.version = (2, ver, 0)
    h._flags = 0x80 if tu else 0
    try:
        return (0, list(MCDI._fromData(h, flags, data).data))
    except NotImplementedError:
        return (3, [])
    except mutagen.MutagenError:
        return (4, [])
    except ValueError:
        return (1, [])
    except Exception:
        return (2, [])


def impl_read_frames(ver, tu, data):
    """read_frames on a tag body holding one plain binary frame (correspondence only: private API)"""
    from mutagen.id3._tags import ID3Header, read_frames
    from mutagen.id3._frames import Frames, Frames_2_2
    h = ID3Header()
    h.version = (2, ver, 0)
    h._flags = 0x80 if tu else 0
    try:
        frames, unknown, rest = read_frames(h, data, Frames_2_2 if ver == 2 else Frames)
    except Exception:
        return (2, [])
    if len(frames) != 1 or unknown:
        return (5, [])
    return (0, list(frames[0].data))


def layer_cases(ctx, cases, expect):
    """Model.C14_Layers (Frame._fromData's flag handling, zlib abstract) against the implementation: the model's
    `inflate` is the one-entry table {deflate stream -> body} of the case (everything else is a zlib.error), the
    implementation runs the real zlib.  `expect` receives the implementation's result; the shard evaluates the model."""
    rng = ctx.rng
    res = "match %s with Ok l => (0, l) | Raise EValue => (1, []) | Raise ENotImpl => (3, []) | Raise EMutagen => (4, []) | Raise _ => (2, []) end"

    def add(ver, tu, flags, data, z, body):
        table = "(fun l => if list_eqb l %s then Ok %s else Raise EValue)" % (coq_bytes(z), coq_bytes(body))
        if ver == 4:
            cases.append(res % ("from_data_v24 %s %s %d %s" % (table, "true" if tu else "false", flags, coq_bytes(data))))
        else:
            cases.append(res % ("from_data_v23 %s %d %s" % (table, flags, coq_bytes(data))))
        expect.append(impl_from_data(ver, tu, flags, data))
        ctx.corr_cases += 1
        ctx.count("layers-correspondence:v2.%d" % ver)

    def body():
        return bytes(rng.choice(ALPHABET) for _ in range(rng.randrange(1, 9)))

    # well-formed: every flag combination of v2.4
    for tu in (0, 1):
        for fu in (0, 1):
            for zm, dl in ((None, 0), (None, 1), ("z0", 1), ("hand", 1), ("z6", 0)):
                b = body()
                l = L(4, tu, fu, zm, dl)
                raw = build_layout({"version": 4, "tag_unsynch": tu, "padding": 0, "frames": l["frames"]}, b).raw
                fr = raw[10:]                        # first frame: MCDI
                assert fr[:4] == b"MCDI"
                size = ref_decode(fr[4:8], 7, True)
                flags, = struct.unpack(">H", fr[8:10])
                add(4, tu, flags, fr[10:10 + size], deflate(b, zm) if zm else b"\x01", b)
    # malformed / tolerated v2.4 input: encryption flag, junk deflate data, unsafe data under the unsynch flag,
    # the QL 0.12 layout without the four size bytes, short data
    b = body()
    z = deflate(b, "z0")
    add(4, 0, 0x0004, b, b"\x01", b)
    add(4, 1, 0x0004 | 0x0008 | 0x0001, syncsafe4(len(b)) + z, z, b)
    add(4, 0, 0x0008 | 0x0001, syncsafe4(len(b)) + b"\x78\x01junk", z, b)
    add(4, 0, 0x0002, b"\x01\xff\xe0\xff", b"\x01", b)
    add(4, 1, 0x0000, b"\xff\x00\xff", b"\x01", b)
    add(4, 0, 0x0008, z, z, b)
    add(4, 0, 0x0008 | 0x0002, ref_unsynch_encode(z[:4]) + ref_unsynch_encode(z[4:]), z, b)
    add(4, 0, 0x0001, b"\x00\x00", b"\x01", b)
    add(4, 0, 0x0009, b"\x00\x00\x00", b"\x01", b)
    # v2.3
    for zm in (None, "z0", "hand", "z6"):
        b = body()
        z = deflate(b, zm) if zm else b"\x01"
        add(3, rng.randrange(2), 0x0080 if zm else 0, (struct.pack(">L", len(b)) + z) if zm else b, z, b)
    add(3, 0, 0x0040, b, b"\x01", b)
    add(3, 0, 0x00C0, struct.pack(">L", len(b)) + z, z, b)
    add(3, 0, 0x0080, b"\x00\x01", b"\x01", b)
    add(3, 0, 0x0080, struct.pack(">L", 3) + b"\x78\x01junk", b"\x01", b)
    add(3, 1, 0x0000, b"\xff\x00\xff\x00", b"\x01", b)    # the frame level of v2.3 never destuffs
    # the head of read_frames: whole-tag destuffing for v2.2 / v2.3, none for v2.4; one plain binary frame per tag body
    notable = "(fun l => Raise EValue)"
    for ver in (2, 3, 4):
        for tu in (0, 1):
            for b in (body(), body() + b"\xff", b"\xff\x00" + body(), b"\x01\xff\xe0"):
                unsafe = b == b"\x01\xff\xe0"     # stored as it is under the flag: tolerated, read unchanged
                tb = "true" if tu else "false"
                if ver == 2:
                    data = b"MCI" + struct.pack(">L", len(b))[1:] + b
                    term = "rbind (read_frames_head 2 " + tb + " DATA) (fun d => from_data_v22 (zdrop 6 d))"
                elif ver == 3:
                    data = b"MCDI" + struct.pack(">LH", len(b), 0) + b
                    term = "rbind (read_frames_head 3 " + tb + " DATA) (fun d => from_data_v23 " + notable + " 0 (zdrop 10 d))"
                else:
                    fb = ref_unsynch_encode(b) if tu and not unsafe else b
                    data = b"MCDI" + syncsafe4(len(fb)) + b"\x00\x00" + fb
                    term = "rbind (read_frames_head 4 " + tb + " DATA) (fun d => from_data_v24 " + notable + " " + tb + " 0 (zdrop 10 d))"
                if ver < 4 and tu and not unsafe:
                    data = ref_unsynch_encode(data)
                cases.append(res % term.replace("DATA", coq_bytes(data)))
                expect.append(impl_read_frames(ver, tu, data))
                ctx.corr_cases += 1
                ctx.count("layers-correspondence:read_frames v2.%d" % ver)


def vm_crosscheck(ctx):
    rng = ctx.rng
    cases, expect = [], []
    res_l = "match %s with Ok l => (0, l) | Raise EValue => (1, []) | Raise _ => (2, []) end"
    res_z = "match %s with Ok z => (0, [z]) | Raise EValue => (1, []) | Raise _ => (2, []) end"

    def model_l(r):
        if r.startswith("x"):
            return (0, list(unhx(r)))
        return (1 if r == "!ValueError" else 2, [])

    def model_z(r):
        if r.startswith("!"):
            return (1 if r == "!ValueError" else 2, [])
        return (0, [zp(r)])

    lat = lattice_values()
    for _ in range(20):
        v = rng.choice(lat + [-1, -5]); bits = rng.randrange(1, 9); be = rng.random() < 0.5
        width, mw = rng.choice(WIDTHS)
        cases.append(res_l % ("to_str (%d) %d %s (%d) %d" % (v, bits, "true" if be else "false", width, mw)))
        expect.append(model_l(ctx.model.call("c14_to_str", zs(bits), "1" if be else "0", zs(width), zs(mw), zs(v))))
    for _ in range(8):
        v = rng.choice(lat + [-1]); bits = rng.randrange(1, 9)
        cases.append(res_z % ("bpi_of_int %d (%d)" % (bits, v)))
        expect.append(model_z(ctx.model.call("c14_bpi_int", zs(bits), zs(v))))
    for _ in range(8):
        s = bytes(rng.choice(ALPHABET) for _ in range(rng.randrange(0, 6))); bits = rng.randrange(1, 9); be = rng.random() < 0.5
        cases.append(res_z % ("bpi_of_bytes %d %s %s" % (bits, "true" if be else "false", coq_bytes(s))))
        expect.append(model_z(ctx.model.call("c14_bpi_bytes", zs(bits), "1" if be else "0", hx(s))))
    for _ in range(10):
        s = bytes(rng.choice(ALPHABET) for _ in range(rng.randrange(0, 9)))
        cases.append("(0, unsynch_encode %s)" % coq_bytes(s))
        expect.append(model_l(ctx.model.call("c14_unsynch_encode", hx(s))))
        cases.append(res_l % ("unsynch_decode %s" % coq_bytes(s)))
        expect.append(model_l(ctx.model.call("c14_unsynch_decode", hx(s))))
    layer_cases(ctx, cases, expect)
    pre = "From Coq Require Import ZArith List. Import ListNotations. Require Import Base.Py Model.Id3Util Model.C14_Layers. Open Scope Z_scope."
    res, log = vm_shard("c14", pre, cases)
    if res is None or len(res) != len(cases):
        _disagree(ctx, "c14.vm_shard", "vm_compute shard failed to run: %s" % (log,), {})
        return
    for c, e, r in zip(cases, expect, res):
        m = re.match(r"\((\d+), \[(.*)\]\)$", r.replace("%Z", ""))
        ctx.vm_cases += 1
        if not m:
            _disagree(ctx, "c14.vm_shard", "cannot parse %r" % r, {})
            return
        got = (int(m.group(1)), [int(x) for x in m.group(2).split(";") if x.strip()])
        if got != e:
            _disagree(ctx, "c14.vm_shard", "%s and vm_compute differ on %s: %s=%r vm=%r" %
                      (("implementation", c[:300], "impl") if "from_data_v2" in c else ("extracted binary", c, "binary")) + (e, got), {})
            return


# ---------------------------------------------------------------------------------------------

def run(ctx):
    reference_selftest()
    tag_selftest()
    U = _impl()
    rng = ctx.rng
    lat = lattice_values()
    big = random_values(rng, 300 if ctx.thorough else 60)
    bits18 = list(range(1, 9))
    nrange = 1 << (16 if ctx.thorough else 14)
    # (a)+(b) integers: exhaustive range, lattice, random large values
    run_to_str(ctx, U, range(nrange), bits18, WIDTHS, tag="range")
    run_to_str(ctx, U, lat + big, bits18, WIDTHS + [(-1, 6), (7, 4), (10, 4)], tag="lattice")
    # fidelity outside the property's range of bits (correspondence only)
    run_to_str(ctx, U, list(range(0, 600)) + lat[::5], [0, 9, 12], [(0, 4), (2, 4), (4, 4), (-1, 4), (-2, 4)], oracle=False, tag="bits-outside")
    run_to_str(ctx, U, [0, 1, 127, 300], [7], [(-2, 4), (-3, 0)], oracle=False, tag="negative-width")
    run_bpi_int(ctx, U, range(nrange), [0] + bits18)
    run_bpi_int(ctx, U, lat + big, [0] + bits18 + [9, 12])
    run_bpi_bytes(ctx, U, list(alphabet_strings(5 if ctx.thorough else 4)) + random_strings(rng, 200, 12), [0] + bits18 + [9])
    run_negative(ctx, thorough=ctx.thorough)
    # unsynch
    run_unsynch(ctx, U, alphabet_strings(7 if ctx.thorough else 5))
    run_unsynch(ctx, U, random_strings(rng, 2000 if ctx.thorough else 300, 3000), tag="random-long")
    # every byte value in the places where an implementation may treat it specially (after FF, at the end, at the
    # start; line terminators and regex metacharacters included): FF x, x FF, FF x FF, FF 00 x, x alone, and as tails
    # of alphabet strings
    every = []
    for x in range(256):
        b = bytes([x])
        every += [b, b"\xff" + b, b + b"\xff", b"\xff" + b + b"\xff", b"\xff\x00" + b, b"\x00" + b"\xff" + b, b"\xff\xff" + b, b"\xe0\xff" + b]
    run_unsynch(ctx, U, every, tag="every-byte")
    # (c) tags
    run_tags(ctx, tag_payloads(rng, 4 if ctx.thorough else 3, 400 if ctx.thorough else 60))
    # (d)
    vm_crosscheck(ctx)


def search(ctx, broken):
    """a proof or the correspondence broke: search the implementation alone, with larger budgets (the quick tier
    stops starting new stages after about a minute: run() has already covered the same spaces at its own budgets)"""
    import time
    before = _viol(ctx).total()
    U = _impl()
    rng = ctx.rng
    lat = lattice_values()
    bits18 = list(range(1, 9))
    deadline = time.time() + (1500 if ctx.thorough else 50)
    stages = [
        ("BitPaddedInt(int) below 2^14 + lattice", lambda: run_bpi_int(ctx, U, list(range(1 << 14)) + lat, [0] + bits18, use_model=False)),
        ("BitPaddedInt(bytes) alphabet to length 5", lambda: run_bpi_bytes(ctx, U, list(alphabet_strings(5)), [0] + bits18, use_model=False)),
        ("negatives under watchdog", lambda: run_negative(ctx, use_model=False, thorough=True)),
        ("to_str lattice + 500 random", lambda: run_to_str(ctx, U, lat + random_values(rng, 500), bits18, WIDTHS + [(-1, 6), (7, 4), (10, 4)], use_model=False, tag="search-lattice")),
        ("tags", lambda: run_tags(ctx, tag_payloads(rng, 2, 300))),
        ("unsynch 3000 random", lambda: run_unsynch(ctx, U, random_strings(rng, 3000, 3000), use_model=False, tag="search-random")),
        ("unsynch alphabet to length 6", lambda: run_unsynch(ctx, U, alphabet_strings(6), use_model=False, tag="search")),
        ("to_str below 2^16" if ctx.thorough else "to_str 2^14 .. 3*2^13 (below 2^14: run)",
         lambda: run_to_str(ctx, U, range(1 << 16) if ctx.thorough else range(1 << 14, 3 << 13), bits18, WIDTHS, use_model=False, tag="search-range")),
    ]
    done, skipped = [], []
    for name, stage in stages:
        if time.time() > deadline or (_viol(ctx).total() > before and len(done) >= 4):
            skipped.append(name)
            continue
        stage()
        done.append(name)
    ctx.notes["search"] = ("implementation-only search (%s%s) found %d failing inputs" %
                           ("; ".join(done), ("; not run (time budget / already found): " + "; ".join(skipped)) if skipped else "", _viol(ctx).total() - before))


def replay(ctx, payload):
    d = payload.get("data", {})
    fn = d.get("fn") if isinstance(d, dict) else None
    if payload.get("kind") != "failing-input" or fn is None:
        run(ctx)
        return bool(ctx.violations or ctx.disagreements)
    U = _impl()
    V = _viol(ctx)
    if fn == "to_str":
        v, bits, be, width, mw = d["value"], d["bits"], d["bigendian"], d["width"], d["minwidth"]
        if v < 0:
            r = check_negative_one(["to_str", v, bits, be, width, mw])
            return r != "!ValueError"
        try:
            r = U.BitPaddedInt.to_str(v, bits, be, width, mw)
        except Exception as e:
            r = "!" + type(e).__name__
        return not oracle_to_str(V, U, v, bits, be, width, mw, r)
    if fn == "bpi_int":
        v, bits = d["value"], d["bits"]
        if v < 0:
            return check_negative_one(["bpi_int", v, bits]) != "!ValueError"
        run_bpi_int(ctx, U, [v], [bits], use_model=False)
        return V.total() > 0
    if fn in ("bpi_bytes", "hvp_bytes"):
        run_bpi_bytes(ctx, U, [bytes.fromhex(d["data"])], [d["bits"]], use_model=False)
        return V.total() > 0
    if fn in ("unsynch_encode", "unsynch_decode"):
        run_unsynch(ctx, U, [bytes.fromhex(d["data"])], use_model=False)
        return V.total() > 0
    if fn == "tagx":
        return not oracle_layout(V, bytes.fromhex(d["payload"]), d["layout"])
    if fn == "tag":
        return not oracle_layout(V, bytes.fromhex(d["payload"]), OLD_VARIANTS[d["variant"]])
    if fn == "exthdr":
        return not oracle_exthdr(V, bytes.fromhex(d["size"]), d["tag_unsynch"], d["frame_unsynch"])
    if fn == "header":
        if "version" in d:
            return not oracle_header(V, d["version"], bytes.fromhex(d["size"]))
        run_headers(ctx)
        return V.total() > 0
    run(ctx)
    return bool(ctx.violations or ctx.disagreements)


def coverage_extra(ctx):
    return {"exhaustive": True,
            "exhaustive_note": "the integer range x bits x widths x byte order space and the alphabet strings up to the stated length are "
                               "enumerated completely; lattice/random values and tags are samples; the theorems cover all sizes"}
