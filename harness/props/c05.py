"""C05 -- stream information equals what the headers encode.
(R) correspondence: files assembled from the EXTRACTED spec-side builders (Model.Info*.build_K), wrapped into the
    minimal container the real loader needs, are loaded with mutagen; every reported attribute is compared with the
    extracted code-side decoder (model vs implementation -> disagree) and with reference values computed directly
    from the parameters by independent Python code (direct oracle -> violation).  MPEG audio: the whole
    version x layer x protection x bitrate index x rate index x padding x mode product; other formats: field-extreme
    lattices + random fields.  All /repo/tests/data samples of the modelled formats go through impl vs model.
(V) vm_compute cross-check shard of the extracted binary."""
import io, os, sys, struct, itertools, zlib, math, json
from fractions import Fraction
from common import zs, zp, hx, unhx, coq_bytes, vm_shard, REPO

PROP = "C05"
PROP_FILES = ["props/C05.v"]

FAMILIES_WITH_THEOREM = [
    "MPEG audio frame header (all versions x layers x bitrate/rate indices x padding x mode; frame length)",
    "MPEG Layer III Xing/Info header with and without LAME extension (all 32-bit frame/byte counts, 12-bit delay/padding, all flag "
    "combinations; version string LAME3.99r) and VBRI header; tag offset for every Layer III header (finite)",
    "FLAC STREAMINFO (load and write)", "WAVE fmt chunk", "AIFF COMM chunk (integer rates < 2^53 in 80-bit extended)",
    "DSF", "TrueAudio", "WavPack (first block, known total)", "Monkey's Audio (>= 3.98 header)", "OptimFROG",
    "Musepack SV7", "Musepack SV8 (SH/RG packets, varint sizes)", "Ogg Vorbis id header", "Ogg Opus OpusHead",
    "Ogg Speex header", "Ogg Theora id header", "Ogg FLAC mapping header",
    "AC-3 syncframe (bsid <= 10, all eight channel modes; finite domain)",
    "E-AC-3 syncframe (finite sub-domain: all stream types, rate codes, block codes, channel modes, six frame sizes)",
    "AAC ADIF header + program config element (C05_adif: ALL field values -- copyright id, 23-bit bitrate, 20-bit buffer fullness, every "
    "sampling frequency index, 0..15 front/side/back elements single or pair, LFE / associated data / coupling elements, mixdown options, "
    "comment bytes, 1..16 programs, both bitstream types; by arithmetic over a generic BitReader-vs-packed-fields lemma library, not "
    "enumeration); C05_adif_cbr_multi_pce_regression: constant rate with two programs (fixed 2eb4867)",
    "Monkey's Audio header before 3.98 without stored WAVE header (C05_ape_old: every version < 3980 x compression level; "
    "C05_ape_old_extra_high_regression, fixed 66533d3)"]
FAMILIES_WITHOUT_THEOREM = [
    "other LAME version strings than LAME3.99r (modelled: LAMEHeader.parse_version; correspondence + oracle on eight strings)",
    "Musepack SV4-SV6 (modelled; correspondence + oracle on harness-written headers)",
    "Monkey's Audio < 3.98 with a stored WAVEfmt header (bits_per_sample from it; correspondence + oracle on harness-written headers)",
    "WavPack block walk for unknown totals / non-zero first block index (modelled; correspondence + oracle on multi-block files)",
    "layouts around the modelled headers: ID3v2 in front of MPEG / FLAC / Musepack, leading bytes and 2..5 MPEG frames, FLAC with further "
    "metadata blocks, WAVE without data chunk, a foreign logical stream around each Ogg codec stream (harness-written; oracle + correspondence)",
    "AAC ADTS, TAK, DSDIFF, MP4 mdhd/stsd/esds/alac/dac3 (AudioSpecificConfig incl. SBR/PS signalling, program config element), "
    "ASF file/stream properties + codec list: DIRECT ORACLE ONLY (harness/c05_extra.py: independent writers, no model, no theorem)",
    "SMF (not covered)"]

# which header-parser branches a builder parameter drives (evidence: coverage.branch_audit); "-" = not driven by any builder
BRANCH_AUDIT = [
    ("mp3 MPEGFrame/MPEGInfo", "version x layer x protection x bitrate idx x rate idx x padding x mode (exhaustive), reserved values, private/tail bits; "
     "ID3v2 (stacked) skip, leading bytes, 2..5 frames (sketchy flag); Xing/Info flags, LAME ext, 9 LAME version strings, VBRI",
     "resync after a false sync / max_syncs, `offset` argument, encoder_settings / bitrate_mode guess, track/album gain of the LAME header"),
    ("aac ADIF", "copyright id, original/home, bitstream type, bitrate, fullness, every PCE field and count, 1..16 programs, ID3v2 prefix, truncation, "
     "seek past the end", "-"),
    ("aac ADTS (oracle only)", "ID, profile, sfi 0..15, private, channel configuration 0..7, original/home, protection_absent x raw-block count (crc overhead), "
     "13-bit frame length, fullness, 3..150 frames, leading bytes, ID3v2", "differing fixed headers between frames, resync (max_resync_read), < 3 frames, "
     "length only within (2 * leading + 2) / stream size (documented guess)"),
    ("ac3 / eac3", "fscod, frmsizecod 0..37, bsid 0..10 / 11..16, bsmod, acmod x cmixlev/surmixlev/dsurmod, lfeon, dialnorm; strmtyp, frmsiz, fscod2, numblkscod",
     "optional bsi items (compre, langcode, audprodie, timecod, addbsi), E-AC-3 mixmdate/infomdate blocks: always written absent"),
    ("flac StreamInfo", "all nine fields to their widths, rate 0, short block; ID3v2 prefix, further metadata blocks", "-"),
    ("aiff / wave", "COMM fields, 80-bit rates incl. exponent sweep, AIFC extension; fmt fields, extension sizes, data size, no data chunk", "RF64/ds64 (not in mutagen)"),
    ("dsf", "all fmt fields", "format version / id other than 1 / 0 (rejected), metadata pointer"),
    ("dsdiff (oracle only)", "FS, CHNL, CMPR DSD/DST, DSD size, FRTE count/rate, DST size, sub-chunk order, extra chunks", "negative rate check (unreachable), truncated sub-chunks"),
    ("tta / optimfrog", "all header fields, ID3v2 prefix; data size 12 / >= 15, sample types 0..255", "-"),
    ("wavpack", "version, total, block samples, flags (bytes, mono, rate idx 0..15, DSD), block walk (unknown total, index != 0, 0..3 further blocks)", "-"),
    ("monkeysaudio", ">= 3.98 descriptor fields; old header: versions around 3800/3900/3950, compression levels incl. 4 / 4000, WAVEfmt bits", "-"),
    ("musepack", "SV7 fields + gains, SV8 SH/RG varints, rate idx 0..7, malformed packet streams, SV4-6, ID3v2 prefix, extra packets, RG before SH", "-"),
    ("tak (oracle only)", "every STREAMINFO field, extension / speaker assignment up to 12 channels, encoder info, blocks before the stream info, unused bit",
     "speaker assignment for 13..16 channels: not judged (the layout is known only from ffmpeg's reader; such a block is refused by "
     "TAKInfo's size check)"),
    ("ogg vorbis/opus/speex/theora/flac", "every id header field, granule lattice, bitrate rule orderings, rejected versions / markers, truncated packets, foreign "
     "logical stream before/after", "id header on a non-BOS page, header packets spanning pages (C03/Fam_ogg)"),
    ("mp4 (oracle only)", "mdhd v0/v1 timescale + duration lattices, entry channels/size/rate, esds flags + 1..4 byte lengths (> 127 bytes), objectTypeIndication, "
     "AudioSpecificConfig: object types incl. escape, sfi 0..15 + explicit, channel configuration 1..15, PCE, explicit + backward compatible SBR/PS, GASpecificConfig "
     "flags; alac cookie; dac3 acmod x lfeon x 32 bit-rate codes; other codecs; no entry; video track first", "mdhd version >= 2, stsd version != 0, 64-bit atoms, "
     "extensionFlag3, epConfig 2/3"),
    ("asf (oracle only)", "play duration, preroll (incl. > duration), channels, rate, byte rate, 13 codec ids + unregistered, codec list entries/order, strings",
     "header extension objects, several audio streams"),
]

TRUSTED = [
    "binary64: the harness turns the model's exact rationals (numerator, denominator) into the float the implementation's "
    "expression yields by redoing the same IEEE operations in Python (float(n)/float(d), (n/d)/r, ...); for operands below 2^53 "
    "this is checked on every case to equal the correctly rounded exact quotient float(Fraction(n, d))",
    "AIFF: the 80-bit extended -> binary64 conversion is modelled with an explicit round-to-53-bits (Model.InfoIff.round53); "
    "pow(2.0, k) raising OverflowError from k = 1024 on and int(inf) raising OverflowError are Python facts validated by the correspondence",
    "containers (RIFF/FORM chunk walk, Ogg pages, FLAC metadata block chain, repetition of MPEG frames) are produced by harness "
    "code and parsed by the real loaders; the models start at the header/chunk/packet level",
    "Gen_tables.v: the tables are read from the live classes by importing mutagen from the repo path in a subprocess",
    "ADIF: the extracted builder is compared byte for byte with an independent Python bit writer on every case",
    "oracle-only families (ADTS, TAK, DSDIFF, MP4, ASF): the reference writers and the expected values in harness/c05_extra.py are "
    "hand-written from the format specifications (ISO/IEC 13818-7, 14496-1/-3/-12, ETSI TS 102 366, ASF 1.2, DSDIFF 1.5, the TAK "
    "stream info layout as read by ffmpeg) and are NOT machine checked; implicit-SBR rule: a sampling frequency <= 24 kHz without "
    "signalling counts as unknown (the AudioSampleEntry value is reported)",
    "NOT covered / not judged: TAK stream info blocks above 20 data bytes (speaker assignment for 13..16 channels): the TAK layout is "
    "known only from ffmpeg's reader, no claim is made; ADTS duration only within the documented guess tolerance; the branches listed as "
    "not driven in coverage.branch_audit",
]
MANIFEST = {
    "text": "full per modelled decoder; long tail staged. For each Stage-1 format a spec-side builder and a code-side decoder "
            "(mirroring the *Info constructor, tables regenerated from the live classes) with a machine-checked theorem "
            "decode (build p) = Ok (expected p) for all field values up to the bit widths (MPEG: exhaustive finite product by "
            "vm_compute; others by div/mod arithmetic; ADIF: all field values through a BitReader lemma library), generated tables "
            "proved equal to the specification tables, invalid headers rejected; decoders tied to the implementation by correspondence "
            "on built files and on all samples; direct oracle from the parameters on the real loaders, also for the formats without "
            "a model (ADTS, TAK, DSDIFF, MP4, ASF).",
    "note": "Formats with theorem: " + "; ".join(FAMILIES_WITH_THEOREM) + ". Without theorem (staged): " +
            "; ".join(FAMILIES_WITHOUT_THEOREM) + ". Durations are exact rationals in the model; the float the implementation "
            "reports is compared with the same IEEE operations applied to the rational. Size-derived estimates (CBR MPEG length, "
            "FLAC/Musepack bitrate) are compared between model-mirroring harness code and implementation only. Header branches driven / "
            "not driven by a builder parameter: coverage.branch_audit. Not covered: " + TRUSTED[-1],
    "technique": "Coq proofs (vm_compute over the finite MPEG domain; lia with Euclidean division for bit fields; arithmetic BitReader "
                 "lemmas for ADIF) + table regeneration + correspondence via extracted OCaml model + direct parameter oracle",
    "design_ref": "DESIGN.md section 5, C05 and Appendix C",
}
RULE = ("MPEG: every (version, layer, protection, bitrate index, rate index, padding, mode) combination, 4 consecutive frames; "
        "other formats: per field the lattice {0, 1, 2, max-1, max, 2^k, 2^k +- 1} crossed sparsely (each lattice value of each field "
        "with random other fields) plus uniformly random fields; ADIF: copyright id x bitstream type x 13 sampling frequency indices x 8 "
        "channel layouts x one / three programs, every value of the small fields, lattices of the wide ones, both bitstream types; "
        "oracle-only families: every table row (sampling frequency index x channel configuration, acmod x lfeon, bit rate codes, codec ids) "
        "and field lattices; invalid field values (reserved indices, zero rates, wrong versions) and truncations as a malformed "
        "stream; every tests/data sample of a modelled format. non-trivial = the loader accepted the file and reported attributes, "
        "or rejected an invalid header; distinct by (format, parameters)")

MUT = None


def M():
    global MUT
    if MUT is None:
        import mutagen
        import mutagen.mp3, mutagen.flac, mutagen.wave, mutagen.aiff, mutagen.dsf, mutagen.trueaudio, mutagen.wavpack
        import mutagen.monkeysaudio, mutagen.optimfrog, mutagen.musepack
        import mutagen.oggvorbis, mutagen.oggopus, mutagen.oggspeex, mutagen.oggtheora, mutagen.oggflac
        MUT = mutagen
    return MUT


# ----------------------------------------------------------------------------- float mirrors
def fdiv(n, d):
    """float(n) / float(d): what `float(n) / d` and `n / float(d)` compute"""
    return float(n) / float(d)


def check_exact(ctx, n, d, f):
    """validation of the trusted float reasoning: below 2^53 the mirrored value is the correctly rounded quotient"""
    if abs(n) < 2 ** 53 and 0 < d < 2 ** 53:
        if float(Fraction(n, d)) != f:
            ctx.disagree("c05.float", "float(n)/float(d) != float(Fraction(n,d)) for n=%d d=%d" % (n, d), {"n": n, "d": d})


def canon_exc(e):
    import mutagen
    if isinstance(e, mutagen.MutagenError):
        return "MutagenError"
    if isinstance(e, struct.error):
        return "struct.error"
    return type(e).__name__


# ----------------------------------------------------------------------------- model access
def mbuild(ctx, fmt, *args):
    a = [x if isinstance(x, str) else zs(x) for x in args]
    r = ctx.model.call("info_build", fmt, *a)
    if not r.startswith("x") or "[" in r:
        raise RuntimeError("model build failed: %s %r -> %s" % (fmt, args, r[:300]))
    return unhx(r)


def mdecode(ctx, fmt, data, extra=None):
    a = [hx(data)]
    if extra is not None:
        a.append(extra if isinstance(extra, str) else zs(extra))
    r = ctx.model.call("info_decode", fmt, *a)
    if r.startswith("ok"):
        return ("ok", [zp(x) for x in r.split()[1:]])
    if r.startswith("raise "):
        return ("raise", r[6:])
    return ("error", r)


# ----------------------------------------------------------------------------- Ogg pages (harness-side container)
def _ogg_crc_table():
    t = []
    for i in range(256):
        r = i << 24
        for _ in range(8):
            r = ((r << 1) ^ 0x04C11DB7) & 0xFFFFFFFF if r & 0x80000000 else (r << 1) & 0xFFFFFFFF
        t.append(r)
    return t


_CRC = _ogg_crc_table()


def ogg_crc(data):
    c = 0
    for b in data:
        c = ((c << 8) & 0xFFFFFFFF) ^ _CRC[((c >> 24) & 0xFF) ^ b]
    return c


def ogg_page(packets, serial, seq, granule, flags):
    lacing = b""
    body = b""
    for p in packets:
        n = len(p)
        lacing += b"\xff" * (n // 255) + bytes([n % 255])
        body += p
    assert len(lacing) <= 255
    hdr = b"OggS\x00" + bytes([flags]) + struct.pack("<qIII", granule, serial, seq, 0) + bytes([len(lacing)]) + lacing
    crc = ogg_crc(hdr + body)
    return hdr[:22] + struct.pack("<I", crc) + hdr[26:] + body


def ogg_file(id_packet, comment_packet, granule, serial=0x1234):
    return (ogg_page([id_packet], serial, 0, 0, 2) + ogg_page([comment_packet], serial, 1, 0, 0) +
            ogg_page([b"\x00" * 7], serial, 2, granule, 4))


def ogg_pages(data):
    """independent page reader for the samples: yields (flags, granule, serial, packets_complete_on_page, first_packet)"""
    pos = 0
    out = []
    while pos + 27 <= len(data) and data[pos:pos + 4] == b"OggS":
        flags = data[pos + 5]
        granule, serial = struct.unpack("<qI", data[pos + 6:pos + 18])
        nseg = data[pos + 26]
        lac = data[pos + 27:pos + 27 + nseg]
        if len(lac) != nseg or pos + 27 + nseg + sum(lac) > len(data):
            break           # truncated page: the real reader rejects it
        body = data[pos + 27 + nseg:pos + 27 + nseg + sum(lac)]
        pk, cur, o = [], b"", 0
        for l in lac:
            cur += body[o:o + l]
            o += l
            if l < 255:
                pk.append(cur)
                cur = b""
        complete = not lac or lac[-1] < 255
        if not complete:
            pk.append(cur)
        out.append((flags, granule, serial, pk, complete))
        pos += 27 + nseg + sum(lac)
    return out


# ----------------------------------------------------------------------------- reference tables (typed from the standards)
MPEG_BR = {
    (10, 1): [0, 32, 64, 96, 128, 160, 192, 224, 256, 288, 320, 352, 384, 416, 448],
    (10, 2): [0, 32, 48, 56, 64, 80, 96, 112, 128, 160, 192, 224, 256, 320, 384],
    (10, 3): [0, 32, 40, 48, 56, 64, 80, 96, 112, 128, 160, 192, 224, 256, 320],
    (20, 1): [0, 32, 48, 56, 64, 80, 96, 112, 128, 144, 160, 176, 192, 224, 256],
    (20, 2): [0, 8, 16, 24, 32, 40, 48, 56, 64, 80, 96, 112, 128, 144, 160],
}
MPEG_BR[(20, 3)] = MPEG_BR[(20, 2)]
for _l in (1, 2, 3):
    MPEG_BR[(25, _l)] = MPEG_BR[(20, _l)]
MPEG_SR = {10: [44100, 48000, 32000], 20: [22050, 24000, 16000], 25: [11025, 12000, 8000]}
WV_RATES = [6000, 8000, 9600, 11025, 12000, 16000, 22050, 24000, 32000, 44100, 48000, 64000, 88200, 96000, 192000]
MPC_RATES = [44100, 48000, 37800, 32000]
OFR_BITS = {0: 8, 1: 8, 2: 16, 3: 16, 4: 24, 5: 24, 6: 32, 7: 32}


def lat(bits, lo=0):
    mx = (1 << bits) - 1
    s = {lo, lo + 1, lo + 2, mx, mx - 1, mx // 2, mx // 2 + 1}
    for k in (7, 8, 15, 16, 24, 31, 32, 36, 48, 53, 63):
        if k < bits:
            s.update((1 << k, (1 << k) - 1, (1 << k) + 1))
    return sorted(x for x in s if lo <= x <= mx)


def rnd(rng, bits, lo=0):
    mx = (1 << bits) - 1
    r = rng.random()
    if r < 0.3:
        return rng.randint(lo, mx)
    if r < 0.6:
        return max(lo, min(mx, (1 << rng.randrange(0, bits + 1)) + rng.randint(-1, 1)))
    return min(mx, lo + int(rng.expovariate(1.0 / 50000)))


# ----------------------------------------------------------------------------- formats
class Case:
    """one evaluated case: parameters -> built bytes -> file -> impl dict / model dict / spec dict"""
    pass


class Fmt:
    name = ""
    slug = ""
    fields = []          # (name, bits, lo) of the parameter tuple, in the order of the model's builder

    def params_lattice(self, rng):
        """each lattice value of each field once, the other fields random"""
        for i, (n, bits, lo) in enumerate(self.fields):
            for v in self.field_lattice(n, bits, lo):
                p = [self.rand_field(rng, f) for f in self.fields]
                p[i] = v
                yield self.fix(p)

    def field_lattice(self, n, bits, lo):
        return lat(bits, lo)

    def rand_field(self, rng, f):
        return rnd(rng, f[1], f[2])

    def params_random(self, rng):
        return self.fix([self.rand_field(rng, f) for f in self.fields])

    def fix(self, p):
        return p

    def valid(self, p):
        return True


def cmp_dicts(impl, ref):
    """names of attributes that differ (ref may have fewer keys: only those are compared)"""
    bad = []
    for k, v in ref.items():
        if k not in impl:
            bad.append("%s: missing (want %r)" % (k, v))
            continue
        a = impl[k]
        if isinstance(v, float) or isinstance(a, float):
            if not (isinstance(a, (int, float)) and float(a).hex() == float(v).hex()):
                bad.append("%s: impl=%r want=%r" % (k, a, v))
        elif a != v or isinstance(a, bool) != isinstance(v, bool) and not isinstance(v, int):
            bad.append("%s: impl=%r want=%r" % (k, a, v))
    return bad


def run_impl(fn):
    try:
        return ("ok", fn())
    except Exception as e:
        return ("raise", canon_exc(e))


# ---- MPEG ---------------------------------------------------------------------------------------
class Mpeg(Fmt):
    name, slug = "mpeg", "mpeg-frame-header"
    KEYS = ["bitrate", "sample_rate", "channels", "layer", "version10", "mode", "protected", "padding", "frame_size", "frame_length"]

    def spec(self, p):
        vb, lb, prot, bri, sri, pad, priv, mode, tail = p
        v10 = {3: 10, 2: 20, 0: 25}[vb]
        layer = 4 - lb
        br = MPEG_BR[(v10, layer)][bri] * 1000
        sr = MPEG_SR[v10][sri]
        if layer == 1:
            fl = (12 * br // sr + pad) * 4
        elif layer == 3 and v10 != 10:
            fl = 72 * br // sr + pad
        else:
            fl = 144 * br // sr + pad
        return {"bitrate": br, "sample_rate": sr, "channels": 1 if mode == 3 else 2, "layer": layer, "version10": v10,
                "mode": mode, "protected": 1 - prot, "padding": pad, "frame_length": fl}

    def impl_info(self, data):
        mp3 = M().mp3
        i = mp3.MPEGInfo(io.BytesIO(data))
        return {"bitrate": i.bitrate, "sample_rate": i.sample_rate, "channels": i.channels, "layer": i.layer,
                "version10": int(i.version * 10) if i.version * 10 == int(i.version * 10) else i.version, "mode": i.mode,
                "protected": int(i.protected), "padding": int(i.padding), "sketchy": int(i.sketchy), "length": i.length}

    def impl_frame(self, frame):
        mp3 = M().mp3
        f = io.BytesIO(frame + b"\x00" * 4)
        fr = mp3.MPEGFrame(f)
        return {"bitrate": fr.bitrate, "sample_rate": fr.sample_rate, "channels": fr.channels, "layer": fr.layer,
                "version10": int(fr.version * 10), "mode": fr.mode, "protected": int(fr.protected), "padding": int(fr.padding),
                "frame_length": f.tell()}


def mpeg_case(ctx, F, p, tag, replaying=False):
    frame = mbuild(ctx, "mpeg", *p)
    spec = F.spec(p)
    ok = True
    # (1) the real loader on four consecutive frames (five would hide a frame length that is too short by a factor)
    data = frame * 4
    st, impl = run_impl(lambda: F.impl_info(data))
    mst, mv = mdecode(ctx, "mpeg", frame)
    ctx.corr_cases += 1
    ctx.oracle_cases += 1
    ctx.count("mpeg:" + tag)
    if mst != "ok":
        ctx.disagree("c05.mpeg", "model rejects the frame it built: %r -> %s %s" % (p, mst, mv), {"fmt": "mpeg", "params": p})
        return True
    md = dict(zip(F.KEYS, mv))
    want_len = fdiv(8 * len(data), md["bitrate"]) if md["bitrate"] else None
    if st == "ok":
        ref = {k: md[k] for k in ("bitrate", "sample_rate", "channels", "layer", "version10", "mode", "protected", "padding")}
        ref["sketchy"] = 0
        if want_len is not None:
            ref["length"] = want_len
        bad = cmp_dicts(impl, ref)
        if bad:
            ctx.disagree("c05.mpeg", "MPEGInfo vs model on %r: %s" % (p, "; ".join(bad)), {"fmt": "mpeg", "params": p})
    # direct oracle from the parameters
    if st != "ok":
        ctx.violation("oracle", "mpeg: valid 4-frame stream not loaded (%s)" % impl,
                      {"class": "mpeg-valid-stream-rejected", "fmt": "mpeg", "params": p, "layer": spec["layer"], "version10": spec["version10"]})
        ok = False
    else:
        ref = dict(spec)
        del ref["frame_length"]
        ref["sketchy"] = 0
        bad = cmp_dicts(impl, ref)
        if bad:
            ctx.violation("oracle", "mpeg: reported attributes differ from the header: " + ", ".join(b.split(":")[0] for b in bad),
                          {"class": "mpeg-attribute-mismatch", "fmt": "mpeg", "params": p, "detail": bad})
            ok = False
    # (2) the frame parser itself: where the next frame is expected
    st2, fr = run_impl(lambda: F.impl_frame(frame))
    if st2 == "ok":
        bad = cmp_dicts(fr, {k: md[k] for k in fr})
        if bad:
            ctx.disagree("c05.mpeg", "MPEGFrame vs model on %r: %s" % (p, "; ".join(bad)), {"fmt": "mpeg", "params": p})
        bad = cmp_dicts(fr, spec)
        if bad:
            ctx.violation("oracle", "mpeg: frame attributes differ from the header: " + ", ".join(b.split(":")[0] for b in bad),
                          {"class": "mpeg-frame-mismatch", "fmt": "mpeg", "params": p, "detail": bad})
            ok = False
    else:
        ctx.violation("oracle", "mpeg: valid frame header rejected by MPEGFrame (%s)" % fr,
                      {"class": "mpeg-valid-frame-rejected", "fmt": "mpeg", "params": p})
        ok = False
    ctx.case(("mpeg", tuple(p)), {"fmt": "mpeg", "params": p, "impl": impl if st == "ok" else st} if ctx.evaluations % 997 == 0 else None)
    return ok


def mpeg_invalid_case(ctx, F, p):
    hdr = mbuild(ctx, "mpeg_hdr", *p)
    data = hdr + b"\x00" * 2000
    mp3 = M().mp3
    st, r = run_impl(lambda: mp3.MPEGFrame(io.BytesIO(data)))
    mst, mv = mdecode(ctx, "mpeg", data)
    ctx.corr_cases += 1
    ctx.oracle_cases += 1
    ctx.count("mpeg:invalid")
    ctx.case(("mpeg-invalid", tuple(p)))
    if (st, r if st == "raise" else "") != (mst, mv if mst == "raise" else ""):
        ctx.disagree("c05.mpeg", "invalid header %r: impl %s %s, model %s %s" % (p, st, r if st == "raise" else "", mst, mv), {"fmt": "mpeg_hdr", "params": p})
    if st == "ok":
        ctx.violation("oracle", "mpeg: reserved header field value accepted", {"class": "mpeg-invalid-accepted", "fmt": "mpeg_hdr", "params": p})
        return False
    return True


def mpeg_domain():
    for vb in (0, 2, 3):
        for lb in (1, 2, 3):
            for prot in (0, 1):
                for bri in range(1, 15):
                    for sri in range(3):
                        for pad in (0, 1):
                            for mode in range(4):
                                yield [vb, lb, prot, bri, sri, pad, 0, mode, 0]


def mpeg_layout_case(ctx, F, p, id3s, junk, n, tag):
    """ID3v2 tags (possibly stacked) and bytes without a sync in front of n frames: the same header attributes, sketchy iff fewer than
    four frames follow, duration from the size after the first frame's offset"""
    frame = mbuild(ctx, "mpeg", *p)
    data = b"".join(id3v2(k) for k in id3s) + b"\x01" * junk + frame * n
    spec = F.spec(p)
    st, impl = run_impl(lambda: F.impl_info(data))
    ctx.oracle_cases += 1
    ctx.count("mpeg:" + tag)
    ctx.case(("mpeg-layout", tuple(p), tuple(id3s), junk, n))
    slug = {"fmt": "mpeg_layout", "params": p, "id3": id3s, "junk": junk, "frames": n}
    if st != "ok":
        ctx.violation("oracle", "mpeg: valid %d-frame stream behind ID3v2 / leading bytes not loaded (%s)" % (n, impl), dict(slug, **{"class": "mpeg-layout-rejected"}))
        return False
    ref = dict(spec)
    del ref["frame_length"]
    ref["sketchy"] = 0 if n >= 4 else 1
    ref["length"] = fdiv(8 * n * len(frame), spec["bitrate"])
    bad = cmp_dicts(impl, ref)
    if bad:
        ctx.violation("oracle", "mpeg: attributes differ behind ID3v2 / leading bytes: " + ", ".join(b.split(":")[0] for b in bad),
                      dict(slug, **{"class": "mpeg-layout-mismatch", "detail": bad}))
        return False
    return True


def run_mpeg_layout(ctx, n_random):
    F = Mpeg()
    dom = list(mpeg_domain())
    rng = ctx.rng
    for id3s in ([], [0], [10], [127], [128], [5000], [20, 300], [1, 2, 3]):
        for junk in (0, 1, 100):
            for n in (2, 3, 4, 5):
                mpeg_layout_case(ctx, F, rng.choice(dom), id3s, junk, n, "layout")
    for _ in range(n_random):
        mpeg_layout_case(ctx, F, rng.choice(dom), rng.choice([[], [rng.randrange(2000)]]), rng.choice([0, 0, rng.randrange(3000)]), rng.choice([2, 3, 4, 7]), "layout-random")


# ---- MPEG Layer III with Xing/Info(+LAME) and VBRI headers ---------------------------------------------
VBR_KEYS = Mpeg.KEYS + ["kind", "frames", "bytes", "lame", "lame_delay", "lame_padding", "ln", "ld"]
LAME_VS = b"LAME3.99r"
# other 9-byte version strings: (an extended LAME header follows -- delay and padding count --, encoder_info or None = not judged)
LAME_VARIANTS = {"LAME3.100": (1, "LAME 3.100.0+"), "LAME3.90a": (1, "LAME 3.90 (alpha)"), "LAME3.97b": (1, "LAME 3.97 (beta)"),
                 "LAME3.96 ": (1, "LAME 3.96.0+"), "LAME3.98 ": (1, "LAME 3.98.0"), "LAME3.93.": (1, "LAME 3.93.0+"),
                 "LAME3.89 ": (0, None), "LAME3.70r": (0, None)}


def intround(x):
    return int(round(x))


def vbr_impl(data):
    mp3 = M().mp3
    i = mp3.MPEGInfo(io.BytesIO(data))
    return {"bitrate": i.bitrate, "sample_rate": i.sample_rate, "channels": i.channels, "layer": i.layer, "version10": int(i.version * 10),
            "mode": i.mode, "sketchy": int(i.sketchy), "length": i.length, "bitrate_mode": int(i.bitrate_mode),
            "encoder_info": i.encoder_info}


def vbr_ref(md, filesize):
    """what MPEGFrame._parse_vbr_header / MPEGInfo compute from the parsed tag values (float steps redone)"""
    r = {k: md[k] for k in ("sample_rate", "channels", "layer", "version10", "mode")}
    br = md["bitrate"]
    if md["kind"] in (1, 2):
        r["sketchy"] = 0
        if md["frames"] != -1:
            samples0 = md["frame_size"] * md["frames"]
            if md["bytes"] != -1 and samples0 > 0:
                audio_bytes = max(0, md["bytes"] - md["frame_length"])
                br = intround((audio_bytes * 8 * md["sample_rate"]) / float(samples0))
            r["length"] = float(md["ln"]) / md["ld"]
        else:
            r["length"] = 8 * filesize / float(br)
    elif md["kind"] == 3:
        r["sketchy"] = 0
        length = float(md["ln"]) / md["ld"]
        r["length"] = length
        if length:
            br = int((md["bytes"] * 8) / length)
    r["bitrate"] = br
    return r


def vbr_case(ctx, kind, p, tagp, tag):
    """kind 'xing': tagp = [info, frames|None, bytes|None, toc, scale|None, lame(0/1), vbr_method, lowpass, delay, padding]
       kind 'vbri': tagp = [delay, quality, bytes, frames, entries, scale, entry_size, toc_frames]"""
    opt = lambda v: "-" if v is None else zs(v)
    if kind == "xing":
        info, frames, nbytes, toc, scale, lame, vm, lp, delay, padding = tagp
        vs = lame.encode("ascii") if isinstance(lame, str) else LAME_VS
        frame = mbuild(ctx, "xing_frame", *(p + [info, opt(frames), opt(nbytes), toc, opt(scale), hx(vs) if lame else "-", vm, lp, delay, padding]))
    else:
        frame = mbuild(ctx, "vbri_frame", *(p + tagp))
    normal = mbuild(ctx, "mpeg", *p)
    data = frame + normal * 2
    F = Mpeg()
    spec = F.spec(p)
    st, impl = run_impl(lambda: vbr_impl(data))
    mst, mv = mdecode(ctx, "mpeg_vbr", frame)
    ctx.corr_cases += 1
    ctx.oracle_cases += 1
    ctx.count("mpeg-vbr:%s:%s" % (kind, tag))
    ctx.case(("vbr", kind, tuple(p), tuple(tagp)))
    slug = {"fmt": "mpeg_" + kind, "params": p, "tag": [("-" if x is None else x) for x in tagp]}
    if mst != "ok":
        ctx.disagree("c05.mpeg_vbr", "model fails on %s %r %r: %s" % (kind, p, tagp, mv), slug)
        return True
    md = dict(zip(VBR_KEYS, mv))
    if st == "ok":
        bad = cmp_dicts(impl, vbr_ref(md, len(data)))
        if bad:
            ctx.disagree("c05.mpeg_vbr", "%s %r %r: %s" % (kind, p, tagp, "; ".join(bad)), slug)
    if st != "ok":
        ctx.violation("oracle", "mpeg: stream with %s header not loaded (%s)" % (kind, impl), dict(slug, **{"class": "mpeg-vbr-rejected"}))
        return False
    # parameter oracle: the duration is the header's frame count times the samples per frame (minus the LAME delay and padding)
    spf = 1152 if spec["version10"] == 10 else 576
    ref = {"sample_rate": spec["sample_rate"], "channels": spec["channels"], "layer": 3, "version10": spec["version10"], "sketchy": 0}
    if kind == "xing":
        has_ext, enc = LAME_VARIANTS[lame] if isinstance(lame, str) else (lame, "LAME 3.99.1+")
        if frames is not None:
            samples = spf * frames - (delay + padding if has_ext else 0)
            ref["length"] = fdiv(max(samples, 0), spec["sample_rate"])
        if lame and enc is not None:
            ref["encoder_info"] = enc
    else:
        ref["length"] = fdiv(spf * tagp[3], spec["sample_rate"])
        ref["encoder_info"] = "FhG"
    bad = cmp_dicts(impl, ref)
    if bad:
        ctx.violation("oracle", "mpeg: %s header: reported attributes differ: %s" % (kind, ", ".join(sorted(b.split(":")[0] for b in bad))),
                      dict(slug, **{"class": "mpeg-vbr-mismatch", "detail": bad}))
        return False
    return True


def run_vbr(ctx, n_random):
    rng = ctx.rng
    l3 = [p for p in mpeg_domain() if p[1] == 1]
    u32 = lat(32)
    # every Layer III header once with a full Xing+LAME tag and once with VBRI
    for i, p in enumerate(l3):
        if i % 2 == 0:
            vbr_case(ctx, "xing", p, [i % 4 // 2, rng.choice(u32), rng.choice(u32), 1, 57, 1, 4, 190, rng.choice([0, 576, 1105, 4095]), rng.choice([0, 1, 1105, 4095])], "all-headers")
        else:
            vbr_case(ctx, "vbri", p, [0, 75, rng.choice(u32), rng.choice(u32), 3, 1, rng.choice([2, 4]), 100], "all-headers")
    base = [3, 1, 1, 9, 0, 0, 0, 1, 0]
    # flag combinations and field extremes on one header
    for info in (0, 1):
        for fr in (None, 0, 1, 1000, 2 ** 32 - 1):
            for by in (None, 0, 416, 417, 418, 2 ** 32 - 1):
                for toc in (0, 1):
                    for sc in (None, 100):
                        for lame in (0, 1):
                            vbr_case(ctx, "xing", base, [info, fr, by, toc, sc, lame, 2, 160, 576, 1105], "flags")
    for vs in sorted(LAME_VARIANTS):
        for fr in (5, 1000, 2 ** 32 - 1):
            vbr_case(ctx, "xing", rng.choice(l3), [rng.randrange(2), fr, rng.choice(u32), 1, 50, vs, 2, 160, rng.choice([0, 576, 4095]), rng.choice([0, 1105, 4095])], "lame-version")
    for d in (0, 1, 15, 16, 255, 256, 4094, 4095):
        for pd in (0, 1, 255, 256, 4095):
            vbr_case(ctx, "xing", base, [0, 5, 1000, 1, 50, 1, 3, 0, d, pd], "delay-padding")
    for _ in range(n_random):
        p = rng.choice(l3)
        if rng.random() < 0.6:
            vbr_case(ctx, "xing", p, [rng.randrange(2), rng.choice([None, rnd(rng, 32)]), rng.choice([None, rnd(rng, 32)]), rng.randrange(2),
                                      rng.choice([None, rnd(rng, 32)]), rng.randrange(2), rng.randrange(16), rng.randrange(256),
                                      rng.randrange(4096), rng.randrange(4096)], "random")
        else:
            vbr_case(ctx, "vbri", p, [rnd(rng, 16), rnd(rng, 16), rnd(rng, 32), rnd(rng, 32), rng.randrange(0, 40), rnd(rng, 16),
                                      rng.choice([2, 4]), rnd(rng, 16)], "random")


# ---- generic fixed-header formats -----------------------------------------------------------------
class Generic(Fmt):
    KEYS = []
    mfmt = ""            # model decoder name

    def build(self, ctx, p):
        return mbuild(ctx, self.name, *p)

    def wrap(self, b, p):
        return b

    def model_input(self, b, file, p):
        return b, None

    def model_dict(self, mv):
        return dict(zip(self.KEYS, mv))

    def ref_from_model(self, ctx, md, file):
        """attribute dict expected from the model's output list"""
        raise NotImplementedError

    def load(self, file):
        raise NotImplementedError

    def impl(self, file):
        raise NotImplementedError

    def spec(self, p, file):
        raise NotImplementedError


def length_ref(ctx, n, d):
    f = fdiv(n, d)
    check_exact(ctx, n, d, f)
    return f


class Flac(Generic):
    name = mfmt = "flac"
    slug = "flac-streaminfo"
    fields = [("minbs", 16, 0), ("maxbs", 16, 0), ("minfs", 24, 0), ("maxfs", 24, 0), ("rate", 20, 1), ("channels", 3, 0),
              ("bps", 5, 0), ("total", 36, 0), ("md5", 128, 0)]
    KEYS = ["min_blocksize", "max_blocksize", "min_framesize", "max_framesize", "sample_rate", "channels", "bits_per_sample",
            "total_samples", "ln", "ld", "md5_signature"]
    AUDIO = b"\xff\xf8" + b"\x00" * 14

    def fix(self, p):
        p = list(p)
        p[5] += 1
        p[6] += 1
        return p

    def wrap(self, b, p):
        return b"fLaC" + b"\x80\x00\x00\x22" + b + self.AUDIO

    def impl(self, file):
        i = M().flac.FLAC(io.BytesIO(file)).info
        return {k: getattr(i, k) for k in ("min_blocksize", "max_blocksize", "min_framesize", "max_framesize", "sample_rate", "channels",
                                           "bits_per_sample", "total_samples", "md5_signature", "length", "bitrate")}

    def ref_from_model(self, ctx, md, file):
        r = {k: md[k] for k in self.KEYS if k not in ("ln", "ld")}
        r["length"] = length_ref(ctx, md["ln"], md["ld"])
        r["bitrate"] = int(float(len(self.AUDIO)) * 8 / r["length"]) if r["length"] else 0
        return r

    def spec(self, p, file):
        a, b, c, d, rate, ch, bps, total, md5 = p
        return {"min_blocksize": a, "max_blocksize": b, "min_framesize": c, "max_framesize": d, "sample_rate": rate, "channels": ch,
                "bits_per_sample": bps, "total_samples": total, "md5_signature": md5, "length": float(Fraction(total, rate))}


class Wave(Generic):
    name = mfmt = "wave"
    slug = "wave-fmt"
    fields = [("format", 16, 0), ("channels", 16, 0), ("rate", 32, 0), ("byte_rate", 32, 0), ("block_align", 16, 0), ("bits", 16, 0),
              ("data_size", 32, 0), ("ext", 2, 0)]
    KEYS = ["audio_format", "channels", "sample_rate", "bits_per_sample", "bitrate", "ns_num", "ns_den", "has_rate"]

    def build(self, ctx, p):
        ext = [b"", b"\x00\x00", b"\x16\x00" + b"\x01" * 22, b"\x01"][p[7]]
        return mbuild(ctx, "wave", *(p[:6] + [hx(ext)]))

    def wrap(self, b, p):
        ds = p[6]
        fmt = b"fmt " + struct.pack("<I", len(b)) + b + (b"\x00" if len(b) % 2 else b"")
        body = b"WAVE" + fmt + b"data" + struct.pack("<I", ds)
        total = min(len(body) + ds + ds % 2, 0xFFFFFFFF)
        return b"RIFF" + struct.pack("<I", total) + body + b"\x00" * min(ds, 8)

    def model_input(self, b, file, p):
        return b, p[6]

    def impl(self, file):
        i = M().wave.WAVE(io.BytesIO(file)).info
        return {"audio_format": i.audio_format, "channels": i.channels, "sample_rate": i.sample_rate, "bits_per_sample": i.bits_per_sample,
                "bitrate": i.bitrate, "length": i.length}

    def ref_from_model(self, ctx, md, file):
        r = {k: md[k] for k in ("audio_format", "channels", "sample_rate", "bits_per_sample", "bitrate")}
        if md["has_rate"]:
            ns = md["ns_num"] / md["ns_den"]          # int / int: correctly rounded
            r["length"] = ns / md["sample_rate"]
        else:
            r["length"] = 0.0
        return r

    def spec(self, p, file):
        fmt, ch, rate, br, al, bits, ds, ext = p
        r = {"audio_format": fmt, "channels": ch, "sample_rate": rate, "bits_per_sample": bits, "bitrate": ch * bits * rate}
        if rate > 0 and al > 0:
            exact = Fraction(ds, al) / rate
            r["length~"] = exact
        return r


class Aiff(Generic):
    name = mfmt = "aiff"
    slug = "aiff-comm"
    fields = [("channels", 15, 0), ("frames", 32, 0), ("bits", 15, 0), ("rate", 53, 1), ("ext", 1, 0)]
    KEYS = ["channels", "sample_rate", "bits_per_sample", "bitrate", "frames", "has_rate"]

    def build(self, ctx, p):
        ext = [b"", b"NONE\x0enot compressed\x00"][p[4]]
        return mbuild(ctx, "aiff", *(p[:4] + [hx(ext)]))

    def wrap(self, b, p):
        comm = b"COMM" + struct.pack(">I", len(b)) + b + (b"\x00" if len(b) % 2 else b"")
        ssnd = b"SSND" + struct.pack(">I", 8) + b"\x00" * 8
        body = (b"AIFC" if p[4] else b"AIFF") + comm + ssnd
        return b"FORM" + struct.pack(">I", len(body)) + body

    def impl(self, file):
        i = M().aiff.AIFF(io.BytesIO(file)).info
        return {"channels": i.channels, "sample_rate": i.sample_rate, "bits_per_sample": i.bits_per_sample, "bitrate": i.bitrate,
                "length": i.length}

    def ref_from_model(self, ctx, md, file):
        r = {k: md[k] for k in ("channels", "sample_rate", "bits_per_sample", "bitrate")}
        r["length"] = length_ref(ctx, md["frames"], md["sample_rate"]) if md["has_rate"] else 0
        return r

    def spec(self, p, file):
        ch, frames, bits, rate, ext = p
        return {"channels": ch, "sample_rate": rate, "bits_per_sample": bits, "bitrate": ch * bits * rate,
                "length": fdiv(frames, rate)}


class Dsf(Generic):
    name = mfmt = "dsf"
    slug = "dsf-fmt"
    fields = [("total_size", 64, 0), ("meta", 1, 0), ("channel_type", 32, 0), ("channels", 32, 0), ("rate", 32, 1), ("bits", 32, 0),
              ("samples", 64, 0), ("block_size", 32, 0), ("data_size", 64, 12)]
    KEYS = ["channels", "sample_rate", "bits_per_sample", "bitrate", "ln", "ld"]

    def fix(self, p):
        p = list(p)
        p[1] = 0          # no metadata pointer: the loader would look for an ID3 tag there
        return p

    def impl(self, file):
        i = M().dsf.DSF(io.BytesIO(file)).info
        return {"channels": i.channels, "sample_rate": i.sample_rate, "bits_per_sample": i.bits_per_sample, "bitrate": i.bitrate,
                "length": i.length}

    def ref_from_model(self, ctx, md, file):
        r = {k: md[k] for k in ("channels", "sample_rate", "bits_per_sample", "bitrate")}
        r["length"] = length_ref(ctx, md["ln"], md["ld"])
        return r

    def spec(self, p, file):
        ts, meta, ct, ch, rate, bits, samples, bs, ds = p
        return {"channels": ch, "sample_rate": rate, "bits_per_sample": bits, "bitrate": rate * bits * ch, "length": fdiv(samples, rate)}


class Tta(Generic):
    name = mfmt = "tta"
    slug = "tta-header"
    fields = [("format", 16, 0), ("channels", 16, 0), ("bits", 16, 0), ("rate", 32, 0), ("samples", 32, 0), ("crc", 32, 0), ("id3", 1, 0)]
    KEYS = ["sample_rate", "ln", "ld"]

    def build(self, ctx, p):
        return mbuild(ctx, "tta", *p[:6])

    def wrap(self, b, p):
        pre = b"ID3\x04\x00\x00\x00\x00\x00\x14" + b"\x00" * 20 if p[6] else b""
        return pre + b + b"\x00" * 16

    def impl(self, file):
        i = M().trueaudio.TrueAudio(io.BytesIO(file)).info
        return {"sample_rate": i.sample_rate, "length": i.length}

    def ref_from_model(self, ctx, md, file):
        return {"sample_rate": md["sample_rate"], "length": length_ref(ctx, md["ln"], md["ld"])}

    def spec(self, p, file):
        return {"sample_rate": p[3], "length": fdiv(p[4], p[3]) if p[3] else 0.0}


class WavPack(Generic):
    name = mfmt = "wavpack"
    slug = "wavpack-block"
    fields = [("ck_size", 24, 24), ("version", 16, 0), ("total", 32, 0), ("block_index", 1, 0), ("block_samples", 32, 0),
              ("bytes_code", 2, 0), ("mono", 1, 0), ("misc_lo", 20, 0), ("rate_idx", 4, 0), ("misc_hi", 4, 0), ("dsd", 1, 0), ("crc", 32, 0)]
    KEYS = ["version", "channels", "sample_rate", "bits_per_sample", "ln", "ld"]

    def fix(self, p):
        p = list(p)
        p[3] = 0
        if p[2] == 0xFFFFFFFF:
            p[2] -= 1
        if p[8] == 15:
            p[8] = 14
        return p

    def wrap(self, b, p):
        return b + b"\x00" * 24

    def model_input(self, b, file, p):
        return file, None

    def impl(self, file):
        i = M().wavpack.WavPack(io.BytesIO(file)).info
        return {"version": i.version, "channels": int(i.channels), "sample_rate": i.sample_rate, "bits_per_sample": i.bits_per_sample,
                "length": i.length}

    def ref_from_model(self, ctx, md, file):
        r = {k: md[k] for k in ("version", "channels", "sample_rate", "bits_per_sample")}
        r["length"] = length_ref(ctx, md["ln"], md["ld"])
        return r

    def spec(self, p, file):
        ck, ver, total, bi, bs, bc, mono, mlo, ri, mhi, dsd, crc = p
        rate = WV_RATES[ri] * (4 if dsd else 1)
        return {"version": ver, "channels": 1 if mono else 2, "sample_rate": rate, "bits_per_sample": 1 if dsd else (bc + 1) * 8,
                "length": fdiv(total, rate)}


class Ape(Generic):
    name = mfmt = "ape"
    slug = "ape-header"
    fields = [("version", 16, 3980), ("seek_bytes", 32, 0), ("wav_bytes", 32, 0), ("audio_bytes", 32, 0), ("compression", 16, 0),
              ("flags", 16, 0), ("bpf", 32, 0), ("ffb", 32, 0), ("frames", 32, 0), ("bits", 16, 0), ("channels", 16, 0), ("rate", 32, 0)]
    KEYS = ["version1000", "channels", "sample_rate", "bits_per_sample", "ln", "ld"]

    def wrap(self, b, p):
        return b + b"\x00" * 32

    def impl(self, file):
        i = M().monkeysaudio.MonkeysAudio(io.BytesIO(file)).info
        return {"version": i.version, "channels": i.channels, "sample_rate": i.sample_rate, "bits_per_sample": i.bits_per_sample,
                "length": i.length}

    def ref_from_model(self, ctx, md, file):
        r = {k: md[k] for k in ("channels", "sample_rate", "bits_per_sample")}
        r["version"] = md["version1000"] / 1000.0
        r["length"] = length_ref(ctx, md["ln"], md["ld"])
        return r

    def spec(self, p, file):
        ver, sb, wb, ab, comp, fl, bpf, ffb, frames, bits, ch, rate = p
        r = {"version": ver / 1000.0, "channels": ch, "sample_rate": rate, "bits_per_sample": bits}
        r["length"] = fdiv((frames - 1) * bpf + ffb, rate) if rate and frames > 0 else 0.0
        return r


class Ofr(Generic):
    name = mfmt = "ofr"
    slug = "optimfrog-header"
    fields = [("data_size", 5, 12), ("total", 48, 0), ("sample_type", 8, 0), ("channels", 8, 1), ("rate", 32, 0), ("encoder_id", 16, 0)]
    KEYS = ["channels", "sample_rate", "bits_per_sample", "ln", "ld", "encoder"]

    def fix(self, p):
        p = list(p)
        if p[0] in (13, 14):
            p[0] = 12
        p[3] = min(p[3], 256)
        return p

    def impl(self, file):
        i = M().optimfrog.OptimFROG(io.BytesIO(file)).info
        return {"channels": i.channels, "sample_rate": i.sample_rate, "bits_per_sample": -1 if i.bits_per_sample is None else i.bits_per_sample,
                "length": i.length, "encoder_info": i.encoder_info}

    @staticmethod
    def enc(n):
        if n < 0:
            return ""
        s = str(n)
        return "%s.%s" % (s[0], s[1:])

    def ref_from_model(self, ctx, md, file):
        r = {k: md[k] for k in ("channels", "sample_rate", "bits_per_sample")}
        r["length"] = length_ref(ctx, md["ln"], md["ld"])
        r["encoder_info"] = self.enc(md["encoder"])
        return r

    def spec(self, p, file):
        ds, total, st, ch, rate, enc = p
        return {"channels": ch, "sample_rate": rate, "bits_per_sample": OFR_BITS.get(st, -1), "length": fdiv(total, ch * rate) if rate else 0.0,
                "encoder_info": self.enc((enc >> 4) + 4500) if ds >= 15 else ""}


class Mpc7(Generic):
    name, mfmt = "mpc7", "mpc"
    slug = "musepack-sv7"
    fields = [("minor", 4, 0), ("frames", 32, 1), ("max_level", 16, 0), ("rate_idx", 2, 0), ("link", 2, 0), ("profile", 4, 0),
              ("max_band", 6, 0), ("ms", 1, 0), ("is", 1, 0), ("title_peak", 16, 0), ("title_gain", 16, 0), ("album_peak", 16, 0),
              ("album_gain", 16, 0)]
    KEYS = ["sv", "version", "channels", "sample_rate", "ln", "ld", "bitrate_field", "title_peak", "title_gain", "album_peak", "album_gain"]

    def fix(self, p):
        p = list(p)
        p[10] -= 32768
        p[12] -= 32768
        return p

    def build(self, ctx, p):
        return mbuild(ctx, "mpc7", *(p + [hx(b"\x00" * 12)]))

    def wrap(self, b, p):
        return b + b"\x00" * 40

    def model_input(self, b, file, p):
        return file, None

    def impl(self, file):
        i = M().musepack.Musepack(io.BytesIO(file)).info
        d = {"version": i.version, "channels": i.channels, "sample_rate": i.sample_rate, "length": i.length, "bitrate": i.bitrate}
        for k in ("title_peak", "title_gain", "album_peak", "album_gain"):
            d[k] = getattr(i, k, None)
        return d

    def ref_from_model(self, ctx, md, file):
        r = {k: md[k] for k in ("version", "channels", "sample_rate")}
        r["length"] = length_ref(ctx, md["ln"], md["ld"])
        if md["sv"] == 7 and md["title_peak"] != -100000:
            r["title_peak"] = md["title_peak"] / 65535.0
            r["album_peak"] = md["album_peak"] / 65535.0
            r["title_gain"] = md["title_gain"] / 100.0
            r["album_gain"] = md["album_gain"] / 100.0
        br = md["bitrate_field"]
        if not br and r["length"] != 0:
            br = int(round(len(file) * 8 / r["length"]))
        r["bitrate"] = br
        return r

    def spec(self, p, file):
        minor, frames, ml, ri, link, prof, mb, ms, is_, tp, tg, ap, ag = p
        return {"version": 7, "channels": 2, "sample_rate": MPC_RATES[ri], "length": fdiv(frames * 1152 - 576, MPC_RATES[ri]),
                "title_peak": tp / 65535.0, "album_peak": ap / 65535.0, "title_gain": tg / 100.0, "album_gain": ag / 100.0}


class Mpc8(Generic):
    name, mfmt = "mpc8", "mpc"
    slug = "musepack-sv8"
    fields = [("crc", 32, 0), ("samples", 63, 0), ("silence", 62, 0), ("rate_idx", 2, 0), ("max_bands", 5, 1), ("channels", 4, 1),
              ("ms", 1, 0), ("block_pwr", 3, 0), ("tg", 16, 0), ("tp", 16, 0), ("ag", 16, 0), ("ap", 16, 0)]
    KEYS = ["sv", "version", "channels", "sample_rate", "ln", "ld", "tg", "tp", "ag", "ap"]

    def fix(self, p):
        p = list(p)
        p[4] = min(p[4] + 0, 32)
        p[5] = min(p[5], 16)
        if p[2] > p[1]:
            p[1], p[2] = p[2], p[1]
        return p

    def wrap(self, b, p):
        return b + b"\x00" * 16

    def model_input(self, b, file, p):
        return file, None

    def impl(self, file):
        i = M().musepack.Musepack(io.BytesIO(file)).info
        d = {"version": i.version, "channels": i.channels, "sample_rate": i.sample_rate, "length": i.length, "bitrate": i.bitrate}
        for k in ("title_peak", "title_gain", "album_peak", "album_gain"):
            d[k] = getattr(i, k, None)
        return d

    @staticmethod
    def s16(v):
        return v - 65536 if v >= 32768 else v

    @staticmethod
    def gains(tg, tp, ag, ap):
        r = {}
        r["title_gain"] = (64.82 - tg / 256.0) if tg else None
        r["album_gain"] = (64.82 - ag / 256.0) if ag else None
        r["title_peak"] = (10 ** (tp / (256.0 * 20.0)) / 65535.0) if tp else None
        r["album_peak"] = (10 ** (ap / (256.0 * 20.0)) / 65535.0) if ap else None
        return r

    def ref_from_model(self, ctx, md, file):
        r = {k: md[k] for k in ("version", "channels", "sample_rate")}
        r["length"] = length_ref(ctx, md["ln"], md["ld"])
        r.update(self.gains(md["tg"], md["tp"], md["ag"], md["ap"]))
        r["bitrate"] = int(round(len(file) * 8 / r["length"])) if r["length"] != 0 else 0
        return r

    def spec(self, p, file):
        crc, samples, silence, ri, mb, ch, ms, bp, tg, tp, ag, ap = p
        r = {"version": 8, "channels": ch, "sample_rate": MPC_RATES[ri], "length": fdiv(samples - silence, MPC_RATES[ri])}
        r.update(self.gains(self.s16(tg), self.s16(tp), self.s16(ag), self.s16(ap)))
        return r


GRANULES = [0, 1, 2, 47999, 48000, 2 ** 31 - 1, 2 ** 31, 2 ** 32, 2 ** 32 + 1, 2 ** 53 - 1, 2 ** 53, 2 ** 53 + 1, 2 ** 62, 2 ** 63 - 1]


class OggFmt(Generic):
    comment = b""
    foreign = False      # another logical stream starts before and ends after this one (the finders must skip its pages)


    def rand_field(self, rng, f):
        if f[0] == "granule":
            return rng.choice(GRANULES) if rng.random() < 0.4 else rnd(rng, 63, 0)
        return rnd(rng, f[1], f[2])

    def field_lattice(self, n, bits, lo):
        return GRANULES if n == "granule" else lat(bits, lo)

    def build(self, ctx, p):
        return mbuild(ctx, getattr(self, "bname", self.name), *p[:-1])

    def wrap(self, b, p):
        if self.foreign:
            other = 0x7777
            return (ogg_page([b"fishead\x00" + b"\x00" * 56], other, 0, 0, 2) + ogg_page([b], 0x1234, 0, 0, 2) +
                    ogg_page([self.comment], 0x1234, 1, 0, 0) + ogg_page([b"\x00" * 7], 0x1234, 2, p[-1], 4) +
                    ogg_page([b"\x00" * 5], other, 1, 2 ** 62 + 12345, 4))
        return ogg_file(b, self.comment, p[-1])

    def model_input(self, b, file, p):
        return b, p[-1]


VC_EMPTY = struct.pack("<I", 0) + struct.pack("<I", 0)


class Vorbis(OggFmt):
    name = mfmt = "vorbis"
    slug = "ogg-vorbis-id"
    fields = [("channels", 8, 0), ("rate", 32, 1), ("maxbr", 32, 0), ("nombr", 32, 0), ("minbr", 32, 0), ("blocksizes", 8, 0), ("granule", 63, 0)]
    KEYS = ["channels", "sample_rate", "bitrate", "ln", "ld"]
    comment = b"\x03vorbis" + VC_EMPTY + b"\x01"

    def fix(self, p):
        p = list(p)
        for i in (2, 3, 4):
            p[i] -= 2 ** 31
        return p

    def rand_field(self, rng, f):
        if f[0] in ("maxbr", "nombr", "minbr"):
            r = rng.random()
            if r < 0.3:
                return 2 ** 31
            if r < 0.8:
                return 2 ** 31 + rng.choice([64000, 128000, 128001, 127999, 320000, 1, 2, 500000])
            return rng.randrange(0, 2 ** 32)
        return OggFmt.rand_field(self, rng, f)

    def params_lattice(self, rng):
        for p in OggFmt.params_lattice(self, rng):
            yield p
        # the bitrate rule compares the three fields with each other: all orderings around equal values
        vals = [-1, 0, 1, 2, 127999, 128000, 128001]
        for mx in vals:
            for nm in vals:
                for mn in vals:
                    yield [2, 44100, mx, nm, mn, 0xb8, 441000]

    def impl(self, file):
        i = M().oggvorbis.OggVorbis(io.BytesIO(file)).info
        return {"channels": i.channels, "sample_rate": i.sample_rate, "bitrate": i.bitrate, "length": i.length}

    def ref_from_model(self, ctx, md, file):
        return {"channels": md["channels"], "sample_rate": md["sample_rate"], "bitrate": md["bitrate"], "length": length_ref(ctx, md["ln"], md["ld"])}

    def spec(self, p, file):
        ch, rate, mx, nm, mn, bs, g = p
        mx, nm, mn = max(0, mx), max(0, nm), max(0, mn)
        if nm == 0:
            br = (mx + mn) // 2
        elif mx and mx < nm:
            br = mx
        elif mn > nm:
            br = mn
        else:
            br = nm
        return {"channels": ch, "sample_rate": rate, "bitrate": br, "length": fdiv(g, rate)}


class Opus(OggFmt):
    name = mfmt = "opus"
    slug = "ogg-opus-head"
    fields = [("version", 4, 0), ("channels", 8, 0), ("pre_skip", 16, 0), ("rate", 32, 0), ("gain", 16, 0), ("family", 1, 0), ("granule", 63, 0)]
    KEYS = ["channels", "ln", "ld"]
    comment = b"OpusTags" + VC_EMPTY

    def fix(self, p):
        p = list(p)
        p[4] -= 32768
        return p

    def build(self, ctx, p):
        tab = b"" if p[5] == 0 else bytes([1, 1]) + bytes(range(p[1]))
        return mbuild(ctx, "opus", *(p[:6] + [hx(tab)]))

    def impl(self, file):
        i = M().oggopus.OggOpus(io.BytesIO(file)).info
        return {"channels": i.channels, "length": i.length}

    def ref_from_model(self, ctx, md, file):
        return {"channels": md["channels"], "length": length_ref(ctx, md["ln"], md["ld"])}

    def spec(self, p, file):
        return {"channels": p[1], "length": fdiv(p[6] - p[2], 48000)}


class Speex(OggFmt):
    name = mfmt = "speex"
    slug = "ogg-speex-header"
    fields = [("vs", 1, 0), ("rate", 32, 1), ("mode", 2, 0), ("channels", 32, 0), ("bitrate", 32, 0), ("frame_size", 32, 0), ("vbr", 1, 0),
              ("fpp", 32, 0), ("granule", 63, 0)]
    KEYS = ["sample_rate", "channels", "bitrate", "ln", "ld"]
    comment = VC_EMPTY

    def fix(self, p):
        p = list(p)
        p[4] -= 2 ** 31
        return p

    def build(self, ctx, p):
        vs = [b"1.2rc1", b"speex-1.2.0-with-a-long-version-string"][p[0]]
        return mbuild(ctx, "speex", *([hx(vs)] + p[1:8]))

    def impl(self, file):
        i = M().oggspeex.OggSpeex(io.BytesIO(file)).info
        return {"sample_rate": i.sample_rate, "channels": i.channels, "bitrate": i.bitrate, "length": i.length}

    def ref_from_model(self, ctx, md, file):
        return {"sample_rate": md["sample_rate"], "channels": md["channels"], "bitrate": md["bitrate"], "length": length_ref(ctx, md["ln"], md["ld"])}

    def spec(self, p, file):
        return {"sample_rate": p[1], "channels": p[3], "bitrate": max(0, p[4]), "length": fdiv(p[8], p[1])}


class Theora(OggFmt):
    name = mfmt = "theora"
    slug = "ogg-theora-id"
    fields = [("vrev", 8, 0), ("fmbw", 16, 0), ("fmbh", 16, 0), ("picw", 24, 0), ("pich", 24, 0), ("picx", 8, 0), ("picy", 8, 0),
              ("frn", 32, 1), ("frd", 32, 1), ("parn", 24, 0), ("pard", 24, 0), ("cs", 8, 0), ("nombr", 24, 0), ("qual", 6, 0),
              ("kfgshift", 5, 0), ("pf", 2, 0), ("granule", 63, 0)]
    KEYS = ["fps_num", "fps_den", "bitrate", "frames", "granule_shift"]
    comment = b"\x81theora" + VC_EMPTY

    def impl(self, file):
        i = M().oggtheora.OggTheora(io.BytesIO(file)).info
        return {"fps": i.fps, "bitrate": i.bitrate, "length": i.length}

    def ref_from_model(self, ctx, md, file):
        fps = md["fps_num"] / float(md["fps_den"])
        return {"fps": fps, "bitrate": md["bitrate"], "length": md["frames"] / float(fps)}

    def spec(self, p, file):
        frn, frd, nombr, shift, g = p[7], p[8], p[12], p[14], p[16]
        frames = (g >> shift) + (g & ((1 << shift) - 1))
        fps = frn / float(frd)
        return {"fps": fps, "bitrate": nombr, "length": frames / float(fps), "length~": Fraction(frames * frd, frn)}


class OggFlac(OggFmt):
    name = mfmt = "oggflac"
    slug = "ogg-flac-mapping"
    fields = [("header_packets", 16, 0)] + Flac.fields[:8] + [("md5", 128, 0), ("granule", 63, 0)]
    KEYS = ["min_blocksize", "max_blocksize", "sample_rate", "channels", "bits_per_sample", "total_samples", "ln", "ld", "packets"]
    comment = b"\x84\x00\x00\x08" + VC_EMPTY

    def fix(self, p):
        p = list(p)
        p[6] += 1
        p[7] += 1
        return p

    def impl(self, file):
        i = M().oggflac.OggFLAC(io.BytesIO(file)).info
        return {k: getattr(i, k) for k in ("min_blocksize", "max_blocksize", "sample_rate", "channels", "bits_per_sample", "total_samples", "length", "packets")}

    def ref_from_model(self, ctx, md, file):
        r = {k: md[k] for k in self.KEYS if k not in ("ln", "ld")}
        r["length"] = length_ref(ctx, md["ln"], md["ld"])
        return r

    def spec(self, p, file):
        hp, a, b, c, d, rate, ch, bps, total, md5, g = p
        return {"min_blocksize": a, "max_blocksize": b, "sample_rate": rate, "channels": ch, "bits_per_sample": bps, "total_samples": total,
                "length": fdiv(total, rate) if total else fdiv(g, rate), "packets": hp}


AC3_RATES = [48000, 44100, 32000]
AC3_KBPS = [32, 40, 48, 56, 64, 80, 96, 112, 128, 160, 192, 224, 256, 320, 384, 448, 512, 576, 640]
AC3_NFCHANS = [2, 1, 2, 3, 3, 4, 4, 5]


class RangedFmt(Generic):
    """fields given as (name, lo, hi) inclusive ranges (small enumerations)"""
    ranges = []

    @property
    def fields(self):
        return [(n, 0, lo) for n, lo, hi in self.ranges]

    def params_lattice(self, rng):
        for i, (n, lo, hi) in enumerate(self.ranges):
            for v in range(lo, hi + 1):
                p = [rng.randint(a, b) for _, a, b in self.ranges]
                p[i] = v
                yield self.fix(p)

    def params_random(self, rng):
        return self.fix([rng.randint(a, b) for _, a, b in self.ranges])

    def impl(self, file):
        import mutagen.ac3
        i = mutagen.ac3.AC3(io.BytesIO(file)).info
        return {"codec": i.codec, "sample_rate": i.sample_rate, "bitrate": i.bitrate, "channels": i.channels, "length": i.length}

    KEYS = ["codec", "sample_rate", "bitrate", "channels", "ln", "ld"]

    def ref_from_model(self, ctx, md, file):
        r = {"codec": ["ac-3", "ec-3"][md["codec"]], "sample_rate": md["sample_rate"], "bitrate": md["bitrate"], "channels": md["channels"]}
        r["length"] = None if md["ln"] == -1 else 8.0 * (md["ln"] // 8) / md["ld"]
        return r


class Ac3(RangedFmt):
    name = mfmt = "ac3"
    slug = "ac3-syncframe"
    ranges = [("fscod", 0, 2), ("frmsizecod", 0, 37), ("bsid", 0, 10), ("bsmod", 0, 7), ("acmod", 0, 7), ("cmixlev", 0, 2),
              ("surmixlev", 0, 2), ("dsurmod", 0, 2), ("lfeon", 0, 1), ("dialnorm", 0, 31)]

    def spec(self, p, file):
        fscod, frm, bsid, bsmod, acmod, cm, sm, ds, lfe, dn = p
        shift = max(bsid, 8) - 8
        return {"codec": "ac-3", "sample_rate": AC3_RATES[fscod] >> shift, "bitrate": (AC3_KBPS[frm >> 1] * 1000) >> shift,
                "channels": AC3_NFCHANS[acmod] + lfe}


class Eac3(RangedFmt):
    name, mfmt = "eac3", "ac3"
    slug = "eac3-syncframe"
    ranges = [("strmtyp", 0, 2), ("substreamid", 0, 7), ("frmsiz", 3, 2047), ("fscod", 0, 3), ("fscod2", 0, 2), ("numblkscod", 0, 3),
              ("acmod", 0, 7), ("lfeon", 0, 1), ("bsid", 11, 16), ("dialnorm", 0, 31)]

    def params_lattice(self, rng):
        for i, (n, lo, hi) in enumerate(self.ranges):
            vals = range(lo, hi + 1) if hi - lo < 40 else [lo, lo + 1, 4, 100, 767, 1023, 1024, hi - 1, hi]
            for v in vals:
                p = [rng.randint(a, b) for _, a, b in self.ranges]
                p[i] = v
                yield p

    def spec(self, p, file):
        st, sid, frmsiz, fscod, fscod2, nb, acmod, lfe, bsid, dn = p
        fs = (frmsiz + 1) * 2
        rate = AC3_RATES[fscod2] // 2 if fscod == 3 else AC3_RATES[fscod]
        blocks = 6 if fscod == 3 else [1, 2, 3, 6][nb]
        return {"codec": "ec-3", "sample_rate": rate, "bitrate": 8 * fs * rate // (blocks * 256), "channels": AC3_NFCHANS[acmod] + lfe}


# ---- layout / legacy variants: harness-side writers around the extracted builders, code-side decoders shared ------------
def id3v2(n):
    return b"ID3\x04\x00\x00" + bytes([(n >> 21) & 127, (n >> 14) & 127, (n >> 7) & 127, n & 127]) + b"\x00" * n


ID3_SIZES = [None, 0, 117, 300]


class Mpc456(Mpc7):
    """Musepack SV4-SV6: u32 LE (low 11 bits, stream version 10 bits at 11, 2 bits, bitrate 9 bits at 23), frame count u32 (SV5, SV6)
    or u16 at 6 (SV4); SV4/SV5 count one frame more"""
    name, mfmt, slug = "mpc456", "mpc", "musepack-sv4-6"
    fields = [("version", 2, 0), ("bitrate", 9, 0), ("frames", 32, 2), ("low", 11, 0), ("mid", 2, 0), ("id3", 2, 0)]

    def fix(self, p):
        p = list(p)
        p[0] = 4 + p[0] % 3
        if p[0] == 4:
            p[2] = max(2, p[2] % 65536)
        return p

    def build(self, ctx, p):
        ver, br, frames, low, mid, id3 = p
        dword = low | (ver << 11) | (mid << 21) | (br << 23)
        cnt = struct.pack("<I", frames) if ver >= 5 else b"\xab\xcd" + struct.pack("<H", frames)
        return struct.pack("<I", dword) + cnt + b"\x00" * 24

    def wrap(self, b, p):
        n = ID3_SIZES[p[5]]
        return (b"" if n is None else id3v2(n)) + b + b"\x00" * 40

    def spec(self, p, file):
        ver, br, frames, low, mid, id3 = p
        fr = frames - 1 if ver < 6 else frames
        r = {"version": ver, "channels": 2, "sample_rate": 44100, "length": fdiv(fr * 1152 - 576, 44100)}
        r["bitrate"] = br if br else int(round(len(file) * 8 / r["length"]))
        return r


class Mpc7L(Mpc7):
    name, slug = "mpc7+id3", "musepack-sv7"
    fields = Mpc7.fields + [("id3", 2, 0)]

    def fix(self, p):
        return Mpc7.fix(self, p[:-1]) + [p[-1]]

    def build(self, ctx, p):
        return Mpc7.build(self, ctx, p[:-1])

    def wrap(self, b, p):
        n = ID3_SIZES[p[-1]]
        return (b"" if n is None else id3v2(n)) + b + b"\x00" * 40

    def spec(self, p, file):
        return Mpc7.spec(self, p[:-1], file)


def mpc8_packets(b):
    """the packets of an SV8 stream built by the model: [(key, whole packet bytes)]"""
    assert b[:4] == b"MPCK"
    pos, out = 4, []
    while pos < len(b):
        key = b[pos:pos + 2]
        size, n, q = 0, 0, pos + 2
        while True:
            c = b[q]
            size = (size << 7) | (c & 127)
            q += 1
            if not c & 128:
                break
        out.append((key, b[pos:pos + size]))
        pos += size
    return out


class Mpc8L(Mpc8):
    """SV8 with an ID3v2 tag in front, optional packets between SH and RG, RG in front of SH"""
    name, slug = "mpc8+layout", "musepack-sv8"
    fields = Mpc8.fields + [("layout", 3, 0)]

    def fix(self, p):
        return Mpc8.fix(self, p[:-1]) + [p[-1]]

    def build(self, ctx, p):
        b = mbuild(ctx, "mpc8", *p[:-1])
        lay = p[-1]
        pk = dict(mpc8_packets(b))
        order = [pk[b"RG"], pk[b"SH"]] if lay & 4 else [pk[b"SH"], pk[b"RG"]]
        if lay & 2:
            order.insert(1, b"EI\x0a" + bytes(7))
            order.insert(1, b"SO\x04" + bytes(1))
        rest = b"".join(v for k, v in mpc8_packets(b) if k not in (b"SH", b"RG"))
        return b"MPCK" + b"".join(order) + rest

    def wrap(self, b, p):
        return (id3v2(77) if p[-1] & 1 else b"") + b + b"\x00" * 16

    def spec(self, p, file):
        return Mpc8.spec(self, p[:-1], file)


class WavPackWalk(WavPack):
    """unknown total (2^32 - 1) and / or a first block that is not block 0: the duration is the sum of the block sample counts"""
    name, slug = "wavpack+walk", "wavpack-block-walk"
    fields = WavPack.fields + [("mode", 2, 0), ("nblocks", 2, 0), ("payload", 8, 0)]

    def fix(self, p):
        q = WavPack.fix(self, p[:12])
        mode = p[12] % 3
        if mode in (0, 2):
            q[2] = 0xFFFFFFFF
        if mode in (1, 2):
            q[3] = 1
        return q + [mode, p[13], p[14]]

    def block_samples(self, p):
        return [p[4]] + [(p[4] * (i + 3) + 7 * i) % 2 ** 32 for i in range(p[13])]

    def build(self, ctx, p):
        out = b""
        for i, bs in enumerate(self.block_samples(p)):
            pay = (p[14] * (i + 1)) % 97 if i else p[14]
            q = list(p[:12])
            q[0], q[4] = 24 + pay, bs
            if i:
                q[3] = 1
            out += mbuild(ctx, "wavpack", *q) + b"\x5a" * pay
        return out

    def wrap(self, b, p):
        return b + b"\x00" * 40

    def spec(self, p, file):
        r = WavPack.spec(self, p[:12], file)
        r["length"] = fdiv(sum(self.block_samples(p)), r["sample_rate"])
        return r


class ApeOld(Ape):
    """Monkey's Audio before 3.98 (APE_HEADER_OLD): 'MAC ', u16 version, u16 compression level, u16 format flags, u16 channels, u32 rate,
    u32 header bytes, u32 terminating bytes, u32 total frames, u32 final frame blocks; blocks per frame by version / level"""
    name, mfmt, slug = "ape-old", "ape", "ape-old-header"
    fields = [("version", 12, 0), ("compression", 16, 0), ("flags", 16, 0), ("channels", 16, 0), ("rate", 32, 0), ("header_bytes", 32, 0),
              ("terminating_bytes", 32, 0), ("frames", 32, 0), ("ffb", 32, 0), ("wavefmt", 1, 0), ("bits", 16, 0)]
    VERSIONS = [0, 1, 3799, 3800, 3801, 3899, 3900, 3901, 3949, 3950, 3951, 3970, 3979]
    LEVELS = [0, 4, 1000, 2000, 3000, 3999, 4000, 4001, 5000, 65535]

    def field_lattice(self, n, bits, lo):
        if n == "version":
            return self.VERSIONS
        if n == "compression":
            return self.LEVELS
        return lat(bits, lo)

    def rand_field(self, rng, f):
        if f[0] == "version":
            return rng.choice(self.VERSIONS)
        if f[0] == "compression":
            return rng.choice(self.LEVELS)
        return rnd(rng, f[1], f[2])

    def params_lattice(self, rng):
        for p in Generic.params_lattice(self, rng):
            yield p
        for v in self.VERSIONS:
            for c in self.LEVELS:
                p = self.params_random(rng)
                p[0], p[1] = v, c
                yield p

    def fix(self, p):
        p = list(p)
        p[0] = min(p[0], 3979)
        return p

    def build(self, ctx, p):
        ver, comp, flags, ch, rate, hb, tb, frames, ffb, wavefmt, bits = p
        h = b"MAC " + struct.pack("<HHHHIIIII", ver, comp, flags, ch, rate, hb, tb, frames, ffb)
        if not wavefmt:
            b = mbuild(ctx, "ape_old", ver, comp, flags, ch, rate, hb, tb, frames, ffb)     # the extracted spec-side builder
            if b != h + b"\x00" * 44:
                ctx.disagree("c05.ape-old", "extracted builder differs from the reference writer on %r" % (p,), {"fmt": "ape-old", "params": [str(x) for x in p]})
            return b
        h += b"\x11" * 16
        if wavefmt:
            h += b"WAVEfmt \x10\x00\x00\x00\x01\x00" + struct.pack("<HIIH", ch, rate & 0xFFFFFFFF, 0, 4) + struct.pack("<H", bits)
        else:
            h += b"\x00" * 26 + struct.pack("<H", bits)
        assert len(h) == 76, len(h)
        return h

    def spec(self, p, file):
        ver, comp, flags, ch, rate, hb, tb, frames, ffb, wavefmt, bits = p
        r = {"version": ver / 1000.0, "channels": ch, "sample_rate": rate, "bits_per_sample": bits if wavefmt else 0}
        if ver >= 3950:
            bpf = 73728 * 4
        elif ver >= 3900 or (ver >= 3800 and comp == 4000):
            bpf = 73728
        else:
            bpf = 9216
        r["length"] = fdiv((frames - 1) * bpf + ffb, rate) if rate and frames > 0 else 0.0
        return r


class WaveNoData(Wave):
    """no 'data' chunk: the duration is unknown (0.0)"""
    name, slug = "wave+nodata", "wave-fmt"

    def wrap(self, b, p):
        fmt = b"fmt " + struct.pack("<I", len(b)) + b + (b"\x00" if len(b) % 2 else b"")
        body = b"WAVE" + b"LIST" + struct.pack("<I", 4) + b"INFO" + fmt
        return b"RIFF" + struct.pack("<I", len(body)) + body

    def model_input(self, b, file, p):
        return b, "-"

    def spec(self, p, file):
        fmt, ch, rate, br, al, bits, ds, ext = p
        return {"audio_format": fmt, "channels": ch, "sample_rate": rate, "bits_per_sample": bits, "bitrate": ch * bits * rate, "length": 0.0}


class FlacL(Flac):
    """ID3v2 tag in front of 'fLaC'; STREAMINFO followed by further metadata blocks"""
    name, slug = "flac+layout", "flac-streaminfo"
    fields = Flac.fields + [("layout", 2, 0)]

    def fix(self, p):
        return Flac.fix(self, p[:-1]) + [p[-1]]

    def build(self, ctx, p):
        return mbuild(ctx, "flac", *p[:-1])

    def wrap(self, b, p):
        lay = p[-1]
        pre = id3v2(261) if lay & 1 else b""
        if lay & 2:
            return pre + b"fLaC" + b"\x00\x00\x00\x22" + b + b"\x04\x00\x00\x08" + VC_EMPTY + b"\x81\x00\x00\x05" + b"\x00" * 5 + self.AUDIO
        return pre + b"fLaC" + b"\x80\x00\x00\x22" + b + self.AUDIO

    def spec(self, p, file):
        return Flac.spec(self, p[:-1], file)


def _foreign(cls):
    return type(cls.__name__ + "Foreign", (cls,), {"name": cls.name + "+foreign", "bname": cls.name, "foreign": True})


GENERIC = [Flac(), Wave(), Aiff(), Dsf(), Tta(), WavPack(), Ape(), Ofr(), Mpc7(), Mpc8(), Vorbis(), Opus(), Speex(), Theora(), OggFlac(), Ac3(), Eac3()]
VARIANTS = [FlacL(), WaveNoData(), WavPackWalk(), ApeOld(), Mpc456(), Mpc7L(), Mpc8L()] + [_foreign(c)() for c in (Vorbis, Opus, Speex, Theora, OggFlac)]
GENERIC += VARIANTS
BYNAME = {f.name: f for f in GENERIC}


def generic_case(ctx, F, p, tag):
    """returns True when the implementation agrees with the parameter oracle"""
    b = F.build(ctx, p)
    file = F.wrap(b, p)
    st, impl = run_impl(lambda: F.impl(file))
    data, extra = F.model_input(b, file, p)
    if F.name == "wave":
        extra = zs(extra)
    mst, mv = mdecode(ctx, F.mfmt, data, extra)
    ctx.corr_cases += 1
    ctx.oracle_cases += 1
    ctx.count("%s:%s" % (F.name, tag))
    ok = True
    # model vs implementation
    if mst == "error":
        ctx.disagree("c05." + F.name, "model error on %r: %s" % (p, mv), {"fmt": F.name, "params": [str(x) for x in p]})
    elif st != mst:
        ctx.disagree("c05." + F.name, "outcome differs on %r: impl %s %s, model %s %s" % (p, st, impl if st == "raise" else "", mst, mv),
                     {"fmt": F.name, "params": [str(x) for x in p]})
    elif st == "ok":
        md = F.model_dict(mv)
        bad = cmp_dicts(impl, F.ref_from_model(ctx, md, file))
        if bad:
            ctx.disagree("c05." + F.name, "impl vs model on %r: %s" % (p, "; ".join(bad)), {"fmt": F.name, "params": [str(x) for x in p]})
    # parameter oracle
    if st != "ok":
        ctx.violation("oracle", "%s: valid header not loaded (%s)" % (F.name, impl),
                      {"class": F.slug + "-rejected", "fmt": F.name, "params": [str(x) for x in p]})
        ok = False
    else:
        spec = F.spec(p, file)
        approx = {k[:-1]: v for k, v in spec.items() if k.endswith("~")}
        bad = cmp_dicts(impl, {k: v for k, v in spec.items() if not k.endswith("~")})
        for k, exact in approx.items():
            got = impl.get(k)
            if not isinstance(got, float) or (exact == 0 and got != 0) or (exact != 0 and abs(Fraction(got) - exact) > abs(exact) * Fraction(1, 2 ** 51)):
                bad.append("%s: impl=%r exact=%s" % (k, got, exact))
        if bad:
            data = {"class": F.slug + "-mismatch", "fmt": F.name, "params": [str(x) for x in p], "detail": bad}
            data.update(getattr(F, "annotate", lambda p, bad: {})(p, bad))
            ctx.violation("oracle", "%s: reported attributes differ from the header: %s" % (F.name, ", ".join(sorted(b.split(":")[0] for b in bad))), data)
            ok = False
    ctx.case((F.name, tuple(p)), {"fmt": F.name, "params": [str(x) for x in p], "impl": {k: (v.hex() if isinstance(v, float) else v) for k, v in impl.items()}
                                   if st == "ok" else impl} if ctx.evaluations % 499 == 0 else None)
    return ok


# ---- FLAC StreamInfo.write ------------------------------------------------------------------------
def flac_write_case(ctx, p):
    F = BYNAME["flac"]
    b = F.build(ctx, p)
    file = F.wrap(b, p)
    ctx.oracle_cases += 1
    ctx.corr_cases += 1
    ctx.count("flac:write")
    try:
        f = M().flac.FLAC(io.BytesIO(file))
        out = f.info.write()
    except Exception as e:
        ctx.violation("oracle", "flac: StreamInfo.write failed on loaded block (%s)" % canon_exc(e),
                      {"class": "flac-write-failed", "fmt": "flac_write", "params": [str(x) for x in p]})
        return False
    mw = mbuild(ctx, "flac_write", *p)
    if mw != out:
        ctx.disagree("c05.flac", "StreamInfo.write differs from model on %r" % (p,), {"fmt": "flac_write", "params": [str(x) for x in p]})
    if out != b:
        ctx.violation("oracle", "flac: StreamInfo.write does not reproduce the block that was loaded",
                      {"class": "flac-write-read", "fmt": "flac_write", "params": [str(x) for x in p], "wrote": out.hex(), "block": b.hex()})
        return False
    # write from assigned attributes, read back
    si = M().flac.StreamInfo(io.BytesIO(out))
    bad = cmp_dicts({k: getattr(si, k) for k in ("sample_rate", "channels", "bits_per_sample", "total_samples", "min_blocksize", "max_blocksize")},
                    {"sample_rate": p[4], "channels": p[5], "bits_per_sample": p[6], "total_samples": p[7], "min_blocksize": p[0], "max_blocksize": p[1]})
    if bad:
        ctx.violation("oracle", "flac: write then load changes attributes", {"class": "flac-write-read", "fmt": "flac_write", "params": [str(x) for x in p]})
        return False
    return True


# ---- AAC ADIF (ISO/IEC 13818-7 adif_header + program_config_element) -----------------------------------
AAC_FREQS = [96000, 88200, 64000, 48000, 44100, 32000, 24000, 22050, 16000, 12000, 11025, 8000, 7350]

class BitW:
    """independent MSB-first bit writer (reference for the extracted builder)"""

    def __init__(self):
        self.v, self.n = 0, 0

    def put(self, value, width):
        assert 0 <= value < (1 << width), (value, width)
        self.v = (self.v << width) | value
        self.n += width

    def align(self):
        self.put(0, -self.n % 8)

    def bytes(self):
        self.align()
        return self.v.to_bytes(self.n // 8, "big")


def adif_ref_bytes(P):
    cid, orig, home, bst, bitrate, full, pces, tail, id3 = P
    w = BitW()
    if cid is None:
        w.put(0, 1)
    else:
        w.put(1, 1)
        for c in bytes.fromhex(cid):
            w.put(c, 8)
    w.put(orig, 1), w.put(home, 1), w.put(bst, 1), w.put(bitrate, 23), w.put(len(pces) - 1, 4)
    for tag, ot, sfi, front, side, back, lfe, assoc, cc, mono, stereo, matrix, comment in pces:
        if bst == 0:
            w.put(full, 20)
        w.put(tag, 4), w.put(ot, 2), w.put(sfi, 4), w.put(len(front), 4), w.put(len(side), 4), w.put(len(back), 4)
        w.put(len(lfe), 2), w.put(len(assoc), 3), w.put(len(cc), 4)
        for o, n in ((mono, 4), (stereo, 4), (matrix, 3)):
            if o is None:
                w.put(0, 1)
            else:
                w.put(1, 1), w.put(o, n)
        for e in front + side + back:
            w.put(e >> 4, 1), w.put(e & 15, 4)
        for e in lfe + assoc:
            w.put(e, 4)
        for e in cc:
            w.put(e >> 4, 1), w.put(e & 15, 4)
        w.align()
        cb = bytes.fromhex(comment)
        w.put(len(cb), 8)
        for c in cb:
            w.put(c, 8)
    return b"ADIF" + w.bytes() + bytes(tail)


def adif_args(P, with_tail=True):
    cid, orig, home, bst, bitrate, full, pces, tail, id3 = P
    o = lambda v: "-" if v is None else zs(v)
    toks = []
    for tag, ot, sfi, front, side, back, lfe, assoc, cc, mono, stereo, matrix, comment in pces:
        toks.append(":".join([zs(tag), zs(ot), zs(sfi), hx(bytes(front)), hx(bytes(side)), hx(bytes(back)), hx(bytes(lfe)), hx(bytes(assoc)),
                              hx(bytes(cc)), o(mono), o(stereo), o(matrix), "x" + comment]))
    return ["-" if cid is None else "x" + cid, orig, home, bst, bitrate, full] + ([hx(bytes(tail))] if with_tail else []) + toks


def id3_prefix(n):
    return b"ID3\x04\x00\x00" + bytes([(n >> 21) & 127, (n >> 14) & 127, (n >> 7) & 127, n & 127]) + b"\x00" * n


def aac_impl(file):
    import mutagen.aac
    i = mutagen.aac.AAC(io.BytesIO(file)).info
    return {"sample_rate": i.sample_rate, "channels": i.channels, "bitrate": i.bitrate, "length": i.length, "type": i._type}


def adif_spec(P):
    cid, orig, home, bst, bitrate, full, pces, tail, id3 = P
    tag, ot, sfi, front, side, back, lfe = pces[0][:7]
    r = {"type": "ADIF", "sample_rate": AAC_FREQS[sfi] if sfi < len(AAC_FREQS) else 0,
         "channels": sum(1 + (e >> 4) for e in front + side + back) + len(lfe), "bitrate": bitrate}
    r["length"] = fdiv(8 * tail, bitrate) if bitrate else 0
    return r


def adif_case(ctx, P, tag, cut=None):
    """P = [copyright id hex | None, original_copy, home, bitstream_type, bitrate, buffer fullness, [pce...], tail bytes, id3 bytes | 0]
       pce = [tag, object_type, sfi, front, side, back, lfe, assoc, cc, mono | None, stereo | None, matrix | None, comment hex]
       cut: truncate the file to that many bytes (malformed stream: outcome compared with the model only)"""
    cid, orig, home, bst, bitrate, full, pces, tail, id3 = P
    b = mbuild(ctx, "adif", *adif_args(P))
    slug = {"fmt": "adif", "params": P}
    ctx.corr_cases += 1
    ctx.count("adif:" + tag)
    if b != adif_ref_bytes(P):
        ctx.disagree("c05.adif", "extracted builder differs from the reference bit writer on %r" % (P,), slug)
    file = (id3_prefix(id3) if id3 else b"") + b
    if cut is not None:
        file = file[:cut]
        slug = dict(slug, cut=cut)
    st, impl = run_impl(lambda: aac_impl(file))
    mst, mv = mdecode(ctx, "adif", file)
    valid = cut is None and pces[0][2] < len(AAC_FREQS)
    ctx.case(("adif", json_key(P), cut), dict(slug, impl=impl if st == "raise" else {k: (v.hex() if isinstance(v, float) else v) for k, v in impl.items()})
             if ctx.evaluations % 499 == 0 else None)
    if mst == "raise" and mv == "NotImplementedError":
        return True                 # no "ADIF" at the start (truncated below 4 bytes): the ADTS scanner, outside the model
    if mst == "error":
        ctx.disagree("c05.adif", "model error on %r: %s" % (P, mv), slug)
    elif st != mst or (st == "raise" and impl != mv):
        ctx.disagree("c05.adif", "outcome differs on %r cut=%r: impl %s %s, model %s %s" % (P, cut, st, impl if st == "raise" else "", mst, mv), slug)
    elif st == "ok":
        md = dict(zip(["sample_rate", "channels", "bitrate", "ln", "ld"], mv))
        ref = {k: md[k] for k in ("sample_rate", "channels", "bitrate")}
        ref["length"] = fdiv(md["ln"], md["ld"]) if md["bitrate"] else 0
        ref["type"] = "ADIF"
        bad = cmp_dicts(impl, ref)
        if bad:
            ctx.disagree("c05.adif", "impl vs model on %r cut=%r: %s" % (P, cut, "; ".join(bad)), slug)
    if cut is not None:
        return True
    # parameter oracle
    ctx.oracle_cases += 1
    if st != "ok":
        ctx.violation("oracle", "adif: valid header not loaded (%s)" % impl, dict(slug, **{"class": "aac-adif-rejected"}))
        return False
    bad = cmp_dicts(impl, adif_spec(P))
    if bad:
        ctx.violation("oracle", "adif: reported attributes differ from the header: %s" % ", ".join(sorted(x.split(":")[0] for x in bad)),
                      dict(slug, **{"class": "aac-adif-mismatch", "detail": bad, "bitstream_type": bst, "pces": len(pces)}))
        return False
    return True


def adif_coq(P):
    """the Gallina term of the parameter record (for the vm_compute cross-check)"""
    cid, orig, home, bst, bitrate, full, pces, tail, id3 = P
    zl = lambda l: "[" + "; ".join(str(x) for x in l) + "]"
    o = lambda v: "None" if v is None else "(Some %d)" % v
    ps = []
    for tag, ot, sfi, front, side, back, lfe, assoc, cc, mono, stereo, matrix, comment in pces:
        ps.append("mkPce %d %d %d %s %s %s %s %s %s %s %s %s %s" % (tag, ot, sfi, zl(front), zl(side), zl(back), zl(lfe), zl(assoc), zl(cc),
                                                                   o(mono), o(stereo), o(matrix), zl(bytes.fromhex(comment))))
    return "(mkAdif %s %d %d %d %d %d [%s])" % ("None" if cid is None else "(Some %s)" % zl(bytes.fromhex(cid)), orig, home, bst, bitrate, full,
                                               "; ".join(ps))


def json_key(x):
    if isinstance(x, list):
        return tuple(json_key(y) for y in x)
    return x


ADIF_LAYOUTS = [([0], [], [], []), ([16], [], [], []), ([1, 18], [], [], []), ([0, 17], [], [18], [3]), ([0, 17], [18], [19], [0]),
                ([0, 17, 18], [19, 4], [21, 6, 23], [1, 2, 3]), ([], [], [], []),
                (list(range(16, 31)), list(range(15)), [16 + (i * 7) % 16 if i % 2 else i for i in range(15)], [15, 0, 7])]
ADIF_CID = "ff0102030405060780"


def adif_rand_pce(rng, sfi=None, layout=None, small=False):
    if layout is None:
        k = (lambda: rng.choice([0, 0, 1, 2, 3])) if small else (lambda: rng.choice([0, 1, 2, 3, 7, 15]))
        layout = tuple([rng.randrange(32) for _ in range(k())] for _ in range(3)) + ([rng.randrange(16) for _ in range(rng.randrange(4))],)
    front, side, back, lfe = layout
    opt = lambda bits: rng.choice([None, None, 0, (1 << bits) - 1, rng.randrange(1 << bits)])
    return [rng.randrange(16), rng.randrange(4), rng.randrange(13) if sfi is None else sfi, list(front), list(side), list(back), list(lfe),
            [rng.randrange(16) for _ in range(rng.choice([0, 0, 1, 7]))], [rng.randrange(32) for _ in range(rng.choice([0, 0, 1, 15]))],
            opt(4), opt(4), opt(3), bytes(rng.randrange(256) for _ in range(rng.choice([0, 0, 1, 5]))).hex()]


def adif_rand(rng, **kw):
    P = [rng.choice([None, ADIF_CID]), rng.randrange(2), rng.randrange(2), rng.randrange(2), rng.choice([0, 1, 64000, 128000, 2 ** 23 - 1, rnd(rng, 23)]),
         rng.choice([0, 1, 2 ** 20 - 1, rng.randrange(2 ** 20)]), None, rng.choice([0, 1, 100, 1000]), 0]
    n_extra = rng.choice([0, 0, 0, 1, 2])
    P[6] = [adif_rand_pce(rng)] + [adif_rand_pce(rng, small=True) for _ in range(n_extra)]
    names = ["cid", "orig", "home", "bst", "bitrate", "full", "pces", "tail", "id3"]
    for k, v in kw.items():
        P[names.index(k)] = v
    return P


class _Enough(Exception):
    pass


def run_adif(ctx, n_random):
    """stops after a handful of failing inputs (one changed line makes most of the domain fail)"""
    before = len(ctx.violations)
    real = adif_case

    def adif_case_capped(ctx, P, tag, cut=None):
        r = real(ctx, P, tag, cut)
        if len(ctx.violations) > before + 4:
            raise _Enough()
        return r
    try:
        _run_adif(ctx, n_random, adif_case_capped)
    except _Enough:
        pass


def _run_adif(ctx, n_random, adif_case):
    rng = ctx.rng
    # (1) copyright id x bitstream type x every sampling frequency index x channel layouts x one / three programs
    for cid in (None, ADIF_CID):
        for bst in (0, 1):
            for sfi in range(13):
                for lay in ADIF_LAYOUTS:
                    for extra in (0, 2):
                        P = adif_rand(rng, cid=cid, bst=bst)
                        P[6] = [adif_rand_pce(rng, sfi=sfi, layout=lay)] + [adif_rand_pce(rng, small=True) for _ in range(extra)]
                        adif_case(ctx, P, "product")
    # (2) every value of the small fields, the lattice of the wide ones, for both bitstream types
    for bst in (0, 1):
        for v in lat(23):
            adif_case(ctx, adif_rand(rng, bst=bst, bitrate=v), "bitrate")
        for v in lat(20):
            adif_case(ctx, adif_rand(rng, bst=bst, full=v), "fullness")
        for which in range(3):
            for n in range(16):
                for cpe in (0, 16, None):
                    lay = [[], [], [], [rng.randrange(16) for _ in range(rng.randrange(4))]]
                    lay[which] = [(rng.choice([0, 16]) if cpe is None else cpe) + rng.randrange(16) for _ in range(n)]
                    P = adif_rand(rng, bst=bst)
                    P[6] = [adif_rand_pce(rng, layout=tuple(lay))] + P[6][1:]
                    adif_case(ctx, P, "element-counts")
        for nlfe in range(4):
            for nassoc in range(8):
                for ncc in (0, 1, 2, 7, 8, 15):
                    P = adif_rand(rng, bst=bst)
                    pc = adif_rand_pce(rng)
                    pc[6], pc[7], pc[8] = [rng.randrange(16) for _ in range(nlfe)], [rng.randrange(16) for _ in range(nassoc)], [rng.randrange(32) for _ in range(ncc)]
                    P[6] = [pc] + P[6][1:]
                    adif_case(ctx, P, "lfe-assoc-cc")
        for mono in (None, 0, 15):
            for stereo in (None, 0, 15):
                for matrix in (None, 0, 7):
                    for clen in (0, 1, 2, 255):
                        P = adif_rand(rng, bst=bst)
                        pc = adif_rand_pce(rng)
                        pc[9], pc[10], pc[11], pc[12] = mono, stereo, matrix, bytes(rng.randrange(256) for _ in range(clen)).hex()
                        P[6] = [pc] + P[6][1:]
                        P[7] = max(P[7], 1)
                        adif_case(ctx, P, "mixdown-comment")
        for tagv in range(16):
            for ot in range(4):
                P = adif_rand(rng, bst=bst)
                P[6][0][0], P[6][0][1] = tagv, ot
                adif_case(ctx, P, "tag-object-type")
        for npce in range(16):
            P = adif_rand(rng, bst=bst)
            P[6] = [adif_rand_pce(rng)] + [adif_rand_pce(rng, small=True) for _ in range(npce)]
            adif_case(ctx, P, "num-pce")
        for orig in (0, 1):
            for home in (0, 1):
                for cid in (None, ADIF_CID, "00" * 9, "ff" * 9):
                    for id3 in (0, 1, 127, 128, 300):
                        adif_case(ctx, adif_rand(rng, bst=bst, orig=orig, home=home, cid=cid, id3=id3), "flags-id3")
    for _ in range(n_random):
        adif_case(ctx, adif_rand(rng), "random")
    # (3) malformed: reserved sampling frequency indices, truncated headers, a comment length reaching past the end of the file
    for sfi in (13, 14, 15):
        for bst in (0, 1):
            P = adif_rand(rng, bst=bst)
            P[6][0][2] = sfi
            adif_case(ctx, P, "reserved-sfi")
    for _ in range(6):
        P = adif_rand(rng, tail=3, id3=0)
        n = len(adif_ref_bytes(P))
        for c in sorted(set(range(4, min(n, 40))) | {n - 4, n - 3, n - 2, n - 1}):
            if 4 <= c < n:
                adif_case(ctx, P, "truncated", cut=c)
    for clen in (1, 2, 200, 255):
        for tail in (0, 1, 5):
            P = adif_rand(rng, tail=0, id3=0)
            P[6] = [P[6][0]]
            P[6][0][12] = "ab" * clen
            n = len(adif_ref_bytes(P))
            adif_case(ctx, P, "comment-past-end", cut=n - clen + tail)


# ---- families with a direct oracle only (harness/c05_extra.py: ADTS, TAK, DSDIFF, MP4, ASF) ------------------------------
def extra_case(ctx, F, p, tag):
    data = F.build(p)
    st, impl = run_impl(lambda: F.load(data))
    ctx.oracle_cases += 1
    ctx.count("%s:%s" % (F.name, tag))
    slug = {"fmt": "x:" + F.name, "params": p}
    ctx.case((F.name, json_key_any(p)), dict(slug, impl=impl if st == "raise" else {k: (v.hex() if isinstance(v, float) else v) for k, v in impl.items()})
             if ctx.evaluations % 499 == 0 else None)
    valid = F.valid(p)
    if st != "ok":
        if valid:
            ctx.violation("oracle", "%s: valid header not loaded (%s)" % (F.name, impl), dict(slug, **{"class": F.slug + "-rejected"}))
            return False
        return True
    spec = F.spec(p)
    bad = cmp_dicts(impl, {k: v for k, v in spec.items() if not k.endswith("~")})
    for k, (exact, rel, ab) in ((k[:-1], v) for k, v in spec.items() if k.endswith("~")):
        got = impl.get(k)
        if not isinstance(got, (int, float)) or isinstance(got, bool) or got != got or got in (float("inf"), float("-inf")) or \
                abs(Fraction(got) - exact) > max(abs(exact) * rel, ab):
            bad.append("%s: impl=%r exact=%s" % (k, got, exact))
    if bad:
        ctx.violation("oracle", "%s: reported attributes differ from the header: %s" % (F.name, ", ".join(sorted(b.split(":")[0] for b in bad))),
                      dict(slug, **{"class": F.slug + "-mismatch", "detail": bad, "tag": tag}))
        return False
    return True


def json_key_any(x):
    if isinstance(x, (list, tuple)):
        return tuple(json_key_any(y) for y in x)
    if isinstance(x, dict):
        return tuple(sorted((k, json_key_any(v)) for k, v in x.items()))
    return x


def run_extra(ctx, stop_after=4):
    import c05_extra
    for F in c05_extra.FAMILIES:
        before = len(ctx.violations)
        for tag, p in F.gen(ctx.rng, ctx.thorough):
            extra_case(ctx, F, p, tag)
            if len(ctx.violations) > before + stop_after:
                break


# ---- invalid headers ------------------------------------------------------------------------------
def invalid_cases(ctx):
    """reserved / zero values the code rejects: implementation and model must both reject"""
    rng = ctx.rng
    todo = []
    F = BYNAME["flac"]
    for _ in range(6):
        p = F.params_random(rng)
        p[4] = 0
        todo.append((F, p))
    F = BYNAME["vorbis"]
    p = F.params_random(rng)
    p[1] = 0
    todo.append((F, p))
    F = BYNAME["theora"]
    for i in (7, 8):
        p = F.params_random(rng)
        p[i] = 0
        todo.append((F, p))
    F = BYNAME["opus"]
    p = F.params_random(rng)
    p[0] = 16
    todo.append((F, p))
    F = BYNAME["ofr"]
    for ds in (0, 11, 13, 14):
        p = F.params_random(rng)
        p[0] = ds
        todo.append((F, p))
    F = BYNAME["mpc8"]
    for ri in (4, 7):
        p = F.params_random(rng)
        p[3] = ri
        todo.append((F, p))
    F = BYNAME["wavpack"]
    for _ in range(3):
        p = F.params_random(rng)
        p[8] = 15            # "non-standard rate": no table row
        todo.append((F, p))
    F = BYNAME["speex"]
    p = F.params_random(rng)
    p[1] = 0
    todo.append((F, p))
    for F, p in todo:
        b = F.build(ctx, p)
        file = F.wrap(b, p)
        st, impl = run_impl(lambda: F.impl(file))
        data, extra = F.model_input(b, file, p)
        mst, mv = mdecode(ctx, F.mfmt, data, extra)
        ctx.corr_cases += 1
        ctx.oracle_cases += 1
        ctx.count(F.name + ":invalid")
        ctx.case((F.name, "invalid", tuple(p)))
        if st != mst or (st == "raise" and impl != mv):
            ctx.disagree("c05." + F.name, "invalid header %r: impl %s %s, model %s %s" % (p, st, impl if st == "raise" else "", mst, mv),
                         {"fmt": F.name, "params": [str(x) for x in p]})
        if st == "ok":
            ctx.violation("oracle", "%s: invalid header value accepted" % F.name, {"class": F.slug + "-invalid-accepted", "fmt": F.name, "params": [str(x) for x in p], "invalid": True})
    # version / marker bytes of the identification packets that the loaders check: patched in the built packet
    patches = [("theora", 7, 2), ("theora", 7, 4), ("theora", 8, 1), ("theora", 8, 3), ("oggflac", 5, 0), ("oggflac", 5, 2), ("oggflac", 6, 1),
               ("oggflac", 9, 0x46), ("oggflac", 12, 0x63), ("opus", 8, 0x10), ("opus", 8, 0xF0), ("opus", 8, 0x0F)]
    for name, off, val in patches:
        F = BYNAME[name]
        p = F.params_random(rng)
        b = bytearray(F.build(ctx, p))
        ok_value = b[off] == val or (name == "opus" and val >> 4 == 0)
        b[off] = val
        b = bytes(b)
        file = F.wrap(b, p)
        st, impl = run_impl(lambda: F.impl(file))
        data, extra = F.model_input(b, file, p)
        mst, mv = mdecode(ctx, F.mfmt, data, extra)
        ctx.corr_cases += 1
        ctx.oracle_cases += 1
        ctx.count(name + ":patched-version")
        ctx.case((name, "patched", off, val))
        if st != mst or (st == "raise" and impl != mv):
            ctx.disagree("c05." + name, "byte %d := %d of %r: impl %s %s, model %s %s" % (off, val, p, st, impl if st == "raise" else "", mst, mv),
                         {"fmt": name, "params": [str(x) for x in p], "patch": [off, val]})
        if st == "ok" and not ok_value:
            ctx.violation("oracle", "%s: unsupported version / marker accepted" % name,
                          {"class": F.slug + "-invalid-accepted", "fmt": name, "params": [str(x) for x in p], "patch": [off, val], "invalid": True})
    # malformed Musepack SV8 packet streams (sizes smaller than the packet header, huge sizes, missing packets)
    for raw in (b"MPCK" + b"XX\x00" + b"\x00" * 20, b"MPCK" + b"XX\x02" + b"\x00" * 20,
                b"MPCK" + b"SH" + b"\xff" * 8 + b"\x7f" + b"\x00" * 20, b"MPCK" + b"AP\x03", b"MPCK" + b"SE\x03",
                b"MPCK" + b"ZZ\x03" * 5 + b"SE\x03", b"MPCK" + b"aa\x03", b"MPCK" + b"RG\x0c\x01" + b"\x00" * 8 + b"AP\x03",
                b"MPCK" + b"RG\x05\x01\x00" + b"AP\x03"):
        st, impl = run_impl(lambda: BYNAME["mpc8"].impl(raw))
        mst, mv = mdecode(ctx, "mpc", raw, None)
        ctx.corr_cases += 1
        ctx.count("mpc8:malformed")
        ctx.case(("mpc8", "malformed", raw))
        if st != mst or (st == "raise" and impl != mv):
            ctx.disagree("c05.mpc8", "malformed stream %s: impl %s %s, model %s %s" % (raw.hex(), st, impl if st == "raise" else "", mst, mv),
                         {"fmt": "mpc-raw", "raw": raw.hex()})
    # truncated chunks / identification packets: same outcome (and exception class) in model and implementation
    for name in ("vorbis", "opus", "speex", "theora", "oggflac", "wave", "aiff"):
        F = BYNAME[name]
        p = F.params_random(rng)
        b = F.build(ctx, p)
        for n in sorted({0, 1, 7, 8, 12, 13, 15, 16, 17, 18, 19, 27, 28, 41, 42, 50, 51, 55, 56, len(b) - 1}):
            if not 0 <= n < len(b):
                continue
            cut = b[:n]
            file = F.wrap(cut, p)
            st, impl = run_impl(lambda: F.impl(file))
            data, extra = F.model_input(cut, file, p)
            if name == "wave":
                extra = zs(extra)
            mst, mv = mdecode(ctx, F.mfmt, data, extra)
            ctx.corr_cases += 1
            ctx.count(name + ":truncated")
            ctx.case((name, "truncated", n))
            magic_len = {"vorbis": 7, "opus": 8, "speex": 8, "theora": 7, "oggflac": 5}.get(name, 0)
            if n < magic_len:
                continue        # the loader does not even find the stream: outside the packet-level model
            if st != mst or (st == "raise" and impl != mv):
                ctx.disagree("c05." + name, "truncated to %d bytes %r: impl %s %s, model %s %s" % (n, p, st, impl if st == "raise" else "", mst, mv),
                             {"fmt": name, "params": [str(x) for x in p], "cut": n})


# ---- samples --------------------------------------------------------------------------------------
def riff_chunks(data, be):
    """independent IFF walk: {id: (payload, declared size)} of the first-level chunks"""
    out = {}
    pos = 12
    while pos + 8 <= len(data):
        cid = data[pos:pos + 4]
        size = struct.unpack(">I" if be else "<I", data[pos + 4:pos + 8])[0]
        out.setdefault(cid, (data[pos + 8:pos + 8 + size], size))
        pos += 8 + size + size % 2
    return out


def skip_id3(data):
    pos = 0
    while data[pos:pos + 3] == b"ID3" and len(data) >= pos + 10:
        s = data[pos + 6:pos + 10]
        size = (s[0] & 0x7f) << 21 | (s[1] & 0x7f) << 14 | (s[2] & 0x7f) << 7 | (s[3] & 0x7f)
        if size == 0:
            break
        pos += 10 + size
    return pos


def sample_cases(ctx):
    d = os.path.join(REPO, "tests", "data")
    names = sorted(os.listdir(d))
    m = M()
    plan = []
    for n in names:
        path = os.path.join(d, n)
        ext = n.rsplit(".", 1)[-1].lower()
        data = open(path, "rb").read()
        if ext == "flac":
            def mi(data=data):
                pos = skip_id3(data)
                if data[pos:pos + 4] != b"fLaC":
                    return None
                return ("flac", data[pos + 8:pos + 8 + struct.unpack(">I", b"\x00" + data[pos + 5:pos + 8])[0]], None)
            plan.append((n, "flac", data, m.flac.FLAC, mi))
        elif ext == "wav":
            def mi(data=data):
                c = riff_chunks(data, False)
                return ("wave", c[b"fmt "][0], zs(c[b"data"][1]) if b"data" in c else "-")
            plan.append((n, "wave", data, m.wave.WAVE, mi))
        elif ext == "aif":
            def mi(data=data):
                return ("aiff", riff_chunks(data, True)[b"COMM"][0], None)
            plan.append((n, "aiff", data, m.aiff.AIFF, mi))
        elif ext == "dsf":
            plan.append((n, "dsf", data, m.dsf.DSF, lambda data=data: ("dsf", data[:92], None)))
        elif ext == "tta":
            plan.append((n, "tta", data, m.trueaudio.TrueAudio, lambda data=data: ("tta", data[skip_id3(data):skip_id3(data) + 64], None)))
        elif ext == "wv":
            plan.append((n, "wavpack", data, m.wavpack.WavPack, lambda data=data: ("wavpack", data, None)))
        elif ext == "ape":
            plan.append((n, "ape", data, m.monkeysaudio.MonkeysAudio, lambda data=data: ("ape", data[:128], None)))
        elif ext in ("ofr", "ofs"):
            plan.append((n, "ofr", data, m.optimfrog.OptimFROG, lambda data=data: ("ofr", data[:128], None)))
        elif ext == "mpc":
            plan.append((n, "mpc7", data, m.musepack.Musepack, lambda data=data: ("mpc", data, None)))
        elif ext in ("ogg", "opus", "spx", "oggtheora", "oggflac"):
            fm, cls, magic = {"ogg": ("vorbis", m.oggvorbis.OggVorbis, b"\x01vorbis"), "opus": ("opus", m.oggopus.OggOpus, b"OpusHead"),
                              "spx": ("speex", m.oggspeex.OggSpeex, b"Speex   "), "oggtheora": ("theora", m.oggtheora.OggTheora, b"\x80theora"),
                              "oggflac": ("oggflac", m.oggflac.OggFLAC, b"\x7fFLAC")}[ext]

            def mi(data=data, fm=fm, magic=magic):
                pages = ogg_pages(data)
                first = [pg for pg in pages if pg[3] and pg[3][0].startswith(magic)]
                if not first:
                    return None
                serial = first[0][2]
                g = None
                for fl, gr, se, pk, comp in pages:
                    if se == serial:
                        if gr != -1:
                            g = gr
                        if fl & 4:
                            break
                if g is None:
                    return None
                return (fm, first[0][3][0], g)
            plan.append((n, fm, data, cls, mi))
        elif ext in ("ac3", "eac3"):
            plan.append((n, "ac3", data, None, lambda data=data: ("ac3", data, None)))
        elif ext == "aac":
            plan.append((n, "adif", data, None, lambda data=data: ("adif", data, None)))
            if data[:4] == b"ADIF":
                # the same stream behind an ID3v2 tag (sizes around the 7-bit digit boundaries)
                for k in (0, 1, 127, 128, 16384):
                    plan.append(("%s+id3(%d)" % (n, k), "adif", id3_prefix(k) + data, None, lambda d2=id3_prefix(k) + data: ("adif", d2, None)))
        elif ext == "mp3":
            plan.append((n, "mpeg", data, None, None))
    for n, fm, data, cls, mi in plan:
        ctx.count("sample:" + fm)
        if fm == "mpeg":
            sample_mpeg(ctx, n, data)
            continue
        if fm == "adif":
            sample_adif(ctx, n, data)
            continue
        F = BYNAME[fm]
        st, impl = run_impl(lambda: F.impl(data))
        try:
            inp = mi()
        except Exception:
            inp = None
        if inp is None:
            ctx.case(None)
            ctx.count("sample-skipped:" + fm)
            if st == "ok":
                ctx.notes.setdefault("samples_not_located", []).append(n)
            continue
        mst, mv = mdecode(ctx, inp[0], inp[1], inp[2])
        ctx.corr_cases += 1
        ctx.case(("sample", n))
        if st != mst:
            # the loaders also fail for reasons outside the header (tags, truncated containers)
            if st == "raise" and mst == "ok":
                ctx.count("sample-impl-rejects-elsewhere:" + fm)
                continue
            ctx.disagree("c05.sample", "%s: impl %s %s, model %s %s" % (n, st, impl if st == "raise" else "", mst, mv), {"sample": n})
        elif st == "ok":
            if fm == "mpc7" and mv[0] == 8:
                F = BYNAME["mpc8"]
            md = F.model_dict(mv)
            ref = F.ref_from_model(ctx, md, data)
            if fm == "flac":
                ref.pop("bitrate", None)
            if fm in ("mpc7", "mpc8"):
                pass
            bad = cmp_dicts(impl, ref)
            if bad:
                ctx.disagree("c05.sample", "%s: impl vs model: %s" % (n, "; ".join(bad)), {"sample": n})


def sample_adif(ctx, n, data):
    st, impl = run_impl(lambda: aac_impl(data))
    mst, mv = mdecode(ctx, "adif", data)
    ctx.corr_cases += 1
    if mst == "raise" and mv == "NotImplementedError":       # an ADTS stream: outside the ADIF model
        ctx.case(None)
        ctx.count("sample-skipped:adif")
        return
    ctx.case(("sample", n))
    if st != mst or (st == "raise" and impl != mv):
        ctx.disagree("c05.sample", "%s: impl %s %s, model %s %s" % (n, st, impl if st == "raise" else "", mst, mv), {"sample": n})
    elif st == "ok":
        md = dict(zip(["sample_rate", "channels", "bitrate", "ln", "ld"], mv))
        ref = {k: md[k] for k in ("sample_rate", "channels", "bitrate")}
        ref["length"] = fdiv(md["ln"], md["ld"]) if md["bitrate"] else 0
        ref["type"] = "ADIF"
        bad = cmp_dicts(impl, ref)
        if bad:
            ctx.disagree("c05.sample", "%s: impl vs model: %s" % (n, "; ".join(bad)), {"sample": n})


def sample_mpeg(ctx, n, data):
    """first frame the loader settles on: locate it independently (ID3 skipped, first sync whose header decodes in the model and
    is followed by a second decodable header), compare the header-derived attributes; Xing/VBRI files: header fields only"""
    mp3 = M().mp3
    st, info = run_impl(lambda: mp3.MPEGInfo(io.BytesIO(data)))
    if st != "ok":
        ctx.case(None)
        return
    pos = skip_id3(data)
    found = None
    i = data.find(b"\xff", pos)
    tries = 0
    while i != -1 and i + 4 <= len(data) and tries < 3000:
        if data[i + 1] & 0xe0 == 0xe0:
            tries += 1
            mst, mv = mdecode(ctx, "mpeg", data[i:i + 4])
            if mst == "ok":
                fl = mv[9]
                m2, _ = mdecode(ctx, "mpeg", data[i + fl:i + fl + 4])
                body = data[i:i + fl]
                if m2 == "ok" or b"Xing" in body[:64] or b"Info" in body[:64] or b"VBRI" in body[:64]:
                    found = mv
                    found_at = i
                    break
        i = data.find(b"\xff", i + 1)
    ctx.corr_cases += 1
    ctx.case(("sample", n))
    if found is None:
        ctx.notes.setdefault("samples_not_located", []).append(n)
        return
    mst, mv = mdecode(ctx, "mpeg_vbr", data[found_at:found_at + 4096])
    if mst != "ok":
        ctx.disagree("c05.sample", "%s: model mpeg_vbr fails: %s" % (n, mv), {"sample": n})
        return
    md = dict(zip(VBR_KEYS, mv))
    ref = {k: md[k] for k in ("sample_rate", "channels", "layer", "mode", "protected", "padding")}
    impl = {"bitrate": info.bitrate, "sample_rate": info.sample_rate, "channels": info.channels, "layer": info.layer, "mode": info.mode,
            "protected": int(info.protected), "padding": int(info.padding), "length": info.length}
    if md["kind"] != 0:
        r2 = vbr_ref(md, len(data) - found_at)
        ref["bitrate"] = r2["bitrate"]
        ref["length"] = r2["length"]
        ctx.count("sample-mpeg-vbr-kind:%d" % md["kind"])
    elif not info.sketchy:
        ref["bitrate"] = md["bitrate"]
        ref["length"] = 8 * (len(data) - found_at) / float(md["bitrate"])
    bad = cmp_dicts(impl, ref)
    if int(info.version * 10) != md["version10"]:
        bad.append("version")
    if bad:
        ctx.disagree("c05.sample", "%s: impl vs model: %s" % (n, "; ".join(bad)), {"sample": n})


# ---- vm_compute shard -----------------------------------------------------------------------------
def vm_crosscheck(ctx):
    rng = ctx.rng
    cases, keys = [], []
    F3 = BYNAME["ac3"]
    for _ in range(8):
        p = F3.params_random(rng)
        cases.append("decode_ac3 (build_ac3_frame (mkAc3 %s))" % " ".join(str(x) for x in p))
        keys.append(("ac3", p))
    dom = list(mpeg_domain())
    for _ in range(24):
        p = rng.choice(dom)
        cases.append("decode_mpeg_frame (build_mpeg_frame (mkMpeg %s))" % " ".join(str(x) for x in p))
        keys.append(("mpeg", p))
    F = BYNAME["flac"]
    for _ in range(12):
        p = F.params_random(rng)
        cases.append("decode_flac_streaminfo (build_flac_streaminfo (mkFlacP %s))" % " ".join(str(x) for x in p))
        keys.append(("flac", p))
    for _ in range(8):
        r = rng.choice([1, 8000, 44100, 48000, 96000, 2 ** 32 - 1, 2 ** 53 - 1, rng.randrange(1, 2 ** 40)])
        p = [rng.randrange(1, 9), rng.randrange(2 ** 32), rng.randrange(1, 33), r]
        cases.append("decode_aiff_comm (build_aiff_comm %s [])" % " ".join(str(x) for x in p))
        keys.append(("aiff", p + ["x"]))
    for _ in range(8):
        F8 = BYNAME["mpc8"]
        p = F8.params_random(rng)
        cases.append("decode_mpc (build_mpc8 %s)" % " ".join(str(x) for x in p))
        keys.append(("mpc8", p))
    adif_ps = []
    for _ in range(8):
        P = adif_rand(rng, id3=0, tail=rng.choice([0, 3, 20]))
        adif_ps.append(P)
        cases.append("decode_adif (build_adif %s (zeros %d))" % (adif_coq(P), P[7]))
        keys.append(("adif", P))
    pre = ("From Coq Require Import ZArith List. Import ListNotations. Require Import Base.Py Model.InfoBase Model.InfoMpeg Model.InfoFlac "
           "Model.InfoIff Model.InfoSimple Model.InfoMpc Model.InfoAc3 Model.InfoAac. Open Scope Z_scope.")
    res, log = vm_shard("c05", pre, cases)
    if res is None or len(res) != len(cases):
        ctx.disagree("c05.vm_shard", "vm_compute shard failed to run: %s" % (log,), {})
        return
    import re
    for (fm, p), r in zip(keys, res):
        ctx.vm_cases += 1
        b = mbuild(ctx, fm, *(adif_args(p) if fm == "adif" else p))
        mst, mv = mdecode(ctx, {"mpc8": "mpc"}.get(fm, fm), b, None)
        m = re.match(r"Ok \[(.*)\]$", r.replace("%Z", "").strip())
        if m:
            got = ("ok", [int(x) for x in m.group(1).split(";") if x.strip()])
        else:
            got = ("raise", r)
        if got[0] != mst or (mst == "ok" and got[1] != mv):
            ctx.disagree("c05.vm_shard", "extracted binary and vm_compute differ on %s %r: %r vs %r" % (fm, p, got, (mst, mv)), {})
            return


# ---- driver ----------------------------------------------------------------------------------------
def run_generic(ctx, per_fmt_random, stop_on_violation=False):
    for F in GENERIC:
        before = len(ctx.violations)
        for p in F.params_lattice(ctx.rng):
            generic_case(ctx, F, p, "lattice")
            if stop_on_violation and len(ctx.violations) > before + 2:
                break
        for _ in range(per_fmt_random):
            generic_case(ctx, F, F.params_random(ctx.rng), "random")
            if stop_on_violation and len(ctx.violations) > before + 2:
                break


def run_mpeg(ctx, stride=1):
    F = Mpeg()
    bad = 0
    for i, p in enumerate(mpeg_domain()):
        if i % stride:
            continue
        if not mpeg_case(ctx, F, p, "exhaustive"):
            bad += 1
            if bad > 12:
                break
    # private bit / trailing bits set: ignored by the reported attributes
    for _ in range(40):
        p = ctx.rng.choice(list(mpeg_domain()))
        p[6] = 1
        p[8] = ctx.rng.randrange(64)
        mpeg_case(ctx, F, p, "tail-bits")
    for vb in range(4):
        for lb in range(4):
            for bri in (0, 1, 9, 14, 15):
                for sri in range(4):
                    if vb == 1 or lb == 0 or bri in (0, 15) or sri == 3:
                        mpeg_invalid_case(ctx, F, [vb, lb, 1, bri, sri, 0, 0, ctx.rng.randrange(4), 0])


def run(ctx):
    run_mpeg(ctx)
    run_vbr(ctx, 400 if ctx.thorough else 80)
    run_mpeg_layout(ctx, 400 if ctx.thorough else 60)
    run_generic(ctx, 120 if ctx.thorough else 25)
    run_adif(ctx, 2000 if ctx.thorough else 300)
    run_extra(ctx)
    F = BYNAME["flac"]
    for p in itertools.islice(F.params_lattice(ctx.rng), 0, None, 1 if ctx.thorough else 3):
        flac_write_case(ctx, p)
    invalid_cases(ctx)
    sample_cases(ctx)
    vm_crosscheck(ctx)


def search(ctx, broken):
    before = len(ctx.violations)
    run_mpeg(ctx)
    run_vbr(ctx, 600)
    run_mpeg_layout(ctx, 300)
    run_generic(ctx, 300, stop_on_violation=True)
    run_adif(ctx, 3000)
    run_extra(ctx)
    F = BYNAME["flac"]
    for p in F.params_lattice(ctx.rng):
        if not flac_write_case(ctx, p):
            break
    ctx.notes["search"] = "exhaustive MPEG product, lattices and 300 random headers per format found %d failing inputs" % (len(ctx.violations) - before)


def replay(ctx, payload):
    d = payload.get("data", {})
    if payload.get("kind") != "failing-input" or "fmt" not in d:
        run(ctx)
        return bool(ctx.violations or ctx.disagreements)
    fm = d["fmt"]
    if fm == "adif":
        return not adif_case(ctx, d["params"], "replay", cut=d.get("cut"))
    if fm.startswith("x:"):
        import c05_extra
        return not extra_case(ctx, c05_extra.BYNAME[fm[2:]], d["params"], "replay")
    p = [int(x) for x in d["params"]]
    if fm == "mpeg":
        return not mpeg_case(ctx, Mpeg(), p, "replay")
    if fm == "mpeg_hdr":
        return not mpeg_invalid_case(ctx, Mpeg(), p)
    if fm == "mpeg_layout":
        return not mpeg_layout_case(ctx, Mpeg(), p, d["id3"], d["junk"], d["frames"], "replay")
    if fm in ("mpeg_xing", "mpeg_vbri"):
        return not vbr_case(ctx, fm[5:], p, [None if x == "-" else (x if isinstance(x, str) and x.startswith("LAME") else int(x)) for x in d["tag"]], "replay")
    if fm == "flac_write":
        return not flac_write_case(ctx, p)
    F = BYNAME[fm]
    if d.get("invalid"):
        b = F.build(ctx, p)
        if d.get("patch"):
            b = bytearray(b)
            b[d["patch"][0]] = d["patch"][1]
            b = bytes(b)
        st, _ = run_impl(lambda: F.impl(F.wrap(b, p)))
        return st == "ok"
    return not generic_case(ctx, F, p, "replay")


def coverage_extra(ctx):
    return {"exhaustive": True,
            "exhaustive_note": "the MPEG audio header product (3 versions x 3 layers x 2 protection x 14 bitrate indices x 3 rate indices x "
                               "2 padding x 4 modes = 6048) is enumerated completely against the real loader; the theorems cover all field "
                               "values of the other formats",
            "families_with_theorem": FAMILIES_WITH_THEOREM,
            "families_without_theorem": FAMILIES_WITHOUT_THEOREM,
            "branch_audit": [{"parser": a, "driven": b, "not_driven": c} for a, b, c in BRANCH_AUDIT]}
