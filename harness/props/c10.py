"""C10 -- MP4 media offsets follow the data when tags change size.

(R) correspondence: the extracted Coq model (coq/model/Fam_mp4.v: mp4_save / mp4_delete, mirror of MP4Tags.save ->
    __save_existing / __save_new / __update_parents / __update_offsets) against mutagen on layouts synthesised by the
    model's builder mp4_build (cross-checked against an independent Python twin of the builder) and on the MP4 samples of
    tests/data, byte for byte, on every step of grow / shrink / to-empty / from-empty / repeated-save sequences.
(D) direct oracle: before and after every save the file is read by the independent walker (harness/fam/walkers.py, no mutagen
    code): atoms tile their parents at every level; every stco / co64 entry and tfhd base offset is resolved before and after and
    must address the same (position dependent) media bytes; offsets not past the start of the tag region stay; atoms outside the
    tag region are byte-identical and in order; the file still loads and reads back the tags that were set.
(V) vm_compute shard: the same builder + save evaluated by the kernel must agree with the extracted binary."""
import io, os, re, struct, json, random, zlib
import common
from common import zs, zp, hx, unhx, coq_bytes, vm_shard
from fam import walkers as W
from fam import corr_mp4 as CM
from fam import shared
from fam.engine import foreign_preserved
from fam.kinds import KINDS

PROP = "C10"
PROP_FILES = ["props/C10.v"]
TRUSTED = [
    "modelled rather than verified: coq/model/Fam_mp4.v is a hand-written mirror of mutagen/mp4/_atom.py (Atom/Atoms) and of "
    "MP4Tags.__save_existing/__save_new/__update_parents/__update_offsets/_find_padding; tied to the working tree by byte-exact "
    "correspondence on every save of this check (and of the shared whole-file histories on kind MP4)",
    "the rendered ilst atom is an input of the model (item codecs are outside C10); it is cut out of the file mutagen wrote with the "
    "independent walker and cross-checked against a rendering of the same tags into a scratch file",
    "the pure splice is tied to the monadic resize_bytes program by Proofs.Splice_lemmas.splice_prog_spec (C11, regenerated code)",
    "independent walker / offset resolver harness/fam/walkers.py (mp4_atoms, mp4_offsets, mp4) as the judge of the direct oracle",
]
MANIFEST = {
    "text": "theorems over the Gallina mirror of MP4Tags.save, for EVERY well-formed atom tree (any nesting up to mutagen's 65 levels, "
            "32/64-bit/to-EOF size forms, any number of trak/moof/free atoms; not an enumeration), every rendered ilst that is itself a "
            "well-formed atom, every padding callback: (1) every stco/co64 entry and the tfhd base offset of every top-level moof becomes "
            "o+delta iff o > region start, count unchanged, and every leaf atom outside the replaced region that is not such a table keeps "
            "all its bytes at the moved position (C10_offsets_follow_data, C10_chunk_bytes; also for files without udta/meta/ilst: "
            "C10_offsets_follow_data_new); (2) the result is tiled at every level, i.e. every ancestor size field (32-bit, 64-bit, "
            "untouched to-EOF form) equals the extent of its children, and is the tree the next load parses (C10_parents_consistent, "
            "C10_parents_consistent_new); (3) mp4_wf is preserved in full for files with tags (C10_wellformed_preserved). "
            "Partial: one save step; repeated saves are covered by the run (3 saves in a row on one object and through fresh objects), "
            "the preservation of the side conditions `covered` / `mp4_tags_clean` is not proved; builder layouts are shown well-formed "
            "per layout at run time (model mp4_wf + independent walker), not by a general theorem about the builder",
    "note": "Modelled, not verified: the atom reader and the save surgery (hand mirror coq/model/Fam_mp4.v, tied by byte-exact "
            "correspondence on every save of this check, incl. a malformed stream for the error paths); the item codecs (ilst payload) are "
            "inputs. Preconditions found by the proofs and stated in the theorems: no ilst item named stco/co64/tfhd (findall would take it "
            "for a table); every stco/co64 below the first moov and every tfhd below a top-level moof (others are not visited by "
            "mutagen); in __save_new no table may be the first direct child of moov/udta (`atom.offset > offset` misses it). Offsets "
            "pointing INTO the replaced region are shifted like those behind it (they address tag bytes): stated, not required. "
            "The model cannot exhibit I/O failures (C06/C19).",
    "technique": "Coq proof over a byte-exact reference model (parser completeness w.r.t. a strict tiling description, splice + patch "
                 "frame lemmas over ordered atom segments, tree relocation lemma) + extracted-model correspondence + independent-walker "
                 "oracle on synthesised atom layouts",
    "design_ref": "DESIGN.md section 5, C10",
}
RULE = ("layouts: the model's builder grammar (moov before/after mdat x udta/meta/ilst present or missing x free before/after/both/"
        "none/non-adjacent x 1-3 trak with stco/co64 x 0-3 moof with/without base-data-offset x 64-bit size forms on moov/udta/meta/"
        "mdat/trak/free/stbl/moof x top-level free atoms x size-0 last atom), mdat filled with position dependent bytes, chunk offsets "
        "at the mdat start / inside / at its end / at the region start / in ftyp; per layout two save sequences (one live object; a "
        "fresh object per save) of grow small, grow large, shrink, to empty, from empty, same again, delete under padding modes "
        "default/0/1/777/keep/50000; plus the MP4 samples of tests/data. non-trivial = the save changed the file size; distinct by "
        "(layout, step list)")

WHAT_MOOF = "C10 MP4: tfhd base offset of a later moof not updated"
WHAT_SIZE0 = "C10 MP4: size-0 atom gets delta written as its size"
WHAT_NONADJ = "C10 MP4: non-adjacent free atom taken as padding (ilst first in meta)"
WHAT_MEDIA = "C10 MP4: chunk offset no longer addresses the same media bytes"
WHAT_BEFORE = "C10 MP4: offset at or before the start of the tag region changed"
WHAT_INSERT = "C10 MP4: offset equal to the insertion point of the new meta atom not moved with the data"
WHAT_END = "C10 MP4: offset equal to the end of the replaced tag region not moved with the data"
WHAT_SIZES = "C10 MP4: atom sizes inconsistent after save"
WHAT_RAISE = "C10 MP4: save failed on a well-formed file"
WHAT_LOAD = "C10 MP4: file no longer loads or reads back different tags after save"
WHAT_FOREIGN = "C10 MP4: atoms outside the tag region changed"
WHAT_TABLES = "C10 MP4: offset tables changed shape"
WHAT_DELPAD = "C10 MP4: delete leaves padding behind (ilst + adjacent free atom not replaced by the 16-byte empty structure)"
WHAT_CBARGS = "C10 MP4: padding callback not called with (room left in the tag region, bytes behind the region)"


# ------------------------------------------------------------------ independent Python twin of the model's builder
def _pat(n, seed):
    return bytes(((seed + i) * 7 + 3) % 251 for i in range(n))


def _hdr(name, sz, plen):
    if sz == 32:
        return struct.pack(">I4s", plen + 8, name)
    if sz == 64:
        return struct.pack(">I4sQ", 1, name, plen + 16)
    return struct.pack(">I4s", 0, name)


def _leaf(name, sz, payload):
    return _hdr(name, sz, len(payload)) + payload


def _node(name, sz, kids):
    body = (b"\0" * 4 if name == b"meta" else b"") + b"".join(kids)
    return _hdr(name, sz, len(body)) + body


HDLR = _leaf(b"hdlr", 32, b"\0" * 8 + b"mdirappl" + b"\0" * 9)


def _bit(m, b):
    return (m // b) % 2 == 1


def _sz(m, b):
    return 64 if _bit(m, b) else 32


def _specs(l, base):
    big = l["big"]
    def mitem(m):
        if m[0] == "h":
            return HDLR
        if m[0] == "i":
            return l["ilst"]
        if m[0] == "f":
            return _leaf(b"free", _sz(big, 32), b"\0" * m[1])
        return _leaf(b"Xtra", 32, _pat(m[1], 11))
    def trak(t):
        co64, soun, es = t
        if co64:
            tab = _leaf(b"co64", 32, b"\0" * 4 + struct.pack(">I", len(es)) + b"".join(((base + e) % 2 ** 64).to_bytes(8, "big") for e in es))
        else:
            tab = _leaf(b"stco", 32, b"\0" * 4 + struct.pack(">I", len(es)) + b"".join(((base + e) % 2 ** 32).to_bytes(4, "big") for e in es))
        return _node(b"trak", _sz(big, 16), [
            _leaf(b"tkhd", 32, _pat(20, 5)),
            _node(b"mdia", 32, [
                _leaf(b"mdhd", 32, b"\0" * 12 + struct.pack(">II", 1000, 5000) + b"\0" * 4),
                _leaf(b"hdlr", 32, b"\0" * 8 + (b"soun" if soun else b"vide") + b"\0" * 13),
                _node(b"minf", 32, [_node(b"stbl", _sz(big, 64), [tab])])])])
    def moof(m):
        fl, rel, tail = m
        fl = int(fl)
        p = b"\0" + fl.to_bytes(3, "big") + struct.pack(">I", 1)
        if _bit(fl, 1):
            p += ((base + rel) % 2 ** 64).to_bytes(8, "big")
        for bit, seed in ((2, 21), (8, 22), (16, 23), (32, 24)):
            if _bit(fl, bit):
                p += _pat(4, seed)
        p += _pat(tail, 3)
        return _node(b"moof", _sz(big, 128), [_leaf(b"mfhd", 32, b"\0" * 8), _node(b"traf", 32, [_leaf(b"tfhd", 32, p)])])
    def udta():
        if l["udta"] == 0:
            return []
        kids = []
        if l["udta_extra"] >= 0:
            kids.append(_leaf(b"Xtra", 32, _pat(l["udta_extra"], 17)))
        if l["udta"] == 2:
            kids.append(_node(b"meta", _sz(big, 4), [mitem(m) for m in l["meta"]]))
        return [_node(b"udta", _sz(big, 2), kids)]
    def moov(sz):
        traks = [trak(t) for t in l["traks"]]
        return _node(b"moov", sz, [_leaf(b"mvhd", 32, _pat(24, 9))] + (udta() + traks if l["udta_first"] else traks + udta()))
    mdat2 = l.get("mdat2", b"")
    endfree = ([_leaf(b"mdat", 32, mdat2)] if mdat2 else []) + ([_leaf(b"free", 32, b"\0" * 24)] if _bit(l["topfree"], 2) else [])
    moofs = [moof(m) for m in l["moofs"]]
    head = [_leaf(b"ftyp", 32, b"isom\0\0\0\0isom")] + ([_leaf(b"free", 32, b"\0" * 16)] if _bit(l["topfree"], 1) else [])
    last0 = l["size0"] and not _bit(l["topfree"], 2) and not mdat2
    if l["moov_first"]:
        return head + [moov(_sz(big, 1))] + moofs, [_leaf(b"mdat", 0 if last0 else _sz(big, 8), l["mdat"])] + endfree
    return head + moofs, [_leaf(b"mdat", _sz(big, 8), l["mdat"]), moov(0 if last0 else _sz(big, 1))] + endfree


def py_build(l):
    pre0, _ = _specs(l, 0)
    last0 = l["size0"] and not _bit(l["topfree"], 2) and not l.get("mdat2", b"")
    mh = 8 if (l["moov_first"] and last0) else (16 if _bit(l["big"], 8) else 8)
    base = len(b"".join(pre0)) + mh
    pre, post = _specs(l, base)
    return b"".join(pre) + b"".join(post), base


# ------------------------------------------------------------------ layouts
def mk_ilst(n=0):
    """a small well-formed ilst atom (one text item of n characters, or empty)"""
    if n < 0:
        return _leaf(b"ilst", 32, b"")
    data = _leaf(b"data", 32, struct.pack(">II", 1, 0) + b"t" * n)
    return _leaf(b"ilst", 32, _leaf(b"\xa9nam", 32, data))


def mdat_bytes(n, seed):
    return bytes((i * i * 31 + i * 7 + seed) % 253 for i in range(n))


def base_layout(**kw):
    l = dict(moov_first=True, udta=2, udta_first=False, udta_extra=-1, meta=[("h",), ("i",)], ilst=mk_ilst(5),
             traks=[(False, True, [0, 33, 100])], moofs=[], mdat_gen=(300, 3), big=0, topfree=0, size0=False,
             mdat2_gen=None, m2_entries=None, m2_moofs=None, moof_self=None, entry_at_first_moof=False)
    l.update(kw)
    l["mdat"] = mdat_bytes(*l["mdat_gen"])
    l["mdat2"] = mdat_bytes(*l["mdat2_gen"]) if l["mdat2_gen"] else b""
    return l


METAS = [[("h",), ("i",)], [("h",), ("i",), ("f", 40)], [("h",), ("f", 64), ("i",)], [("h",), ("f", 16), ("i",), ("f", 32)],
         [("h",), ("f", 100), ("f", 30), ("i",)], [("h",), ("f", 64), ("i",), ("o", 12)],
         [("i",), ("f", 0)], [("i",)], [("f", 2000), ("i",), ("o", 12)], [("h",), ("i",), ("o", 9), ("f", 30)],
         [("h",), ("o", 5), ("i",), ("f", 1500)]]
NONADJ_META = [("i",), ("h",), ("f", 50)]


def regression_layouts():
    """the three layouts of the defects found while building this check (now fixed in /repo): a regression is a VIOLATION"""
    return [
        ("reg-two-moof", base_layout(moofs=[(True, 10, 0), (True, 200, 4)], traks=[(False, True, [0, 100])])),
        ("reg-three-moof", base_layout(moofs=[(True, 10, 0), (False, 0, 6), (True, 250, 0)], moov_first=False)),
        ("reg-size0-moov", base_layout(moov_first=False, size0=True, traks=[(False, True, [0, 100])])),
        ("reg-size0-moov-new", base_layout(moov_first=False, size0=True, udta=0)),
        ("reg-nonadjacent-free", base_layout(meta=NONADJ_META)),
        ("reg-nonadjacent-free-2", base_layout(meta=[("i",), ("o", 100), ("h",), ("f", 20)], moov_first=False)),
    ]


TF_FLAGS = [0x000001, 0x020001, 0x000011, 0x010039, 0x020000, 0x00003B, 0x030001, 0x000000]


def flag_layouts():
    """tfhd atoms with every mix of tf_flags (optional fields present): the base offset follows whenever bit 0 is set"""
    out = []
    for i, mf in enumerate((True, False)):
        out.append(("flags-%d" % i, base_layout(moov_first=mf, moofs=[(fl, 7 + 11 * k, k % 3) for k, fl in enumerate(TF_FLAGS)],
                                                 meta=[("h",), ("i",), ("f", 24)] if mf else [("h",), ("i",)], big=(128 if mf else 0))))
    return out


def straddle_layouts():
    """media data on both sides of moov (ftyp, mdat, moov, mdat): tables whose entries lie partly before and partly behind
    moov, in both orders (first entry before / first entry behind), stco and co64; tfhd bases on both sides"""
    out = []
    n = 0
    for meta in ([("h",), ("i",)], [("h",), ("i",), ("f", 40)], [("h",), ("f", 64), ("i",), ("o", 12)]):
        for first in (False, True):
            n += 1
            out.append(("straddle-%d" % n, base_layout(
                moov_first=False, meta=meta, mdat2_gen=(220, 40 + n),
                traks=[(n % 2 == 0, True, [0, 33, 100]), (n % 2 == 1, False, [150, 299])],
                m2_entries={0: ([5, 64, 219], first), 1: ([0, 120], not first)},
                moofs=[(0x020001, 20, 0)] if n % 3 == 0 else [], m2_moofs=[(1, 50, 0), (0x020001, 99, 2)] if n % 3 == 0 else None,
                big=[0, 8, 1][n % 3], topfree=n % 2)))
    return out


def insert_layouts():
    """no ilst yet; moov ends with an EMPTY udta (or a udta holding only a non-meta child, or there is no udta) and moof atoms
    follow directly: a tfhd base offset equal to the start of its moof (the usual value) then equals the insertion point of
    the new meta atom (moov_self: which moofs get base == their own start); also a chunk offset equal to that point"""
    out = []
    n = 0
    for udta, extra in ((1, -1), (1, 9), (0, -1), (2, -1)):
        for big in (0, 2, 128):
            n += 1
            out.append(("insert-%d" % n, base_layout(
                moov_first=True, udta=udta, udta_extra=extra, udta_first=False, meta=[("h",)] if udta == 2 else [],
                traks=[(n % 2 == 0, True, [0, 33])], moofs=[(1, 0, 0), (0x020001, 0, 4), (1, 40, 0)], moof_self=[0, 1],
                entry_at_first_moof=(n % 3 == 0), big=big)))
    return out


def tail_layouts():
    """EXISTING tags that are the last thing in moov (ilst [+ free] last in meta, meta last in udta, udta last in moov) and moof
    atoms directly behind moov: a tfhd base offset equal to the start of its moof (moof_self) then equals the END of the replaced
    region, the first byte behind it; it moves whenever the region changes its size (the save sequences grow and shrink it).
    Also a chunk offset equal to that point."""
    out = []
    metas = [[("h",), ("i",)], [("h",), ("i",), ("f", 40)], [("h",), ("f", 64), ("i",)], [("i",)], [("h",), ("o", 12), ("i",), ("f", 300)]]
    n = 0
    for meta in metas:
        for big in (0, 128):
            n += 1
            out.append(("tail-%d" % n, base_layout(
                moov_first=True, udta=2, udta_extra=-1, udta_first=False, meta=meta, ilst=mk_ilst(3 + n),
                traks=[(n % 2 == 0, True, [0, 33])], moofs=[(1, 0, 0), (0x020001, 0, 4), (1, 40, 0)], moof_self=[0, 1],
                entry_at_first_moof=(n % 3 != 1), big=big)))
    return out


LONG_COUNTS = [(4095, 4097), (4096, 9000), (9000, 4096), (4097, 8193)]       # (stco entries, co64 entries)
STEPS_LONG = [("set", 30, "default"), ("set", 2, "zero"), ("delete", None, None)]
MODEL_MAX_ENTRIES = 20000       # the extracted model is run on a long-table layout only up to this many entries in total


def long_layouts():
    """chunk offset tables with thousands of entries (consecutive 1-byte chunks): a table must be patched as a whole, whatever
    its length; the long tables sit in the second and third trak (the first one receives the boundary entries)"""
    out = []
    for k, (n4, n8) in enumerate(LONG_COUNTS):
        mlen = max(n4, n8) + 8
        two = k % 2 == 1
        out.append(("long-%d" % (k + 1), base_layout(
            moov_first=not two, mdat_gen=(mlen, 60 + k), mdat2_gen=(mlen, 70 + k) if two else None,
            traks=[(False, True, [0, 7]), (False, k % 2 == 0, [] if two else list(range(n4))), (True, True, [] if two else list(range(n8)))],
            m2_entries={1: (list(range(n4)), False), 2: (list(range(0, n8)), True)} if two else None,
            meta=[("h",), ("i",), ("f", 16)], moofs=[])))
    return out


def core_layouts():
    out = []
    n = 0
    for mf in (True, False):
        for meta in METAS:
            n += 1
            traks = [[(False, True, [0, 33, 100])], [(True, True, [0, 299]), (False, False, [150])],
                     [(False, True, [7]), (True, False, [8, 9]), (False, True, [])]][n % 3]
            moofs = [[], [(True, 20, 0)], [(True, 20, 3), (True, 120, 0)], [(False, 0, 0), (True, 64, 8), (True, 1, 0)]][n % 4]
            big = [0, 1, 2, 4, 7, 8, 16, 32, 64, 128, 255, 0][n % 12]
            out.append(("core-%d" % n, base_layout(moov_first=mf, meta=meta, traks=traks, moofs=moofs, big=big,
                                                   udta_first=(n % 5 == 0), udta_extra=(13 if n % 3 == 1 else -1),
                                                   topfree=n % 4, mdat_gen=(300 + n, n))))
    # missing udta / meta / ilst
    for mf in (True, False):
        for udta, meta in ((0, []), (1, []), (2, [("h",)]), (2, []), (2, [("h",), ("f", 100)])):
            for big in (0, 3, 255):
                n += 1
                out.append(("new-%d" % n, base_layout(moov_first=mf, udta=udta, meta=meta, big=big, udta_first=(n % 2 == 0),
                                                      udta_extra=(5 if (udta and n % 3 == 0) else -1),
                                                      traks=[(n % 2 == 0, True, [0, 50]), (n % 2 == 1, False, [299, 300])],
                                                      moofs=[(True, 5, 0)] * (n % 3), topfree=n % 4)))
    # size-0 last atom (mdat to EOF is the common real-world form)
    out.append(("size0-mdat", base_layout(size0=True)))
    out.append(("size0-mdat-new", base_layout(size0=True, udta=1)))
    return out


def random_layout(rng, i):
    ntr = rng.choice([1, 1, 2, 3])
    mlen = rng.choice([64, 300, 1000])
    def entries():
        return [rng.choice([0, 1, mlen // 2, mlen - 1, mlen, rng.randrange(mlen)]) for _ in range(rng.choice([0, 1, 2, 5]))]
    tagmode = rng.choice([0, 1, 2, 3, 3, 3, 3])
    meta = rng.choice(METAS) if tagmode == 3 else ([("h",)] if tagmode == 2 and rng.random() < 0.7 else ([("f", 10)] if tagmode == 2 else []))
    return ("rnd-%d" % i, base_layout(
        moov_first=rng.random() < 0.5, udta={0: 0, 1: 1, 2: 2, 3: 2}[tagmode], udta_first=rng.random() < 0.3,
        udta_extra=rng.choice([-1, -1, 0, 21]), meta=meta, ilst=mk_ilst(rng.choice([-1, 0, 3, 700])),
        traks=[(rng.random() < 0.5, rng.random() < 0.7, entries()) for _ in range(ntr)],
        moofs=[(rng.choice(TF_FLAGS), rng.randrange(mlen), rng.choice([0, 0, 5])) for _ in range(rng.choice([0, 0, 1, 2, 3]))],
        mdat_gen=(mlen, i), big=rng.choice([0, 0, 1, 2, 4, 8, 16, 32, 64, 128, rng.randrange(256)]),
        topfree=rng.randrange(4), size0=rng.random() < 0.15))


def with_boundary_entries(l):
    """add to the first trak one entry at the start of the tag region and one inside ftyp, and (when the layout has moof atoms)
    one more moof whose tfhd base offset is the start of the tag region; resolve the entries / tfhd bases that are to point
    into the second mdat (m2_entries / m2_moofs); positions are found with the independent walker"""
    l2 = dict(l)
    base_tr = [list(es) for _, _, es in l["traks"]]
    base_mf = list(l["moofs"])
    m2e = l.get("m2_entries") or {}
    m2m = l.get("m2_moofs") or []
    for _ in range(5):
        d, base = py_build(l2)
        try:
            reg = CM.region_of(d)
        except W.Bad:
            reg = None
        extra = [4 - base] + ([reg[0] - base] if reg is not None else [])
        p2 = None
        if l.get("mdat2"):
            tops = [a for a in W.mp4_atoms(d) if a["name"] == b"mdat"]
            p2 = tops[1]["off"] + tops[1]["hdr"]
        tr = []
        for i, (c, s, _) in enumerate(l["traks"]):
            es = list(base_tr[i])
            if i in m2e and p2 is not None:
                ks, first = m2e[i]
                m2 = [p2 + k - base for k in ks]
                es = m2 + es if first else es + m2
            if i == 0:
                es = es + extra
            tr.append((c, s, es))
        mf = list(base_mf)
        tops = [a for a in W.mp4_atoms(d) if a["name"] == b"moof"]
        for j in (l.get("moof_self") or []):
            if j < len(tops) and j < len(mf):
                mf[j] = (mf[j][0], tops[j]["off"] - base, mf[j][2])
        if l.get("entry_at_first_moof") and tops and tr:
            c0, s0, es0 = tr[0]
            tr[0] = (c0, s0, es0 + [tops[0]["off"] - base])
        if p2 is not None:
            mf += [(fl, p2 + k - base, t) for fl, k, t in m2m]
        if base_mf and reg is not None:
            mf.append((1, reg[0] - base, 0))
        nxt = dict(l2, traks=tr, moofs=mf)
        if nxt == l2:
            break
        l2 = nxt
    return l2


def coq_layout(l):
    def b(x):
        return "true" if x else "false"
    def zl(xs):
        return "[" + ";".join("(%d)" % x for x in xs) + "]"
    meta = "[" + ";".join({"h": "MHdlr", "i": "MIlst"}.get(m[0]) or ("MFree %d" % m[1] if m[0] == "f" else "MOther %d" % m[1]) for m in l["meta"]) + "]"
    traks = "[" + ";".join("mkTrak %s %s %s" % (b(c), b(s), zl(es)) for c, s, es in l["traks"]) + "]"
    moofs = "[" + ";".join("mkMoof %d (%d) %d" % (int(f), r, t) for f, r, t in l["moofs"]) + "]"
    return "(mkLayout %s %d %s (%d) %s %s %s %s %s %d %d %s %s)" % (
        b(l["moov_first"]), l["udta"], b(l["udta_first"]), l["udta_extra"], meta, coq_bytes(l["ilst"]), traks, moofs,
        coq_bytes(l["mdat"]), l["big"], l["topfree"], b(l["size0"]), coq_bytes(l.get("mdat2", b"")))


def jlayout(l):
    d = dict(l)
    d["ilst"] = l["ilst"].hex()
    del d["mdat"]
    for key in ("mdat2", "m2_entries", "m2_moofs", "moof_self", "entry_at_first_moof"):      # already resolved into traks / moofs
        d.pop(key, None)
    d["mdat_gen"] = list(l["mdat_gen"])
    d["mdat2_gen"] = list(l["mdat2_gen"]) if l.get("mdat2_gen") else None
    d["meta"] = [list(m) for m in l["meta"]]
    def short(es):
        es = list(es)
        if len(es) > 64 and es == list(range(es[0], es[0] + len(es))):
            return ["seq", es[0], len(es)]
        return es
    d["traks"] = [[c, s, short(es)] for c, s, es in l["traks"]]
    d["moofs"] = [list(m) for m in l["moofs"]]
    return d


# ------------------------------------------------------------------ save sequences
from fam.engine import pad_callback

STEPS_A = [("set", 30, "default"), ("set", 3000, "zero"), ("same", None, "keep"), ("set", 2, "one"), ("clear", None, "default"),
           ("set", 400, "odd"), ("same", None, "default"), ("same", None, "default"), ("delete", None, None)]
STEPS_B = [("set", 1200, "keep"), ("set", 1, "default"), ("clear", None, "zero"), ("set", 77, "large"), ("set", 5, "zero"),
           ("delete", None, None), ("set", 9, "default")]
STEPS_BIG = [("set", 70000, "default"), ("set", 10, "default"), ("set", 200000, "zero"), ("clear", None, "zero")]


def apply_step(obj, step, rng):
    kind, n, mode = step
    if obj.tags is None:
        obj.add_tags()
    if kind == "set":
        obj.tags["\xa9nam"] = ["n" * n]
        if n % 3 == 0:
            obj.tags["\xa9ART"] = ["a" * (n // 2), "b"]
        if n % 7 == 0:
            obj.tags["trkn"] = [(1, 2)]
    elif kind == "clear":
        obj.tags.clear()


def canon_tags(t):
    if t is None:
        return None
    return sorted((k, repr(v)) for k, v in t.items())


def insertion_region(before):
    """(offset, 0): where __save_new puts the new atoms: data start of moov.udta, else of moov (independent reading)"""
    atoms = W.mp4_atoms(before)
    p = CM.first_path(atoms, (b"moov", b"udta")) or CM.first_path(atoms, (b"moov",))
    if p is None:
        return None
    a = p[-1]
    return a["off"] + a["hdr"], 0


def top_atom_at(atoms, o):
    for a in atoms:
        if a["off"] <= o < a["off"] + a["size"]:
            return a
    return None


def classify_structure(before, after):
    """which known defect class explains a structurally broken result (None if none)"""
    try:
        atoms = W.mp4_atoms(before)
    except W.Bad:
        return None
    for a in atoms:
        if before[a["off"]:a["off"] + 4] == b"\0\0\0\0" and a["name"] == b"moov" and after[a["off"]:a["off"] + 4] != b"\0\0\0\0":
            return "size0-parent"
    p = CM.first_path(atoms, CM.ILST_PATH)
    if p is not None:
        sib = p[-2]["children"]
        if sib.index(p[-1]) == 0 and len(sib) > 2 and sib[-1]["name"] == b"free":
            return "nonadjacent-free"
    return None


def oracle_step(ctx, info, before, after, exc, expect_tags):
    """the direct oracle on one save: returns True when the step satisfies the property"""
    def v(what, cls, **extra):
        ctx.violation("oracle", what, dict(info, **{"class": cls}, **extra))
        return False
    ctx.oracle_cases += 1
    try:
        w0 = W.mp4(before)
        atoms0 = W.mp4_atoms(before)
    except W.Bad as e:
        ctx.count("oracle:before-not-wellformed")
        return True
    if exc is not None:
        return v(WHAT_RAISE, "save-raises", exc=list(exc[:3]))
    try:
        w1 = W.mp4(after)
    except W.Bad as e:
        cls = classify_structure(before, after)
        if cls == "size0-parent":
            return v(WHAT_SIZE0, cls, walker=str(e)[:160])
        if cls == "nonadjacent-free":
            return v(WHAT_NONADJ, cls, walker=str(e)[:160])
        return v(WHAT_SIZES, "sizes", walker=str(e)[:160])
    ok = True
    reg = CM.region_of(before) or insertion_region(before)
    delta = len(after) - len(before)
    o0s, o1s = w0["extra"]["offsets"], w1["extra"]["offsets"]
    if [(k, i) for k, _, i, _ in o0s] != [(k, i) for k, _, i, _ in o1s]:
        return v(WHAT_TABLES, "tables", before=len(o0s), after=len(o1s))
    if reg is not None:
        off, old = reg
        first_moof = next((a["off"] for a in atoms0 if a["name"] == b"moof"), None)
        for (k, at0, i, o0), (_, at1, _, o1) in zip(o0s, o1s):
            later_moof = False
            if k == b"tfhd" and first_moof is not None:
                ta = top_atom_at(atoms0, at0)
                later_moof = ta is not None and ta["off"] != first_moof
            if o0 < off or (o0 == off and old > 0):
                ctx.count("oracle:entry-before-region")
                if o1 != o0:
                    ok = v(WHAT_BEFORE, "before-region", entry=[k.decode(), at0, i, o0, o1], region=[off, old], delta=delta)
            elif o0 >= off + old:
                ctx.count("oracle:entry-after-region")
                ta = top_atom_at(atoms0, o0)
                n = 0
                if ta is not None and ta["name"] not in (b"moov", b"moof"):
                    n = ta["off"] + ta["size"] - o0
                if o1 != o0 + delta or before[o0:o0 + n] != after[o1:o1 + n]:
                    if old == 0 and o0 == off:
                        ok = v(WHAT_INSERT, "insertion-point", entry=[k.decode(), at0, i, o0, o1], region=[off, old], delta=delta,
                               expected=o0 + delta, addressed_before=before[o0 + 4:o0 + 8].decode("latin-1"),
                               addressed_after=after[o1 + 4:o1 + 8].decode("latin-1"))
                    elif old > 0 and o0 == off + old:
                        ok = v(WHAT_END, "region-end", entry=[k.decode(), at0, i, o0, o1], region=[off, old], delta=delta,
                               expected=o0 + delta, addressed_before=before[o0 + 4:o0 + 8].decode("latin-1"),
                               addressed_after=after[o1 + 4:o1 + 8].decode("latin-1"))
                    elif later_moof:
                        ok = v(WHAT_MOOF, "second-moof-tfhd", entry=[k.decode(), at0, i, o0, o1], region=[off, old], delta=delta)
                    else:
                        ok = v(WHAT_MEDIA, "media", entry=[k.decode(), at0, i, o0, o1], region=[off, old], delta=delta,
                               expected=o0 + delta, media_before=before[o0:o0 + 8].hex(), media_after=after[o1:o1 + 8].hex())
            else:
                ctx.count("oracle:entry-inside-region")
    # free atoms inside meta that are not adjacent to ilst count as foreign for the walker, but which ones are adjacent
    # changes when the save moves the padding behind ilst: compare everything except those (they are still covered by the
    # tiling check above and by the byte-exact correspondence)
    def nofree(w):
        return dict(w, foreign=[(lab, b) for lab, b in w["foreign"] if lab != "moov/udta/meta/free"])
    msg = foreign_preserved(KINDS["MP4"], nofree(w0), nofree(w1))
    if msg:
        cls = classify_structure(before, after)
        if cls == "nonadjacent-free":
            ok = v(WHAT_NONADJ, cls, detail=msg[:160])
        else:
            ok = v(WHAT_FOREIGN, "foreign", detail=msg[:160])
    try:
        from mutagen.mp4 import MP4
        m2 = MP4(io.BytesIO(after))
        got = canon_tags(m2.tags)
    except Exception as e:
        got = ("LOADFAIL", type(e).__name__, str(e)[:80])
    if expect_tags is not None and got != expect_tags:
        ok = v(WHAT_LOAD, "load", got=repr(got)[:200], want=repr(expect_tags)[:200])
    return ok


def extra_oracle(ctx, info, step, before, after, exc, ilst, log):
    """two statements about the tag region itself, judged with the independent walker only:
    delete replaces ilst + its adjacent free atom by the 16 bytes of the empty structure (no padding left behind);
    the padding callback is called with (room left in the region, number of bytes behind the region)"""
    if exc is not None:
        return True
    try:
        reg = CM.region_of(before)
    except W.Bad:
        return True
    ok = True
    if step[0] == "delete" and reg is not None:
        if len(after) != len(before) - reg[1] + 16:
            ctx.violation("oracle", WHAT_DELPAD, dict(info, **{"class": "delete-padding"}, region=list(reg),
                                                      removed=len(before) - len(after), expected=reg[1] - 16))
            ok = False
    if step[0] != "delete" and log and ilst is not None:
        if reg is not None:
            want = (reg[1] - (len(ilst) + 8), len(before) - (reg[0] + reg[1]))
        else:
            ins = insertion_region(before)
            want = None if ins is None else (-(4 + len(HDLR) + len(ilst)), len(before) - ins[0])
        got = tuple(log[0][:2])
        if len(log) != 1 or (want is not None and got != want):
            ctx.violation("oracle", WHAT_CBARGS, dict(info, **{"class": "callback-args"}, got=list(got), want=list(want or ()), calls=len(log)))
            ok = False
    return ok


def run_sequence(ctx, name, layout_json, data0, steps, fresh, use_model=True):
    """apply the steps through mutagen (one live object, or a fresh object per save); oracle + correspondence per step"""
    from mutagen.mp4 import MP4
    import mutagen
    cur = data0
    obj = None
    done = []
    nontrivial = False
    for step in steps:
        done.append(list(step))
        info = {"runner": "c10.seq", "layout": name, "desc": layout_json, "steps": [list(s) for s in done], "fresh": fresh}
        try:
            if obj is None or fresh:
                obj = MP4(io.BytesIO(cur))
        except Exception as e:
            ctx.violation("oracle", WHAT_LOAD, dict(info, **{"class": "load"}, got=type(e).__name__))
            return nontrivial
        log = []
        b = io.BytesIO(cur)
        exc = None
        expect = None
        ilst = None
        had_tags = True
        try:
            if step[0] == "delete":
                had_tags = obj.tags is not None
                expect = [] if had_tags else None
                mode = "c0"
                ilst = CM.EMPTY_ILST
                obj.delete(b)
            else:
                apply_step(obj, step, ctx.rng)
                expect = canon_tags(obj.tags)
                ilst = CM.scratch_ilst(obj.tags)
                mode = CM.MODES[step[2]]
                obj.save(b, padding=pad_callback(step[2], log))
        except mutagen.MutagenError as e:
            exc = ("MutagenError", type(e).__name__, str(e)[:100])
        except Exception as e:
            exc = ("OTHER", type(e).__name__, str(e)[:100])
        after = b.getvalue()
        ctx.count("step:" + step[0])
        if len(after) != len(cur):
            nontrivial = True
            ctx.count("delta:" + ("grow" if len(after) > len(cur) else "shrink"))
        # ---- (D)
        if step[0] == "delete" and not had_tags:
            ok = after == cur
        else:
            ok = oracle_step(ctx, info, cur, after, exc, expect)
            ok = extra_oracle(ctx, info, step, cur, after, exc, ilst, log) and ok
        # ---- (R)
        if use_model and ctx.use_model and len(cur) <= CM.LIMIT and not (step[0] == "delete" and not had_tags):
            if exc is None:
                cut = CM.ilst_of(after)
                if cut is not None and ilst is not None and cut != ilst:
                    ctx.disagree("c10.ilst", "ilst cut out of the saved file differs from the scratch rendering of the same tags", dict(info))
                ilst = cut if cut is not None else ilst
            status, val, seen = CM.model_save(ctx, cur, ilst, mode)
            ctx.corr_cases += 1
            good = CM.compare(ctx, "c10 %s %r" % (name, step), status, val, after, exc, dict(info))
            if log and seen is not None and seen != tuple(log[0][:2]):
                ctx.disagree("fam.mp4", "padding callback arguments differ", dict(info, model=seen, impl=log[0][:2]))
            if exc is None and ok:
                CM.check_after(ctx, "c10 %s %r" % (name, step), after, dict(info))
        if exc is not None or not ok:
            break
        cur = after
    return nontrivial


def build_checked(ctx, name, l):
    d, base = py_build(l)
    if ctx.use_model:
        dm, bm = CM.model_build(ctx, l)
        ctx.corr_cases += 1
        ctx.count("corr:builder")
        if dm != d or bm != base:
            ctx.disagree("c10.builder", "model builder mp4_build and its Python twin differ on layout %s" % name,
                         {"layout": name, "desc": jlayout(l), "first_diff": CM.first_diff(dm, d), "model_len": len(dm), "py_len": len(d)})
        # the hypothesis of the theorems on this layout: mp4_wf (mp4_build l), judged by the model and by the Python walker
        r = ctx.model.call("mp4_wf", hx(d))
        try:
            W.mp4(d)
            pw = True
        except W.Bad:
            pw = False
        ctx.count("layout-wf:%s" % (r == "ok 1"))
        if (r == "ok 1") != pw:
            ctx.disagree("c10.builder", "model mp4_wf and the Python walker disagree on built layout %s" % name,
                         {"layout": name, "desc": jlayout(l), "model": r, "walker": pw})
    return d


def usable(d):
    try:
        W.mp4(d)
        from mutagen.mp4 import MP4
        MP4(io.BytesIO(d))
        return True
    except Exception:
        return False


def all_layouts(ctx, nrandom):
    ls = regression_layouts() + flag_layouts() + straddle_layouts() + insert_layouts() + tail_layouts() + long_layouts() + core_layouts() + [random_layout(ctx.rng, i) for i in range(nrandom)]
    return [(n, with_boundary_entries(l)) for n, l in ls]


def run_layouts(ctx, layouts, use_model=True, big=False):
    for name, l in layouts:
        d = build_checked(ctx, name, l) if use_model else py_build(l)[0]
        if not usable(d):
            ctx.count("layout:unusable")
            ctx.case(None)
            continue
        ctx.count("layout:" + name.split("-")[0])
        jl = jlayout(l)
        plan = ((STEPS_A, False), (STEPS_B, True)) + (((STEPS_BIG, False),) if big else ())
        um = use_model
        if name.startswith("long-"):
            plan = ((STEPS_LONG, False),) + (((STEPS_LONG, True),) if big else ())
            um = use_model and sum(len(es) for _, _, es in l["traks"]) <= MODEL_MAX_ENTRIES
            if use_model and not um:
                ctx.count("long:oracle-only")
        for steps, fresh in plan:
            nt = run_sequence(ctx, name, jl, d, steps, fresh, um)
            ctx.case((name, fresh, repr(jl)) if nt else None,
                     {"layout": name, "file_len": len(d), "fresh": fresh, "steps": len(steps)} if ctx.evaluations % 23 == 0 else None)


def run_samples(ctx, use_model=True):
    data_dir = os.path.join(common.REPO, "tests", "data")
    for fn in sorted(os.listdir(data_dir)):
        if not fn.lower().endswith((".m4a", ".m4b", ".mp4", ".3g2")):
            continue
        d = open(os.path.join(data_dir, fn), "rb").read()
        if not usable(d):
            ctx.count("sample:unusable")
            continue
        ctx.count("sample:used")
        for steps, fresh in ((STEPS_A, False), (STEPS_B, True)):
            nt = run_sequence(ctx, "sample:" + fn, {"sample": fn}, d, steps, fresh, use_model)
            ctx.case(("sample", fn, fresh) if nt else None)



# ------------------------------------------------------------------ malformed stream (correspondence only)
def run_malformed(ctx, n):
    """mostly-valid layouts with one structural damage: the model must raise the same exception class as mutagen, or
    write the same bytes (the oracle does not apply: the input is not well-formed)"""
    from mutagen.mp4 import MP4
    import mutagen
    rng = ctx.rng
    pool = core_layouts()
    for i in range(n):
        name, l = pool[rng.randrange(len(pool))]
        d = bytearray(py_build(with_boundary_entries(l))[0])
        kind = rng.choice(["truncate", "count", "size", "tfhdlen", "byte"])
        if kind == "truncate":
            del d[len(d) - rng.choice([1, 3, 8, 17, 40, 200]):]
        else:
            atoms = [a for a in W.mp4_flat(W.mp4_atoms(bytes(d)))]
            if kind == "count":
                tabs = [a for a in atoms if a["name"] in (b"stco", b"co64")]
                if not tabs:
                    continue
                a = rng.choice(tabs)
                d[a["off"] + 12:a["off"] + 16] = struct.pack(">I", rng.choice([0, 1, 7, 2 ** 31, 2 ** 32 - 1]))
            elif kind == "size":
                a = rng.choice(atoms)
                d[a["off"]:a["off"] + 4] = struct.pack(">I", rng.choice([0, 1, 2, 7, 8, a["size"] + 1, a["size"] - 1, 2 ** 32 - 1]) % 2 ** 32)
            elif kind == "tfhdlen":
                tf = [a for a in atoms if a["name"] == b"tfhd"]
                if not tf:
                    continue
                a = rng.choice(tf)
                d[a["off"] + 8:a["off"] + 12] = b"\0\0\0\1"
                d[a["off"]:a["off"] + 4] = struct.pack(">I", rng.choice([8, 12, 16, 20, 23]))
            else:
                k = rng.randrange(len(d))
                d[k] = rng.randrange(256)
        d = bytes(d)
        ctx.count("malformed:" + kind)
        try:
            obj = MP4(io.BytesIO(d))
            if obj.tags is None:
                obj.add_tags()
            obj.tags["\xa9nam"] = ["m" * rng.choice([1, 60, 900])]
            ilst = CM.scratch_ilst(obj.tags)
        except Exception:
            ctx.count("malformed:not-loadable")
            continue
        b = io.BytesIO(d)
        exc = None
        try:
            obj.save(b, padding=pad_callback("zero", []))
        except mutagen.MutagenError as e:
            exc = ("MutagenError", type(e).__name__, str(e)[:100])
        except Exception as e:
            exc = ("OTHER", type(e).__name__, str(e)[:100])
        status, val, seen = CM.model_save(ctx, d, ilst, "c0")
        ctx.corr_cases += 1
        ctx.count("malformed-outcome:" + ("ok" if exc is None else exc[1]))
        ctx.case(("malformed", kind, i))
        CM.compare(ctx, "c10 malformed %s on %s" % (kind, name), status, val, b.getvalue(), exc,
                   {"runner": "c10.malformed", "layout": name, "damage": kind, "file": d.hex() if len(d) < 1500 else "len:%d" % len(d)})

# ------------------------------------------------------------------ (V) vm_compute cross-check
def vm_crosscheck(ctx, n=24):
    rng = ctx.rng
    cases, keys = [], []
    pool = regression_layouts() + core_layouts()
    rng.shuffle(pool)
    for name, l in pool[:n]:
        l = dict(l, mdat=mdat_bytes(24, 1), mdat_gen=(24, 1), ilst=mk_ilst(rng.choice([-1, 0, 2])))
        l["traks"] = [(c, s, [e % 25 for e in es][:2]) for c, s, es in l["traks"]][:2]
        l["moofs"] = [(f, r % 25, t) for f, r, t in l["moofs"]][:2]
        l["meta"] = [(m[0], min(m[1], 24)) if len(m) > 1 else m for m in l["meta"]]
        new = mk_ilst(rng.choice([-1, 1, 40]))
        pad = rng.choice([0, 1, 9])
        cases.append("match mp4_save (mp4_build %s) %s (mp4_cb_const %d) with Ok d => (0, d) | Raise _ => (1, []) end" % (coq_layout(l), coq_bytes(new), pad))
        keys.append((name, l, new, pad))
    pre = ("From Coq Require Import ZArith List. Import ListNotations. Require Import Base.Py Model.Fam_mp4. Open Scope Z_scope.")
    res, log = vm_shard("c10", pre, cases)
    if res is None or len(res) != len(cases):
        ctx.disagree("c10.vm_shard", "vm_compute shard failed to run: %s" % (log,), {})
        return
    for (name, l, new, pad), r in zip(keys, res):
        m = re.match(r"\((\d+), \[(.*)\]\)$", r.replace("%Z", ""))
        ctx.vm_cases += 1
        if not m:
            ctx.disagree("c10.vm_shard", "cannot parse %r" % r[:100], {})
            return
        kernel = (int(m.group(1)), bytes(int(x) for x in m.group(2).split(";") if x.strip()))
        d, _ = CM.model_build(ctx, l)
        st, val, _ = CM.model_save(ctx, d, new, "c" + zs(pad))
        binary = (0, val) if st == "ok" else (1, b"")
        if kernel != binary:
            ctx.disagree("c10.vm_shard", "extracted binary and vm_compute differ on layout %s" % name, {"layout": name, "desc": jlayout(l)})
            return


# ------------------------------------------------------------------ check interface
def run(ctx):
    run_layouts(ctx, all_layouts(ctx, 120 if ctx.thorough else 24), big=ctx.thorough)
    run_samples(ctx)
    run_malformed(ctx, 600 if ctx.thorough else 120)
    # the shared edit-history engine on the MP4 samples, with the family correspondence module
    shared.shared_run(ctx, {"C10"}, 6 if ctx.thorough else 1, 6, kinds=["MP4"])
    vm_crosscheck(ctx, 40 if ctx.thorough else 24)


def search(ctx, broken):
    """a proof or the correspondence broke: larger search of the IMPLEMENTATION (oracle only) for a failing layout"""
    before = len(ctx.violations)
    ctx.use_model = False
    run_layouts(ctx, all_layouts(ctx, 300), use_model=False, big=True)
    run_samples(ctx, use_model=False)
    ctx.notes["search"] = "oracle-only run over regression + core + 300 random layouts (incl. 70 kB / 200 kB growth) and the samples found %d failing saves" % (
        len(ctx.violations) - before)


def layout_from_json(j):
    l = dict(j)
    l["ilst"] = bytes.fromhex(j["ilst"])
    l["meta"] = [tuple(m) for m in j["meta"]]
    l["traks"] = [(c, s, list(range(es[1], es[1] + es[2])) if es[:1] == ["seq"] else list(es)) for c, s, es in j["traks"]]
    l["moofs"] = [tuple(m) for m in j["moofs"]]
    l["mdat_gen"] = tuple(j["mdat_gen"])
    l["mdat"] = mdat_bytes(*l["mdat_gen"])
    l["mdat2_gen"] = tuple(j["mdat2_gen"]) if j.get("mdat2_gen") else None
    l["mdat2"] = mdat_bytes(*l["mdat2_gen"]) if l["mdat2_gen"] else b""
    return l


def replay(ctx, payload):
    d = payload.get("data", {})
    if payload.get("kind") != "failing-input" or d.get("runner") != "c10.seq":
        run(ctx)
        return bool(ctx.violations or ctx.disagreements)
    ctx.use_model = False
    desc = d["desc"]
    if "sample" in desc:
        data = open(os.path.join(common.REPO, "tests", "data", desc["sample"]), "rb").read()
    else:
        data = py_build(layout_from_json(desc))[0]
    before = len(ctx.violations)
    run_sequence(ctx, d["layout"], desc, data, [tuple(s) for s in d["steps"]], d["fresh"], use_model=False)
    return len(ctx.violations) > before


def coverage_extra(ctx):
    return {"layouts": {k[7:]: v for k, v in ctx.hist.items() if k.startswith("layout:")},
            "deltas": {k[6:]: v for k, v in ctx.hist.items() if k.startswith("delta:")},
            "families_with_theorem": ["mp4"]}
