"""C08 -- delete() removes the tags and nothing else (whole-file property; shared engine)"""
from props import _wholefile as W

PROP = "C08"
PROP_FILES = W.prop_files(PROP)
_m = W.make(PROP)
run, search, replay, coverage_extra = _m.run, _m.search, _m.replay, _m.coverage_extra
RULE = W.RULE
TRUSTED = ["hand-written family models coq/model/Fam_*.v (modelled, tied by byte-exact correspondence)",
           "independent walkers/validators/decoders harness/fam/walkers.py (direct oracle)"]
MANIFEST = {
    "text": 'full per family with a model (F_load (F_delete f) = no tags, F_delete idempotent, length accounting, foreign kept); partial overall: remaining families by the direct oracle (no tags on reload and under independent decoding, no leftover value bytes/padding/headers, second delete no-op, retag works)',
    "note": W.TB_NOTE,
    "technique": "Coq proofs over per-family byte-exact reference models (splice skeleton over py2v-generated resize_bytes) + extracted-model correspondence + independent-walker oracle on random edit histories",
}
if not PROP_FILES:
    MANIFEST = {"not_applicable": "no family theorem file coq/props/C08_*.v is built yet in this commit (direct oracle exists; claimed once a theorem exists)"}
