"""C06 -- I/O failures surface only as MutagenError; success means written.
Theorems: props/C06.v (exception conversion wrappers, ownership, fault-safety of the regenerated
resize family under every fault index / short-read budget).
Direct oracle: a fault at EVERY file-object call index and a short read at every byte budget (strided)
for load / growing save / shrinking save / delete of every kind and sample."""
import errno, io, copy, os
import mutagen
from common import zs, hx, unhx
from fam import kinds as KM, shared
from fam.kinds import KINDS
from fam.fileobjs import Faulty
from props.c11 import patched_buf

PROP = "C06"
PROP_FILES = ["props/C06.v"]
TRUSTED = [
    "modelled rather than verified: convert_error/loadfile wrappers (coq/model/IOWrap.v) and the faulty file object (Base.FileModel c_fault/c_short), tied by correspondence on the resize family",
    "format-level operations are explored by the direct oracle (every call index), not proved",
]
RULE = ("direct oracle: for every kind x sample x operation in {load, growing save, shrinking save, delete}: the undisturbed run is traced to get the "
        "number N of file-object calls and bytes read; then one run per fault index 0..N (sticky IOError from that call on) and per short-read byte budget "
        "(every budget up to 64, then a stride) is made; any exception other than MutagenError, a closed caller object, or a normal return whose file "
        "does not reload to the saved tags is a violation. correspondence: resize family under one-shot faults at every index vs the extracted model. "
        "non-trivial = a fault or short read actually struck; distinct by (kind, sample, operation, fault kind, index)")
MANIFEST = {
    "text": "partial: theorems for the conversion wrappers (any inner I/O error leaves load/save/delete as MutagenError; a caller-supplied object is never "
            "closed) and fault-safety of the regenerated resize family for every fault index and short-read budget (outcome is Ok, the injected I/O error or "
            "ValueError -- never anything else, never out of fuel); format-level load/save/delete by exhaustive fault enumeration at every call index",
    "note": "Not covered by theorem: the per-format operations (explored by the direct oracle at every call index, which is a search over the samples, not a proof). "
            "Faults are injected at file-object call granularity; errors inside C-level I/O of a real file are outside the model.",
    "technique": "Coq proof (wrapper algebra; induction over fuel for fault-safety of py2v-generated code) + exhaustive fault-index enumeration on every format operation",
}


def classify(fn):
    try:
        fn()
        return "ok"
    except mutagen.MutagenError:
        return "MutagenError"
    except Exception as e:
        import traceback
        tb = traceback.extract_tb(e.__traceback__)
        site = ""
        for fr in reversed(tb):
            if "/mutagen/" in fr.filename:
                site = "%s:%d" % (os.path.basename(fr.filename), fr.lineno)
                break
        return "EXC:%s@%s" % (type(e).__name__, site)


def budgets(total, dense, stride_n):
    s = set(range(0, min(total, dense) + 1))
    if total > dense:
        step = max(1, (total - dense) // stride_n)
        s |= set(range(dense, total + 1, step))
        s.add(total - 1)
    return sorted(s)


def attempts(ctx, kind, sample, tag, mk_op, data, dense, stride_n, max_idx=None):
    """mk_op(fileobj) -> callable performing the operation on that file object"""
    t = Faulty(io.BytesIO(data))
    base = classify(mk_op(t))
    n, nr = t.ops, t.dataread
    if base.startswith("EXC"):
        ctx.violation("oracle", "C06 %s %s: %s without any fault" % (kind.name, tag, base[4:]),
                      {"runner": "c06.fault", "kind": kind.name, "sample": sample, "op": tag, "fault": "none", "index": -1})
        return
    idxs = list(range(0, n + 1))
    if max_idx and len(idxs) > max_idx:
        step = len(idxs) / float(max_idx)
        idxs = sorted(set([idxs[int(i * step)] for i in range(max_idx)] + idxs[:40] + idxs[-10:]))
    for k, sticky in [(k, s) for k in idxs for s in (True, False)]:
        # the error the device reports: EIO for the persistent fault; for the single fault in turn ENOSPC (disk full), an
        # error without errno, EACCES, EIO -- the conversion must not depend on which
        err = errno.EIO if sticky else (errno.ENOSPC, None, errno.EACCES, errno.EIO)[k % 4]
        t = Faulty(io.BytesIO(data), fail_at=k, sticky=sticky, err=err)
        r = classify(mk_op(t))
        ctx.oracle_cases += 1
        ctx.count("fault:" + tag)
        ctx.case((kind.name, sample, tag, "io" if sticky else "io-once", k), {"kind": kind.name, "sample": sample, "op": tag, "fault_at": k, "of": n, "sticky": sticky, "result": r} if ctx.oracle_cases % 1999 == 1 else None)
        d = {"runner": "c06.fault", "kind": kind.name, "sample": sample, "op": tag, "fault": "io" if sticky else "io-once", "index": k, "observed": r}
        if r.startswith("EXC"):
            ctx.violation("oracle", "C06 %s %s: I/O error surfaced as %s" % (kind.name, tag, r[4:]), d)
        if t.closed:
            ctx.violation("oracle", "C06 %s %s: caller's file object closed" % (kind.name, tag), d)
        if r == "ok" and tag != "load":
            verify_complete(ctx, kind, tag, t.getvalue(), d)
    for b in budgets(nr, dense, stride_n):
        t = Faulty(io.BytesIO(data), stop_after=b)
        r = classify(mk_op(t))
        ctx.oracle_cases += 1
        ctx.count("short:" + tag)
        ctx.case((kind.name, sample, tag, "short", b))
        d = {"runner": "c06.fault", "kind": kind.name, "sample": sample, "op": tag, "fault": "short", "index": b, "observed": r}
        if r.startswith("EXC"):
            ctx.violation("oracle", "C06 %s %s: short read surfaced as %s" % (kind.name, tag, r[4:]), d)
        if t.closed:
            ctx.violation("oracle", "C06 %s %s: caller's file object closed" % (kind.name, tag), d)


_expect = {}
_D3_DONE = {}


def verify_complete(ctx, kind, tag, out, d):
    """a save/delete that returned normally must have written the complete new state"""
    key = (kind.name, d["sample"], tag)
    if key not in _expect:
        return
    exp = _expect[key]         # None is an expectation too: "no tags" after a delete
    try:
        got = KM.canon_mem(kind, kind.open(io.BytesIO(out)))
    except Exception as e:
        got = ("LOADFAIL", type(e).__name__)
    if kind.style == "ape" and got == []:
        got = None
    if kind.style == "id3" and exp == [] and got is None:
        got = []
    if got != exp:
        ctx.violation("oracle", "C06 %s %s: returned normally under a fault but the file does not hold the saved state" % (kind.name, tag), d)
    elif tag == "save-deleteid3" and (out[:4] != b"fLaC" or out[-128:-125] == b"TAG"):
        ctx.violation("oracle", "C06 %s %s: returned normally under a fault but an ID3 tag the save was asked to remove is still in the file" % (kind.name, tag), d)


def canon_after(kind, data, fn):
    b = io.BytesIO(data)
    fn(b)
    try:
        c = KM.canon_mem(kind, kind.open(io.BytesIO(b.getvalue())))
    except Exception:
        return None, b.getvalue()
    if kind.style == "ape" and c == []:
        c = None
    return c, b.getvalue()


def lyrics3_samples(kind):
    """an APEv2 tag in front of a Lyrics3v2 block and an ID3v1 tag (the third place the APEv2 tag search looks at): the size
    field of the Lyrics3v2 block is read and parsed on the way"""
    if kind.style != "ape":
        return []
    from fam import synth
    out = []
    for name, data in kind.samples():
        if name.startswith(("synth", "layout")):
            continue
        try:
            body = synth.ape_strip(data)
            fields = b"IND0000200" + b"LYR00011" + b"some lyrics"
            lyr = b"LYRICSBEGIN" + fields
            x = body + synth.ape_tag([(b"Title", b"LyricsThree"), (b"Artist", b"a")]) + lyr + (b"%06d" % len(lyr)) + b"LYRICS200" + synth.id3v1()
            out.append(("c06-ape+lyrics3v2+id3v1+" + name, x))
        except Exception:
            pass
        break
    return out


def format_oracle(ctx, dense, stride_n, max_idx, kinds=None, max_size=120000):
    from props.c19 import add_value
    for kname, kind in KINDS.items():
        if kinds and kname not in kinds:
            continue
        for sample, data in list(kind.samples()) + lyrics3_samples(kind):
            if len(data) > max_size:
                continue
            try:
                kind.open(io.BytesIO(data))
            except Exception:
                continue
            # load
            attempts(ctx, kind, sample, "load", lambda t: (lambda: kind.cls(t)), data, dense, stride_n, max_idx)
            # growing save (a fresh object per attempt: not every loaded object can be deep-copied, e.g. FLAC cue sheets)
            def mk_grow():
                o = kind.open(io.BytesIO(data))
                kind.ensure_tags(o)
                add_value(kind, o, 9000)
                return o
            try:
                exp, grown = canon_after(kind, data, lambda b: mk_grow().save(b))
            except Exception:
                ctx.count("fault:skipped-unsaveable")
                continue
            _expect[(kname, sample, "save-grow")] = exp
            attempts(ctx, kind, sample, "save-grow", lambda t: (lambda o=mk_grow(): o.save(t)), data, dense, stride_n, max_idx)
            # shrinking save (from the grown file)
            pk = {"padding": (lambda i: 0)} if kind.padding else {}

            def mk_shrink():
                o2 = kind.open(io.BytesIO(grown))
                add_value(kind, o2, 3)
                return o2
            try:
                exp2, _ = canon_after(kind, grown, lambda b: mk_shrink().save(b, **pk))
                _expect[(kname, sample, "save-shrink")] = exp2
                attempts(ctx, kind, sample, "save-shrink", lambda t: (lambda o=mk_shrink(): o.save(t, **pk)), grown, dense, stride_n, max_idx)
            except mutagen.MutagenError:
                pass
            # delete
            try:
                exp3, _ = canon_after(kind, grown, lambda b: kind.open(io.BytesIO(grown)).delete(b))
                if exp3 == []:
                    exp3 = None if kind.style in ("ape",) else exp3
                _expect[(kname, sample, "delete")] = exp3
                attempts(ctx, kind, sample, "delete", lambda t: (lambda: kind.open(io.BytesIO(grown)).delete(t)), grown, dense, stride_n, max_idx)
            except mutagen.MutagenError:
                pass
            # the module-level delete function of the format
            fn = kind.module_delete()
            if fn is not None:
                try:
                    exp4, _ = canon_after(kind, grown, lambda b: fn(b))
                    if exp4 == [] and kind.style in ("ape",):
                        exp4 = None
                    _expect[(kname, sample, "module-delete")] = exp4
                    attempts(ctx, kind, sample, "module-delete", lambda t: (lambda: fn(t)), grown, dense, stride_n, max_idx)
                except mutagen.MutagenError:
                    pass
            # FLAC only: save(deleteid3=True) on a stream wrapped in an ID3v2 and an ID3v1 tag -- a normal return means both are gone
            if kname == "FLAC" and data[:4] == b"fLaC" and not _D3_DONE.get(kinds is None):
                _D3_DONE[kinds is None] = True
                from fam import synth
                wrapped = synth.simple_id3() + data + synth.id3v1()

                def mk_d3():
                    o5 = kind.open(io.BytesIO(wrapped))
                    add_value(kind, o5, 300)
                    return o5
                try:
                    exp5, _ = canon_after(kind, wrapped, lambda b: mk_d3().save(b, deleteid3=True))
                    _expect[(kname, sample, "save-deleteid3")] = exp5
                    attempts(ctx, kind, sample, "save-deleteid3", lambda t: (lambda o=mk_d3(): o.save(t, deleteid3=True)), wrapped, dense, stride_n, max_idx)
                except mutagen.MutagenError:
                    pass

# ---------------------------------------------------------------- correspondence of the faulty file monad
def run_model(ctx, fn, data, args, buf, fault, short):
    r = ctx.model.call("util", fn, "0", "-", "0", zs(fault) if fault is not None else "-", zs(short) if short is not None else "-",
                       zs(buf), "0", hx(data), *[zs(a) for a in args])
    if r.startswith("error"):
        return r, None
    parts = r.split(" ")
    return " ".join(parts[:-2]), unhx(parts[-1].split("=", 1)[1])


class OneShot(Faulty):
    def _chk(self, name):
        i = self.ops
        self.ops += 1
        if self.fail_at != -1 and i == self.fail_at:
            raise IOError(5, "injected fault")


def correspondence(ctx, maxlen):
    import mutagen._util as U
    for buf in (1, 3):
        with patched_buf(U, buf):
            for n in range(0, maxlen + 1):
                data = bytes(range(1, n + 1))
                cases = [("resize_bytes", (old, new, off)) for off in range(0, n + 1) for old in range(0, n - off + 1) for new in range(0, old + 3) if new != old]
                cases += [("move_bytes", (d, s, c)) for d in range(0, n + 1) for s in range(0, n + 1) for c in range(1, n - max(d, s) + 1)]
                for fn, args in cases:
                    t = OneShot(io.BytesIO(data))
                    getattr(U, fn)(t, *args)
                    nops = t.ops
                    for k in list(range(nops + 1)):
                        t = OneShot(io.BytesIO(data), fail_at=k)
                        try:
                            getattr(U, fn)(t, *args); ri = "ok"
                        except OSError as e:
                            ri = "raise OSError:%s" % (e.errno or 0)
                        except ValueError:
                            ri = "raise ValueError"
                        rm, dm = run_model(ctx, fn, data, args, buf, k, None)
                        ctx.corr_cases += 1
                        ctx.count("corr:" + fn)
                        ctx.case((fn, n, args, buf, k))
                        if (ri, t.getvalue()) != (rm, dm) and len(ctx.disagreements) < 5:
                            ctx.disagree("c06.util", "%s%r buf=%d fault at %d: impl=%s model=%s" % (fn, args, buf, k, (ri, t.getvalue().hex()), (rm, dm.hex() if dm is not None else None)),
                                         {"fn": fn, "n": n, "args": list(args), "buf": buf, "fault": k})


def adif_multi_pce(n):
    """an ADIF header with n program config elements (own bit writer, ISO 13818-7), variable rate"""
    bits = []

    def put(v, w):
        bits.extend(((v >> (w - 1 - i)) & 1) for i in range(w))
    put(0, 1); put(0, 1); put(0, 1); put(1, 1); put(128000, 23); put(n - 1, 4)
    for k in range(n):
        put(k, 4); put(1, 2); put(4, 4)                       # tag, object type, sampling frequency index
        put(1, 4); put(0, 4); put(0, 4); put(0, 2); put(0, 3); put(0, 4)
        put(0, 1); put(0, 1); put(0, 1)                       # no mixdown elements
        put(1, 1); put(0, 4)                                  # one front element: a channel pair, tag 0
        while len(bits) % 8:
            bits.append(0)
        put(3, 8)
        for c in b"pce":
            put(c, 8)
    while len(bits) % 8:
        bits.append(0)
    by = bytes(int("".join(map(str, bits[i:i + 8])), 2) for i in range(0, len(bits), 8))
    return b"ADIF" + by + b"\x00" * 64


def opener_loads(ctx, dense, stride_n, max_idx):
    """every opener of fuzzing/fuzztools (formats without tag support included) loading its own samples under a fault at
    every call index and under every short-read budget"""
    from props import c04
    ops = c04.openers()
    extra = [("synth-adif-2pce.aac", adif_multi_pce(2)), ("synth-adif-3pce.aac", adif_multi_pce(3))]
    seen = set()
    for name, data in list(c04.seeds()) + extra:
        own = c04.own_opener(name, ops) if not name.startswith("synth-adif") else "AAC"
        if own is None or len(data) > 120000:
            continue
        ext = name.rsplit(".", 1)[-1]
        if (own, ext) in seen and not name.startswith("synth"):
            continue            # one sample per opener and extension
        seen.add((own, ext))
        try:
            ops[own](io.BytesIO(data))
        except Exception:
            continue

        class K:
            pass
        K.name = "opener:" + own
        attempts(ctx, K, name, "load", lambda t, own=own: (lambda: ops[own](t)), data, dense, stride_n, max_idx)


def run(ctx):
    if ctx.thorough:
        correspondence(ctx, 5)
        format_oracle(ctx, 4096, 400, None)
        opener_loads(ctx, 4096, 400, None)
    else:
        correspondence(ctx, 3)
        format_oracle(ctx, 48, 24, 150)
        opener_loads(ctx, 64, 24, 150)


def search(ctx, broken):
    before = len(ctx.violations)
    format_oracle(ctx, 256, 100, 600)
    opener_loads(ctx, 256, 100, 600)
    ctx.notes["search"] = "fault enumeration over all kinds/samples/operations found %d failing schedules" % (len(ctx.violations) - before)


def replay(ctx, payload):
    d = payload.get("data", {})
    if d.get("runner") == "c06.fault":
        format_oracle(ctx, 4096, 400, None, kinds={d["kind"]})
        return any(v["data"].get("sample") == d["sample"] and v["data"].get("op") == d["op"] and v["data"].get("fault") == d["fault"] for v in ctx.violations)
    run(ctx)
    return bool(ctx.violations or ctx.disagreements)
