"""C15 -- Ogg paging: packets in, same packets out, valid pages.

(R) correspondence of Model.Ogg / Model.Crc (extracted) with mutagen.ogg.OggPage: from_packets (page list field by
    field, rendered bytes, size, to_packets), write/parse on random and malformed pages, to_packets strict/lax,
    _from_packets_try_preserve (all relations of the new packet list to the old run, with the full paging oracle on the result), renumber / replace / find_last on synthesised multiplexed files; replace additionally over the
    full product (fewer, equal, more new pages) x (smaller, equal, larger rendered size) with pages of the stream after the run.
(D) direct oracle: only the public OggPage API, judged by an independent pure-Python Ogg page reader with its own
    bit-serial CRC (never mutagen's parser).
(T) direct oracle for the tool mutagen/_tools/moggsplit.py: multiplexed inputs rendered by the check's own page writer + CRC, the
    real tool run in-process in a scratch directory, every file it leaves judged by the check's own page reader.
(V) vm_compute shard: the extracted binary must agree with the kernel's evaluator.
"""
import io, os, sys, glob, signal, re
from common import zs, zp, hx, unhx, coq_bytes, vm_shard, REPO

PROP = "C15"
PROP_FILES = ["props/C15.v"]
TRUSTED = [
    "modelled rather than verified: the file object under OggPage.replace/renumber/find_last is a byte list with explicit "
    "positions; the effect of `resize_bytes; seek; write` is the splice C11 proves for resize_bytes (theorem "
    "C15_slot_is_resize_bytes links Model.Ogg.replace_slot to the regenerated resize_bytes on the file monad); tied to the "
    "implementation on BytesIO by the replace/renumber correspondence",
    "Model.Ogg / Model.Crc are hand-written models of mutagen/ogg.py OggPage, tied to /repo only by the correspondence run "
    "(no regeneration); struct.pack/unpack and bytes slicing semantics are part of the model",
    "mutagen/_tools/moggsplit.py is not modelled in Coq: direct oracle only (own page writer/reader, the real main() run in-process in "
    "/verif/.run, option parsing through the tool's own OptionParser); one output file per (input, serial), byte-identical to the "
    "concatenation of that input's pages of the serial, nothing else written but the playlist, playlist = exactly those files",
    "independent reference reader + bit-serial CRC-32 (poly 0x04C11DB7, MSB first, init 0) in harness/props/c15.py, "
    "validated on every run against pages written by libogg in tests/data/*.ogg|*.spx|*.opus|*.oga",
]
MANIFEST = {
    "text": "full: machine-checked theorems over Model.Ogg. Page codec: every page within the Ogg limits (struct ranges, version 0, <= 255 "
            "lacing values, canonical `complete`) renders, len = size <= 65307, CRC field correct, parses back to the same page and the "
            "unread rest. Packetisation, for every packet list, sequence number, default_size >= 255 and wiggle_room: from_packets "
            "terminates, strict to_packets gives back the packets (no bound on the input needed), sequence numbers consecutive, continued "
            "= not complete of the predecessor, position = -1 exactly on one-packet incomplete pages, no empty page; every page has <= 255 "
            "lacing values, renders and parses back equal under the explicit decidable precondition segments_bounded "
            "(len(ps) + (default_size - 29 + chunk_size + max(wiggle_room - 1, 0)) // 255 <= 255) -- without it the statement is false for "
            "the code as it is (the guard counts packets, not lacing values): refuted witnesses 240 small + 1 large packet, 256 empty "
            "packets, default_size 65025; below default_size 255 the loop provably never terminates. replace/renumber: renumber on a file "
            "of rendered well-formed pages renumbers exactly the pages of the serial; replace end to end (byte level C15_replace_spec, page "
            "level C15_replace_pages, by stream C15_replace_stream_view: other streams' pages byte-identical and in order, edited stream "
            "gapless from the first old page's number for fewer/equal/more new pages, first/continued on the first and last/complete on "
            "the last new page); one slot iteration is proved equal to the regenerated _util.resize_bytes + seek + write (C11). "
            "_from_packets_try_preserve, for every old page run that to_packets accepts: with the old packets' lengths the pages returned "
            "have the old layout page by page and reassemble to exactly the packets given (C15_try_preserve_same), otherwise the call is "
            "from_packets(packets, old_pages[0].sequence) (C15_try_preserve_fallback); in every case the packets come back "
            "(C15_try_preserve_roundtrip). moggsplit (tool, anchor file): no theorem; direct oracle on the real tool -- for every input file "
            "and every serial in it exactly one output file, byte-identical to that input's pages of the serial in order (packets, CRCs, "
            "sequence numbers, first/last flags are the stream's), no other file but the playlist, the playlist lists exactly those files",
    "note": "Model tied by correspondence (not regenerated). The model cannot exhibit: UnboundLocalError of `size` on an incomplete page "
            "without packets (returns 27); negative default_size (Python slices from the end); file-object faults during replace (C06/C19); "
            "find_last is modelled and corresponded but has no theorem. The replace theorems assume the pages between/after the old pages "
            "are well-formed rendered pages and that the prepared new pages render. "
            "Known finding: from_packets produces unrenderable pages (> 255 lacing values) for inputs outside segments_bounded.",
    "technique": "Coq proofs over a hand-written Gallina model (invariant on the accumulator page of the from_packets loop; lacing "
                 "encode/decode lemma; list-splice reasoning for replace) + correspondence through the extracted OCaml model + direct "
                 "oracle with an independent reader + vm_compute cross-check",
    "design_ref": "DESIGN.md section 5, C15; Appendix B Ogg",
}
RULE = ("packet lists: counts 0..300 x sizes on the lattice {0,1,254,255,256,509,510,511,k*255,4079,4080,4081,2047,2048,2049,65025,"
        "65307,65536,70000} x (default_size, wiggle_room) in {(4096,2048),(255,0),(256,1),(510,100),(1000,0),(10000,2048),(30000,5000),"
        "(65024,0),(65025,2048)}; mixes: many small then one large, runs of empty packets; pages: random fields incl. out-of-range and "
        "incomplete/continued combinations, malformed byte streams (truncation, bad magic/version, random lacing); "
        "_from_packets_try_preserve: old runs = from_packets over the size lattice x page parameters x start sequence, new packet lists in "
        "every relation to the old ones (identical lengths; same count and total, bytes redistributed by 1/2/50/254/255/256/all; same count "
        "other total; more / fewer packets; split or merged with the same total; empty), every relation reached on every run; moggsplit: inputs of 2-3 logical streams (grouped or scattered BOS pages, random "
        "interleaving, 3-6 packets each incl. empty / 255 / 256-byte packets and one continued over several pages, 1-5 segments per page; in one case of four one stream of 220-370 KiB in 45+ pages of 3-5 KiB) x "
        "{one input, two inputs with distinct serials, a byte-identical copy, an edited copy sharing all or some serials, three inputs sharing "
        "serials pairwise} x {--m3u or not} x {default, custom --pattern incl. a subdirectory} x --extension x stale outputs of an earlier "
        "run present or not; files: 2-3 serials "
        "interleaved, a run of one serial's pages replaced by fewer/equal/more pages; plus the full product (fewer, equal, more pages) x "
        "(smaller, EQUAL, larger rendered byte size, incl. +-1, +-255/256) on packet-aligned runs that are followed by more pages of the "
        "same serial with other serials' pages interleaved, every cell reached on every run. non-trivial = at least one page produced / "
        "parsed or a rejection; distinct by (sizes, parameters) resp. the rendered bytes")

SIZES = [0, 1, 254, 255, 256, 509, 510, 511, 765, 1020, 4079, 4080, 4081, 2047, 2048, 2049, 6127, 6128, 6129, 8160,
         65025, 65307, 65536, 70000]
SMALL = [0, 1, 1, 2, 17, 254, 255, 256]
PARAMS = [(4096, 2048), (255, 0), (256, 1), (510, 100), (1000, 0), (10000, 2048), (30000, 5000), (65024, 0), (65025, 2048)]
WHAT_LACING = "from_packets: page with more than 255 lacing values cannot be rendered"


def _ogg():
    import mutagen.ogg as O
    return O


# ---------------------------------------------------------------------------------------------------------
# independent reference: bit-serial CRC and page reader (no mutagen code)

def _crc_bitwise_byte(reg, byte):
    reg ^= byte << 24
    for _ in range(8):
        if reg & 0x80000000:
            reg = ((reg << 1) ^ 0x04C11DB7) & 0xFFFFFFFF
        else:
            reg = (reg << 1) & 0xFFFFFFFF
    return reg


_TABLE = [_crc_bitwise_byte(0, b) for b in range(256)]


def ref_crc(data):
    reg = 0
    for b in data:
        reg = ((reg << 8) & 0xFFFFFFFF) ^ _TABLE[(reg >> 24) ^ b]
    return reg


def ref_crc_slow(data):
    reg = 0
    for b in data:
        reg = _crc_bitwise_byte(reg, b)
    return reg


class RefError(Exception):
    pass


def ref_read_page(buf, off=0):
    """Ogg page at buf[off:] per RFC 3533 -> dict (incl. crc_ok and total length)."""
    if len(buf) - off < 27:
        raise RefError("short header")
    if buf[off:off + 4] != b"OggS":
        raise RefError("no capture pattern at %d" % off)
    nseg = buf[off + 26]
    lac = buf[off + 27:off + 27 + nseg]
    if len(lac) != nseg:
        raise RefError("short segment table")
    total = 27 + nseg + sum(lac)
    if len(buf) - off < total:
        raise RefError("short body")
    pos = off + 27 + nseg
    packets, cur = [], 0
    for v in lac:
        cur += v
        if v < 255:
            packets.append(bytes(buf[pos:pos + cur])); pos += cur; cur = 0
    complete = True
    if nseg and lac[-1] == 255:
        packets.append(bytes(buf[pos:pos + cur])); complete = False
    flags = buf[off + 5]
    stored = int.from_bytes(buf[off + 22:off + 26], "little")
    calc = ref_crc(bytes(buf[off:off + 22]) + b"\0\0\0\0" + bytes(buf[off + 26:off + total]))
    return {"version": buf[off + 4], "flags": flags, "continued": bool(flags & 1), "first": bool(flags & 2), "last": bool(flags & 4),
            "position": int.from_bytes(buf[off + 6:off + 14], "little", signed=True),
            "serial": int.from_bytes(buf[off + 14:off + 18], "little"),
            "sequence": int.from_bytes(buf[off + 18:off + 22], "little"),
            "crc_ok": stored == calc, "nseg": nseg, "packets": packets, "complete": complete, "total": total,
            "offset": off, "raw": bytes(buf[off:off + total])}


def ref_read_all(buf):
    out, off = [], 0
    while off < len(buf):
        p = ref_read_page(buf, off)
        out.append(p)
        off += p["total"]
    return out


def ref_packets(pages):
    """packets of one logical stream from reference pages (list of bytes; the last one possibly unfinished)."""
    out = []
    for p in pages:
        for i, d in enumerate(p["packets"]):
            if i == 0 and p["continued"] and out:
                out[-1] += d
            else:
                out.append(d)
    return out


# ---------------------------------------------------------------------------------------------------------
# protocol helpers

def page_fields(p):
    return (p.version, p._OggPage__type_flags, p.position, p.serial, p.sequence, bool(p.complete), [bytes(x) for x in p.packets])


def page_text(fields):
    v, fl, pos, ser, sq, c, pk = fields
    return ":".join([zs(v), zs(fl), zs(pos), zs(ser), zs(sq), "1" if c else "0", "/".join(hx(d) for d in pk)])


def parse_page_text(s):
    v, fl, pos, ser, sq, c, pk = s.split(":")
    return (zp(v), zp(fl), zp(pos), zp(ser), zp(sq), c == "1", [unhx(x) for x in pk.split("/")] if pk else [])


def split_list(s):
    assert s.startswith("[") and s.endswith("]"), s[:40]
    return s[1:-1].split(",") if len(s) > 2 else []


def pk_list(packets):
    return "[" + ",".join(hx(p) for p in packets) + "]"


def mk_page(O, fields):
    p = O.OggPage()
    p.version, p._OggPage__type_flags, p.position, p.serial, p.sequence, p.complete = fields[:6]
    p.packets = list(fields[6])
    return p


def exc_name(e):
    from mutagen import MutagenError
    import struct
    if isinstance(e, MutagenError):
        return "MutagenError"
    if isinstance(e, struct.error):
        return "struct.error"
    return type(e).__name__


class Timeout(Exception):
    pass


def with_timeout(seconds, fn):
    def h(sig, frm):
        raise Timeout()
    old = signal.signal(signal.SIGALRM, h)
    signal.setitimer(signal.ITIMER_REAL, seconds)
    try:
        return fn()
    finally:
        signal.setitimer(signal.ITIMER_REAL, 0)
        signal.signal(signal.SIGALRM, old)


def mk_packets(rng, sizes):
    """deterministic but non-uniform contents; each packet tagged by its index"""
    out = []
    for i, n in enumerate(sizes):
        if n <= 64:
            out.append(bytes(rng.randrange(256) for _ in range(n)))
        else:
            seedb = bytes([(i * 37 + 11) & 255, (i >> 8) & 255, rng.randrange(256), 0xA5 ^ (i & 255)])
            out.append((seedb * (n // 4 + 1))[:n])
    return out


def impl_from_packets(O, packets, seq, ds, wr):
    """-> ('ok', pages) | ('raise X', None) | ('hang', None); never called unguarded with default_size < 255"""
    try:
        if ds < 255:
            pages = with_timeout(0.25, lambda: O.OggPage.from_packets(list(packets), seq, ds, wr))
        else:
            pages = O.OggPage.from_packets(list(packets), seq, ds, wr)
        return "ok", pages
    except Timeout:
        return "hang", None
    except Exception as e:
        return "raise " + exc_name(e), None


def impl_write(p):
    try:
        return p.write()
    except Exception as e:
        return "!" + exc_name(e)


# ---------------------------------------------------------------------------------------------------------
# direct oracle on from_packets / to_packets / write / parse

def lacing_values(p):
    """what the Ogg format needs for these packets: number of lacing values"""
    n = 0
    for i, d in enumerate(p.packets):
        q, r = divmod(len(d), 255)
        n += q + 1
        if i == len(p.packets) - 1 and not p.complete and r == 0:
            n -= 1
    return n


def last_nonempty_index(p):
    """1-based index of the last non-empty packet of a page (0: none)"""
    return max([i + 1 for i, d in enumerate(p.packets) if d] or [0])


def segments_bounded(sizes, ds, wr):
    """Proofs.C15_from_packets.segments_bounded: zlen ps + bmax ds wr / 255 <= 255"""
    bmax = ds - 29 + (ds // 255) * 255 + max(wr - 1, 0)
    return len(sizes) + bmax // 255 <= 255


def classify(sizes, ds):
    """class of a (minimised) input on which from_packets builds a page with > 255 lacing values"""
    if sizes and max(sizes) == 0:
        return "empty-packets"            # empty packets are appended without any guard
    if len(sizes) == 1:
        return "huge-default-size"        # the page-size parameters admit more than 255 * 255 bytes of one packet on a page
    return "many-small-then-large"        # < 255 packets pass the packet-count guard, their lacing values sum above 255


def minimise(O, sizes, seq, ds, wr):
    """shrink a failing size list (a page with > 255 lacing values) greedily; keeps the class of the input"""
    def bad(sz):
        st, pages = impl_from_packets(O, [b"\x07" * s for s in sz], seq, ds, wr)
        return st == "ok" and any(lacing_values(p) > 255 for p in pages)
    cur = list(sizes)
    if not bad(cur):
        return cur
    changed = True
    while changed and len(cur) > 1:
        changed = False
        for chunk in (len(cur) // 2, len(cur) // 4, 8, 1):
            if chunk < 1:
                continue
            i = 0
            while i < len(cur) and len(cur) > 1:
                cand = cur[:i] + cur[i + chunk:]
                if cand and bad(cand):
                    cur = cand; changed = True
                else:
                    i += chunk
    return cur


def oracle_paging(ctx, O, sizes, packets, seq, ds, wr, st, pages, tag="lattice"):
    """the property statement on one input, judged with the reference reader.  Returns True when it holds."""
    ctx.oracle_cases += 1
    base = {"runner": "c15.paging", "sizes": sizes if len(sizes) <= 40 else None, "n": len(sizes), "seq": seq, "ds": ds, "wr": wr, "tag": tag}
    if len(sizes) > 40:
        base["sizes_rle"] = rle(sizes)
    if ds < 255:
        return True       # outside the parameter range of the property (chunk_size = 0): correspondence only
    if st != "ok":
        ctx.violation("oracle", "from_packets: failed on a valid packet list (%s)" % st, base)
        return False
    ok = True

    def bad(what, **extra):
        nonlocal ok
        ok = False
        d = dict(base); d.update(extra)
        ctx.violation("oracle", what, d)

    if not packets:
        if pages != []:
            bad("from_packets: pages produced for an empty packet list")
        return ok
    # round trip through the public API
    try:
        back = O.OggPage.to_packets(pages, strict=True)
        if back != packets:
            bad("to_packets(from_packets(ps)) differs from ps")
    except Exception as e:
        bad("to_packets(from_packets(ps)) raised %s" % exc_name(e))
    unrenderable = False
    refs = []
    for i, p in enumerate(pages):
        lv = lacing_values(p)
        try:
            data = p.write()
        except Exception as e:
            data = None
            if isinstance(e, ValueError) and lv > 255:
                unrenderable = True
            else:
                bad("write: page %d of from_packets raised %s" % (i, exc_name(e)))
        if lv > 255 and data is not None:
            bad("write: rendered a page with more than 255 lacing values")
        if data is None:
            refs.append(None)
            continue
        if len(data) != p.size:
            bad("size: len(write()) != size", page=i)
        try:
            r = ref_read_page(data)
        except RefError as e:
            bad("write: reference reader rejects the rendered page (%s)" % e, page=i)
            refs.append(None)
            continue
        refs.append(r)
        if r["total"] != len(data):
            bad("write: trailing bytes after the rendered page", page=i)
        if not r["crc_ok"]:
            bad("write: wrong CRC", page=i)
        if r["nseg"] > 255 or r["nseg"] != lv:
            bad("write: lacing value count differs from the format's", page=i)
        if (r["packets"], r["complete"], r["continued"], r["sequence"], r["serial"], r["position"], r["version"]) != \
                ([bytes(x) for x in p.packets], bool(p.complete), bool(p.continued), p.sequence, p.serial, p.position, p.version):
            bad("write: rendered page reads back differently (reference reader)", page=i)
        try:
            q = O.OggPage(io.BytesIO(data))
            if q != p or q.packets != p.packets or q.complete != p.complete or q.sequence != p.sequence:
                bad("parse: OggPage(write()) is not an equal page", page=i)
        except Exception as e:
            bad("parse: OggPage(write()) raised %s" % exc_name(e), page=i)
    if unrenderable:
        mini = minimise(O, sizes, seq, ds, wr) if len(sizes) <= 400 else sizes
        cls = classify(mini, ds)
        d = dict(base)
        # the shape of the known defect: the packet-count guard (< 255 packets when data is added) held on the
        # overflowing page, and the input is outside the precondition of theorem C15_pages_valid
        guard_held = all(last_nonempty_index(p) <= 254 for p in pages if lacing_values(p) > 255)
        d.update({"class": cls, "minimal_sizes_rle": rle(mini), "minimal_n": len(mini), "packet_guard_held": guard_held,
                  "inside_segments_bounded": segments_bounded(sizes, ds, wr)})
        ctx.violation("oracle", WHAT_LACING, d)
        ok = False
    # coherence of the page list
    for i, p in enumerate(pages):
        if p.sequence != seq + i:
            bad("from_packets: sequence numbers not consecutive", page=i); break
        if i and bool(p.continued) != (not pages[i - 1].complete):
            bad("from_packets: continued flag differs from predecessor's completeness", page=i); break
        if not p.packets:
            bad("from_packets: page without packets", page=i); break
        finishes_none = (len(p.packets) == 1 and not p.complete)
        if (p.position == -1) != finishes_none:
            bad("from_packets: position -1 not exactly on pages finishing no packet", page=i); break
    if pages and (pages[0].continued or not pages[-1].complete):
        bad("from_packets: first page continued or last page incomplete")
    # reference reassembly from the rendered bytes
    if all(r is not None for r in refs) and refs:
        if ref_packets(refs) != packets:
            bad("rendered pages do not reassemble to the packets (reference reader)")
    return ok


def rle(sizes):
    out = []
    for s in sizes:
        if out and out[-1][0] == s:
            out[-1][1] += 1
        else:
            out.append([s, 1])
    return out


def unrle(r):
    out = []
    for s, n in r:
        out += [s] * n
    return out


# ---------------------------------------------------------------------------------------------------------
# (R) correspondence: from_packets

def corr_paging(ctx, O, sizes, seq, ds, wr, tag, full_model=True):
    rng = ctx.rng
    packets = mk_packets(rng, sizes)
    st, pages = impl_from_packets(O, packets, seq, ds, wr)
    ctx.count("paging:" + tag)
    key = (tuple(rle(sizes)[:12]) if len(sizes) > 12 else tuple(sizes), len(sizes), seq, ds, wr)
    ctx.case(key if (st != "ok" or pages) else None,
             {"sizes": sizes[:8], "n": len(sizes), "ds": ds, "wr": wr, "pages": len(pages) if pages is not None else st} if ctx.evaluations % 97 == 0 else None)
    oracle_paging(ctx, O, sizes, packets, seq, ds, wr, st, pages, tag)
    if not full_model:
        return
    ctx.corr_cases += 1
    r = ctx.model.call("ogg_from_packets_q", zs(seq), zs(ds), zs(wr), pk_list(packets))
    case = {"runner": "c15.paging", "sizes": sizes if len(sizes) <= 40 else None, "sizes_rle": rle(sizes)[:40], "n": len(sizes), "seq": seq, "ds": ds, "wr": wr}

    def dis(what):
        if len(ctx.disagreements) < 6:
            ctx.disagree("c15.from_packets", what, case)

    if st == "hang":
        if r != "raise FUEL":
            dis("implementation does not terminate, model says %s" % r[:60])
        return
    if st != "ok":
        if r != st:
            dis("implementation %s, model %s" % (st, r[:60]))
        return
    if r != "ok %d" % len(pages):
        dis("page count: implementation %d, model %s" % (len(pages), r[:60]))
        return
    summ = split_list(ctx.model.call("ogg_last_summary")[3:])
    mine = [";".join([zs(p._OggPage__type_flags), zs(p.position), zs(p.serial), zs(p.sequence), "1" if p.complete else "0",
                      "/".join(str(len(d)) for d in p.packets)]) for p in pages]
    if summ != mine:
        i = next((i for i, (a, b) in enumerate(zip(summ, mine)) if a != b), -1)
        dis("page %d fields differ: implementation %s model %s" % (i, mine[i][:80], summ[i][:80]))
        return
    wm = split_list(ctx.model.call("ogg_last_write")[3:])
    for i, (p, w) in enumerate(zip(pages, wm)):
        data, size, lac = w.split(";")
        wi = impl_write(p)
        wi = hx(wi) if isinstance(wi, bytes) else wi
        if wi != data or zp(size) != p.size or zp(lac) != lacing_values(p):
            dis("page %d rendering differs: implementation %s.. size %d, model %s.. size %s lacing %s" % (i, wi[:60], p.size, data[:60], size, lac))
            return
    if pages:
        try:
            back = "ok " + pk_list(O.OggPage.to_packets(pages, strict=True))
        except Exception as e:
            back = "raise " + exc_name(e)
        bm = ctx.model.call("ogg_last_to_packets", "1")
        if back != bm:
            dis("to_packets(strict) differs: implementation %s model %s" % (back[:60], bm[:60]))


def paging_cases(ctx, budget_pairs, budget_random, budget_params, big):
    rng = ctx.rng
    cases = []
    for s in SIZES:
        if s < 60000:
            cases.append(([s], 4096, 2048, "single"))
    pairs = [(a, b) for a in SIZES for b in SIZES if a < 60000 and b < 60000]
    rng.shuffle(pairs)
    for a, b in pairs[:budget_pairs]:
        cases.append(([a, b], 4096, 2048, "pair"))
    for _ in range(budget_random):
        n = rng.choice([0, 1, 2, 3, 5, 50, 200, 216, 217, 239, 240, 254, 255, 256, 257, 300])
        kind = rng.randrange(4)
        if kind == 0:
            sz = [rng.choice(SMALL) for _ in range(n)]
        elif kind == 1:
            sz = [rng.choice([0, 1, 1, 2, 3]) for _ in range(n)] + [rng.choice([255, 4080, 4081, 6128, 8000, 8160])]
        elif kind == 2:
            sz = [0] * n + ([rng.choice(SMALL)] if rng.random() < 0.5 else [])
        else:
            sz = [rng.choice(SIZES[:20]) for _ in range(min(n, 12))]
        cases.append((sz, 4096, 2048, "random"))
    for ds, wr in PARAMS[1:]:
        for _ in range(budget_params):
            k = rng.choice([1, 2, 3, 6, 40, 260])
            top = 20 if ds < 60000 else len(SIZES)
            sz = [rng.choice(SIZES[:top] if k < 10 else SMALL) for _ in range(k)]
            cases.append((sz, ds, wr, "params"))
    # the documented boundary inputs
    cases.append(([1] * 240 + [8000], 4096, 2048, "boundary"))
    cases.append(([1] * 216 + [8000], 4096, 2048, "boundary"))
    cases.append(([0] * 300, 4096, 2048, "boundary"))
    cases.append(([0] * 255, 4096, 2048, "boundary"))
    cases.append(([0] * 256, 4096, 2048, "boundary"))
    cases.append(([65025], 65025, 2048, "boundary"))
    cases.append(([65024], 65024, 0, "boundary"))
    cases.append(([], 4096, 2048, "boundary"))
    for s in big:
        cases.append(([s], 4096, 2048, "big"))
    # default_size < 255: chunk_size = 0; terminates only when every non-empty packet is shorter than wiggle_room
    cases.append(([5, 0, 7], 100, 50, "tiny-default-size"))
    cases.append(([5, 60], 100, 50, "tiny-default-size"))
    cases.append(([300], 254, 0, "tiny-default-size"))
    cases.append(([3], 0, 10, "tiny-default-size"))
    return cases


def corr_pages(ctx, O, n):
    """write / size / parse of arbitrary pages (fields in and out of range), and parse of malformed bytes"""
    rng = ctx.rng
    for _ in range(n):
        npk = rng.choice([0, 1, 1, 2, 3, 5])
        pk = [bytes(rng.randrange(256) for _ in range(rng.choice([0, 1, 2, 254, 255, 256, 510, 511, 765]))) for _ in range(npk)]
        if rng.random() < 0.08:
            pk = [b"\x01"] * rng.choice([254, 255, 256]) + pk
        if rng.random() < 0.04:
            pk.append(b"\x02" * rng.choice([64770, 65025, 65026]))
        fields = (rng.choice([0, 0, 0, 1, 255, 256, -1]), rng.choice([0, 1, 2, 4, 5, 7, 255, 256, 0, 1]),
                  rng.choice([0, -1, 1, 2 ** 63 - 1, -2 ** 63, 2 ** 63, -2 ** 63 - 1, rng.randrange(-2 ** 63, 2 ** 63)]),
                  rng.choice([0, 1, 2 ** 32 - 1, 2 ** 32, -1, rng.randrange(2 ** 32)]),
                  rng.choice([0, 1, 2 ** 32 - 1, 2 ** 32, -1, rng.randrange(2 ** 32)]),
                  rng.random() < 0.6, pk)
        if npk == 0 and not fields[5]:
            fields = fields[:5] + (True,) + fields[6:]        # `size` raises UnboundLocalError there (not modelled)
        p = mk_page(O, fields)
        wi = impl_write(p)
        rm = ctx.model.call("ogg_page_write", page_text(fields))
        ctx.corr_cases += 1
        ctx.count("page:write")
        mine = ("ok " + hx(wi) if isinstance(wi, bytes) else "raise " + wi[1:]) + " size=%s lacing=%s" % (zs(p.size), zs(lacing_values(p)))
        ctx.case(("w", mine[:200]))
        if mine != rm:
            if len(ctx.disagreements) < 6:
                ctx.disagree("c15.page_write", "write differs: implementation %s model %s" % (mine[:90], rm[:90]), {"runner": "c15.page", "page": page_text(fields)[:400]})
            continue
        if isinstance(wi, bytes):
            oracle_rendered(ctx, O, p, wi)
            # parse the rendering, with a tail, truncated, and damaged
            variants = [wi, wi + b"OggS\x00tail", wi[:rng.randrange(len(wi) + 1)], wi[:27], wi[:26]]
            dmg = bytearray(wi)
            i = rng.choice([0, 3, 4, 5, 26, rng.randrange(len(wi))])
            dmg[i] = rng.randrange(256)
            variants.append(bytes(dmg))
            for v in variants:
                corr_parse(ctx, O, v)
    for v in (b"", b"O", b"OggS", b"OggS" + b"\0" * 23, b"OggS" + b"\0" * 22 + b"\x01", b"OggS" + b"\0" * 22 + b"\x01\xff",
              b"OggS" + b"\0" * 22 + b"\x02\xff\x00" + b"a" * 255, b"OggS" + b"\0" * 22 + b"\x02\xff\xff" + b"a" * 509):
        corr_parse(ctx, O, v)


def corr_parse(ctx, O, data):
    f = io.BytesIO(data)
    try:
        q = O.OggPage(f)
        mine = "ok %s rest=%d" % (page_text(page_fields(q)), len(data) - f.tell())
    except Exception as e:
        mine = "raise " + exc_name(e)
        q = None
    rm = ctx.model.call("ogg_page_parse", hx(data))
    ctx.corr_cases += 1
    ctx.count("page:parse-" + mine.split(" ")[0] + ("" if q else "-" + mine.split(" ")[1]))
    ctx.case(("p", data[:300]))
    if mine != rm and len(ctx.disagreements) < 6:
        ctx.disagree("c15.page_parse", "parse differs: implementation %s model %s" % (mine[:90], rm[:90]), {"runner": "c15.parse", "data": data.hex()[:2000]})
    # direct oracle for the parser: on data the reference reader accepts, the same fields must come out
    try:
        r = ref_read_page(data)
    except RefError:
        r = None
    if r is not None and r["version"] == 0:
        ctx.oracle_cases += 1
        if q is None:
            ctx.violation("oracle", "parse: valid page rejected", {"runner": "c15.parse", "data": data.hex()[:4000]})
        elif (q.packets, q.complete, q.continued, q.first, q.last, q.sequence, q.serial, q.position) != \
                (r["packets"], r["complete"], r["continued"], r["first"], r["last"], r["sequence"], r["serial"], r["position"]):
            ctx.violation("oracle", "parse: fields differ from the reference reader", {"runner": "c15.parse", "data": data.hex()[:4000]})


def oracle_rendered(ctx, O, p, data):
    """a page that renders: size, CRC, reference read-back"""
    ctx.oracle_cases += 1
    d = {"runner": "c15.page", "page": page_text(page_fields(p))[:2000]}
    if len(data) != p.size:
        ctx.violation("oracle", "size: len(write()) != size", d); return
    try:
        r = ref_read_page(data)
    except RefError as e:
        ctx.violation("oracle", "write: reference reader rejects the rendered page (%s)" % e, d); return
    if not r["crc_ok"] or r["total"] != len(data):
        ctx.violation("oracle", "write: wrong CRC", d); return
    canon = p.complete or (p.packets and len(p.packets[-1]) > 0 and len(p.packets[-1]) % 255 == 0)
    if canon and p.version == 0:
        if (r["packets"], r["complete"], r["continued"], r["first"], r["last"], r["sequence"], r["serial"], r["position"]) != \
                ([bytes(x) for x in p.packets], bool(p.complete), bool(p.continued), bool(p.first), bool(p.last),
                 p.sequence, p.serial, p.position):
            ctx.violation("oracle", "write: rendered page reads back differently (reference reader)", d)


def corr_to_packets(ctx, O, n):
    rng = ctx.rng
    for _ in range(n):
        npages = rng.choice([1, 1, 2, 3, 4])
        serial, seq = rng.choice([0, 7]), rng.choice([0, 5])
        pages = []
        for i in range(npages):
            pk = [bytes(rng.randrange(256) for _ in range(rng.choice([0, 1, 3, 255]))) for _ in range(rng.choice([0, 1, 1, 2, 3]))]
            fl = rng.choice([0, 0, 1, 1, 2, 4])
            ser = serial if rng.random() < 0.93 else serial + 1
            sq = seq + i if rng.random() < 0.93 else seq + i + 1
            pages.append((0, fl, 0, ser, sq, rng.random() < 0.7, pk))
        for strict in (False, True):
            objs = [mk_page(O, f) for f in pages]
            try:
                mine = "ok " + pk_list(O.OggPage.to_packets(objs, strict=strict))
            except Exception as e:
                mine = "raise " + exc_name(e)
            rm = ctx.model.call("ogg_to_packets", "1" if strict else "0", "[" + ",".join(page_text(f) for f in pages) + "]")
            ctx.corr_cases += 1
            ctx.count("to_packets:" + mine.split(" ")[0] + ("-strict" if strict else "-lax"))
            ctx.case(("tp", strict, repr(pages)[:300]))
            if mine != rm and len(ctx.disagreements) < 6:
                ctx.disagree("c15.to_packets", "to_packets(strict=%s) differs: implementation %s model %s" % (strict, mine[:80], rm[:80]),
                             {"runner": "c15.to_packets", "pages": [page_text(f) for f in pages]})
    for strict in (False, True):
        try:
            O.OggPage.to_packets([], strict=strict); mine = "ok"
        except Exception as e:
            mine = "raise " + exc_name(e)
        rm = ctx.model.call("ogg_to_packets", "1" if strict else "0", "[]")
        ctx.corr_cases += 1
        if mine != rm:
            ctx.disagree("c15.to_packets", "to_packets([]) differs: %s / %s" % (mine, rm), {"runner": "c15.to_packets", "pages": []})


PRESERVE_RELS = ("identical", "redistributed", "same-count-other-total", "more-packets", "fewer-packets", "split-merge-same-total", "empty")
PRESERVE_PARAMS = [(4096, 2048), (4096, 2048), (255, 0), (256, 1), (510, 100), (1000, 0), (10000, 2048)]
PRESERVE_SIZES = [0, 1, 2, 100, 150, 200, 254, 255, 256, 300, 509, 510, 511, 700, 765, 1020, 2047, 2048, 2049, 4079, 4080, 4081, 5000, 6128, 8160]


def preserve_new_sizes(rng, sizes, rel):
    """packet lengths of the new list in relation `rel` to the old lengths; None when the relation does not exist for `sizes`"""
    n = len(sizes)
    if rel == "identical":
        return list(sizes)
    if rel == "empty":
        return []
    if rel == "redistributed":
        # same count, same total, different distribution: d bytes move from packet i to packet j
        src = [i for i in range(n) if sizes[i] > 0]
        if n < 2 or not src:
            return None
        out = list(sizes)
        for _ in range(rng.choice([1, 1, 2])):
            src = [i for i in range(n) if out[i] > 0]
            i = rng.choice(src)
            j = rng.choice([k for k in range(n) if k != i])
            d = min(out[i], rng.choice([1, 1, 2, 50, 254, 255, 256, out[i], max(1, out[i] // 2)]))
            out[i] -= d; out[j] += d
        if out == list(sizes):
            i = src[0]; j = (i + 1) % n
            out[i] -= 1; out[j] += 1
        return out
    if rel == "same-count-other-total":
        out = list(sizes)
        i = rng.randrange(n)
        out[i] = max(0, out[i] + rng.choice([1, -1, 2, 255, -255, 256, 1000, -out[i]]))
        if out == list(sizes):
            out[i] += 1
        return out
    if rel == "more-packets":
        out = list(sizes)
        for _ in range(rng.choice([1, 1, 2, 4])):
            out.insert(rng.randrange(len(out) + 1), rng.choice([0, 0, 1, 255, 300]))
        return out
    if rel == "fewer-packets":
        if n < 2:
            return None
        out = list(sizes)
        for _ in range(rng.randrange(1, n)):
            del out[rng.randrange(len(out))]
        return out
    if rel == "split-merge-same-total":
        # the total is kept, the count is not: one packet cut in two, or two neighbours joined
        out = list(sizes)
        if n >= 2 and rng.random() < 0.5:
            i = rng.randrange(n - 1)
            out[i:i + 2] = [out[i] + out[i + 1]]
        else:
            i = rng.randrange(n)
            c = rng.choice([0, 1, out[i] // 2, min(out[i], 255), out[i]])
            out[i:i + 1] = [c, out[i] - c]
        return out
    raise ValueError(rel)


def try_preserve_case(ctx, O, case, corr=True):
    """one _from_packets_try_preserve input: old pages = from_packets(old packets of case['sizes'], seq, ds, wr) (positions scrambled),
    new packets of case['new_sizes'].  Correspondence with Model.Ogg.from_packets_try_preserve and the paging oracle on the result."""
    import random
    sizes, new_sizes, ds, wr, seq = case["sizes"], case["new_sizes"], case["ds"], case["wr"], case["seq"]
    prng = random.Random(case["pseed"])
    old_packets = mk_packets(prng, sizes)
    olds = O.OggPage.from_packets(list(old_packets), seq, ds, wr)
    if any(lacing_values(p) > 255 for p in olds):
        ctx.count("try_preserve:old-run-unrenderable-skipped")
        return True
    for p in olds:
        if p.position != -1 or prng.random() < 0.3:
            p.position = prng.choice([0, -1, 12345, 2 ** 40])
    new_packets = [bytes([0xE0 | (i & 15)]) + d[1:] if d else d for i, d in enumerate(mk_packets(prng, new_sizes))]
    sub = olds[1:] if (case.get("tail") and len(olds) > 1) else olds     # may start with a continued page (lax mode)
    old_fields = [page_fields(p) for p in sub]
    try:
        res = O.OggPage._from_packets_try_preserve(list(new_packets), sub)
        mine = "ok [" + ",".join(page_text(page_fields(p)) for p in res) + "]"
    except Exception as e:
        mine, res = "raise " + exc_name(e), None
    rel = case.get("rel", "?")
    ctx.count("try_preserve:" + rel + ("-tail" if sub is not olds else ""))
    ctx.case(("tpv", tuple(sizes), tuple(new_sizes), ds, wr, seq, len(sub)))
    d = dict(case); d["runner"] = "c15.try_preserve"
    if corr:
        rm = ctx.model.call("ogg_try_preserve", pk_list(new_packets), "[" + ",".join(page_text(f) for f in old_fields) + "]")
        ctx.corr_cases += 1
        if mine != rm and len(ctx.disagreements) < 6:
            ctx.disagree("c15.try_preserve", "differs (%s): implementation %s model %s" % (rel, mine[:80], rm[:80]), d)
    if sub is not olds:
        return True            # a run that starts inside a packet: outside the statement, correspondence only
    # ---- direct oracle: the paging statement for the preserving entry point
    ctx.oracle_cases += 1
    ok = True

    def bad(what, **extra):
        nonlocal ok
        if ok:
            dd = dict(d); dd.update(extra)
            ctx.violation("oracle", "try_preserve: " + what, dd)
        ok = False

    if res is None:
        bad("failed on a valid packet list / page run (%s)" % mine)
        return False
    if not new_packets:
        if res != []:
            bad("pages produced for an empty packet list")
        return ok
    try:
        back = O.OggPage.to_packets(res, strict=True)
        if back != new_packets:
            i = next((i for i, (a, b) in enumerate(zip(back, new_packets)) if a != b), min(len(back), len(new_packets)))
            bad("to_packets(result) differs from the packets given", packet=i, got_lengths=[len(x) for x in back][:20])
    except Exception as e:
        bad("to_packets(result) raised %s" % exc_name(e))
    refs = []
    for i, p in enumerate(res):
        try:
            data = p.write()
        except Exception as e:
            bad("page %d of the result cannot be rendered (%s)" % (i, exc_name(e))); break
        if len(data) != p.size:
            bad("size: len(write()) != size", page=i); break
        try:
            r = ref_read_page(data)
        except RefError as e:
            bad("reference reader rejects a rendered page (%s)" % e, page=i); break
        if r["total"] != len(data) or not r["crc_ok"] or r["nseg"] > 255 or r["nseg"] != lacing_values(p):
            bad("rendered page invalid (length / CRC / lacing values)", page=i); break
        if (r["packets"], r["complete"], r["continued"], r["sequence"], r["position"]) != \
                ([bytes(x) for x in p.packets], bool(p.complete), bool(p.continued), p.sequence, p.position):
            bad("rendered page reads back differently (reference reader)", page=i); break
        refs.append(r)
    if len(refs) == len(res):
        if ref_packets(refs) != new_packets:
            bad("rendered pages do not reassemble to the packets given (reference reader)")
        if [r["sequence"] for r in refs] != list(range(seq, seq + len(refs))):
            bad("sequence numbers not gapless from the first old page's number")
        if refs[0]["continued"] or not refs[-1]["complete"] or \
                any(refs[i]["continued"] != (not refs[i - 1]["complete"]) for i in range(1, len(refs))):
            bad("continued / complete flags incoherent")
        if any(not r["packets"] for r in refs):
            bad("page without packets")
    if list(new_sizes) == list(sizes):
        # the "preserve" promise: same page count, sizes, per-page packet lengths, flags and positions as the old run
        lay = lambda f: (f[1] & 1, f[2], f[4], f[5], [len(x) for x in f[6]])
        if len(res) != len(olds) or [p.size for p in res] != [p.size for p in olds] or \
                [lay(page_fields(p)) for p in res] != [lay(f) for f in old_fields]:
            bad("page layout not preserved for equal packet lengths")
    return ok


def corr_try_preserve(ctx, O, n):
    """n old runs over the size lattice, each against one new list per relation of PRESERVE_RELS"""
    rng = ctx.rng
    for it in range(n):
        kind = rng.randrange(5)
        if kind == 0:
            sizes = [rng.choice([100, 200, 150, 300])  for _ in range(rng.choice([2, 3]))]
        elif kind == 1:
            sizes = [rng.choice(SMALL) for _ in range(rng.choice([1, 2, 5, 12]))]
        else:
            sizes = [rng.choice(PRESERVE_SIZES) for _ in range(rng.choice([1, 2, 2, 3, 5]))]
        ds, wr = rng.choice(PRESERVE_PARAMS)
        seq = rng.choice([0, 0, 3, 2 ** 32 - 400])
        for rel in PRESERVE_RELS:
            new_sizes = preserve_new_sizes(rng, sizes, rel)
            if new_sizes is None:
                continue
            case = {"sizes": sizes, "new_sizes": new_sizes, "ds": ds, "wr": wr, "seq": seq, "rel": rel,
                    "pseed": rng.randrange(1 << 30), "tail": rel in ("identical", "redistributed") and rng.random() < 0.15}
            try_preserve_case(ctx, O, case)


# ---------------------------------------------------------------------------------------------------------
# multiplexed files: renumber, replace, find_last

def synth_file(ctx, O, spec=None):
    """2-3 logical streams, pages interleaved (per-stream order kept).  Returns (bytes, plan)"""
    rng = ctx.rng
    if spec is None:
        nstreams = rng.choice([1, 2, 2, 3])
        spec = {"streams": [], "order_seed": rng.randrange(1 << 30)}
        sers = rng.sample([0, 1, 2, 3, 0x7FFFFFFF, 0xFFFFFFFF, 77, 0x4F676753], nstreams)
        for s in range(nstreams):
            spec["streams"].append({"serial": sers[s],
                                    "start": rng.choice([0, 0, 5]),
                                    "sizes": [rng.choice([0, 1, 30, 255, 256, 600, 1300]) for _ in range(rng.choice([1, 2, 4, 6]))],
                                    "ds": rng.choice([255, 510, 600]), "wr": rng.choice([0, 100]),
                                    "eos": rng.random() < 0.7, "eos_mid": rng.random() < 0.5})
    import random
    streams = []
    for st in spec["streams"]:
        prng = random.Random(st["serial"] * 7 + len(st["sizes"]))
        packets = mk_packets(prng, st["sizes"])
        pages = O.OggPage.from_packets(packets, st["start"], st["ds"], st["wr"])
        for p in pages:
            p.serial = st["serial"]
            if p.position != -1:
                p.position = 1000 + p.sequence
        pages[0].first = True
        if st["eos"]:
            pages[-1].last = True
        elif st.get("eos_mid") and len(pages) >= 3:
            pages[len(pages) // 2].last = True      # end-of-stream page followed by more pages of the serial (find_last stops there)
        streams.append(pages)
    order = []
    orng = random.Random(spec["order_seed"])
    idx = [0] * len(streams)
    while any(idx[i] < len(streams[i]) for i in range(len(streams))):
        i = orng.choice([i for i in range(len(streams)) if idx[i] < len(streams[i])])
        order.append(streams[i][idx[i]]); idx[i] += 1
    data = b"".join(p.write() for p in order)
    return data, spec


def read_impl_pages(O, data):
    f = io.BytesIO(data)
    out = []
    while True:
        try:
            out.append(O.OggPage(f))
        except EOFError:
            break
    return out


def file_result(fn, f):
    try:
        fn()
        st = "ok -"
    except Exception as e:
        st = "raise " + exc_name(e)
    return st + " " + hx(f.getvalue())


def oracle_stream_file(ctx, before, after, serial, what, d, expect_packets=None, flag_class=None):
    """whole-file checks with the reference reader after renumber/replace on stream `serial`"""
    ctx.oracle_cases += 1
    try:
        pa = ref_read_all(after)
    except RefError as e:
        ctx.violation("oracle", "%s: file no longer parses (%s)" % (what, e), d); return False
    pb = ref_read_all(before)
    if any(not p["crc_ok"] for p in pa):
        ctx.violation("oracle", "%s: page with wrong CRC in the file" % what, d); return False
    if [p["raw"] for p in pa if p["serial"] != serial] != [p["raw"] for p in pb if p["serial"] != serial]:
        ctx.violation("oracle", "%s: pages of other streams changed" % what, d); return False
    mine_a = [p for p in pa if p["serial"] == serial]
    mine_b = [p for p in pb if p["serial"] == serial]
    seqs = [p["sequence"] for p in mine_a]
    if mine_b and mine_a:
        start = mine_b[0]["sequence"]
        if seqs != list(range(start, start + len(seqs))):
            ctx.violation("oracle", "%s: sequence numbers of the edited stream not gapless" % what, d); return False
        if [p["first"] for p in mine_a] != [mine_b[0]["first"]] + [False] * (len(mine_a) - 1) or \
                [p["last"] for p in mine_a] != [False] * (len(mine_a) - 1) + [mine_b[-1]["last"]]:
            if not any(p["first"] for p in mine_b[1:]) and not any(p["last"] for p in mine_b[:-1]):
                d = dict(d)
                if flag_class:
                    d["class"] = flag_class
                ctx.violation("oracle", "%s: first/last flags moved" % what, d); return False
    if expect_packets is not None and ref_packets(mine_a) != expect_packets:
        ctx.violation("oracle", "%s: packets of the edited stream are not old-before + new + old-after" % what, d); return False
    return True


def corr_files(ctx, O, n):
    for it in range(n):
        data, spec = synth_file(ctx, O)
        corr_one_file(ctx, O, data, spec)


def corr_one_file(ctx, O, data, spec, only=None, fixed=None):
    rng = ctx.rng
    pages = read_impl_pages(O, data)
    serials = sorted({p.serial for p in pages})
    # --- find_last
    for serial in (serials + [424242] if only in (None, "find_last") else []):
        for fin in (False, True):
            try:
                q = O.OggPage.find_last(io.BytesIO(data), serial, finishing=fin)
                mine = "ok " + ("none" if q is None else page_text(page_fields(q)))
            except Exception as e:
                mine = "raise " + exc_name(e)
            rm = ctx.model.call("ogg_find_last", hx(data), zs(serial), "1" if fin else "0")
            ctx.corr_cases += 1
            ctx.count("file:find_last")
            ctx.case(("fl", spec["order_seed"], serial, fin))
            if mine != rm and len(ctx.disagreements) < 6:
                ctx.disagree("c15.find_last", "differs: implementation %s model %s" % (mine[:80], rm[:80]), {"runner": "c15.file", "spec": spec, "op": "find_last", "serial": serial, "fin": fin})
            # oracle: last page of the stream (up to the first eos page) by the reference reader
            ctx.oracle_cases += 1
            refp = [p for p in ref_read_all(data) if p["serial"] == serial]
            cut = next((i for i, p in enumerate(refp) if p["last"]), len(refp) - 1)
            cand = [p for p in refp[:cut + 1] if (not fin or p["position"] != -1)]
            want = cand[-1]["raw"] if cand else None
            got = None if (mine.startswith("raise") or mine == "ok none") else q.write()
            if want is None and cut < len(refp) - 1 and fin:
                # pages of the serial after its end-of-stream page and no finishing page before it: find_last's fast path
                # (last page of the file) leaks through; outside C15's statement, left to the correspondence
                ctx.count("file:find_last-after-eos-quirk")
                continue
            if mine.startswith("raise") or got != want:
                ctx.violation("oracle", "find_last: not the last page of the stream", {"runner": "c15.file", "spec": spec, "op": "find_last", "serial": serial, "fin": fin})
    # --- renumber from some page boundary
    if only in (None, "renumber"):
        if only == "renumber":
            serial, k, start = fixed["serial"], fixed["k"], fixed["start"]
        else:
            serial = rng.choice(serials)
            k = rng.randrange(len(pages))
            start = rng.choice([0, 9, 2 ** 32 - 2])
        pos = pages[k].offset
        f = io.BytesIO(data); f.seek(pos)
        mine = file_result(lambda: O.OggPage.renumber(f, serial, start), f)
        rm = ctx.model.call("ogg_renumber", hx(data), zs(pos), zs(serial), zs(start))
        ctx.corr_cases += 1
        ctx.count("file:renumber")
        ctx.case(("rn", spec["order_seed"], serial, k, start))
        d = {"runner": "c15.file", "spec": spec, "op": "renumber", "serial": serial, "k": k, "start": start}
        if mine != rm and len(ctx.disagreements) < 6:
            ctx.disagree("c15.renumber", "differs: implementation %s.. model %s.." % (mine[:60], rm[:60]), d)
        if mine.startswith("ok"):
            after = f.getvalue()
            ctx.oracle_cases += 1
            try:
                pa, pb = ref_read_all(after), ref_read_all(data)
                want, num = [], start
                for p in pb:
                    if p["offset"] >= pos and p["serial"] == serial:
                        want.append(num); num += 1
                    else:
                        want.append(p["sequence"])
                okk = len(pa) == len(pb) and [p["sequence"] for p in pa] == want and all(p["crc_ok"] for p in pa) and \
                    all(a["raw"][:18] + a["raw"][26:] == b["raw"][:18] + b["raw"][26:] for a, b in zip(pa, pb))
            except RefError:
                okk = False
            if not okk:
                ctx.violation("oracle", "renumber: pages of the stream not renumbered consecutively / other bytes changed", d)
        elif start + len(pages) < 2 ** 32:
            ctx.violation("oracle", "renumber: failed on a well-formed file (%s)" % mine[:30], d)
    # --- replace a run of one stream's pages
    if only is None:
        for rel in ("fewer", "equal", "more", "any"):
            corr_replace(ctx, O, data, spec, pages, rel)


def replaced_size(O, old_pages, new_pages):
    """bytes the new pages occupy once replace() has copied `complete` of the last old page onto the last new page
    (own lacing arithmetic: 27 + lacing values + payload)"""
    total = 0
    for j, p in enumerate(new_pages):
        complete = bool(old_pages[-1].complete) if j == len(new_pages) - 1 else bool(p.complete)
        lac = 0
        for i, d in enumerate(p.packets):
            lac += len(d) // 255 + 1
            if i == len(p.packets) - 1 and not complete and len(d) % 255 == 0:
                lac -= 1
        total += 27 + lac + sum(len(d) for d in p.packets)
    return total


def packet_for(rest):
    """n with n + n // 255 + 1 == rest (payload + lacing values of one finished packet), or None (rest = 256 m, rest < 1)"""
    for k in (rest // 256, rest // 256 - 1):
        n = rest - 1 - k
        if k >= 0 and n >= 0 and n // 255 == k:
            return n
    return None


def page_layout(rng, t):
    """packet sizes of one complete page that renders to exactly t >= 28 bytes"""
    prefixes = [[], [0]]
    if rng.random() < 0.4:
        prefixes.insert(0, [rng.choice([0, 1, 17, 100, 254, 255, 256])])
    if rng.random() < 0.15:
        prefixes.insert(0, [rng.choice([0, 1, 17]), rng.choice([0, 1, 40])])
    for pre in prefixes:
        n = packet_for(t - 27 - sum(a + a // 255 + 1 for a in pre))
        if n is not None:
            return pre + [n]
    return None


def split_total(rng, total, n):
    """n page sizes >= 28 with the given sum"""
    spare = total - 28 * n
    cuts = sorted(rng.choice([0, spare, rng.randrange(spare + 1)]) for _ in range(n - 1))
    parts = [b - a for a, b in zip([0] + cuts, cuts + [spare])]
    return [28 + x for x in parts]


def product_spec(rng):
    """a multiplexed file whose first stream has many pages (so that runs with pages of the stream after them exist)"""
    streams = [{"serial": 0, "start": rng.choice([0, 0, 5, 2 ** 32 - 400]),
                "sizes": [rng.choice([100, 100, 200, 256, 600, 1300]) for _ in range(rng.choice([6, 7, 8]))],
                "ds": rng.choice([255, 510, 600]), "wr": rng.choice([0, 100]), "eos": rng.random() < 0.7, "eos_mid": False}]
    sers = rng.sample([1, 2, 3, 0x7FFFFFFF, 0xFFFFFFFF, 77, 0x4F676753], rng.choice([1, 1, 2]))
    streams[0]["serial"] = rng.choice([0, 5, 0xFFFFFFFE])
    for ser in sers:
        streams.append({"serial": ser, "start": rng.choice([0, 0, 5]),
                        "sizes": [rng.choice([0, 1, 30, 255, 256, 600, 1300]) for _ in range(rng.choice([2, 4, 6]))],
                        "ds": rng.choice([255, 510, 600]), "wr": rng.choice([0, 100]), "eos": rng.random() < 0.7, "eos_mid": rng.random() < 0.5})
    return {"streams": streams, "order_seed": rng.randrange(1 << 30)}


COUNT_RELS = ("fewer", "equal", "more")
BYTE_RELS = ("smaller", "equal", "larger")


def product_case(ctx, O, crel, brel):
    """a replace case in the cell (page-count relation, byte-size relation): a packet-aligned run of the first stream's pages that
    is followed by more pages of the same stream, with pages of other streams after the start of the run.
    -> (data, spec, pages, fixed) or None"""
    rng = ctx.rng
    for attempt in range(60):
        data, spec = synth_file(ctx, O, product_spec(rng))
        pages = read_impl_pages(O, data)
        serial = spec["streams"][0]["serial"]
        mine_idx = [i for i, p in enumerate(pages) if p.serial == serial]
        runs = [(a, b) for a in range(len(mine_idx)) for b in range(a + 1, len(mine_idx))      # b < len: pages of the stream follow
                if not pages[mine_idx[a]].continued and pages[mine_idx[b - 1]].complete
                and (crel != "fewer" or b - a >= 2)
                and any(p.serial != serial for p in pages[mine_idx[a] + 1:])]
        if not runs:
            continue
        a, b = rng.choice(runs)
        nold = b - a
        total = sum(pages[i].size for i in mine_idx[a:b])
        nnew = {"fewer": rng.randrange(1, nold) if nold > 1 else 1, "equal": nold, "more": nold + rng.choice([1, 1, 2, 3])}[crel]
        lo = 28 * nnew
        if brel == "equal":
            target = total
        elif brel == "smaller":
            if total - 1 < lo:
                continue
            target = max(lo, rng.choice([total - 1, total - 1, total - 2, total - 255, total - 256, rng.randrange(lo, total)]))
        else:
            target = rng.choice([total + 1, total + 1, total + 2, total + 255, total + 256, total + rng.randrange(1, 3000)])
        if target < lo:
            continue
        fixed = {"serial": serial, "a": a, "b": b, "nnew": nnew, "pseed": rng.randrange(1 << 30), "chain": False, "cell": [crel, brel]}
        # one packet over nnew pages of 255 payload bytes: 283 (nnew - 1) + 28 + r bytes
        r = target - 283 * (nnew - 1) - 28
        if nnew > 1 and 1 <= r <= 254 and rng.random() < 0.5:
            fixed["chain_n"] = 255 * (nnew - 1) + r
            return data, spec, pages, fixed
        layout = [page_layout(rng, t) for t in split_total(rng, target, nnew)]
        if any(l is None for l in layout):
            continue
        fixed["layout"] = layout
        return data, spec, pages, fixed
    return None


def corr_replace_product(ctx, O, reps):
    """the full product old/new page-count relation x byte-size relation, `reps` cases per cell"""
    for rep in range(reps):
        for crel in COUNT_RELS:
            for brel in BYTE_RELS:
                c = product_case(ctx, O, crel, brel)
                if c is None:
                    ctx.count("file:replace-product-unreachable")
                    continue
                data, spec, pages, fixed = c
                corr_replace(ctx, O, data, spec, pages, "product", fixed)


def corr_replace(ctx, O, data, spec, pages, rel, fixed=None):
    import random
    rng = ctx.rng
    serials = sorted({p.serial for p in pages})
    if fixed is None:
        serial = rng.choice(serials)
        mine_idx = [i for i, p in enumerate(pages) if p.serial == serial]
        # packet-aligned runs preferred (first page not continued, last page complete)
        runs = [(a, b) for a in range(len(mine_idx)) for b in range(a + 1, len(mine_idx) + 1)]
        aligned = [(a, b) for a, b in runs if not pages[mine_idx[a]].continued and pages[mine_idx[b - 1]].complete]
        a, b = rng.choice(aligned if (aligned and rng.random() < 0.8) else runs)
        nold = b - a
        if rel == "fewer":
            nnew = rng.randrange(1, nold) if nold > 1 else 1
        elif rel == "equal":
            nnew = nold
        elif rel == "more":
            nnew = nold + rng.choice([1, 2, 5])
        else:
            nnew = rng.choice([1, 2, 3])
        fixed = {"serial": serial, "a": a, "b": b, "nnew": nnew, "pseed": rng.randrange(1 << 30), "chain": rng.random() < 0.35}
    serial, a, b, nnew = fixed["serial"], fixed["a"], fixed["b"], fixed["nnew"]
    mine_idx = [i for i, p in enumerate(pages) if p.serial == serial]
    old_pages = [pages[i] for i in mine_idx[a:b]]
    # nnew pages: one packet per page of > 255 bytes with default_size 255 would split; build pages directly from packets
    prng = random.Random(fixed["pseed"])
    if fixed.get("layout") is not None:
        # explicit layout (page-count x byte-size product): packet sizes per new page, every page complete
        new_packets, new_pages = [], []
        for j, sizes in enumerate(fixed["layout"]):
            pks = [bytes([0xC0 | ((3 * j + i) & 15)]) * n for i, n in enumerate(sizes)]
            p = O.OggPage(); p.packets = list(pks); p.position = 5000 + j
            new_pages.append(p); new_packets += pks
        nnew = len(new_pages)
    elif fixed.get("chain_n") is not None:
        # one packet of chain_n bytes spread over the new pages by from_packets (product with continued pages inside the new run)
        new_packets = [bytes([0xD0 | (fixed["pseed"] & 15)]) * fixed["chain_n"]]
        new_pages = O.OggPage.from_packets(list(new_packets), 0, 255, 0)
        nnew = len(new_pages)
    elif fixed.get("chain"):
        # one packet spread over nnew pages by from_packets (continued / incomplete pages inside the new run)
        new_packets = [bytes([0xD0 | (fixed["pseed"] & 15)]) * ((nnew - 1) * 255 + prng.choice([1, 100, 254]))]
        new_pages = O.OggPage.from_packets(list(new_packets), 0, 255, 0)
        nnew = len(new_pages)
    else:
        new_packets = [bytes([0xC0 | (j & 15)]) * prng.choice([1, 40, 200, 254]) for j in range(nnew)]
        new_pages = []
        for j, pk in enumerate(new_packets):
            p = O.OggPage(); p.packets = [pk]; p.position = 5000 + j
            new_pages.append(p)
    new_fields = [page_fields(p) for p in new_pages]
    old_bytes, new_bytes = sum(p.size for p in old_pages), replaced_size(O, old_pages, new_pages)
    f = io.BytesIO(data)
    mine = file_result(lambda: O.OggPage.replace(f, old_pages, new_pages), f)
    rm = ctx.model.call("ogg_replace", hx(data),
                        "[" + ",".join("%s@%s" % (zs(p.offset), page_text(page_fields(p))) for p in old_pages) + "]",
                        "[" + ",".join(page_text(x) for x in new_fields) + "]")
    ctx.corr_cases += 1
    relname = "fewer" if nnew < len(old_pages) else ("equal" if nnew == len(old_pages) else "more")
    ctx.count("file:replace-" + relname)
    brel = "smaller" if new_bytes < old_bytes else ("equal" if new_bytes == old_bytes else "larger")
    after_run = sum(1 for p in pages if p.serial == serial and p.offset > old_pages[-1].offset)
    foreign_after = sum(1 for p in pages if p.serial != serial and p.offset > old_pages[0].offset)
    ctx.count("file:replace-pages-%s-bytes-%s" % (relname, brel))
    if after_run and foreign_after:
        ctx.count("file:replace-pages-%s-bytes-%s+tail+foreign" % (relname, brel))
    if fixed.get("cell") and fixed["cell"] != [relname, brel]:
        ctx.count("file:replace-product-mislabelled")
    ctx.case(("rp", spec["order_seed"], serial, a, b, nnew, fixed["pseed"]))
    d = {"runner": "c15.file", "spec": spec, "op": "replace", "fixed": fixed}
    if mine != rm and len(ctx.disagreements) < 6:
        ctx.disagree("c15.replace", "differs (%s new pages): implementation %s.. model %s.." % (relname, mine[:60], rm[:60]), d)
    if not mine.startswith("ok"):
        ctx.violation("oracle", "replace: failed on a well-formed file (%s)" % mine[:30], d)
        return False
    expect = None
    if not old_pages[0].continued and old_pages[-1].complete:
        refb = [p for p in ref_read_all(data) if p["serial"] == serial]
        expect = ref_packets(refb[:a]) + new_packets + ref_packets(refb[b:])
    # shapes in which an earlier replace() copied the flags of ONE page onto two pages (fixed in /repo; kept as regression cases)
    flag_class = None
    if len(old_pages) == 1 and nnew > 1 and (old_pages[0].first or old_pages[0].last):
        flag_class = "one-old-page-many-new"
    elif nnew == 1 and len(old_pages) > 1 and old_pages[0].first:
        flag_class = "many-old-pages-one-new"
    if flag_class:
        ctx.count("file:replace-flags-" + flag_class)
    return oracle_stream_file(ctx, data, f.getvalue(), serial, "replace", d, expect, flag_class)


# ---------------------------------------------------------------------------------------------------------
# (D) the moggsplit tool (mutagen/_tools/moggsplit.py): inputs rendered by the check's own page writer, outputs judged by its
#     own page reader

def ref_write_page(flags, position, serial, sequence, lacing, body):
    """an Ogg page per RFC 3533 from its header fields, lacing values and body (own CRC; no mutagen code)"""
    assert len(lacing) <= 255 and sum(lacing) == len(body)
    head = b"OggS\0" + bytes([flags]) + position.to_bytes(8, "little", signed=True) + serial.to_bytes(4, "little") + \
        sequence.to_bytes(4, "little")
    tail = bytes([len(lacing)]) + bytes(lacing) + body
    return head + ref_crc(head + b"\0\0\0\0" + tail).to_bytes(4, "little") + tail


def ref_stream_pages(serial, packets, nseg_max, eos=True):
    """pages of one logical stream: the lacing values of all packets cut into pages of at most nseg_max segments (a cut after a
    255 segment continues the packet on the next page); numbered 0,1,2,..., first flag on the first, last flag on the last"""
    segs = []
    for pk in packets:
        q, r = divmod(len(pk), 255)
        chunks = [pk[i * 255:(i + 1) * 255] for i in range(q)] + [pk[q * 255:]]
        segs += [(len(c), c) for c in chunks]
    pages, prev255, done = [], False, 0
    groups = [segs[i:i + nseg_max] for i in range(0, len(segs), nseg_max)] or [[]]
    for i, g in enumerate(groups):
        flags = (1 if prev255 else 0) | (2 if i == 0 else 0) | (4 if (eos and i == len(groups) - 1) else 0)
        finished = sum(1 for n, _ in g if n < 255)
        done += finished
        pages.append(ref_write_page(flags, (done * 1000 + serial % 7) if finished else -1, serial, i, [n for n, _ in g], b"".join(c for _, c in g)))
        prev255 = bool(g) and g[-1][0] == 255
    return pages


_CYCLE = bytes(range(256))


def moggsplit_input(inp):
    """bytes of one multiplexed input from its spec: {'name', 'salt', 'grouped', 'order_seed', 'streams': [{'serial', 'sizes', 'nseg'}]}"""
    import random
    streams = []
    for st in inp["streams"]:
        prng = random.Random(st["serial"] * 13 + inp["salt"])
        pk = [bytes([(st["serial"] + 31 * i + inp["salt"]) & 255]) + bytes(prng.randrange(256) for _ in range(min(n, 24) - 1)) +
              (_CYCLE * (n // 256 + 2))[(i * 7) & 255:][:max(0, n - 24)] if n else b"" for i, n in enumerate(st["sizes"])]
        streams.append(ref_stream_pages(st["serial"], pk, st["nseg"], st.get("eos", True)))
    orng = random.Random(inp["order_seed"])
    idx = [0] * len(streams)
    order = []
    if inp["grouped"]:
        # as in a real multiplexed link: all beginning-of-stream pages first
        for i in range(len(streams)):
            order.append(streams[i][0]); idx[i] = 1
    while any(idx[i] < len(streams[i]) for i in range(len(streams))):
        i = orng.choice([i for i in range(len(streams)) if idx[i] < len(streams[i])])
        order.append(streams[i][idx[i]]); idx[i] += 1
    return b"".join(order)


MOGG_PATTERNS = [None, "out_%(base)s_%(stream)d.%(ext)s", "sub/%(stream)d-%(base)s.%(ext)s", "%(base)s.%(stream)d"]
MOGG_SCENARIOS = ("one-input", "two-inputs-distinct-serials", "two-inputs-shared-serial-copy", "two-inputs-shared-serial-edited",
                  "three-inputs-mixed")


def moggsplit_spec(rng, scenario, m3u, pattern, ext, large=False):
    def large_stream(serial):
        # 220-370 KiB in 45+ pages of 3-5 KiB: far more than any I/O buffer of the output file, so flushed data exists on disk
        # long before the stream's later pages arrive
        sizes = [rng.choice([3800, 4080, 4100, 4335, 5000]) for _ in range(rng.choice([60, 70, 76]))]
        return {"serial": serial, "sizes": sizes, "nseg": rng.choice([12, 16, 20]), "eos": True}

    def stream(serial, big):
        sizes = [rng.choice([0, 1, 30, 254, 255, 256, 510, 700]) for _ in range(rng.choice([3, 4, 6]))]
        if big:
            sizes[rng.randrange(len(sizes))] = rng.choice([600, 1020, 1500])       # a packet continued over several pages
        return {"serial": serial, "sizes": sizes, "nseg": rng.choice([1, 2, 2, 3, 5]), "eos": rng.random() < 0.8}

    def inp(name, serials, salt):
        sts = [stream(ser, i == 0 or rng.random() < 0.5) for i, ser in enumerate(serials)]
        return {"name": name, "salt": salt, "grouped": rng.random() < 0.75, "order_seed": rng.randrange(1 << 30), "streams": sts}

    pool = rng.sample([0, 1, 2, 7, 0x1111, 0x7FFFFFFF, 0x80000000, 0xFFFFFFFF, 1002429366, 77], 7)
    n1 = rng.choice([2, 2, 3])
    a = inp("alpha.ogg", pool[:n1], 1)
    if large:
        j = rng.randrange(len(a["streams"]))
        a["streams"][j] = large_stream(a["streams"][j]["serial"])
    if scenario == "one-input":
        inputs = [a]
    elif scenario == "two-inputs-distinct-serials":
        inputs = [a, inp("beta.oga", pool[3:3 + rng.choice([1, 2, 3])], 2)]
    elif scenario == "two-inputs-shared-serial-copy":
        b = dict(a); b["name"] = "copy of alpha.ogg"
        inputs = [a, b]
    elif scenario == "two-inputs-shared-serial-edited":
        # same serials (all or some of them), other packets, other interleaving
        inputs = [a, inp("beta.ogg", pool[:rng.choice([1, n1])] + ([pool[5]] if rng.random() < 0.5 else []), 2)]
    else:
        inputs = [a, inp("beta.ogg", [pool[0], pool[4]], 2), inp("gamma.ogg", [pool[4], pool[1], pool[6]], 3)]
    return {"scenario": scenario, "m3u": m3u, "pattern": pattern, "ext": ext, "stale": rng.random() < 0.4, "inputs": inputs}


def moggsplit_case(ctx, spec):
    """run the real tool on the inputs of `spec` in a scratch directory and judge every file it leaves behind"""
    import shutil, contextlib, importlib, common
    ctx.oracle_cases += 1
    ctx.count("moggsplit:" + spec["scenario"] + ("+m3u" if spec["m3u"] else "") + ("+pattern" if spec["pattern"] else ""))
    if any(sum(st["sizes"]) > 200000 for inp in spec["inputs"] for st in inp["streams"]):
        ctx.count("moggsplit:with-stream-over-200KiB")
    ctx.case(("mogg", repr(spec)))
    d = {"runner": "c15.moggsplit", "spec": spec}
    root = os.path.join(common.VERIF, ".run", "c15_moggsplit_%d" % os.getpid())
    shutil.rmtree(root, ignore_errors=True)
    os.makedirs(os.path.join(root, "in"))
    os.makedirs(os.path.join(root, "out", "sub"))
    blobs = {}
    for inp in spec["inputs"]:
        blobs[inp["name"]] = moggsplit_input(inp)
        with open(os.path.join(root, "in", inp["name"]), "wb") as f:
            f.write(blobs[inp["name"]])
    # what must be there: per input and serial one file with exactly that stream's pages, per input one playlist if asked
    pattern = spec["pattern"] or "%(base)s-%(stream)d.%(ext)s"
    ext = spec["ext"] or "ogg"
    expect, playlists = {}, {}
    for inp in spec["inputs"]:
        base = os.path.splitext(inp["name"])[0]
        names = []
        for pg in ref_read_all(blobs[inp["name"]]):
            name = pattern % {"base": base, "stream": pg["serial"], "ext": ext}
            if name not in names:
                names.append(name)
                assert name not in expect, "harness: pattern collision"
                expect[name] = b""
            expect[name] += pg["raw"]
        if spec["m3u"]:
            playlists[base + ".m3u"] = names
    if spec.get("stale"):
        # output of an earlier run lying around (longer than the new one): the tool writes its files afresh
        for name in list(sorted(expect))[:2] + list(sorted(playlists))[:1]:
            with open(os.path.join(root, "out", name), "wb") as f:
                f.write(b"OggS stale output of an earlier run\r\n" * 400)
    argv = ["moggsplit"]
    if spec["m3u"]:
        argv.append("--m3u")
    if spec["pattern"]:
        argv += ["--pattern", spec["pattern"]]
    if spec["ext"]:
        argv += ["--extension", spec["ext"]]
    argv += [os.path.join("..", "in", inp["name"]) for inp in spec["inputs"]]
    tool = importlib.import_module("mutagen._tools.moggsplit")
    cwd = os.getcwd()
    status = "ok"
    try:
        os.chdir(os.path.join(root, "out"))
        sink = io.StringIO()
        with contextlib.redirect_stdout(sink), contextlib.redirect_stderr(sink):
            try:
                rc = tool.main(list(argv))
                if rc:
                    status = "exit %r" % (rc,)
            except SystemExit as e:
                if e.code:
                    status = "exit %r" % (e.code,)
            except Exception as e:
                status = "raise " + exc_name(e)
    finally:
        os.chdir(cwd)
    ok = True

    def bad(what, **extra):
        nonlocal ok
        if ok:
            dd = dict(d); dd.update(extra)
            ctx.violation("oracle", "moggsplit: " + what, dd)
        ok = False

    try:
        if status != "ok":
            bad("the tool failed on well-formed multiplexed input (%s)" % status)
            return False
        found = {}
        for dp, dn, fn in os.walk(os.path.join(root, "out")):
            for n in fn:
                full = os.path.join(dp, n)
                with open(full, "rb") as f:
                    found[os.path.relpath(full, os.path.join(root, "out"))] = f.read()
        for inp in spec["inputs"]:
            with open(os.path.join(root, "in", inp["name"]), "rb") as f:
                if f.read() != blobs[inp["name"]]:
                    bad("an input file was modified", file=inp["name"])
        for name in sorted(expect):
            if name not in found:
                bad("no output file for a logical stream of an input", file=name)
                continue
            if found[name] != expect[name]:
                try:
                    got = ref_read_all(found[name])
                    desc = {"pages": len(got), "serials": sorted({g["serial"] for g in got}), "sequence": [g["sequence"] for g in got][:24],
                            "first_flags": [i for i, g in enumerate(got) if g["first"]][:8], "crc_ok": all(g["crc_ok"] for g in got)}
                except RefError as e:
                    desc = {"unreadable": str(e)}
                want = ref_read_all(expect[name])
                bad("output file is not the concatenation of that input's pages of the serial", file=name, got=desc,
                    want={"pages": len(want), "sequence": [g["sequence"] for g in want][:24]})
        for name in sorted(found):
            if name not in expect and name not in playlists:
                bad("unexpected file written", file=name)
        for name, names in sorted(playlists.items()):
            if name not in found:
                bad("playlist missing", file=name)
                continue
            lines = found[name].decode("utf-8", "replace").splitlines()
            if sorted(lines) != sorted(names):
                bad("playlist does not list exactly the files written for the input", file=name, lines=lines[:12])
        if not spec["m3u"] and any(n.endswith(".m3u") for n in found):
            bad("playlist written without --m3u")
        return ok
    finally:
        shutil.rmtree(root, ignore_errors=True)


def oracle_moggsplit(ctx, reps):
    """every scenario x (--m3u or not) x (default / custom --pattern), `reps` times"""
    rng = ctx.rng
    # the reference writer itself: its pages read back (reference reader) and are accepted by libogg-validated CRC code
    probe = ref_stream_pages(5, [b"a" * 600, b"", b"b" * 255, b"c"], 2)
    back = [ref_read_page(p) for p in probe]
    if not all(r["crc_ok"] and r["total"] == len(p) for r, p in zip(back, probe)) or ref_packets(back) != [b"a" * 600, b"", b"b" * 255, b"c"] \
            or [r["sequence"] for r in back] != list(range(len(back))) or not any(r["continued"] for r in back):
        ctx.disagree("c15.ref_writer", "reference page writer and reference page reader disagree", {})
        return
    for rep in range(reps):
        for si, scenario in enumerate(MOGG_SCENARIOS):
            for k, (m3u, custom) in enumerate([(False, False), (False, True), (True, False), (True, True)]):
                pattern = rng.choice(MOGG_PATTERNS[1:]) if custom else None
                ext = rng.choice([None, None, "oga", "x"])
                large = (k == (si + rep) % 4)          # one case in four carries a stream of > 200 KiB next to the small ones
                moggsplit_case(ctx, moggsplit_spec(rng, scenario, m3u, pattern, ext, large))


# ---------------------------------------------------------------------------------------------------------

def crc_against_libogg(ctx):
    """the reference CRC/reader must accept every page of the libogg-written test files"""
    files = sorted(sum((glob.glob(os.path.join(REPO, "tests", "data", pat)) for pat in ("*.ogg", "*.spx", "*.opus", "*.oga", "*.ogv")), []))
    npages = 0
    for fn in files:
        buf = open(fn, "rb").read()
        off = 0
        while off + 27 <= len(buf) and buf[off:off + 4] == b"OggS":
            try:
                p = ref_read_page(buf, off)
            except RefError:
                break
            npages += 1
            if not p["crc_ok"]:
                ctx.disagree("c15.ref_crc", "reference CRC rejects a page of %s at %d" % (os.path.basename(fn), off), {})
                return
            if npages <= 12:
                if ref_crc_slow(p["raw"][:22] + b"\0\0\0\0" + p["raw"][26:]) != int.from_bytes(p["raw"][22:26], "little"):
                    ctx.disagree("c15.ref_crc", "bit-serial reference CRC differs from table CRC", {})
                    return
                r = ctx.model.call("ogg_crc", hx(p["raw"][:22] + b"\0\0\0\0" + p["raw"][26:]))
                ctx.corr_cases += 1
                if r != "ok " + zs(int.from_bytes(p["raw"][22:26], "little")):
                    ctx.disagree("c15.model_crc", "Model.Crc differs from libogg's checksum on %s at %d: %s" % (os.path.basename(fn), off, r), {})
                    return
            off += p["total"]
    ctx.notes["libogg_pages_crc_checked"] = npages
    ctx.count("ref:libogg-pages", npages)
    if npages < 20:
        ctx.disagree("c15.ref_crc", "too few libogg pages found to validate the reference CRC (%d)" % npages, {})


def vm_crosscheck(ctx):
    rng = ctx.rng
    cases, keys = [], []

    def cz(l):
        return "[" + ";".join(coq_bytes(x).replace("%Z", "") for x in l) + "]"
    for _ in range(28):
        sizes = [rng.choice([0, 1, 2, 254, 255, 256, 300, 511]) for _ in range(rng.choice([0, 1, 2, 3, 5]))]
        packets = mk_packets(rng, sizes)
        ds, wr = rng.choice([(255, 0), (256, 1), (510, 100), (100, 300)])
        seq = rng.choice([0, 3])
        cases.append("match from_packets %d %d %s %d with Ok l => (0, map (fun p => (p_flags p, p_position p, p_sequence p, p_complete p, map (@zlen Z) (p_packets p), "
                     "match page_write p with Ok bs => bs | Raise _ => [] end)) l) | Raise _ => (1, []) end" % (ds, wr, cz(packets), seq))
        keys.append(("fp", packets, seq, ds, wr))
    for _ in range(12):
        n = rng.choice([0, 1, 5, 27, 40])
        data = bytes(rng.randrange(256) for _ in range(n))
        cases.append("ogg_crc %s" % coq_bytes(data))
        keys.append(("crc", data))
    pre = ("From Coq Require Import ZArith List. Import ListNotations. Require Import Base.Py Model.Crc Model.Ogg. Open Scope Z_scope.")
    res, log = vm_shard("c15", pre, cases)
    if res is None or len(res) != len(cases):
        ctx.disagree("c15.vm_shard", "vm_compute shard failed to run: %s" % (log,), {})
        return
    for key, r in zip(keys, res):
        ctx.vm_cases += 1
        r = r.replace("%Z", "")
        if key[0] == "crc":
            want = ctx.model.call("ogg_crc", hx(key[1]))
            if want != "ok " + zs(int(r)):
                ctx.disagree("c15.vm_shard", "ogg_crc: extracted %s vm_compute %s" % (want, r), {}); return
            if int(r) != ref_crc(key[1]):
                ctx.disagree("c15.vm_shard", "ogg_crc: vm_compute differs from the reference CRC", {}); return
            continue
        _, packets, seq, ds, wr = key
        rm = ctx.model.call("ogg_from_packets_q", zs(seq), zs(ds), zs(wr), pk_list(packets))
        if r.startswith("(1,"):
            if not rm.startswith("raise"):
                ctx.disagree("c15.vm_shard", "from_packets: vm_compute raises, binary %s" % rm, {}); return
            continue
        summ = split_list(ctx.model.call("ogg_last_summary")[3:])
        wm = split_list(ctx.model.call("ogg_last_write")[3:])
        # parse "(0, [(fl, pos, seq, bool, [lens], [bytes]); ...])"
        body = r[r.index("[") + 1:r.rindex("]")].strip() if "[" in r else ""
        tuples = re.findall(r"\((-?\d+), (-?\d+), (-?\d+), (true|false), \[([^\]]*)\], \[([^\]]*)\]\)", r)
        mine = []
        for fl, pos, sq, c, lens, bs in tuples:
            lens = [x.strip() for x in lens.split(";") if x.strip()]
            bts = bytes(int(x) for x in bs.split(";") if x.strip())
            mine.append((";".join([zs(int(fl)), zs(int(pos)), "0", zs(int(sq)), "1" if c == "true" else "0", "/".join(lens)]), hx(bts)))
        if [m[0] for m in mine] != summ or [m[1] for m in mine] != [w.split(";")[0] for w in wm]:
            ctx.disagree("c15.vm_shard", "from_packets: extracted binary and vm_compute differ on %r" % ((len(packets), seq, ds, wr),), {})
            return


# ---------------------------------------------------------------------------------------------------------

def run(ctx):
    O = _ogg()
    crc_against_libogg(ctx)
    if ctx.thorough:
        cases = paging_cases(ctx, 500, 700, 30, [65025, 65307, 65536, 70000])
        npages, ntp, npres, nfiles, nprod = 1500, 2000, 700, 220, 40
    else:
        cases = paging_cases(ctx, 60, 60, 4, [65307, 70000])
        npages, ntp, npres, nfiles, nprod = 90, 150, 60, 14, 3
    big_budget = 8 if ctx.thorough else 3
    for sizes, ds, wr, tag in cases:
        total = sum(sizes)
        full = True
        if total > 100000 or (total > 60000 and tag != "big" and tag != "boundary"):
            if big_budget > 0:
                big_budget -= 1
            else:
                full = False            # oracle only: the extracted model is slow on long byte lists
        corr_paging(ctx, O, sizes, ctx.rng.choice([0, 0, 3, 2 ** 32 - 400]), ds, wr, tag, full)
    corr_pages(ctx, O, npages)
    corr_to_packets(ctx, O, ntp)
    corr_try_preserve(ctx, O, npres)
    ctx.notes["try_preserve_relations"] = {r: ctx.hist.get("try_preserve:" + r, 0) for r in PRESERVE_RELS}
    if not all(ctx.notes["try_preserve_relations"].values()):
        ctx.disagree("c15.try_preserve", "exploration did not reach every old/new packet-list relation: %r" % (ctx.notes["try_preserve_relations"],), {})
    corr_files(ctx, O, nfiles)
    oracle_moggsplit(ctx, 6 if ctx.thorough else 1)
    corr_replace_product(ctx, O, nprod)
    missing = [c + "/" + b for c in COUNT_RELS for b in BYTE_RELS
               if not ctx.hist.get("file:replace-pages-%s-bytes-%s+tail+foreign" % (c, b))]
    ctx.notes["replace_product_cells"] = {c + "/" + b: ctx.hist.get("file:replace-pages-%s-bytes-%s+tail+foreign" % (c, b), 0)
                                          for c in COUNT_RELS for b in BYTE_RELS}
    if missing or ctx.hist.get("file:replace-product-mislabelled"):
        ctx.disagree("c15.replace_product", "replace exploration did not reach every (page-count, byte-size) cell: missing %s, mislabelled %d"
                     % (missing, ctx.hist.get("file:replace-product-mislabelled", 0)), {})
    vm_crosscheck(ctx)


def search(ctx, broken):
    """a proof or the correspondence broke: wider search of the implementation for an input violating the statement"""
    O = _ogg()
    before = len(ctx.violations)
    rng = ctx.rng
    for sizes, ds, wr, tag in paging_cases(ctx, 300, 300, 10, [70000]):
        packets = mk_packets(rng, sizes)
        st, pages = impl_from_packets(O, packets, 0, ds, wr)
        oracle_paging(ctx, O, sizes, packets, 0, ds, wr, st, pages, tag)
        ctx.case(None)
    for _ in range(120):
        data, spec = synth_file(ctx, O)
        pages = read_impl_pages(O, data)
        for rel in ("fewer", "equal", "more"):
            saved = ctx.model.call
            try:
                ctx.model.call = lambda *a: ""      # oracle only
                nd = len(ctx.disagreements)
                corr_replace(ctx, O, data, spec, pages, rel)
                del ctx.disagreements[nd:]
            finally:
                ctx.model.call = saved
    saved = ctx.model.call
    try:
        ctx.model.call = lambda *a: ""      # oracle only
        nd = len(ctx.disagreements)
        corr_try_preserve(ctx, O, 400)
        oracle_moggsplit(ctx, 12)
        corr_replace_product(ctx, O, 25)
        del ctx.disagreements[nd:]
    finally:
        ctx.model.call = saved
    ctx.notes["search"] = "wider lattice/paging/replace search found %d failing inputs" % (len(ctx.violations) - before)


def _unknown_violations(ctx, start=0):
    import common
    known = [k for k in common.load_known() if k.get("property") == PROP and k.get("kind") == "known"]
    return [v for v in ctx.violations[start:] if not any(common.matches(k, v) for k in known)]


def replay(ctx, payload):
    O = _ogg()
    d = payload.get("data", {})
    if payload.get("kind") != "failing-input" or "runner" not in d:
        run(ctx)
        return bool(_unknown_violations(ctx) or ctx.disagreements)
    before = len(ctx.violations)
    saved = ctx.model.call
    ctx.model.call = lambda *a: ""          # oracle only: the replay judges the implementation, not the correspondence
    try:
        if d["runner"] == "c15.paging":
            sizes = d["sizes"] if d.get("sizes") is not None else unrle(d["sizes_rle"])
            packets = mk_packets(ctx.rng, sizes)
            st, pages = impl_from_packets(O, packets, d["seq"], d["ds"], d["wr"])
            oracle_paging(ctx, O, sizes, packets, d["seq"], d["ds"], d["wr"], st, pages, "replay")
        elif d["runner"] == "c15.file" and d.get("op") == "replace":
            data, spec = synth_file(ctx, O, d["spec"])
            corr_replace(ctx, O, data, spec, read_impl_pages(O, data), "any", d["fixed"])
        elif d["runner"] == "c15.file":
            data, spec = synth_file(ctx, O, d["spec"])
            corr_one_file(ctx, O, data, spec, only=d.get("op"), fixed=d)
        elif d["runner"] == "c15.page":
            p = mk_page(O, parse_page_text(d["page"]))
            w = impl_write(p)
            if isinstance(w, bytes):
                oracle_rendered(ctx, O, p, w)
        elif d["runner"] == "c15.parse":
            corr_parse(ctx, O, bytes.fromhex(d["data"]))
        elif d["runner"] == "c15.try_preserve":
            try_preserve_case(ctx, O, d, corr=False)
        elif d["runner"] == "c15.moggsplit":
            moggsplit_case(ctx, d["spec"])
        else:
            ctx.model.call = saved
            run(ctx)
    finally:
        ctx.model.call = saved
    del ctx.disagreements[:]
    return bool(_unknown_violations(ctx, before))


def coverage_extra(ctx):
    return {"exhaustive": False,
            "exhaustive_note": "lattice sampling; the theorems cover all packet lists / pages (see MANIFEST text for the precondition)"}
