"""C09 -- The padding callback is obeyed and existing padding is reused.
Policy: theorems over Gen_tags.v (regenerated from mutagen/_tags.py); per family: props/C09_*.v;
oracle: shared histories with padding callbacks + policy lattice."""
from props import _wholefile as W
from common import zs, zp, vm_shard

PROP = "C09"
PROP_FILES = W.prop_files(PROP)
RULE = W.RULE + ("; policy: PaddingInfo(padding, size).get_default_padding()/_get_padding compared between the implementation and the "
                 "extracted regenerated model on a lattice of (padding, size) points around 0, 1 KiB, 10 KiB + 1 %, 2^31, 2^63 and random points; "
                 "non-trivial policy point = distinct (padding, size)")
TRUSTED = ["Gen_tags.v is regenerated from mutagen/_tags.py (PaddingInfo.get_default_padding, _get_padding) on every run",
           "hand-written family models coq/model/Fam_*.v (modelled, tied by byte-exact correspondence)",
           "independent walkers harness/fam/walkers.py measure the padding in the saved bytes"]
MANIFEST = {
    "text": "full for the policy (theorems over the regenerated get_default_padding/_get_padding: callback obeyed, no callback = default, "
            "padding <= 1 KiB kept, idempotent, non-negative); per family with a model: callback argument arithmetic and measured padding; "
            "other families by the direct oracle (callback arguments recorded, padding measured by independent walkers, size deltas checked)",
    "note": W.TB_NOTE,
    "technique": "Coq proof (lia) over py2v-generated policy + per-family model theorems + exhaustive-lattice correspondence + independent padding measurement on edit histories",
}


def policy_points(ctx, n):
    pts = set()
    sizes = [0, 1, 99, 100, 999, 1000, 1001, 10 ** 5, 10 ** 6, 2 ** 31 - 1, 2 ** 31, 2 ** 40, 2 ** 63]
    for s in sizes:
        high = 10240 + s // 100
        low = 1024 + s // 1000
        for p in [-2 ** 40, -1025, -1, 0, 1, 1023, 1024, 1025, low - 1, low, low + 1, high - 1, high, high + 1, 2 * high, 2 ** 40]:
            pts.add((p, s))
    while len(pts) < n:
        pts.add((ctx.rng.randrange(-20000, 30000), ctx.rng.randrange(0, 3 * 10 ** 6)))
    return sorted(pts)


def policy(ctx):
    from mutagen._tags import PaddingInfo
    pts = policy_points(ctx, 1500 if not ctx.thorough else 20000)
    for p, s in pts:
        info = PaddingInfo(p, s)
        impl = info.get_default_padding()
        model = zp(ctx.model.call("default_padding", zs(p), zs(s)))
        ctx.corr_cases += 1
        ctx.count("policy-point")
        ctx.case(("policy", p, s), {"padding": p, "size": s, "default": impl} if ctx.corr_cases % 400 == 1 else None)
        if impl != model:
            ctx.disagree("c09.policy", "get_default_padding(%d, %d): impl %d model %d" % (p, s, impl, model), {"padding": p, "size": s})
        # direct oracle: the documented policy properties on the implementation
        if s >= 0:
            if impl < 0:
                ctx.violation("oracle", "C09 policy: default padding negative", {"runner": "c09.policy", "padding": p, "size": s})
            if 0 <= p <= 1024 and impl != p:
                ctx.violation("oracle", "C09 policy: fitting padding (<= 1 KiB) not kept", {"runner": "c09.policy", "padding": p, "size": s})
            if PaddingInfo(impl, s).get_default_padding() != impl:
                ctx.violation("oracle", "C09 policy: default padding not stable under a second save", {"runner": "c09.policy", "padding": p, "size": s})
        for mode, fn in (("none", None), ("const:7", lambda i: 7), ("keep", lambda i: max(i.padding, 0)), ("default", lambda i: i.get_default_padding())):
            if (p + s) % 7 != 0:
                continue
            r = info._get_padding(fn)
            m = zp(ctx.model.call("get_padding", mode, zs(p), zs(s)))
            ctx.corr_cases += 1
            if r != m:
                ctx.disagree("c09.policy", "_get_padding(%s)(%d, %d): impl %d model %d" % (mode, p, s, r, m), {"padding": p, "size": s, "mode": mode})
            if mode == "none" and r != info.get_default_padding():
                ctx.violation("oracle", "C09 policy: no callback differs from the default policy", {"runner": "c09.policy", "padding": p, "size": s})
    # vm_compute cross-check
    sub = pts[:: max(1, len(pts) // 40)][:40]
    res, log = vm_shard("c09", "From Coq Require Import ZArith. Require Import Gen.Gen_tags. Open Scope Z_scope.",
                        ["get_default_padding (%d) (%d)" % (p, s) for p, s in sub])
    if res is None or len(res) != len(sub):
        ctx.disagree("c09.vm_shard", "vm_compute shard failed: %s" % log, {})
    else:
        for (p, s), r in zip(sub, res):
            ctx.vm_cases += 1
            if int(r.replace("%Z", "").strip("() ")) != zp(ctx.model.call("default_padding", zs(p), zs(s))):
                ctx.disagree("c09.vm_shard", "binary and vm_compute differ at (%d, %d)" % (p, s), {})
                break


_m = W.make(PROP, quick=(4, 6), thorough=(40, 20), extra_run=policy)
run, search, coverage_extra = _m.run, _m.search, _m.coverage_extra


def replay(ctx, payload):
    d = payload.get("data", {})
    if d.get("runner") == "c09.policy":
        policy(ctx)
        return bool(ctx.violations)
    return _m.replay(ctx, payload)
