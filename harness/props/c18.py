"""C18 -- type detection is stable under tagging and option order.
(R) the regenerated score functions / File selection (extracted model) against the real `K.score` and
    `mutagen.File` on every sample under several names, synthetic headers (magic x extension, marker tokens
    at random offsets incl. the 128-byte cut, APEv2 footers around the 160-byte cut, IOError on seek) and
    random score lists through the real selection code;
(D) direct oracle from the property text on the real code: every well-formed sample of a concrete type
    (well-formedness judged by an independent magic table + the type loading it), under every usual
    extension in lower/upper/mixed case (and nameless where the property allows), before and after each
    step of tag-edit histories through the type (small / 300 KiB tags, delete, save again), with permuted
    `options` and easy=True;
(V) vm_compute cross-check of the extracted binary."""
import io, os, sys, re, shutil, tempfile, warnings, random
from common import zs, zp, hx, unhx, coq_bytes, vm_shard, REPO

PROP = "C18"
PROP_FILES = ["props/C18.v"]
TRUSTED = [
    "Gen_scores.v is regenerated from mutagen/_file.py (File: options list, easy mapping) and the score() of all 24 listed classes on every run; "
    "the helpers _util.endswith / seek_end / get_size, asf guid2bytes and the selection tail of File are compared structurally with the shapes the translator models (refusal = broken obligation)",
    "modelled rather than verified: the file object as seen by the scores (only APEv2File reads it): one input `trailer` = last min(size,160) bytes, None = IOError; "
    "file names as code-point lists with ASCII lower-casing (str.lower differs only on U+212A / U+0130 inside the extension -- outside the property); tied by the correspondence below",
    "specification side written by hand in coq/model/Score.v: `family` (what a well-formed file of each type shows in its first 128 bytes before/after edits through the type), "
    "`usual_exts`, `no_foreign_marker` (the property's assumption, extended to all header bytes and to fixed-offset markers such as WAVE at 8)",
    "that tag edits through a type keep the header inside `family` is exercised by the direct oracle on the real save/delete code, not proved here (family lemmas of the save models belong to C01/C02)",
]
MANIFEST = {
    "text": "full over the regenerated score functions: for each of the 22 concrete types, every file name with a usual extension in any letter case, every header in the "
            "type's family and every trailer, File picks the type and easy=True its Easy counterpart (11 types under the property's no-foreign-marker assumption, 11 without); "
            "nameless streams for the 18 types whose magic stays at offset 0; the choice is the unique maximum of (score, name), hence independent of the order of options; "
            "sort-and-take-last = maximum; class names distinct",
    "note": "Modelled, not verified: File's selection tail (shape re-checked by py2v, behaviour tied by correspondence through the real code with stub classes); the file object (trailer input). "
            "Findings stated as theorems: the assumption must cover all 128 header bytes, not only tag text (C18_MP3_marker_in_audio_bytes); an .aac file with an APEv2 tag is taken for APEv2File "
            "(C18_AAC_without_ape_needed); AC3/DSDIFF match their extension case-sensitively (harmless: magic alone wins). "
            "Not covered by a theorem: Musepack SV4-6 streams other than through C18_stable_Musepack_sv46 (no magic), ID3-prefixed Musepack/AAC files (detected as MP3; not reachable by edits through the type).",
    "technique": "Coq: generic max/permutation lemma; per-type case analysis on the atomic tests of the generated scores, decided from the hypotheses by prefix/suffix compatibility lemmas and a reflective "
                 "enumeration of the remaining booleans (one vm_compute per case) + correspondence via the extracted OCaml model + direct oracle on mutagen.File",
    "design_ref": "DESIGN.md section 5, C18",
}
RULE = ("correspondence: all 24 integer scores and the chosen class (default options, easy, permuted options) compared between the real code and the extracted model on every file of tests/data "
        "under 4 names and on synthetic inputs: magic x extension x letter case, marker tokens at random offsets in/around the first 128 bytes, APETAGEX around the 160-byte trailer cut, "
        "IOError on seek, random bytes; random score lists through File's real selection with stub classes. direct oracle: for every well-formed concrete sample (independent magic table), "
        "every usual extension x {lower, upper, mixed} (+ nameless where allowed) x every step of an edit history through the type x {default, 6 permutations of options, easy=True}: "
        "type(mutagen.File(..)) must be the type (its Easy counterpart) and load. non-trivial = a File call on a tagged/edited file or under a non-default name/options; "
        "distinct by (sample, step, name, options permutation, easy)")

warnings.simplefilter("ignore")


# ------------------------------------------------------------------------------------------------------
# the real code
def impl():
    import mutagen
    from mutagen.mp3 import MP3, EasyMP3
    from mutagen.trueaudio import TrueAudio, EasyTrueAudio
    from mutagen.oggtheora import OggTheora
    from mutagen.oggspeex import OggSpeex
    from mutagen.oggvorbis import OggVorbis
    from mutagen.oggflac import OggFLAC
    from mutagen.flac import FLAC
    from mutagen.aiff import AIFF
    from mutagen.apev2 import APEv2File
    from mutagen.mp4 import MP4
    from mutagen.easymp4 import EasyMP4
    from mutagen.id3 import ID3FileType
    from mutagen.easyid3 import EasyID3FileType
    from mutagen.wavpack import WavPack
    from mutagen.musepack import Musepack
    from mutagen.monkeysaudio import MonkeysAudio
    from mutagen.optimfrog import OptimFROG
    from mutagen.asf import ASF
    from mutagen.oggopus import OggOpus
    from mutagen.aac import AAC
    from mutagen.ac3 import AC3
    from mutagen.smf import SMF
    from mutagen.tak import TAK
    from mutagen.dsf import DSF
    from mutagen.dsdiff import DSDIFF
    from mutagen.wave import WAVE
    opts = [MP3, TrueAudio, OggTheora, OggSpeex, OggVorbis, OggFLAC, FLAC, AIFF, APEv2File, MP4, ID3FileType, WavPack,
            Musepack, MonkeysAudio, OptimFROG, ASF, OggOpus, AAC, AC3, SMF, TAK, DSF, DSDIFF, WAVE]
    easy = {"MP3": EasyMP3, "TrueAudio": EasyTrueAudio, "MP4": EasyMP4, "ID3FileType": EasyID3FileType}
    return mutagen, opts, easy


# independent description of the formats: usual extensions, magic check, tagging flavour
EXTS = {
    "MP3": [".mp3", ".mp2", ".mpg", ".mpeg"], "TrueAudio": [".tta"], "OggTheora": [".ogv", ".oggtheora"], "OggSpeex": [".spx"],
    "OggVorbis": [".ogg", ".oga"], "OggFLAC": [".oggflac", ".oga"], "OggOpus": [".opus"], "FLAC": [".flac"],
    "AIFF": [".aif", ".aiff", ".aifc"], "MP4": [".mp4", ".m4a", ".m4b", ".3g2"], "WavPack": [".wv"], "Musepack": [".mpc"],
    "MonkeysAudio": [".ape"], "OptimFROG": [".ofr", ".ofs"], "ASF": [".wma", ".asf"], "AAC": [".aac", ".adts", ".adif"],
    "AC3": [".ac3", ".eac3"], "SMF": [".mid", ".midi"], "TAK": [".tak"], "DSF": [".dsf"], "DSDIFF": [".dff"], "WAVE": [".wav", ".wave"],
}
SAMPLE_EXT = {".mp3": "MP3", ".tta": "TrueAudio", ".oggtheora": "OggTheora", ".spx": "OggSpeex", ".ogg": "OggVorbis", ".oggflac": "OggFLAC",
              ".opus": "OggOpus", ".flac": "FLAC", ".aif": "AIFF", ".mp4": "MP4", ".m4a": "MP4", ".m4b": "MP4", ".3g2": "MP4", ".wv": "WavPack",
              ".mpc": "Musepack", ".ape": "MonkeysAudio", ".ofr": "OptimFROG", ".ofs": "OptimFROG", ".wma": "ASF", ".aac": "AAC", ".ac3": "AC3",
              ".eac3": "AC3", ".mid": "SMF", ".tak": "TAK", ".dsf": "DSF", ".dff": "DSDIFF", ".wav": "WAVE"}
ASF_GUID = bytes([48, 38, 178, 117, 142, 102, 207, 17, 166, 217, 0, 170, 0, 98, 206, 108])
MAGICS = {"ID3": b"ID3", "sync-fb": b"\xff\xfb", "sync-f3": b"\xff\xf3", "sync-f2": b"\xff\xf2", "sync-fa": b"\xff\xfa", "sync-e3": b"\xff\xe3",
          "adts-f1": b"\xff\xf1", "adts-f9": b"\xff\xf9", "TTA": b"TTA1", "OggS": b"OggS", "fLaC": b"fLaC", "FORM": b"FORM", "ftyp": b"\0\0\0\x18ftyp",
          "wvpk": b"wvpk", "MP+": b"MP+", "MPCK": b"MPCK", "MAC": b"MAC ", "OFR": b"OFR ", "ASF": ASF_GUID, "ADIF": b"ADIF", "AC3": b"\x0b\x77",
          "MThd": b"MThd", "tBaK": b"tBaK", "DSD": b"DSD ", "FRM8": b"FRM8", "RIFF": b"RIFF\x24\0\0\0WAVE", "RIFFx": b"RIFF\x24\0\0\0AVI ",
          "none": b"\xc1\x27\x20\0", "zero": b"\0\0\0\0", "TA": b"TAG"}
MARKERS = [b"ftyp", b"mp4", b"ADIF", b"\x01vorbis", b"\x80theora", b"\x81theora", b"Speex   ", b"OpusHead", b"FLAC", b"fLaC", b"\x7fFLAC",
           b"APETAGEX", b"WAVE", b"OggS", b"ID3"]
ALL_EXTS = sorted({e for v in EXTS.values() for e in v} | {".id3", ".apev2", ".jpg", ".wmv", ".ogx", ".mp+", ""})


def well_formed(kind, d):
    """independent magic check of a sample claimed (by its extension) to be of `kind`"""
    h = d[:128]
    first_page = d[:27 + 255 + 255]
    return {
        "MP3": d[:3] == b"ID3" or (len(d) > 1 and d[0] == 0xFF and d[1] & 0xE0 == 0xE0),
        "TrueAudio": d[:3] in (b"TTA", b"ID3"),
        "FLAC": d[:4] == b"fLaC" or d[:3] == b"ID3",
        "OggVorbis": d[:4] == b"OggS" and d[28:35] == b"\x01vorbis",
        "OggOpus": d[:4] == b"OggS" and d[28:36] == b"OpusHead",
        "OggSpeex": d[:4] == b"OggS" and d[28:36] == b"Speex   ",
        "OggTheora": d[:4] == b"OggS" and d[28:35] == b"\x80theora",
        "OggFLAC": d[:4] == b"OggS" and d[28:33] == b"\x7fFLAC" and d[37:41] == b"fLaC",
        "AIFF": d[:4] == b"FORM" and d[8:12] in (b"AIFF", b"AIFC"),
        "MP4": d[4:8] == b"ftyp" and d[0] == 0,
        "WavPack": d[:4] == b"wvpk", "Musepack": d[:3] == b"MP+" or d[:4] == b"MPCK" or (len(d) > 3 and (d[1] >> 3 | (d[2] & 0x1F) << 5) & 0x3FF in (4, 5, 6)),
        "MonkeysAudio": d[:4] == b"MAC ", "OptimFROG": d[:3] == b"OFR", "ASF": d[:16] == ASF_GUID,
        "AAC": d[:4] == b"ADIF" or (len(d) > 1 and d[0] == 0xFF and d[1] & 0xF6 == 0xF0),
        "AC3": d[:2] == b"\x0b\x77", "SMF": d[:4] == b"MThd", "TAK": d[:4] == b"tBaK", "DSF": d[:4] == b"DSD ",
        "DSDIFF": d[:4] == b"FRM8", "WAVE": d[:4] == b"RIFF" and d[8:12] == b"WAVE",
    }[kind]


NAMELESS_OK = {"FLAC", "OggTheora", "OggSpeex", "OggVorbis", "OggFLAC", "OggOpus", "AIFF", "MP4", "WavPack", "Musepack", "MonkeysAudio",
               "OptimFROG", "ASF", "AC3", "TAK", "DSF", "DSDIFF", "WAVE"}
ID3_TAGGED = {"MP3", "TrueAudio", "AIFF", "WAVE", "DSF", "DSDIFF"}
VC_TAGGED = {"FLAC", "OggVorbis", "OggOpus", "OggSpeex", "OggTheora", "OggFLAC"}
APE_TAGGED = {"WavPack", "Musepack", "MonkeysAudio", "OptimFROG", "TAK"}
NO_TAGS = {"AAC", "AC3", "SMF"}


def set_tag(o, kind, n):
    if o.tags is None:
        o.add_tags()
    text = "v" * n
    if kind == "FLAC" and n in (5, 4000):
        # cover art with a description outside ASCII goes with the tag edit (pictures are part of a FLAC file's tags)
        from mutagen.flac import Picture
        pic = Picture()
        pic.type, pic.mime, pic.desc, pic.data = 3, "image/png", "\u041e\u0431\u043b\u043e\u0436\u043a\u0430 \u2014 \u00ab\u00c9t\u00e9\u00bb", b"\x89PNG\r\n" + bytes(range(64))
        o.clear_pictures()
        o.add_picture(pic)
    if kind in VC_TAGGED:
        o.tags["title"] = [text]
    elif kind == "MP4":
        o.tags["\xa9nam"] = [text]
    elif kind == "ASF":
        o.tags["Title"] = [text]
    elif kind in ID3_TAGGED:
        from mutagen.id3 import TIT2
        o.tags.add(TIT2(encoding=3, text=[text]))
    else:
        o.tags["Title"] = text


def apply_step(K, kind, data, step):
    """one edit through the type, on an in-memory copy; returns the new bytes (raises on failure)"""
    b = io.BytesIO(data)
    o = K(b)
    b.seek(0)
    if step == "delete":
        o.delete(b)
    elif step == "save":
        o.save(b)
    else:
        set_tag(o, kind, int(step[4:]) if step.startswith("len=") else {"small": 5, "medium": 4000, "large": 300 * 1024}[step])
        o.save(b)
    return b.getvalue()


# ------------------------------------------------------------------------------------------------------
# correspondence helpers
class no_load:
    """File() runs its real selection but the chosen class is not made to parse the (synthetic) file"""
    def __enter__(self):
        import mutagen._file as F
        self.F, self.saved = F, F.FileType.__init__
        F.FileType.__init__ = lambda self, *a, **k: None

    def __exit__(self, *a):
        self.F.FileType.__init__ = self.saved


class NoSeekEnd(io.BytesIO):
    def seek(self, pos, whence=0):
        if whence == 2:
            raise IOError("no seek from the end")
        return io.BytesIO.seek(self, pos, whence)


def name_arg(name):
    if isinstance(name, bytes):
        return hx(name)
    return "[" + ",".join("%x" % ord(c) for c in name) + "]"


def model_info(ctx):
    r = ctx.model.call("c18info")
    m = re.match(r"trailer=(\S+) header=(\S+) options=(\S*) easy=(\S*)$", r)
    if not m:
        return None
    return {"trailer": zp(m.group(1)), "header": zp(m.group(2)), "options": m.group(3).split(","), "easy": m.group(4).split(",")}


def trailer_of(data, tl, ioerr):
    if ioerr:
        return "-"
    if tl <= 0:
        return hx(b"")
    return hx(data[-tl:] if len(data) >= tl else data)


def impl_scores(opts, name, data, ioerr=False):
    out = {}
    for K in opts:
        fo = (NoSeekEnd if ioerr else io.BytesIO)(data)
        try:
            s = K.score(name, fo, data[:128])
            out[K.__name__] = int(s)
        except Exception as e:
            out[K.__name__] = "raise " + type(e).__name__
    return out


def impl_choice(mutagen, name, data, easy=False, options=None, ioerr=False):
    fo = (NoSeekEnd if ioerr else io.BytesIO)(data)
    if name is not None:
        fo.name = name
    try:
        with no_load():
            r = mutagen.File(fo, options=options, easy=easy)
    except Exception as e:
        return "raise " + type(e).__name__
    return "none" if r is None else "ok " + type(r).__name__


def corr_case(ctx, env, name, data, tag, ioerr=False, perm=None):
    """compare all scores and the choices on one (name, data)"""
    mutagen, opts, easy, info = env
    header = data[:info["header"]]
    tr = trailer_of(data, info["trailer"], ioerr)
    nm = name if name is not None else ""
    isc = impl_scores(opts, nm, data, ioerr)
    bad = None
    for K in opts:
        r = ctx.model.call("score", K.__name__, name_arg(nm), hx(header), tr)
        mv = zp(r[3:]) if r.startswith("ok ") else r
        if mv != isc[K.__name__]:
            bad = "score %s: impl=%s model=%s" % (K.__name__, isc[K.__name__], mv)
            break
    if bad is None:
        ic = impl_choice(mutagen, name, data, ioerr=ioerr)
        mc = ctx.model.call("detect", name_arg(nm), hx(header), tr)
        if ic != mc:
            bad = "File: impl=%s model=%s" % (ic, mc)
    if bad is None:
        ic = impl_choice(mutagen, name, data, easy=True, ioerr=ioerr)
        mc = ctx.model.call("detect_easy", name_arg(nm), hx(header), tr)
        if ic != mc:
            bad = "File(easy=True): impl=%s model=%s" % (ic, mc)
    if bad is None and perm is not None:
        ic = impl_choice(mutagen, name, data, options=perm, ioerr=ioerr)
        mc = ctx.model.call("detect_with", ",".join(k.__name__ for k in perm), name_arg(nm), hx(header), tr)
        if ic != mc:
            bad = "File(options=perm): impl=%s model=%s" % (ic, mc)
    ctx.corr_cases += 1
    ctx.count("corr:" + tag)
    top = max(v for v in isc.values() if isinstance(v, int))
    ties = sum(1 for v in isc.values() if v == top)
    ctx.case(("corr", tag, nm, data[:160], data[-160:], ioerr) if top > 0 else None,
             {"name": nm, "header": header[:24].hex(), "scores": {k: v for k, v in isc.items() if v}} if ctx.evaluations % 701 == 0 else None)
    if top > 0 and ties > 1:
        ctx.count("corr:tie-broken-by-name")
    if bad and len(ctx.disagreements) < 6:
        ctx.disagree("c18.scores", "%s on name=%r header=%s.. (%s)" % (bad, nm, header[:16].hex(), tag),
                     {"name": nm if isinstance(nm, str) else nm.decode("latin-1"), "data": data.hex() if len(data) <= 600 else None, "tag": tag, "ioerr": ioerr})
    return bad is None


def samples():
    d = os.path.join(REPO, "tests", "data")
    return [(f, open(os.path.join(d, f), "rb").read()) for f in sorted(os.listdir(d)) if os.path.isfile(os.path.join(d, f))]


def correspondence(ctx, env, budget):
    mutagen, opts, easy, info = env
    rng = ctx.rng
    # names of the model and of the implementation agree (options order, easy mapping)
    if info["options"] != [k.__name__ for k in opts]:
        ctx.disagree("c18.options", "default options of the model %s differ from the 24 classes the harness knows" % (info["options"],), {})
    if info["easy"] != [easy.get(k.__name__, k).__name__ for k in opts]:
        ctx.disagree("c18.options", "easy mapping of the model %s differs from the harness table" % (info["easy"],), {})
    # (a) every sample under its name, upper-cased, without extension, as bytes
    for f, data in samples():
        stem, ext = os.path.splitext(f)
        for nm in (f, f.upper(), stem, f.encode(), None):
            perm = opts[:]
            rng.shuffle(perm)
            corr_case(ctx, env, nm, data, "sample", perm=perm)
    # (b) synthetic: magic x extension, with tails, markers and footers
    keys = sorted(MAGICS)
    combos = [(m, e) for m in keys for e in ALL_EXTS]
    rng.shuffle(combos)
    for m, e in combos[:budget]:
        body = bytearray(rng.randrange(256) for _ in range(rng.choice([0, 10, 120, 124, 200, 400])))
        data = bytearray(MAGICS[m]) + body
        # marker tokens at random offsets, some straddling the 128-byte cut
        for _ in range(rng.choice([0, 0, 1, 2, 3])):
            mk = rng.choice(MARKERS)
            off = rng.choice([len(MAGICS[m]), 8, 28, rng.randrange(0, 140), 128 - len(mk), 129 - len(mk), 127, 128])
            data[off:off + len(mk)] = mk
        if m in ("OggS",) and rng.random() < 0.7:
            mk = rng.choice([b"\x01vorbis", b"OpusHead", b"Speex   ", b"\x80theora", b"\x7fFLAC\x01\0\0\x02fLaC"])
            data[28:28 + len(mk)] = mk
        # APEv2 footer around the trailer cut
        if rng.random() < 0.5:
            pad = rng.choice([0, 24, 151, 152, 153, 159, 160, 161, 300])
            data += b"APETAGEX" + bytes(pad)
        stem = rng.choice(["a", "Song", "x.y", "été", "Kız", "", "dir/na.me"])
        ext = rng.choice([e, e.upper(), e.title(), e[:2].upper() + e[2:]])
        nm = stem + ext
        perm = opts[:]
        rng.shuffle(perm)
        corr_case(ctx, env, nm, bytes(data), "synthetic", ioerr=rng.random() < 0.08, perm=perm)
    # (c) short / empty / random inputs
    for n in (0, 1, 2, 3, 4, 7, 8, 11, 12, 127, 128, 129, 159, 160, 161):
        data = bytes(rng.randrange(256) for _ in range(n))
        corr_case(ctx, env, rng.choice(["", "a.mp3", "B.FLAC", "c.ape"]), data, "random")
        corr_case(ctx, env, "t.wav", (b"RIFF\0\0\0\0WAVE" + data)[:n], "random")
    # (d) random score lists through File's real selection (stub classes), against choose
    names = [k.__name__ for k in opts] + [easy[k].__name__ for k in easy] + ["A", "AA", "Aa", "a", "Z", "MP", "MP33"]
    for _ in range(budget // 2):
        k = rng.randrange(0, 7)
        ns = rng.sample(names, k)
        scs = [rng.choice([-1, 0, 0, 1, 1, 2, 2, 3, 4, True, False]) for _ in ns]
        stubs = [type(n, (object,), {"score": staticmethod(lambda fn, fo, h, s=s: s),
                                     "__init__": lambda self, fileobj, filename=None: None}) for n, s in zip(ns, scs)]
        try:
            r = mutagen.File(io.BytesIO(b"abc"), options=stubs)
            ic = "none" if r is None else "ok " + type(r).__name__
        except Exception as e:
            ic = "raise " + type(e).__name__
        mc = ctx.model.call("choose", *[x for n, s in zip(ns, scs) for x in (zs(int(s)), n)])
        ctx.corr_cases += 1
        ctx.count("corr:choose")
        ctx.case(("choose", tuple(ns), tuple(int(s) for s in scs)) if k > 1 else None)
        if ic != mc and len(ctx.disagreements) < 6:
            ctx.disagree("c18.choose", "File selection over %s: impl=%s model=%s" % (list(zip(scs, ns)), ic, mc),
                         {"names": ns, "scores": [int(s) for s in scs]})


# ------------------------------------------------------------------------------------------------------
# direct oracle
def variants(kind, rng, full):
    out = []
    for e in EXTS[kind]:
        out += ["s" + e, "S" + e.upper()]
        if full:
            out.append("m" + "".join(c.upper() if rng.random() < 0.5 else c for c in e))
    return out


def detect_real(mutagen, data, name, options=None, easy=False):
    fo = io.BytesIO(data)
    if name is not None:
        fo.name = name
    try:
        r = mutagen.File(fo, options=options, easy=easy)
    except Exception as e:
        return "raise %s" % type(e).__name__
    return None if r is None else type(r).__name__


def check_state(ctx, env, sample, kind, data, history, names, nperm, before):
    """all detections of one file state; returns False at the first violation"""
    mutagen, opts, easy, info = env
    rng = ctx.rng
    want = kind
    want_easy = easy[kind].__name__ if kind in easy else kind
    step = history[-1] if history else "initial"
    for i, nm in enumerate(names):
        runs = [("default", None, False, want), ("easy", None, True, want_easy)]
        for j in range(nperm if i == 0 else 1):
            perm = opts[:]
            rng.shuffle(perm)
            runs.append(("perm", perm, False, want))
        for how, perm, ez, expect in runs:
            got = detect_real(mutagen, data, nm, options=perm, easy=ez)
            ctx.oracle_cases += 1
            ctx.count("oracle:%s" % kind)
            ctx.count("oracle-how:%s" % how)
            ctx.case(("oracle", sample, tuple(history), nm, how, tuple(k.__name__ for k in perm) if perm else None)
                     if (history or how != "default" or i > 0) else None,
                     {"sample": sample, "history": list(history), "name": nm, "how": how, "got": got} if ctx.evaluations % 1501 == 0 else None)
            if got != expect:
                ext = os.path.splitext(nm)[1] if nm else "(nameless)"
                ctx.violation("oracle", "%s (%s): File%s chose %s instead of %s %s, name %s" % (
                    kind, sample, {"default": "", "easy": "(easy=True)", "perm": "(options permuted)"}[how],
                    got, expect, "initially" if not history else "after " + "+".join(history), ext),
                    {"runner": "c18.oracle", "sample": sample, "kind": kind, "history": list(history), "name": nm, "how": how,
                     "options": [k.__name__ for k in perm] if perm else None, "got": got, "expected": expect})
                return False
    return True


def synth_samples():
    """well-formed files the sample set lacks: a FLAC with a foreign ID3v2 tag in front"""
    out = []
    p = os.path.join(REPO, "tests", "data", "no-tags.flac")
    if os.path.exists(p):
        d = open(p, "rb").read()
        out.append(("synth-id3-prefixed.flac", b"ID3\x03\0\0\0\0\0\x0aTIT2\0\0\0\0\0\0" + d, True))
    # multiplexed Ogg (Vorbis + text + Theora, all first pages first): the Vorbis first page lies inside the 128 header bytes
    # the scores see, the Theora one behind them -- the type every order of options has to agree on is the one whose
    # marker the header shows (the extension follows it)
    pv, pt = os.path.join(REPO, "tests", "data", "empty.ogg"), os.path.join(REPO, "tests", "data", "sample.oggtheora")
    if os.path.exists(pv) and os.path.exists(pt):
        try:
            from fam import synth_ogg as SO
            d = SO.vorbis_text_theora(SO.ident_packet(open(pv, "rb").read(), "vorbis"), SO.ident_packet(open(pt, "rb").read(), "theora"))
            out.append(("synth-vorbis-text-theora.ogg", d, True))
        except Exception:
            pass
    return out


def direct_oracle(ctx, env, full, nperm, only=None):
    mutagen, opts, easy, info = env
    byname = {k.__name__: k for k in opts}
    concrete = 0
    items = [(f, d, False) for f, d in samples()] + synth_samples()
    for f, data, synth in items:
        if only and f != only:
            continue
        if len(ctx.violations) >= 8:          # enough concrete failing inputs
            break
        ext = os.path.splitext(f)[1].lower()
        kind = SAMPLE_EXT.get(ext)
        if kind is None:
            ctx.count("oracle-skip:not-a-concrete-type")
            continue
        K = byname[kind]
        if not well_formed(kind, data):
            ctx.count("oracle-skip:malformed(magic)")
            continue
        try:
            K(io.BytesIO(data))
        except Exception as e:
            if synth:
                # a file this check built well-formed itself: "the chosen type loads the file"
                ctx.violation("oracle", "%s (%s): the type cannot load a well-formed synthesised file (%s)" % (kind, f, type(e).__name__),
                              {"runner": "c18.oracle", "sample": f, "kind": kind, "history": [], "name": "s" + ext, "how": "load",
                               "options": None, "got": "raise " + type(e).__name__, "expected": kind})
            ctx.count("oracle-skip:malformed(type cannot load it)")
            continue
        concrete += 1
        names = variants(kind, ctx.rng, full)
        # nameless streams only where a magic at offset 0 identifies the type (Musepack SV4-6 has none)
        if kind in NAMELESS_OK and not synth and (kind != "Musepack" or data[:3] == b"MP+" or data[:4] == b"MPCK"):
            names.append(None)
        # the sample's own name first
        names = [f if not synth else "s" + ext] + names
        if not check_state(ctx, env, f, kind, data, [], names, nperm, None):
            continue
        if kind in NO_TAGS:
            continue
        steps = ["small", "large", "delete", "medium", "save"] if full else ctx.rng.choice(
            [["small", "large", "delete", "small"], ["large", "delete", "save"], ["delete", "large", "small"]])
        cur, hist = data, []
        for st in steps:
            try:
                cur = apply_step(K, kind, cur, st)
            except Exception as e:
                ctx.count("oracle-step-failed:%s" % type(e).__name__)
                break
            hist.append(st)
            if not check_state(ctx, env, f, kind, cur, hist, names, nperm, data):
                break
        # tag-size sweep: every title length 0..140 moves the tag's header/footer (tags at the end of the file) or the
        # stream marker (tags at the start) across the 32/128/160-byte windows the score functions look at
        try:
            base = apply_step(K, kind, data, "delete")
        except Exception:
            base = None
        if base is not None and kind not in VC_TAGGED and kind not in ("MP4", "ASF"):
            dense = kind not in ID3_TAGGED
            for n in range(0, 141, 1 if (dense or full) else 9):
                try:
                    cur2 = apply_step(K, kind, base, "len=%d" % n)
                except Exception as e:
                    ctx.count("oracle-step-failed:%s" % type(e).__name__)
                    break
                ctx.count("oracle:tag-size-sweep")
                if not check_state(ctx, env, f, kind, cur2, ["delete", "len=%d" % n], names[:1] + names[-1:], 1, data):
                    break
        # a tag larger than every fixed search window (1 MiB sync search, 1 MiB copy buffer): "tags of any size"
        if base is not None:
            for n in (1024 * 1024 + 4000, 2 * 1024 * 1024 + 77) if full else (1024 * 1024 + 4000,):
                try:
                    cur3 = apply_step(K, kind, base, "len=%d" % n)
                except Exception as e:
                    ctx.count("oracle-step-failed:%s" % type(e).__name__)
                    break
                ctx.count("oracle:tag-above-1MiB")
                if not check_state(ctx, env, f, kind, cur3, ["delete", "len=%d" % n], names[:1] + names[-1:], 1, data):
                    break
        # once through a real path on disk (File given a file name)
        if hist:
            tmp = tempfile.mkdtemp(prefix="c18_")
            try:
                for e in (EXTS[kind][0], EXTS[kind][-1].upper()):
                    p = os.path.join(tmp, "file" + e)
                    with open(p, "wb") as fh:
                        fh.write(cur)
                    try:
                        r = mutagen.File(p)
                        got = None if r is None else type(r).__name__
                    except Exception as ex:
                        got = "raise " + type(ex).__name__
                    ctx.oracle_cases += 1
                    ctx.case(("path", f, tuple(hist), e))
                    if got != kind:
                        ctx.violation("oracle", "%s (%s): File(path) chose %s after %s, name %s" % (kind, f, got, "+".join(hist), e),
                                      {"runner": "c18.oracle", "sample": f, "kind": kind, "history": hist, "name": "file" + e, "how": "path",
                                       "options": None, "got": got, "expected": kind})
            finally:
                shutil.rmtree(tmp, ignore_errors=True)
    ctx.notes["concrete_wellformed_samples"] = concrete
    if only is None and concrete < 60:
        ctx.violation("oracle", "only %d samples were accepted as well-formed concrete files (expected >= 60): the types no longer load their samples" % concrete,
                      {"runner": "c18.oracle", "sample": None, "concrete": concrete})


# ------------------------------------------------------------------------------------------------------
def vm_crosscheck(ctx, env):
    mutagen, opts, easy, info = env
    rng = ctx.rng
    cases, keys = [], []
    keysm = sorted(MAGICS)
    for _ in range(36):
        data = bytearray(MAGICS[rng.choice(keysm)]) + bytes(rng.randrange(256) for _ in range(rng.choice([0, 30, 60])))
        if rng.random() < 0.5:
            mk = rng.choice(MARKERS)
            off = rng.randrange(0, 40)
            data[off:off + len(mk)] = mk
        data = bytes(data)
        nm = rng.choice(["a", "B"]) + rng.choice(ALL_EXTS)
        nm = rng.choice([nm, nm.upper()])
        tr = rng.choice([None, b"", b"APETAGEX", data[-20:]])
        trc = "None" if tr is None else "(Some %s)" % coq_bytes(tr)
        cases.append("(detect %s %s %s, detect_easy %s %s %s, map (fun c => score_of c %s %s %s) options)" % (
            (coq_bytes(nm.encode()), coq_bytes(data), trc) * 3))
        keys.append((nm, data, tr))
    pre = ("From Coq Require Import ZArith List. Import ListNotations. Require Import Base.Py Model.ScorePrims Gen.Gen_scores Model.Score. "
           "Open Scope Z_scope.")
    res, log = vm_shard("c18", pre, cases)
    if res is None or len(res) != len(cases):
        ctx.disagree("c18.vm_shard", "vm_compute shard failed to run: %s" % (log,), {})
        return

    def name_of(txt):
        txt = txt.strip()
        if txt == "None":
            return "none"
        m = re.match(r"Some \[(.*)\]$", txt)
        return "ok " + "".join(chr(int(x)) for x in m.group(1).split(";") if x.strip())
    for (nm, data, tr), r in zip(keys, res):
        ctx.vm_cases += 1
        r = r.replace("%Z", "")
        m = re.match(r"\((.*?), (.*?), \[(.*)\]\)$", r)
        if not m:
            ctx.disagree("c18.vm_shard", "cannot parse %r" % r, {})
            return
        tra = "-" if tr is None else hx(tr)
        d1 = ctx.model.call("detect", name_arg(nm), hx(data), tra)
        d2 = ctx.model.call("detect_easy", name_arg(nm), hx(data), tra)
        sc = []
        for K in opts:
            x = ctx.model.call("score", K.__name__, name_arg(nm), hx(data), tra)
            sc.append(zp(x[3:]) if x.startswith("ok ") else x)
        vm_sc = [int(x) for x in m.group(3).split(";") if x.strip()]
        if name_of(m.group(1)) != d1 or name_of(m.group(2)) != d2 or vm_sc != sc:
            ctx.disagree("c18.vm_shard", "extracted binary and vm_compute differ on %r: vm=%s binary=%s" % ((nm, data.hex()), r[:200], (d1, d2, sc)), {})
            return


def environment(ctx):
    mutagen, opts, easy = impl()
    info = model_info(ctx)
    if info is None:
        ctx.disagree("c18.model", "the model binary does not answer c18info", {})
        info = {"trailer": 160, "header": 128, "options": [], "easy": []}
    return mutagen, opts, easy, info


def run(ctx):
    env = environment(ctx)
    correspondence(ctx, env, 2500 if ctx.thorough else 500)
    direct_oracle(ctx, env, full=ctx.thorough, nperm=10 if ctx.thorough else 6)
    vm_crosscheck(ctx, env)


def search(ctx, broken):
    """a proof / the generator / the correspondence broke: exhaustive version of the direct oracle"""
    before = len(ctx.violations)
    env = environment(ctx)
    direct_oracle(ctx, env, full=True, nperm=8)
    # synthetic well-formed heads under every usual extension (no loading: selection only)
    mutagen, opts, easy, info = env
    heads = {"MP3": [b"ID3\x04\0\0\0\0\0\0", b"\xff\xfb\x90\x64", b"\xff\xe3\x18\xc4", b"\xff\xfd\x90\x64"], "TrueAudio": [b"TTA1", b"ID3\x04\0\0\0\0\0\0"],
             "FLAC": [b"fLaC\0\0\0\x22", b"ID3\x04\0\0\0\0\0\0"], "AIFF": [b"FORM\0\0\0\x40AIFF"], "MP4": [b"\0\0\0\x18ftypM4A \0\0\0\0", b"\0\0\0\x18ftyp3g2a"],
             "WavPack": [b"wvpk"], "Musepack": [b"MP+\x07", b"MPCK"], "MonkeysAudio": [b"MAC "], "OptimFROG": [b"OFR "], "ASF": [ASF_GUID],
             "AAC": [b"\xff\xf1\x50\x80", b"\xff\xf9\x50\x80", b"ADIF"], "AC3": [b"\x0b\x77"], "SMF": [b"MThd\0\0\0\x06\0\x01"], "TAK": [b"tBaK"],
             "DSF": [b"DSD "], "DSDIFF": [b"FRM8"], "WAVE": [b"RIFF\x24\0\0\0WAVE"],
             "OggVorbis": [b"OggS\0\x02" + bytes(22) + b"\x01vorbis"], "OggOpus": [b"OggS\0\x02" + bytes(22) + b"OpusHead"],
             "OggSpeex": [b"OggS\0\x02" + bytes(22) + b"Speex   "], "OggTheora": [b"OggS\0\x02" + bytes(22) + b"\x80theora"],
             "OggFLAC": [b"OggS\0\x02" + bytes(22) + b"\x7fFLAC\x01\0\0\x02fLaC"]}
    for kind, hs in sorted(heads.items()):
        for h in hs:
            data = h + bytes(200)
            for e in EXTS[kind]:
                for nm in ("q" + e, "Q" + e.upper()):
                    for ez in (False, True):
                        got = impl_choice(mutagen, nm, data, easy=ez)
                        want = "ok " + ((easy[kind].__name__ if kind in easy else kind) if ez else kind)
                        ctx.oracle_cases += 1
                        ctx.case(None)
                        if got != want and len(ctx.violations) < 12:
                            ctx.violation("oracle", "%s: File%s chose %s for a synthetic %s head named %s" % (kind, "(easy=True)" if ez else "", got, h[:8].hex(), e),
                                          {"runner": "c18.synthetic", "kind": kind, "head": h.hex(), "name": nm, "easy": ez, "got": got, "expected": want})
    ctx.notes["search"] = "full direct oracle (all samples x all usual extensions x 5-step histories x 8 permutations) and synthetic heads found %d failing inputs" % (
        len(ctx.violations) - before)


def replay(ctx, payload):
    d = payload.get("data", {}) or {}
    env = environment(ctx)
    mutagen, opts, easy, info = env
    if payload.get("kind") != "failing-input":
        run(ctx)
        return bool(ctx.violations or ctx.disagreements)
    if d.get("runner") == "c18.synthetic":
        got = impl_choice(mutagen, d["name"], bytes.fromhex(d["head"]) + bytes(200), easy=d["easy"])
        return got != d["expected"]
    if d.get("runner") == "c18.oracle" and d.get("sample"):
        byname = {k.__name__: k for k in opts}
        items = {f: dd for f, dd in samples()}
        items.update({f: dd for f, dd, _ in synth_samples()})
        data = items.get(d["sample"])
        if data is None:
            return True
        K = byname[d["kind"]]
        try:
            for st in d["history"]:
                data = apply_step(K, d["kind"], data, st)
        except Exception:
            return True
        if d["how"] == "path":
            tmp = tempfile.mkdtemp(prefix="c18_")
            try:
                p = os.path.join(tmp, d["name"])
                open(p, "wb").write(data)
                try:
                    r = mutagen.File(p)
                    got = None if r is None else type(r).__name__
                except Exception as ex:
                    got = "raise " + type(ex).__name__
            finally:
                shutil.rmtree(tmp, ignore_errors=True)
            return got != d["expected"]
        perm = [byname[n] for n in d["options"]] if d.get("options") else None
        got = detect_real(mutagen, data, d["name"], options=perm, easy=d["how"] == "easy")
        return got != d["expected"]
    run(ctx)
    return bool(ctx.violations or ctx.disagreements)


def coverage_extra(ctx):
    return {"exhaustive": False,
            "exhaustive_note": "the theorems cover every header / name / trailer of each family; the harness samples the correspondence and runs the oracle on all samples"}
