"""Structure-aware malformed inputs for C04: size/count/offset fields located by the independent walkers are
set to extreme values, packets/frames/atoms are truncated at every length, and every ID3 frame class is fed
with each prefix of a valid payload.  Deterministic (no randomness except the seed for frame values)."""
import io, os, struct, random
from fam import walkers as W

EXT4 = [0, 1, 2, 7, 8, 9, 0x7F, 0x80, 0xFF, 0x100, 0x7FFF, 0xFFFF, 0x7FFFFFFF, 0x80000000, 0xFFFFFFFF]


def put(d, off, width, value, big):
    v = value % (1 << (8 * width))
    return d[:off] + v.to_bytes(width, "big" if big else "little") + d[off + width:]


def head_sweep(d, limit=96):
    """every aligned-or-not 1/2/4-byte field in the first bytes gets extreme values in both byte orders"""
    for off in range(0, min(16, len(d))):
        for v in range(256):
            yield "byte@%d=%d" % (off, v), d[:off] + bytes([v]) + d[off + 1:]
    for off in range(0, min(limit, max(0, len(d) - 1))):
        for w in (1, 2, 4):
            if off + w > len(d):
                continue
            for v in (0, 1, 2 ** (8 * w) - 1, 2 ** (8 * w - 1), 2 ** (8 * w - 1) - 1):
                yield "head@%d/%d" % (off, w), put(d, off, w, v, True)
                if w > 1:
                    yield "head@%d/%dle" % (off, w), put(d, off, w, v, False)


def truncations(d, dense=260):
    for n in range(0, min(len(d), dense)):
        yield "trunc@%d" % n, d[:n]
    for n in range(dense, len(d), max(1, len(d) // 40)):
        yield "trunc@%d" % n, d[:n]


def ogg_inputs(d):
    try:
        pages = W.ogg_pages(d)
    except W.Bad:
        return
    for pg in pages[:4]:
        o = pg["off"]
        nseg = len(pg["lac"])
        for v in (0, 1, max(0, nseg - 1), min(255, nseg + 1), 255):
            yield "ogg-nseg@%d=%d" % (o, v), d[:o + 26] + bytes([v]) + d[o + 27:]
        for i in range(min(nseg, 3)):
            for v in (0, 1, 5, 10, 18, 27, 254, 255):
                yield "ogg-lacing@%d[%d]=%d" % (o, i, v), d[:o + 27 + i] + bytes([v]) + d[o + 28 + i:]
        # shorten the first packet of the page: keep k bytes of it (fix lacing, keep the rest of the file)
        if pg["lac"] and pg["lac"][0] < 255:
            n0 = pg["lac"][0]
            body0 = o + 27 + nseg
            for k in range(0, min(n0, 64)):
                nd = d[:o + 27] + bytes([k]) + d[o + 28:body0] + d[body0:body0 + k] + d[body0 + n0:]
                yield "ogg-packet0-len@%d=%d" % (o, k), nd
        for fld, w in ((5, 1), (6, 8), (14, 4), (18, 4)):
            for v in (0, 1, 2 ** (8 * w) - 1):
                yield "ogg-field@%d+%d" % (o, fld), put(d, o + fld, w, v, False)


def ogg_empty_foreign_pages(d):
    """a page with zero segments (legal Ogg) belonging to ANOTHER logical stream, inserted at each of the first positions"""
    try:
        pages = W.ogg_pages(d)
    except W.Bad:
        return
    for flags in (0, 2):
        hdr = b"OggS\x00" + bytes([flags]) + struct.pack("<qIII", 0, 0x5EEDF00D, 0, 0) + b"\x00"
        crc = W.ogg_crc(hdr)
        page = hdr[:22] + struct.pack("<I", crc) + hdr[26:]
        for pg in pages[:5]:
            yield "ogg-empty-foreign-page@%d flags=%d" % (pg["off"], flags), d[:pg["off"]] + page + d[pg["off"]:]
        yield "ogg-empty-foreign-page@end flags=%d" % flags, d + page
        # multiplexed: the foreign stream begins first (its BOS page with a packet), then its empty page, then this stream
        pkt = b"\x80foreign-codec-header"
        bh = b"OggS\x00\x02" + struct.pack("<qIII", 0, 0x5EEDF00D, 0, 0) + b"\x01" + bytes([len(pkt)]) + pkt
        bos = bh[:22] + struct.pack("<I", W.ogg_crc(bh)) + bh[26:]
        h2 = b"OggS\x00\x00" + struct.pack("<qIII", 0, 0x5EEDF00D, 1, 0) + b"\x00"
        empty2 = h2[:22] + struct.pack("<I", W.ogg_crc(h2)) + h2[26:]
        if flags == 0:
            yield "ogg-foreign-bos+empty-page-first", bos + empty2 + d
            yield "ogg-foreign-bos-first", bos + d


def mp4_inputs(d):
    try:
        atoms = list(W.mp4_flat(W.mp4_atoms(d)))
    except W.Bad:
        atoms = []
    for a in atoms[:80]:
        o = a["off"]
        for v in (0, 1, 7, 8, 9, 12, 15, 16, a["size"] - 1, a["size"] + 1, 0x7FFFFFFF, 0xFFFFFFFF):
            yield "mp4-size:%s=%d" % (a["name"].decode("latin-1"), v), put(d, o, 4, v, True)
        if a["path"][:4] == (b"moov", b"udta", b"meta", b"ilst") and len(a["path"]) == 5:
            # the item cut at every length (its size field; what follows becomes the next "item")
            for k in range(8, min(a["size"], 160)):
                yield "mp4-item-size:%s=%d" % (a["name"].decode("latin-1"), k), put(d, o, 4, k, True)
            # children of an ilst item: data / name / mean
            p = o + a["hdr"]
            end = o + a["size"]
            while p + 8 <= end:
                n, nm = struct.unpack(">I4s", d[p:p + 8])
                for v in (0, 1, 7, 8, 11, 12, 15, 16, n - 1, n + 1, 0xFFFFFFFF):
                    yield "mp4-item-child-size:%s/%s=%d" % (a["name"].decode("latin-1"), nm.decode("latin-1"), v), put(d, p, 4, v, True)
                for nm2 in (b"name", b"mean", b"data", b"free"):
                    yield "mp4-item-child-name:%s" % nm2.decode(), d[:p + 4] + nm2 + d[p + 8:]
                if n < 8:
                    break
                p += n
        if a["name"] in (b"stco", b"co64", b"tfhd", b"mdhd", b"hdlr", b"stsd", b"esds", b"alac", b"dac3"):
            body = o + a["hdr"]
            for k in range(0, min(a["size"] - a["hdr"], 40)):
                # truncate the atom's payload to k bytes (fix its own size, parents are left inconsistent)
                yield "mp4-short:%s=%d" % (a["name"].decode("latin-1"), k), put(d[:body + k] + d[o + a["size"]:], o, 4, a["hdr"] + k, True)
            for off2 in range(0, min(a["size"] - a["hdr"], 24), 4):
                for v in (0, 0xFFFFFFFF, 0x7FFFFFFF):
                    yield "mp4-field:%s+%d" % (a["name"].decode("latin-1"), off2), put(d, body + off2, 4, v, True)


def mp4_short_tables(d):
    """well-formed trees that contain offset tables / fragment headers shorter than their fixed fields: a short stco,
    co64 (appended as the last child of a trailing moov) and a moof/traf/tfhd appended at the end of the file.  The
    save in the contract is followed by a delete, which changes the tag size and so walks these tables."""
    try:
        atoms = W.mp4_atoms(d)
    except W.Bad:
        return
    if not atoms or atoms[-1]["name"] != b"moov" or atoms[-1]["hdr"] != 8:
        return
    moov = atoms[-1]
    at = lambda name, payload: struct.pack(">I4s", 8 + len(payload), name) + payload
    for name in (b"stco", b"co64"):
        for n in (0, 1, 3, 4, 5, 7, 8, 9, 11, 12, 13):
            extra = at(name, b"\x00" * n)
            nd = d + extra
            yield "mp4-short-table:%s payload=%d" % (name.decode(), n), put(nd, moov["off"], 4, moov["size"] + len(extra), True)
            extra = at(name, (b"\x00\x00\x00\x00" + struct.pack(">I", 0x7FFFFFFF))[:n] if n >= 8 else b"\x00" * n)
            nd = d + extra
            yield "mp4-table-count:%s payload=%d" % (name.decode(), n), put(nd, moov["off"], 4, moov["size"] + len(extra), True)
    for n in (0, 1, 3, 4, 5, 8, 11, 12, 15, 16):
        for flags in (b"\x00\x00\x00\x01", b"\x00\x02\x00\x01", b"\x00\x00\x00\x00"):
            tf = at(b"tfhd", (flags + b"\x00\x00\x00\x01" + b"\x00" * 8)[:n])
            yield "mp4-short-tfhd:payload=%d flags=%s" % (n, flags.hex()), d + at(b"moof", at(b"traf", tf))


def chunked_inputs(d, kind):
    big = kind in ("aiff", "dff")
    hs = 12 if kind == "dff" else 8
    w = 8 if kind == "dff" else 4
    p = hs + 4
    n = 0
    exts = [0, 1, 2, 3, 0xFF, len(d), len(d) + 1, 2 ** (8 * w - 1), 2 ** (8 * w) - 1]
    for v in exts:
        yield "iff-root-size=%d" % v, put(d, 4, w, v, big)
    while p + hs <= len(d) and n < 12:
        size = int.from_bytes(d[p + 4:p + 4 + w], "big" if big else "little")
        for v in exts + [size - 1, size + 1, size + 9]:
            yield "iff-chunk-size@%d=%d" % (p, v), put(d, p + 4, w, v, big)
        yield "iff-chunk-id@%d" % p, d[:p] + b"\xff\xfe\x00\x01" + d[p + 4:]
        # the container claims (nearly) everything addressable AND this chunk is huge: offsets add up beyond any file position
        for rootv in (2 ** (8 * w) - 8, 2 ** (8 * w - 1)):
            for v in (2 ** (8 * w - 1), 2 ** (8 * w - 1) - 1, 2 ** (8 * w) - 2, 2 ** 63 if w == 8 else 2 ** 31):
                yield "iff-root+chunk-size@%d=%d/%d" % (p, rootv, v), put(put(d, 4, w, rootv, big), p + 4, w, v, big)
        p += hs + size + (size & 1)
        n += 1


def mpeg_vbr_inputs(d):
    """every 16/32-bit field of a Xing/Info/VBRI header (frame count, byte count, TOC entries, scale ...) at its extremes"""
    for marker in (b"VBRI", b"Xing", b"Info", b"LAME"):
        p = d.find(marker, 0, 8192)
        if p < 0:
            continue
        for off in range(4, 64, 2):
            for w in (2, 4):
                if p + off + w > len(d):
                    continue
                for v in (0, 1, 2 ** (8 * w - 1) - 1, 2 ** (8 * w - 1), 2 ** (8 * w) - 1):
                    yield "mpeg-%s-field+%d/%d=%d" % (marker.decode(), off, w, v), put(d, p + off, w, v, True)


def aiff_rate_inputs(d, stride=1):
    """the 80-bit extended float of the AIFF COMM chunk: every exponent (sign 0 and 1) with mantissas at the
    extremes, so that every overflow path of the float decoding is reached"""
    p = d.find(b"COMM")
    if d[:4] != b"FORM" or p < 0 or p + 26 > len(d):
        return
    q = p + 8 + 8            # channels(2) frames(4) bits(2) then the 10-byte rate
    for sign in (0, 0x8000):
        for e in range(0, 0x8000, stride):
            for mant in (b"\x80\x00\x00\x00\x00\x00\x00\x00", b"\xff" * 8):
                yield "aiff-rate@exp=%04x" % (sign | e), d[:q] + (sign | e).to_bytes(2, "big") + mant + d[q + 10:]


def flac_inputs(d):
    off = 0
    if d[:3] == b"ID3" and len(d) > 10:
        off = 10 + W.syncsafe(d[6:10])
    p = off + 4
    n = 0
    while p + 4 <= len(d) and n < 10:
        h = d[p]
        size = int.from_bytes(d[p + 1:p + 4], "big")
        for v in (0, 1, 3, 4, 33, 34, 35, size - 1, size + 1, 0xFFFFFF):
            yield "flac-block-size@%d=%d" % (p, v), put(d, p + 1, 3, v, True)
        for t in (0, 1, 2, 3, 4, 5, 6, 7, 126, 127, 0x80 | (h & 0x7F)):
            yield "flac-block-type@%d=%d" % (p, t), d[:p] + bytes([t]) + d[p + 1:]
        body = p + 4
        for k in range(0, min(size, 48)):
            yield "flac-short-block@%d=%d" % (p, k), put(d[:body + k] + d[body + size:], p + 1, 3, k, True)
        if h & 0x80:
            break
        p += 4 + size
        n += 1


def asf_inputs(d):
    if d[:16] != W.ASF_HDR or len(d) < 30:
        return
    for off, w in ((16, 8), (24, 4)):
        for v in (0, 1, 29, 30, 31, len(d), 2 ** (8 * w) - 1):
            yield "asf-header@%d=%d" % (off, v), put(d, off, w, v, False)
    p = 30
    n = 0
    size_total = struct.unpack("<Q", d[16:24])[0]
    while p + 24 <= min(len(d), size_total) and n < 14:
        size = struct.unpack("<Q", d[p + 16:p + 24])[0]
        for v in (0, 1, 23, 24, 25, size - 1, size + 1, 2 ** 32, 2 ** 64 - 1):
            yield "asf-object-size@%d=%d" % (p, v), put(d, p + 16, 8, v, False)
        for off2 in range(24, min(size, 24 + 48), 2):
            for v in (0, 0xFFFF, 0x7FFF, 7):
                yield "asf-object-field@%d+%d" % (p, off2), put(d, p + off2, 2, v, False)
        if size < 24:
            break
        p += size
        n += 1


def asf_guid_confusion(d):
    """every child object of the header (and of the header extension) relabelled with every well-known object GUID"""
    if d[:16] != W.ASF_HDR or len(d) < 30:
        return
    known = [("header", W.ASF_HDR), ("cd", W.G_CD), ("ecd", W.G_ECD), ("hext", W.G_HEXT), ("pad", W.G_PAD), ("meta", W.G_META), ("metalib", W.G_METALIB),
             ("fileprops", bytes.fromhex("A1DCAB8C47A9CF118EE400C00C205365")), ("streamprops", bytes.fromhex("9107DCB7B7A9CF118EE600C00C205365")),
             ("codeclist", bytes.fromhex("4052D1861D31D011A3A400A0C90348F6"))]
    size_total = struct.unpack("<Q", d[16:24])[0]
    p = 30
    n = 0
    while p + 24 <= min(len(d), size_total) and n < 12:
        size = struct.unpack("<Q", d[p + 16:p + 24])[0]
        for lab, g in known:
            if d[p:p + 16] != g:
                yield "asf-guid@%d=%s" % (p, lab), d[:p] + g + d[p + 16:]
        if d[p:p + 16] == W.G_HEXT and size >= 46:
            q = p + 46
            m = 0
            while q + 24 <= p + size and m < 8:
                s2 = struct.unpack("<Q", d[q + 16:q + 24])[0]
                for lab, g in known:
                    if d[q:q + 16] != g:
                        yield "asf-ext-guid@%d=%s" % (q, lab), d[:q] + g + d[q + 16:]
                if s2 < 24:
                    break
                q += s2
                m += 1
        if size < 24:
            break
        p += size
        n += 1


def asf_nested_extensions(d):
    """header extension objects nested in each other (c04_loaders.asf_nested), deeper than the interpreter's recursion limit:
    alone, and in place of the sample's own objects after its first one"""
    import struct
    import c04_loaders
    if d[:16] != W.ASF_HDR or len(d) < 54:
        return
    first = 30 + struct.unpack("<Q", d[46:54])[0]
    for depth in (2, 1000, 2000):
        nest = c04_loaders.asf_nested(depth)
        yield "asf-nested-extension:%d" % depth, nest
        if 54 <= first <= len(d):
            yield "asf-nested-extension-after-first:%d" % depth, c04_loaders.asf_hdr([d[30:first], nest[30:]])


def asf_long_names(d):
    """an Extended Content Description attribute whose name fills the 16-bit length field (with and without the
    NUL terminator), inserted by byte surgery (object size, header size kept consistent)"""
    if d[:16] != W.ASF_HDR or len(d) < 30:
        return
    size_total = struct.unpack("<Q", d[16:24])[0]
    p = 30
    while p + 24 <= min(len(d), size_total):
        size = struct.unpack("<Q", d[p + 16:p + 24])[0]
        if size < 24:
            return
        if d[p:p + 16] == W.G_ECD and size >= 26:
            cnt = struct.unpack("<H", d[p + 24:p + 26])[0]
            for nbytes, term in ((0xFFFE, False), (0xFFFE, True), (0xFFFC, True), (0x8000, False)):
                name = ("n" * ((nbytes - (2 if term else 0)) // 2)).encode("utf-16-le") + (b"\x00\x00" if term else b"")
                attr = struct.pack("<H", len(name)) + name + struct.pack("<HH", 0, 4) + "v".encode("utf-16-le") + b"\x00\x00"
                nd = d[:p + 26] + attr + d[p + 26:]
                nd = nd[:p + 16] + struct.pack("<Q", size + len(attr)) + nd[p + 24:]
                nd = nd[:p + 24] + struct.pack("<H", cnt + 1) + nd[p + 26:]
                nd = nd[:16] + struct.pack("<Q", size_total + len(attr)) + nd[24:]
                yield "asf-long-attribute-name:%d%s" % (nbytes, "+nul" if term else ""), nd
            return
        p += size


def ape_inputs(d):
    i = d.rfind(b"APETAGEX")
    seen = 0
    while i >= 0 and seen < 2:
        for off in (8, 12, 16, 20):
            for v in (0, 1, 31, 32, 33, len(d), len(d) + 1, 0x7FFFFFFF, 0x80000000, 0xFFFFFFFF):
                yield "ape-field@%d+%d=%d" % (i, off, v), put(d, i + off, 4, v, False)
        seen += 1
        i = d.rfind(b"APETAGEX", 0, i)


def ape_at_start_inputs(d):
    """the same tag placed at the START of the file (header first; a layout APEv2 readers accept), whole and
    header-only, with the header's size/count/flags fields at their extremes"""
    i = d.rfind(b"APETAGEX")
    if i < 0:
        return
    size = int.from_bytes(d[i + 12:i + 16], "little")
    flags = int.from_bytes(d[i + 20:i + 24], "little")
    start = i + 32 - size - (32 if flags & (1 << 31) else 0)
    if start < 0 or not (flags & (1 << 31)) or d[start:start + 8] != b"APETAGEX":
        return
    tag, body = d[start:i + 32], d[:start][:2000]
    for lab, m in (("whole", tag + body), ("header-only", tag[:32] + body), ("no-footer", tag[:-32] + body)):
        yield "ape-at-start:" + lab, m
        for off in (8, 12, 16, 20):
            for v in (0, 1, 31, 32, 33, len(tag), len(tag) - 32, len(m), len(m) + 1, 0x7FFFFFFF, 0x80000000, 0xFFFFFFFF):
                yield "ape-at-start:%s field+%d=%d" % (lab, off, v), put(m, off, 4, v, False)


def id3_frame_inputs(seed=1):
    """every frame class of the live registry with every prefix of a valid payload (v2.3 and v2.4), and size extremes"""
    from mutagen.id3 import Frames, Frames_2_2
    from props import c12
    rng = random.Random(seed)
    S, I = None, None
    out = []
    for name in sorted(Frames):
        cls = Frames[name]
        for ver in (4, 3):
            try:
                from mutagen.id3._util import ID3SaveConfig
                fr = c12.gen_frame(rng, cls, rng.choice([0, 1, 3] if ver == 4 else [0, 1]), ver)
                data = fr._writeData(ID3SaveConfig(ver, None))
            except Exception:
                continue
            data = bytes(data)[:120]
            for k in range(0, len(data) + 1):
                body = data[:k]
                size = struct.pack(">I", k) if ver == 3 else bytes(W_syncsafe(k))
                frame = name.encode("ascii") + size + b"\x00\x00" + body
                tag = b"ID3" + bytes([ver, 0, 0]) + bytes(W_syncsafe(len(frame))) + frame
                out.append(("id3-frame-prefix:%s/v2.%d/%d" % (name, ver, k), tag))
    # size-like fields inside frame payloads: RVA2 peak width (bits) with saturated / minimal peak bytes, and a
    # byte sweep (00 7F 80 FF) over the first bytes of one valid payload per class
    def tag_of(name, body, ver=4):
        size = struct.pack(">I", len(body)) if ver == 3 else bytes(W_syncsafe(len(body)))
        frame = name.encode("ascii") + size + b"\x00\x00" + body
        return b"ID3" + bytes([ver, 0, 0]) + bytes(W_syncsafe(len(frame))) + frame
    # self-nesting structures: CHAP / CTOC frames carry embedded frames, which may again be CHAP / CTOC
    def nested(fid, depth, ver=4):
        f = b""
        for i in range(depth):
            head = (b"c%d\x00" % i + struct.pack(">IIII", 0, 0, 0xFFFFFFFF, 0xFFFFFFFF)) if fid == b"CHAP" else (b"t%d\x00" % i + b"\x03\x00")
            body = head + f
            size = struct.pack(">I", len(body)) if ver == 3 else bytes(W_syncsafe(len(body)))
            f = fid + size + b"\x00\x00" + body
        return b"ID3" + bytes([ver, 0, 0]) + bytes(W_syncsafe(len(f))) + f
    for fid in (b"CHAP", b"CTOC"):
        for depth in (2, 30, 70, 400, 3000):
            for ver in (4, 3):
                out.append(("id3-nested:%s x%d v2.%d" % (fid.decode(), depth, ver), nested(fid, depth, ver)))
    for bits in (0, 1, 7, 8, 9, 15, 16, 17, 23, 24, 25, 31, 32, 33, 63, 64, 65, 255):
        nb = (bits + 7) // 8
        for fill in (b"\xff", b"\x00", b"\x80", b"\x7f"):
            for gain in (b"\x00\x00", b"\x7f\xff", b"\x80\x00"):
                for short in (0, 1):
                    body = b"id\x00" + b"\x01" + gain + bytes([bits]) + (fill * nb)[:max(0, nb - short)]
                    out.append(("id3-rva2:bits=%d fill=%s gain=%s short=%d" % (bits, fill.hex(), gain.hex(), short), tag_of("RVA2", body)))
    for name in sorted(Frames):
        cls = Frames[name]
        try:
            from mutagen.id3._util import ID3SaveConfig
            fr = c12.gen_frame(rng, cls, 0, 4)
            data = bytes(fr._writeData(ID3SaveConfig(4, None)))[:64]
        except Exception:
            continue
        # the whole value is one or two arbitrary bytes after the first (encoding) byte
        for v in range(256):
            out.append(("id3-frame-short-value:%s=%02x" % (name, v), tag_of(name, data[:1] + bytes([v]))))
            out.append(("id3-frame-short-value:%s=%02x%02x" % (name, v, v), tag_of(name, data[:1] + bytes([v, v]))))
        for k in range(min(len(data), 20)):
            for v in (range(256) if k in (1, 2) else (0x00, 0x7F, 0x80, 0xFF)):
                if data[k] != v:
                    out.append(("id3-frame-byte:%s@%d=%02x" % (name, k, v), tag_of(name, data[:k] + bytes([v]) + data[k + 1:])))
    # frames an ID3v1 tag is derived from, in front of audio that ends in an ID3v1 tag: a save (default v1=1) rewrites
    # that tag from the v2 frames -- numbers out of the byte range, negative, with digits of other scripts, separators ...
    v1 = b"TAG" + b"old title".ljust(30, b"\x00") + b"\x00" * 60 + b"1999" + b"\x00" * 28 + b"\x00\x05" + b"\x0c"
    audio = (b"\xff\xfb\x90\x64" + b"\x00" * 413) * 4
    texts = ["", "-1", "-3/12", " -7", "+5", "0", "255", "256", "70000", "99999999999999999999", "1/", "/", "/3", "1/2/3", "x", "1e3", "1_000",
             "\u0661\u0662", "\u0663/4", "\uff11", "-0", "--1", "1-", "(255)", "(-1)", "(999)", "(RX)", "((x)", "(12", "12)", "2001-13-45", "-2001", "0000",
             "20011", "\x00", "1\x002", "\ud7ff", "\U0001F600"]
    for fid in ("TRCK", "TCON", "TDRC", "TYER", "TIT2", "TPE1", "TALB", "TPOS"):
        for ti, tx in enumerate(texts):
            for enc, codec in ((3, "utf-8"), (1, "utf-16"), (0, "latin-1")):
                try:
                    body = bytes([enc]) + tx.encode(codec)
                except UnicodeError:
                    continue
                for ver in (4, 3):
                    if ver == 3 and enc == 3:
                        continue
                    out.append(("id3-v1-rewrite:%s/%d/enc%d/v2.%d" % (fid, ti, enc, ver), tag_of(fid, body, ver) + audio + v1))
    for cd in ("", "ID3v1 Comment", "x"):
        for tx in ("", "c" * 40, "\u4e00" * 31, "a\x00b"):
            body = b"\x03" + b"eng" + cd.encode("utf-8") + b"\x00" + tx.encode("utf-8")
            out.append(("id3-v1-rewrite:COMM/%s/%d" % (cd, len(tx)), tag_of("COMM", body) + audio + v1))
    return out


def W_syncsafe(n):
    return [(n >> 21) & 0x7F, (n >> 14) & 0x7F, (n >> 7) & 0x7F, n & 0x7F]


def family_of(name):
    ext = name.rsplit(".", 1)[-1].lower()
    return {"ogg": "ogg", "opus": "ogg", "spx": "ogg", "oggflac": "ogg", "oggtheora": "ogg", "flac": "flac",
            "m4a": "mp4", "m4b": "mp4", "mp4": "mp4", "3g2": "mp4", "wma": "asf", "aif": "aiff", "wav": "wave", "dff": "dff",
            "mpc": "ape", "wv": "ape", "ape": "ape", "ofr": "ape", "ofs": "ape", "tak": "ape", "apev2": "ape", "mp3": "ape"}.get(ext)


def structured(name, d):
    fam = family_of(name)
    gens = [head_sweep(d), truncations(d)]
    if fam == "ogg":
        gens.append(ogg_inputs(d))
        gens.append(ogg_empty_foreign_pages(d))
    if fam == "mp4":
        gens.append(mp4_inputs(d))
        gens.append(mp4_short_tables(d))
    if fam in ("aiff", "wave", "dff"): gens.append(chunked_inputs(d, fam))
    if fam == "aiff" and name == "8k-1ch-1s-silence.aif": gens.append(aiff_rate_inputs(d, 1))     # one file is enough
    if fam == "flac": gens.append(flac_inputs(d))
    if name.lower().endswith((".mp3", ".mp2")):
        gens.append(mpeg_vbr_inputs(d))
    if fam == "asf":
        gens.append(asf_inputs(d))
        gens.append(asf_long_names(d))
        gens.append(asf_guid_confusion(d))
        if name == "silence-1.wma": gens.append(asf_nested_extensions(d))     # one file is enough
    if fam == "ape" or b"APETAGEX" in d[-400:]:
        gens.append(ape_inputs(d))
        gens.append(ape_at_start_inputs(d))
    for g in gens:
        for lab, m in g:
            if m != d:
                yield lab, m


# ------------------------------------------------------------------ runner (process pool)
def _worker(args):
    name, data, lo, hi, stride = args
    from props import c04
    ops = c04.openers()
    own = c04.own_opener(name, ops)
    out = []
    n = 0
    if name == "<id3-frames>":
        items = id3_frame_inputs()[lo:hi]
        chosen = ["ID3", "MP3", "File", "EasyID3"]
    else:
        items = None
        chosen = ["File", "ID3", "APEv2"] + ([own] if own else [])
    it = items if items is not None else structured(name, data)
    for idx, (lab, m) in enumerate(it):
        if items is None and (idx < lo or idx >= hi):
            continue
        # the stride thins only the generic sweeps (byte@ / head@ / trunc@); every structure-aware field input runs
        if items is None and (idx - lo) % stride and lab.split("@", 1)[0] in ("byte", "head", "trunc", "aiff-rate"):
            continue
        for on in chosen:
            probs, calls, nread, dt = c04.contract(ops[on], m)
            n += 1
            n0 = len(m) + 1024
            if calls > 64 * n0 or nread > 128 * n0:
                probs.append(("work", "BUDGET", "calls=%d bytes_read=%d for %d input bytes" % (calls, nread, len(m))))
            for ph, typ, site in probs:
                out.append({"opener": on, "seed_file": name, "mutation": lab, "phase": ph, "type": typ, "site": site,
                            "input": m.hex() if len(m) <= 4096 else None, "input_len": len(m)})
    return out, n


def run_structured(ctx, stride=1, procs=14, max_size=200000):
    import multiprocessing, time
    from props import c04
    t0 = time.time()
    tasks = []
    for name, d in c04.seeds():
        if len(d) > max_size:
            continue
        total = sum(1 for _ in structured(name, d))
        step = 4000
        for lo in range(0, total, step):
            tasks.append((name, d, lo, min(total, lo + step), stride))
    nid3 = len(id3_frame_inputs())
    for lo in range(0, nid3, 2000):
        tasks.append(("<id3-frames>", b"", lo, min(nid3, lo + 2000), 1))
    with multiprocessing.Pool(procs) as pool:
        results = pool.map(_worker, tasks, chunksize=1)
    seen = set()
    runs = 0
    for out, n in results:
        runs += n
        for p in out:
            what = "C04 %s escaped at %s" % (p["type"], p["site"]) if p["type"] not in ("TIMEOUT", "BUDGET", "CLOSED") else \
                "C04 %s: %s (%s)" % (p["type"], p["site"], p["opener"])
            if p["type"] == "BUDGET":
                what = "C04 BUDGET exceeded (%s)" % p["opener"]
            if what in seen:
                continue
            seen.add(what)
            ctx.violation("oracle", what, dict(p, runner="c04.struct"))
    ctx.evaluations += runs
    ctx.oracle_cases += runs
    ctx.count("structured-runs", runs)
    for i in range(runs // 3):
        ctx.nontrivial.add(("st%d" % i).encode())
    ctx.notes["structured"] = {"opener_runs": runs, "tasks": len(tasks), "stride": stride, "wall_s": round(time.time() - t0, 1)}
