"""C05 -- families checked by the DIRECT ORACLE ONLY (no Coq model, no theorem): files are written by the independent
reference writers below from a parameter list, loaded with mutagen's public API, and every reported attribute is compared
with the value computed from the parameters.  Each family: gen(rng, thorough) -> (tag, params); build(params) -> bytes;
spec(params) -> expected dict (keys ending in '~' : (exact Fraction, relative tolerance, absolute tolerance)); load(bytes) -> reported dict;
valid(params) -> the header is inside the format's valid domain (otherwise only 'not a table value' is judged)."""
import io, struct
from fractions import Fraction

AAC_FREQS = [96000, 88200, 64000, 48000, 44100, 32000, 24000, 22050, 16000, 12000, 11025, 8000, 7350]
AC3_KBPS = [32, 40, 48, 56, 64, 80, 96, 112, 128, 160, 192, 224, 256, 320, 384, 448, 512, 576, 640]
AC3_NFCHANS = [2, 1, 2, 3, 3, 4, 4, 5]


class MsbW:
    def __init__(self):
        self.v, self.n = 0, 0

    def put(self, value, width):
        assert 0 <= value < (1 << width), (value, width)
        self.v = (self.v << width) | value
        self.n += width
        return self

    def align(self):
        return self.put(0, -self.n % 8)

    def bytes(self):
        self.align()
        return self.v.to_bytes(self.n // 8, "big")


class LsbW:
    """bits are filled from the least significant bit of each byte on (TAK)"""

    def __init__(self):
        self.v, self.n = 0, 0

    def put(self, value, width):
        assert 0 <= value < (1 << width), (value, width)
        self.v |= value << self.n
        self.n += width
        return self

    def bytes(self):
        return self.v.to_bytes((self.n + 7) // 8, "little")


def lat(bits, lo=0):
    mx = (1 << bits) - 1
    s = {lo, lo + 1, lo + 2, mx, mx - 1, mx // 2, mx // 2 + 1}
    for k in (7, 8, 15, 16, 24, 31, 32, 36, 48, 53, 63):
        if k < bits:
            s.update((1 << k, (1 << k) - 1, (1 << k) + 1))
    return sorted(x for x in s if lo <= x <= mx)


def rnd(rng, bits, lo=0):
    mx = (1 << bits) - 1
    r = rng.random()
    if r < 0.3:
        return rng.randint(lo, mx)
    if r < 0.6:
        return max(lo, min(mx, (1 << rng.randrange(0, bits + 1)) + rng.randint(-1, 1)))
    return min(mx, lo + int(rng.expovariate(1.0 / 50000)))


def id3_prefix(n):
    return b"ID3\x04\x00\x00" + bytes([(n >> 21) & 127, (n >> 14) & 127, (n >> 7) & 127, n & 127]) + b"\x00" * n


class Family:
    name = ""
    slug = ""

    def valid(self, p):
        return True


# ------------------------------------------------------------------------------------------------ AAC ADTS
class Adts(Family):
    """ISO/IEC 13818-7 adts_frame(): syncword 12, ID 1, layer 2, protection_absent 1, profile 2, sampling_frequency_index 4,
    private_bit 1, channel_configuration 3, original_copy 1, home 1, copyright_identification_bit 1, copyright_identification_start 1,
    aac_frame_length 13, adts_buffer_fullness 11, number_of_raw_data_blocks_in_frame 2 [, crc words]; identical frames."""
    name, slug = "adts", "aac-adts"
    F = ["id", "layer", "protection_absent", "profile", "sfi", "private", "channel_configuration", "original", "home", "cbit", "cstart",
         "frame_length", "fullness", "nordbif", "frames", "junk", "id3"]

    def build(self, p):
        id_, layer, pa, profile, sfi, priv, cc, orig, home, cbit, cstart, flen, full, n, frames, junk, id3 = p
        w = MsbW().put(0xFFF, 12)
        for v, k in ((id_, 1), (layer, 2), (pa, 1), (profile, 2), (sfi, 4), (priv, 1), (cc, 3), (orig, 1), (home, 1), (cbit, 1), (cstart, 1),
                     (flen, 13), (full, 11), (n, 2)):
            w.put(v, k)
        frame = w.bytes() + b"\x00" * (flen - 7)
        return (id3_prefix(id3) if id3 else b"") + b"\x00" * junk + frame * frames

    def crc_bytes(self, p):
        pa, n = p[2], p[13]
        if pa:
            return 0
        return 2 if n == 0 else 4 * (n + 1)      # header error check (positions + crc), plus one crc per raw data block

    def valid(self, p):
        return p[4] < 13 and p[11] >= 7 + self.crc_bytes(p) and p[14] >= 3

    def spec(self, p):
        id_, layer, pa, profile, sfi, priv, cc, orig, home, cbit, cstart, flen, full, n, frames, junk, id3 = p
        freq = AAC_FREQS[sfi] if sfi < 13 else 0
        parsed = min(frames, 100)
        samples = parsed * (n + 1) * 1024
        payload = parsed * (flen - 7 - self.crc_bytes(p))
        r = {"type": "ADTS", "sample_rate": freq, "channels": 8 if cc == 7 else cc, "bitrate": 8 * payload * freq // samples}
        if freq:
            # the duration is extrapolated from the parsed frames over the stream size; the code's stream size is short by the
            # bytes in front of the first sync plus one and its parsed size includes them (documented as "just a guess"):
            # tolerance (2 * junk + 2) / stream size
            exact = Fraction(frames * (n + 1) * 1024, freq)
            r["length~"] = (exact, Fraction(2 * junk + 2, frames * flen), 0)
        else:
            r["length"] = 0.0
        return r

    def load(self, data):
        import mutagen.aac
        i = mutagen.aac.AAC(io.BytesIO(data)).info
        return {"type": i._type, "sample_rate": i.sample_rate, "channels": i.channels, "bitrate": i.bitrate, "length": i.length}

    def gen(self, rng, thorough):
        def base(**kw):
            p = [rng.randrange(2), 0, rng.randrange(2), rng.randrange(4), rng.randrange(13), rng.randrange(2), rng.randrange(8), rng.randrange(2),
                 rng.randrange(2), 0, 0, rng.choice([64, 200, 371, 1024]), rng.choice([0, 0x7FF, rng.randrange(2048)]), 0, rng.choice([3, 4, 7]), 0, 0]
            for k, v in kw.items():
                p[self.F.index(k)] = v
            return p
        for sfi in range(13):
            for cc in range(8):
                for pa in (0, 1):
                    yield "sfi-channels-protection", base(sfi=sfi, channel_configuration=cc, protection_absent=pa)
        for n in range(4):
            for pa in (0, 1):
                for flen in (7 + 16 * (1 - pa) + 1, 100, 8191):
                    yield "blocks-length", base(nordbif=n, protection_absent=pa, frame_length=flen, frames=3)
        for flen in lat(13, 9):
            yield "frame-length", base(frame_length=flen, frames=3, nordbif=0)
        for full in lat(11):
            yield "fullness", base(fullness=full)
        for id_ in (0, 1):
            for profile in range(4):
                for priv in (0, 1):
                    for orig in (0, 1):
                        for home in (0, 1):
                            yield "fixed-header-bits", base(id=id_, profile=profile, private=priv, original=orig, home=home)
        for frames in (3, 4, 99, 100, 101, 150):
            yield "frame-count", base(frames=frames, frame_length=40)
        for junk in (1, 2, 100, 511):
            yield "leading-bytes", base(junk=junk, frames=8, frame_length=300)
        for id3 in (1, 127, 128, 1000):
            yield "id3-prefix", base(id3=id3, frames=6)
        for sfi in (13, 14, 15):
            yield "reserved-sfi", base(sfi=sfi)
        for _ in range(400 if thorough else 60):
            yield "random", base(nordbif=rng.randrange(4), frame_length=rng.choice([40, 41, 700, rnd(rng, 13, 25)]), frames=rng.choice([3, 5, 12]))


# ------------------------------------------------------------------------------------------------ TAK
class Tak(Family):
    """'tBaK', metadata blocks (type 7 bits + 1 unused, 24-bit LE size incl. 3 CRC bytes); STREAMINFO bits LSB first:
    codec 6, profile 4, frame duration 4, sample count 35, data type 3, sample rate - 6000 18, bits - 8 5, channels - 1 4,
    has_extension 1 [valid bits 5, has speaker assignment 1 [6 bits per channel]]; ENCODERINFO: patch, minor, major bytes."""
    name, slug = "tak", "tak-streaminfo"
    F = ["codec", "profile", "frame_duration", "samples", "data_type", "rate", "bits", "channels", "ext", "valid_bits", "speakers", "encoder",
         "blocks_before", "unused_bit"]

    def build(self, p):
        codec, profile, fd, samples, dt, rate, bits, ch, ext, vb, spk, enc, before, unused = p
        w = LsbW().put(codec, 6).put(profile, 4).put(fd, 4).put(samples, 35).put(dt, 3).put(rate - 6000, 18).put(bits - 8, 5).put(ch - 1, 4)
        w.put(1 if ext else 0, 1)
        if ext:
            w.put(vb, 5).put(1 if spk else 0, 1)
            if spk:
                for i in range(ch):
                    w.put((i * 7 + 1) % 64, 6)

        def block(t, data):
            return bytes([t | (unused << 7)]) + struct.pack("<I", len(data) + 3)[:3] + data + b"\xaa\xbb\xcc"
        out = b"tBaK"
        for t in before:                       # seek table / wave data / padding / md5 blocks in front of the stream info
            out += block(t, bytes(range(16)) * 2)
        out += block(1, w.bytes())
        if enc is not None:
            out += block(4, bytes([enc & 255, (enc >> 8) & 255, (enc >> 16) & 255, 2]))
        out += block(7, b"\x00" * 5)
        out += bytes([0, 0, 0, 0])
        return out + b"\xff" * 32

    def spec(self, p):
        codec, profile, fd, samples, dt, rate, bits, ch, ext, vb, spk, enc, before, unused = p
        return {"sample_rate": rate, "bits_per_sample": bits, "channels": ch, "number_of_samples": samples,
                "length": float(samples) / float(rate),
                "encoder_info": self._encoder(enc, before)}

    @staticmethod
    def _encoder(enc, before):
        # an ENCODERINFO block (type 4) among the blocks in front of the stream info is an encoder block like any other: its
        # first three bytes (the filler 00 01 02 ...) are patch, minor, major; a later one (enc) replaces it
        if enc is None and 4 in before:
            enc = 0x020100
        return "" if enc is None else "TAK %d.%d.%d" % ((enc >> 16) & 255, (enc >> 8) & 255, enc & 255)

    def load(self, data):
        import mutagen.tak
        i = mutagen.tak.TAK(io.BytesIO(data)).info
        return {"sample_rate": i.sample_rate, "bits_per_sample": i.bits_per_sample, "channels": i.channels, "number_of_samples": i.number_of_samples,
                "length": i.length, "encoder_info": i.encoder_info}

    def gen(self, rng, thorough):
        def base(**kw):
            ch = rng.randrange(1, 17)
            p = [rng.randrange(64), rng.randrange(16), rng.randrange(16), rnd(rng, 35), rng.randrange(8), 6000 + rnd(rng, 18), 8 + rng.randrange(32), ch, 0,
                 rng.randrange(32), 0, rng.choice([None, 0x020301, rng.randrange(1 << 24)]), [], 0]
            for k, v in kw.items():
                p[self.F.index(k)] = v
            return p
        for v in lat(35):
            yield "samples", base(samples=v)
        for v in lat(18):
            yield "rate", base(rate=6000 + v)
        for v in range(32):
            yield "bits", base(bits=8 + v)
        for v in range(1, 17):
            yield "channels", base(channels=v)
            yield "channels-ext", base(channels=v, ext=1, speakers=0)
            if 80 + 6 + 6 * v <= 160:      # larger blocks are not judged: the layout is known only from ffmpeg's reader (MANIFEST note)
                yield "channels-ext-speakers", base(channels=v, ext=1, speakers=1)
        for a in range(0, 64, 9):
            for b in range(0, 16, 5):
                for c in range(0, 16, 5):
                    for d in range(8):
                        yield "skipped-fields", base(codec=a, profile=b, frame_duration=c, data_type=d)
        for enc in (None, 0, 1, 0x010000, 0x000100, 0xFFFFFF, 0x020301):
            yield "encoder", base(encoder=enc)
        for before in ([2], [3], [5], [6], [2, 3, 5], [4]):
            yield "blocks-before", base(blocks_before=before)
        yield "unused-bit", base(unused_bit=1)
        for _ in range(300 if thorough else 60):
            yield "random", base(ext=rng.randrange(2))


# ------------------------------------------------------------------------------------------------ DSDIFF
class Dsdiff(Family):
    """FRM8 'DSD ' { FVER, PROP 'SND ' { FS u32, CHNL u16 + ids, CMPR id + pstring }, DSD data | DST { FRTE u32 frames u16 rate, frames } }
    (chunk header: 4-char id, u64 BE size; odd sizes padded)"""
    name, slug = "dsdiff", "dsdiff-prop"
    F = ["rate", "channels", "compression", "data_size", "frames", "frame_rate", "dst_bytes", "order", "extra"]

    @staticmethod
    def chunk(cid, data):
        return cid + struct.pack(">Q", len(data)) + data + (b"\x00" if len(data) % 2 else b"")

    def build(self, p):
        rate, ch, comp, data_size, frames, frate, dst_bytes, order, extra = p
        fs = self.chunk(b"FS  ", struct.pack(">I", rate))
        chnl = self.chunk(b"CHNL", struct.pack(">H", ch) + b"".join((b"C%03d" % i) for i in range(min(ch, 6))))
        name = b"not compressed" if comp == "DSD" else b"DST Encoded"
        cmpr = self.chunk(b"CMPR", comp.encode("ascii").ljust(4) + bytes([len(name)]) + name)
        subs = {"F": fs, "C": chnl, "M": cmpr, "X": self.chunk(b"ABSS", b"\x00" * 8), "L": self.chunk(b"LSCO", b"\x00\x00")}
        prop = self.chunk(b"PROP", b"SND " + b"".join(subs[c] for c in order))
        fver = self.chunk(b"FVER", b"\x01\x05\x00\x00")
        if comp == "DSD":
            # the declared size is what counts; only a few bytes are physically present
            audio = b"DSD " + struct.pack(">Q", data_size) + b"\x00" * min(data_size + data_size % 2, 16)
        else:
            frte = self.chunk(b"FRTE", struct.pack(">IH", frames, frate))
            body = frte + b"".join(self.chunk(b"DSTF", b"\x00" * 4) for _ in range(2))
            audio = b"DST " + struct.pack(">Q", len(frte) + dst_bytes) + body[:len(frte) + min(dst_bytes, len(body) - len(frte))]
        pre = self.chunk(b"COMT", b"\x00\x00") if extra else b""
        body = b"DSD " + fver + prop + pre + audio
        total = 4 + len(fver) + len(prop) + len(pre) + 12 + (data_size + data_size % 2 if comp == "DSD" else len(audio) - 12)
        return b"FRM8" + struct.pack(">Q", max(total, len(body))) + body

    def spec(self, p):
        rate, ch, comp, data_size, frames, frate, dst_bytes, order, extra = p
        r = {"sample_rate": rate, "channels": ch, "bits_per_sample": 1, "compression": comp}
        if comp == "DSD":
            r["bitrate"] = ch * rate
            if rate and ch:
                r["length~"] = (Fraction(data_size * 8, ch * rate), Fraction(1, 2 ** 50), 0)
        else:
            if frate:
                r["length~"] = (Fraction(frames, frate), Fraction(1, 2 ** 50), 0)
            if frames:
                r["bitrate~"] = (Fraction(dst_bytes, frames) * 8 * frate, Fraction(1, 2 ** 48), 0)
        return r

    def load(self, data):
        import mutagen.dsdiff
        i = mutagen.dsdiff.DSDIFF(io.BytesIO(data)).info
        return {"sample_rate": i.sample_rate, "channels": i.channels, "bits_per_sample": i.bits_per_sample, "compression": i.compression,
                "bitrate": i.bitrate, "length": i.length}

    def gen(self, rng, thorough):
        def base(**kw):
            p = [rng.choice([2822400, 5644800, 11289600, rnd(rng, 32, 1)]), rng.choice([1, 2, 5, 6, rnd(rng, 16, 1)]), "DSD", rng.choice([0, 8, 705600, rnd(rng, 40)]),
                 rnd(rng, 32), rng.choice([75, rnd(rng, 16, 1)]), rnd(rng, 30), "FCM", 0]
            for k, v in kw.items():
                p[self.F.index(k)] = v
            return p
        for comp in ("DSD", "DST"):
            for v in lat(32, 1):
                yield "rate", base(rate=v, compression=comp)
            for v in lat(16, 1):
                yield "channels", base(channels=v, compression=comp)
            for order in ("FCM", "MCF", "CFM", "XFLCM", "FXCXM"):
                yield "order", base(order=order, compression=comp)
            yield "extra-chunk", base(extra=1, compression=comp)
        for v in lat(48):
            yield "dsd-data-size", base(data_size=v)
        for v in lat(32):
            for fr in (1, 75, 65535):
                yield "dst-frames", base(compression="DST", frames=v, frame_rate=fr)
        for v in lat(16):
            yield "dst-frame-rate", base(compression="DST", frame_rate=v)
        for v in lat(40):
            yield "dst-bytes", base(compression="DST", dst_bytes=v, frames=rng.choice([1, 75, 1000]))
        for _ in range(300 if thorough else 50):
            yield "random", base(compression=rng.choice(["DSD", "DST"]))


# ------------------------------------------------------------------------------------------------ MP4
def atom(name, data):
    return struct.pack(">I", len(data) + 8) + name + data


def desc_len(n, nbytes):
    """MPEG-4 descriptor length in exactly nbytes bytes (7 bits each, continuation bit on all but the last)"""
    out = []
    for i in reversed(range(nbytes)):
        out.append(((n >> (7 * i)) & 0x7F) | (0x80 if i else 0))
    assert n < (1 << (7 * nbytes))
    return bytes(out)


AOT_GA = (1, 2, 3, 4, 6, 7, 17, 19, 20, 21, 22, 23)
AOT_CAN_SBR = (1, 2, 3, 4, 6, 17, 19, 20, 22)
AOT_NAMES = {1: "AAC MAIN", 2: "AAC LC", 3: "AAC SSR", 4: "AAC LTP", 6: "AAC scalable", 7: "TwinVQ", 17: "ER AAC LC", 23: "ER AAC LD", 8: "CELP",
             32: "Layer-1", 33: "Layer-2", 34: "Layer-3", 36: "ALS", 42: "USAC"}


class Mp4(Family):
    """ISO/IEC 14496-12 moov/trak/mdia {mdhd v0|v1, hdlr 'soun', minf/stbl/stsd {mp4a+esds | alac+alac | ac-3+dac3 | other}};
    14496-1 ES_Descriptor / DecoderConfigDescriptor / DecoderSpecificInfo with 1..4 byte lengths; 14496-3 AudioSpecificConfig."""
    name, slug = "mp4", "mp4-mdhd-stsd"
    F = ["mdhd_version", "timescale", "duration", "kind", "channels", "sample_size", "rate", "c"]

    # ---- AudioSpecificConfig
    @staticmethod
    def put_aot(w, aot):
        if aot >= 32:
            w.put(31, 5).put(aot - 32, 6)
        else:
            w.put(aot, 5)

    @staticmethod
    def put_freq(w, f):
        """f = ('i', index) | ('x', explicit 24-bit frequency)"""
        if f[0] == "i":
            w.put(f[1], 4)
        else:
            w.put(15, 4).put(f[1], 24)

    @staticmethod
    def freq_of(f):
        return (AAC_FREQS[f[1]] if f[1] < 13 else 0) if f[0] == "i" else f[1]

    def asc(self, c):
        w = MsbW()
        aot, freq, cc = c["aot"], c["freq"], c["chan"]
        self.put_aot(w, aot)
        self.put_freq(w, freq)
        w.put(cc, 4)
        inner = aot
        if aot in (5, 29):
            self.put_freq(w, c["ext_freq"])
            inner = c["inner_aot"]
            self.put_aot(w, inner)
            if inner == 22:
                w.put(c.get("ext_chan", 2), 4)
        if inner in AOT_GA:
            w.put(c.get("frame_length_flag", 0), 1)
            core = c.get("core_coder_delay")
            w.put(0 if core is None else 1, 1)
            if core is not None:
                w.put(core, 14)
            extf = c.get("extension_flag", 0)
            w.put(extf, 1)
            if cc == 0:
                self.put_pce(w, c["pce"])
            if inner in (6, 20):
                w.put(c.get("layer_nr", 0), 3)
            if extf:
                if inner == 22:
                    w.put(0, 5).put(0, 11)
                if inner in (17, 19, 20, 23):
                    w.put(0, 3)
                w.put(0, 1)
            if inner in (17, 19, 20, 21, 22, 23):
                w.put(c.get("ep_config", 0), 2)
            sync = c.get("sync_ext")
            if sync is not None and aot not in (5, 29):
                # backward compatible explicit signalling: 0x2b7, AOT 5, sbrPresentFlag [, frequency [, 0x548, psPresentFlag]]
                sbr, ext_freq, ps = sync
                w.put(0x2B7, 11)
                self.put_aot(w, 5)
                w.put(sbr, 1)
                if sbr:
                    self.put_freq(w, ext_freq)
                    if ps is not None:
                        w.put(0x548, 11).put(ps, 1)
        return w.bytes()

    @staticmethod
    def put_pce(w, pce):
        front, side, back, lfe, sfi = pce[:5]
        comment = pce[5] if len(pce) > 5 else 0
        w.put(0, 4).put(1, 2).put(sfi, 4).put(len(front), 4).put(len(side), 4).put(len(back), 4).put(len(lfe), 2).put(0, 3).put(0, 4)
        w.put(0, 1).put(0, 1).put(0, 1)
        for e in front + side + back:
            w.put(e, 5)
        for e in lfe:
            w.put(e, 4)
        w.align()
        w.put(comment, 8)
        for i in range(comment):
            w.put(65 + i % 26, 8)

    def esds(self, c):
        lb = c.get("len_bytes", 1)
        dsi = b""
        if c.get("asc", True):
            a = self.asc(c)
            dsi = b"\x05" + desc_len(len(a), lb) + a
        dcd_body = bytes([c["oti"], (c.get("stream_type", 5) << 2) | (c.get("upstream", 0) << 1) | 1]) + struct.pack(">I", c.get("buffer_size", 0))[1:] + \
            struct.pack(">II", c.get("max_bitrate", 0), c["avg_bitrate"]) + dsi
        dcd = b"\x04" + desc_len(len(dcd_body), lb) + dcd_body
        flags = c.get("es_flags", 0)           # streamDependenceFlag 4, URL_Flag 2, OCRstreamFlag 1
        es_body = struct.pack(">H", c.get("es_id", 0)) + bytes([(flags << 5) | c.get("priority", 0)])
        if flags & 4:
            es_body += struct.pack(">H", 7)
        if flags & 2:
            es_body += bytes([5]) + b"url:/"
        if flags & 1:
            es_body += struct.pack(">H", 9)
        es_body += dcd + b"\x06" + desc_len(1, lb) + b"\x02"
        return atom(b"esds", b"\x00\x00\x00\x00" + b"\x03" + desc_len(len(es_body), lb) + es_body)

    def build(self, p):
        ver, timescale, duration, kind, ch, ssize, rate, c = p
        if ver == 0:
            mdhd = b"\x00\x00\x00\x00" + struct.pack(">IIII", 1, 2, timescale, duration) + b"\x55\xc4\x00\x00"
        else:
            mdhd = b"\x01\x00\x00\x00" + struct.pack(">QQIQ", 1, 2, timescale, duration) + b"\x55\xc4\x00\x00"
        hdlr = b"\x00\x00\x00\x00" + b"\x00" * 4 + b"soun" + b"\x00" * 12 + b"SoundHandler\x00"
        entry_head = b"\x00" * 6 + b"\x00\x01" + b"\x00" * 8 + struct.pack(">HHHH", ch, ssize, 0, 0) + struct.pack(">I", (rate << 16) & 0xFFFFFFFF)
        if kind == "mp4a":
            entry = atom(b"mp4a", entry_head + self.esds(c))
        elif kind == "alac":
            cookie = b"\x00\x00\x00\x00" + struct.pack(">IBBBBBBHIII", c["frame_length"], c["compatible"], c["bit_depth"], 40, 10, 14, c["channels"], 255, 0,
                                                      c["avg_bitrate"], c["rate"])
            entry = atom(b"alac", entry_head + atom(b"alac", cookie))
        elif kind == "ac-3":
            w = MsbW().put(c["fscod"], 2).put(c["bsid"], 5).put(c["bsmod"], 3).put(c["acmod"], 3).put(c["lfeon"], 1).put(c["bit_rate_code"], 5).put(0, 5)
            entry = atom(b"ac-3", entry_head + atom(b"dac3", w.bytes()))
        else:
            entry = atom(kind.encode("latin-1"), entry_head + atom(b"wave", b"\x00" * 4))
        n_entries = c.get("entries", 1) if isinstance(c, dict) else 1
        stsd = atom(b"stsd", b"\x00\x00\x00\x00" + struct.pack(">I", n_entries) + (entry if n_entries else b""))
        stbl = atom(b"stbl", stsd + atom(b"stts", b"\x00" * 8))
        minf = atom(b"minf", atom(b"smhd", b"\x00" * 8) + stbl)
        mdia = atom(b"mdia", atom(b"mdhd", mdhd) + atom(b"hdlr", hdlr) + minf)
        # a video track in front: the audio track must be picked by its handler type
        vhdlr = b"\x00\x00\x00\x00" + b"\x00" * 4 + b"vide" + b"\x00" * 12 + b"VideoHandler\x00"
        vmdhd = b"\x00\x00\x00\x00" + struct.pack(">IIII", 1, 2, 90000, 12345) + b"\x55\xc4\x00\x00"
        vtrak = atom(b"trak", atom(b"mdia", atom(b"mdhd", vmdhd) + atom(b"hdlr", vhdlr)))
        traks = (vtrak if (isinstance(c, dict) and c.get("video_first")) else b"") + atom(b"trak", atom(b"tkhd", b"\x00" * 84) + mdia)
        moov = atom(b"moov", atom(b"mvhd", b"\x00" * 100) + traks)
        return atom(b"ftyp", b"M4A \x00\x00\x00\x00M4A mp42isom") + moov + atom(b"mdat", b"\x00" * 8)

    def spec(self, p):
        ver, timescale, duration, kind, ch, ssize, rate, c = p
        r = {"length": (float(duration) / timescale) if timescale else 0, "channels": ch, "bits_per_sample": ssize, "sample_rate": rate & 0xFFFF, "bitrate": 0,
             "codec": kind}
        if isinstance(c, dict) and c.get("entries", 1) == 0:
            return {"length": r["length"], "channels": 0, "bits_per_sample": 0, "sample_rate": 0, "bitrate": 0, "codec": ""}
        if kind == "mp4a":
            r["bitrate"] = c["avg_bitrate"]
            r["codec"] = "mp4a.%X" % c["oti"]
            if c.get("asc", True) and (c["oti"], c.get("stream_type", 5)) == (0x40, 5):
                aot = c["aot"]
                inner = c["inner_aot"] if aot in (5, 29) else aot
                r["codec"] += ".%d" % inner
                sbr, ps, ext_freq = -1, -1, None
                if aot in (5, 29):
                    sbr, ext_freq = 1, self.freq_of(c["ext_freq"])
                    if aot == 29:
                        ps = 1
                elif inner in AOT_GA and c.get("sync_ext") is not None and not (inner in (17, 19, 20, 21, 22, 23) and c.get("ep_config", 0) in (2, 3)):
                    sbr = c["sync_ext"][0]
                    if sbr:
                        ext_freq = self.freq_of(c["sync_ext"][1])
                        if c["sync_ext"][2] is not None:
                            ps = c["sync_ext"][2]
                base = self.freq_of(c["freq"])
                if sbr == 1:
                    sr = ext_freq
                elif sbr == 0:
                    sr = base
                else:
                    sr = base if (inner not in AOT_CAN_SBR or base > 24000) else 0      # implicit SBR possible: unknown
                if sr:
                    r["sample_rate"] = sr
                cc = c["chan"]
                if inner == 22 and aot in (5, 29):
                    cc = c.get("ext_chan", 2)
                if c["chan"] == 0 and inner in AOT_GA:
                    front, side, back, lfe = c["pce"][:4]
                    chans = sum(1 + (e >> 4) for e in front + side + back) + len(lfe)
                elif cc == 1:
                    chans = 0 if ps == -1 else (2 if ps == 1 else 1)
                elif cc == 7:
                    chans = 8
                elif cc > 7:
                    chans = 0
                else:
                    chans = cc
                if chans:
                    r["channels"] = chans
                name = AOT_NAMES.get(inner)
                if name is not None:
                    r["codec_description"] = name + ("+SBR" if sbr == 1 else "") + ("+PS" if ps == 1 else "")
        elif kind == "alac":
            r["codec_description"] = "ALAC"
            if c["compatible"] == 0:
                r.update({"bits_per_sample": c["bit_depth"], "channels": c["channels"], "bitrate": c["avg_bitrate"], "sample_rate": c["rate"]})
        elif kind == "ac-3":
            r["codec_description"] = "AC-3"
            r["channels"] = AC3_NFCHANS[c["acmod"]] + c["lfeon"]
            r["bitrate"] = AC3_KBPS[c["bit_rate_code"]] * 1000 if c["bit_rate_code"] < len(AC3_KBPS) else 0
        else:
            r["codec_description"] = kind.upper()
        return r

    def load(self, data):
        import mutagen.mp4
        i = mutagen.mp4.MP4(io.BytesIO(data)).info
        return {"length": i.length, "channels": i.channels, "bits_per_sample": i.bits_per_sample, "sample_rate": i.sample_rate, "bitrate": i.bitrate,
                "codec": i.codec, "codec_description": i.codec_description}

    def gen(self, rng, thorough):
        def aac(**kw):
            c = {"oti": 0x40, "avg_bitrate": rng.choice([0, 128000, rnd(rng, 32)]), "aot": 2, "freq": ("i", rng.choice([3, 4])), "chan": 2,
                 "len_bytes": rng.choice([1, 4])}
            c.update(kw)
            return c

        def base(kind="mp4a", c=None, **kw):
            p = [rng.randrange(2), rng.choice([44100, 48000, 1000, rnd(rng, 32, 1)]), rnd(rng, 32), kind, rng.choice([1, 2, 6]), 16, rng.choice([44100, 48000, 22050]),
                 aac() if c is None else c]
            for k, v in kw.items():
                p[self.F.index(k)] = v
            return p
        for ver in (0, 1):
            for ts in lat(32, 1):
                yield "mdhd-timescale", base(mdhd_version=ver, timescale=ts)
            for d in lat(64 if ver else 32):
                yield "mdhd-duration", base(mdhd_version=ver, duration=d)
        for v in lat(16):
            yield "entry-channels", base("sowt", {}, channels=v)
            yield "entry-sample-size", base("sowt", {}, sample_size=v)
            yield "entry-rate", base("sowt", {}, rate=v)
        # esds: sampling frequency index x channel configuration for AAC LC (entry values differ so that the source is visible)
        for sfi in range(16):
            for cc in range(1, 16):
                if sfi == 15:
                    f = ("x", rng.choice([1, 7350, 44100, 96000, 2 ** 24 - 1]))
                else:
                    f = ("i", sfi)
                yield "asc-freq-chan", base(c=aac(freq=f, chan=cc), channels=9, rate=12345)
        for aot in (1, 2, 3, 4, 6, 7, 8, 17, 19, 20, 21, 22, 23, 32, 33, 34, 36, 42, 63, 94):
            for sfi in (3, 6, 11):
                yield "asc-object-type", base(c=aac(aot=aot, freq=("i", sfi), ep_config=rng.choice([0, 1])), channels=2, rate=12345)
        for aot in (5, 29):
            for inner in (1, 2, 4, 22):
                for sfi in (6, 7, 8):
                    for ext in (("i", 3), ("i", 4), ("x", 50000)):
                        yield "asc-explicit-sbr", base(c=aac(aot=aot, inner_aot=inner, freq=("i", sfi), ext_freq=ext, chan=rng.choice([1, 2]), ext_chan=rng.choice([1, 2, 6])),
                                                       channels=9, rate=12345)
        for sbr in (0, 1):
            for ps in (None, 0, 1):
                for sfi in (3, 6, 8):
                    for cc in (1, 2):
                        yield "asc-sync-extension", base(c=aac(freq=("i", sfi), chan=cc, sync_ext=(sbr, ("i", max(sfi - 3, 0)), ps if sbr else None)),
                                                         channels=9, rate=12345)
        for core in (None, 0, 16383):
            for extf in (0, 1):
                for flf in (0, 1):
                    for aot in (2, 6, 17, 20, 22, 23):
                        yield "asc-ga-flags", base(c=aac(aot=aot, core_coder_delay=core, extension_flag=extf, frame_length_flag=flf, layer_nr=rng.randrange(8),
                                                         sync_ext=(1, ("i", 3), None), freq=("i", 6)), channels=9, rate=12345)
        lays = [([0], [], [], []), ([16], [], [], []), ([0, 17], [], [18], [3]), ([0, 17], [18], [19], [0]), (list(range(16, 31)), [1], [17, 2], [1, 2, 3])]
        for lay in lays:
            for aot in (2, 17):
                yield "asc-pce", base(c=aac(aot=aot, chan=0, pce=lay + (4,), freq=("i", 3), sync_ext=rng.choice([None, (1, ("i", 3), None)])), channels=9, rate=12345)
        # descriptors longer than 127 bytes (a program config element with a long comment): the length needs two bytes or more, and
        # the SBR signalling behind the program config element is only found when the length is decoded correctly
        for lb in (2, 3, 4):
            for clen in (100, 130, 255):
                yield "asc-long-descriptor", base(c=aac(aot=2, chan=0, pce=lays[2] + (4, clen), freq=("i", 6), sync_ext=(1, ("i", 3), None), len_bytes=lb),
                                                  channels=9, rate=12345)
        for lb in (1, 2, 3, 4):
            for flags in range(8):
                yield "esds-lengths-flags", base(c=aac(len_bytes=lb, es_flags=flags, es_id=rng.randrange(65536), priority=rng.randrange(32),
                                                       buffer_size=rnd(rng, 24), max_bitrate=rnd(rng, 32)))
        for v in lat(32):
            yield "esds-avg-bitrate", base(c=aac(avg_bitrate=v))
        for oti, st in ((0x40, 5), (0x6B, 5), (0x69, 5), (0x40, 4), (0x20, 4), (0xA9, 5)):
            yield "esds-object-type-indication", base(c=aac(oti=oti, stream_type=st))
        yield "esds-no-asc", base(c=aac(asc=False))
        for compat in (0, 1):
            for depth in (16, 20, 24, 32, 255):
                for chn in (1, 2, 6, 8, 255):
                    yield "alac", base("alac", {"frame_length": 4096, "compatible": compat, "bit_depth": depth, "channels": chn, "avg_bitrate": rnd(rng, 32),
                                                "rate": rng.choice([8000, 44100, 192000, 384000, rnd(rng, 32)])}, channels=2, rate=44100)
        for acmod in range(8):
            for lfe in (0, 1):
                yield "dac3-acmod", base("ac-3", {"fscod": rng.randrange(3), "bsid": 8, "bsmod": rng.randrange(8), "acmod": acmod, "lfeon": lfe,
                                                  "bit_rate_code": rng.randrange(19)}, channels=2, rate=48000)
        for code in range(32):
            yield "dac3-bit-rate-code", base("ac-3", {"fscod": 0, "bsid": rng.randrange(32), "bsmod": 0, "acmod": 7, "lfeon": 1, "bit_rate_code": code}, rate=48000)
        for kind in ("sowt", "twos", "samr", ".mp3", "ec-3", "Opus", "fLaC"):
            yield "other-codec", base(kind, {})
        yield "no-entries", base(c=aac(entries=0))
        yield "video-track-first", base(c=aac(video_first=True))
        for _ in range(200 if thorough else 40):
            yield "random", base(c=aac(freq=("i", rng.randrange(13)), chan=rng.randrange(1, 8), aot=rng.choice([1, 2, 3, 4, 6, 17, 23])), channels=9, rate=12345)


# ------------------------------------------------------------------------------------------------ ASF
def guid(s):
    import uuid
    return uuid.UUID(s).bytes_le


class Asf(Family):
    """ASF header object { File Properties (play duration in 100 ns at 40, preroll in ms at 56), Stream Properties (audio media:
    WAVEFORMATEX at 54: codec id, channels, samples per second, average bytes per second), Codec List }"""
    name, slug = "asf", "asf-properties"
    F = ["play_duration", "preroll", "codec_id", "channels", "rate", "avg_bytes", "codec_name", "codec_desc", "codec_entries", "order"]
    G_HEADER = guid("75B22630-668E-11CF-A6D9-00AA0062CE6C")
    G_FILE = guid("8CABDCA1-A947-11CF-8EE4-00C00C205365")
    G_STREAM = guid("B7DC0791-A9B7-11CF-8EE6-00C00C205365")
    G_CODECS = guid("86D15240-311D-11D0-A3A4-00A0C90348F6")
    G_AUDIO = guid("F8699E40-5B4D-11CF-A8FD-00805F5C442B")
    G_NOERR = guid("20FB5700-5B55-11CF-A8FD-00805F5C442B")
    G_DATA = guid("75B22636-668E-11CF-A6D9-00AA0062CE6C")

    @staticmethod
    def obj(g, data):
        return g + struct.pack("<Q", len(data) + 24) + data

    def build(self, p):
        dur, preroll, codec, ch, rate, avg, cname, cdesc, entries, order = p
        filep = self.obj(self.G_FILE, b"\x11" * 16 + struct.pack("<QQQQQQIIII", 5000, 0, 10, dur, dur, preroll, 2, 3200, 3200, 128000))
        wfx = struct.pack("<HHIIHHH", codec, ch, rate, avg, 4, 16, 0)
        streamp = self.obj(self.G_STREAM, self.G_AUDIO + self.G_NOERR + struct.pack("<QIIHI", 0, len(wfx), 0, 1, 0) + wfx)

        def entry(type_, name, desc, info):
            n = (name + "\x00").encode("utf-16-le")
            d = (desc + "\x00").encode("utf-16-le")
            return struct.pack("<HH", type_, len(n) // 2) + n + struct.pack("<H", len(d) // 2) + d + struct.pack("<H", len(info)) + info
        es = b""
        for k in entries:
            if k == "v":
                es += entry(1, "Video Codec", "video", b"WMV3")
            elif k == "a":
                es += entry(2, cname, cdesc, struct.pack("<H", codec))
            elif k == "a4":
                es += entry(2, cname, cdesc, struct.pack("<I", codec))
        codecs = self.obj(self.G_CODECS, b"\x22" * 16 + struct.pack("<I", len(entries)) + es)
        objs = {"F": filep, "S": streamp, "C": codecs}
        body = b"".join(objs[k] for k in order)
        header = self.G_HEADER + struct.pack("<QIBB", 30 + len(body), len(order), 1, 2) + body
        return header + self.obj(self.G_DATA, b"\x00" * 26)

    # a dozen rows of the registered wave format tags (typed; the full 261-row table is only compared through these rows)
    CODECS = {0x0161: "Windows Media Audio 9 Standard", 0x0162: "Windows Media Audio 9 Professional", 0x0163: "Windows Media Audio 9 Lossless",
              0x000A: "Windows Media Audio 9 Voice", 0x0001: "Microsoft PCM Format", 0x0055: "MP3 - MPEG Layer III", 0x2000: "Dolby AC3",
              0x0160: "Windows Media Audio Standard", 0x0002: "Microsoft ADPCM Format", 0x0050: "Microsoft MPEG-1", 0xFFFE: "Extensible Wave Format",
              0x0000: "Unknown Wave Format", 0xFFFF: "Unregistered"}

    def spec(self, p):
        dur, preroll, codec, ch, rate, avg, cname, cdesc, entries, order = p
        r = {"channels": ch, "sample_rate": rate, "bitrate": avg * 8}
        exact = Fraction(dur, 10000000) - Fraction(preroll, 1000)
        if exact <= 0:
            r["length"] = 0.0
        else:
            # two float divisions and a subtraction: absolute error bounded by the rounding of the larger operand
            r["length~"] = (exact, 0, max(Fraction(dur, 10000000), Fraction(preroll, 1000)) * Fraction(1, 2 ** 51))
        if "C" in order and ("a" in entries or "a4" in entries):
            r["codec_name"], r["codec_description"] = cname.strip(), cdesc.strip()
            first = [k for k in entries if k != "v"][0]
            if first == "a" and codec in self.CODECS:
                r["codec_type"] = self.CODECS[codec]
            elif first == "a" and codec == 0x1234:
                r["codec_type"] = ""                      # not a registered tag
            elif first == "a4":
                r["codec_type"] = ""
        else:
            r["codec_name"], r["codec_description"], r["codec_type"] = "", "", ""
        return r

    def load(self, data):
        import mutagen.asf
        i = mutagen.asf.ASF(io.BytesIO(data)).info
        return {"channels": i.channels, "sample_rate": i.sample_rate, "bitrate": i.bitrate, "length": i.length, "codec_name": i.codec_name,
                "codec_description": i.codec_description, "codec_type": i.codec_type}

    def gen(self, rng, thorough):
        def base(**kw):
            p = [rnd(rng, 48), rng.choice([0, 1579, 3000, rnd(rng, 20)]), rng.choice(list(self.CODECS)), rng.choice([1, 2, 6]), rng.choice([8000, 44100, 48000]),
                 rng.choice([4000, 16000, 24000]), "Windows Media Audio 9.2", "64 kbps, 44 kHz, stereo 1-pass CBR", ["a"], "FSC"]
            for k, v in kw.items():
                p[self.F.index(k)] = v
            return p
        for v in lat(64):
            yield "play-duration", base(play_duration=v, preroll=rng.choice([0, 1579]))
        for v in lat(64):
            yield "preroll", base(preroll=v)
        for d, pr in ((30000000, 3000), (30000000, 3001), (30000000, 2999), (0, 0), (1, 0), (10000, 1)):
            yield "duration-vs-preroll", base(play_duration=d, preroll=pr)
        for v in lat(16):
            yield "channels", base(channels=v)
        for v in lat(32):
            yield "rate", base(rate=v)
            yield "avg-bytes", base(avg_bytes=v)
        for codec in list(self.CODECS) + [0x1234]:
            yield "codec-id", base(codec_id=codec)
        for entries in (["a"], ["v", "a"], ["v"], [], ["a4"], ["v", "v", "a"]):
            yield "codec-entries", base(codec_entries=entries)
        for order in ("FSC", "CSF", "SFC", "FS", "SCF"):
            yield "object-order", base(order=order)
        for nm, ds in (("  padded name  ", " d "), ("", ""), ("ä中", "x" * 200)):
            yield "codec-strings", base(codec_name=nm, codec_desc=ds)
        for _ in range(200 if thorough else 40):
            yield "random", base()


FAMILIES = [Adts(), Tak(), Dsdiff(), Mp4(), Asf()]
BYNAME = {f.name: f for f in FAMILIES}
