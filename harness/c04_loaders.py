"""C04 correspondence: the loaders that have an exception-faithful Coq mirror (coq/model/Parse_*.v).
For every loader: `impl` (the mutagen code the mirror follows, called on a BytesIO), `canon` (decoded
stream info of an accepted input as a tuple), `expect` (the same tuple rebuilt from the integer list the
model returns -- floats are recomputed here with the implementation's own formula from the model's exact
integers and compared as float.hex()), `own` (which samples of tests/data seed the malformed stream) and
`sweep` (targeted field sweeps of valid headers)."""
import io, os, struct


def fh(x):
    return None if x is None else float(x).hex()


def intround(x):
    return int(round(x))


SWEEP_VALUES = [0, 1, 2, 0x7F, 0x80, 0xFF, 0x100, 0x7FFF, 0x8000, 0xFFFF, 0xFFFFFF, 0x7FFFFFFF, 0x80000000, 0xFFFFFFFF]


def field_sweep(sample, offsets, widths=(1, 2, 4)):
    """every (offset, width, byte order) field set to 0, 1, 2^k-1, 2^31, 2^32-1 (those that fit)"""
    for o in offsets:
        if o >= len(sample):
            break
        for w in widths:
            for v in SWEEP_VALUES:
                if v >= 1 << (8 * w):
                    continue
                for order in (("big",) if w == 1 else ("big", "little")):
                    d = bytearray(sample)
                    d[o:o + w] = v.to_bytes(w, order)
                    yield bytes(d)


def truncations(sample, upto=200):
    for k in range(min(len(sample), upto) + 1):
        yield sample[:k]


def sv8_varint(n, pad=0):
    out = [n & 0x7F]
    n >>= 7
    while n:
        out.append(0x80 | (n & 0x7F))
        n >>= 7
    out += [0x80] * pad
    return bytes(reversed(out))


# ------------------------------------------------------------------------------------------- Musepack
def mpc_impl(f):
    from mutagen.musepack import MusepackInfo
    return MusepackInfo(f)


def mpc_canon(i, data):
    g = lambda n: getattr(i, n, None)
    return (i.version, int(i.channels), i.sample_rate, fh(i.length), i.bitrate,
            fh(g("title_gain")), fh(g("title_peak")), fh(g("album_gain")), fh(g("album_peak")))


def mpc_expect(l, data):
    kind, version, ch, rate, samples, tg, tp, ag, ap, num, den, br, size = l
    length = float(num) / den
    bitrate = br if size == -1 else intround(size * 8 / length)
    if kind == 8:
        gain = lambda v: (64.82 - v / 256.0) if v else None
        peak = lambda v: (10 ** (v / (256.0 * 20.0)) / 65535.0) if v else None
        gs = (gain(tg), peak(tp), gain(ag), peak(ap))
    elif kind == 7:
        gs = (tg / 100.0, tp / 65535.0, ag / 100.0, ap / 65535.0)
    else:
        gs = (None, None, None, None)
    return (version, ch, rate, fh(length), bitrate) + tuple(fh(x) for x in gs)


def mpc_sweep(samples):
    sv8 = samples["sv8_header.mpc"]
    for name in ("sv8_header.mpc", "click.mpc", "sv4_header.mpc", "sv5_header.mpc"):
        s = samples[name]
        yield from field_sweep(s, range(0, 40))
        yield from truncations(s)
    # an ID3v2 tag in front (the size is a 4-byte synchsafe integer)
    for size in (0, 1, 10, 127, 128, 0x3FFF, 0x0FFFFFFF):
        bp = bytes(((size >> s) & 0x7F) for s in (21, 14, 7, 0))
        for body in (b"\0" * min(size, 300) + sv8, sv8):
            yield b"ID3\x04\x00\x00" + bp + body
            yield b"ID3\x04\x00\x00" + bytes(b | 0x80 for b in bp) + body
    for k in range(0, 14):
        yield (b"ID3\x04\x00\x00\x00\x00\x00\x04" + b"abcd" + sv8)[:k]
    # packet size var-ints: SH at offset 6, and an unknown packet / RG / SH with every size class
    tail = sv8[4:]
    for key in (b"SH", b"RG", b"XX", b"AP", b"SE", b"AA", b"ZZ", b"A@", b"Z[", b"@A"):
        for n in (0, 1, 2, 3, 4, 5, 11, 12, 13, 127, 128, 0x3FFF, 0x4000, 2 ** 31, 2 ** 32 - 1, 2 ** 56 - 1, 2 ** 62, 2 ** 63 - 1, 2 ** 63, 2 ** 64 - 1):
            for pad in (0, 1, 8):
                v = sv8_varint(n, pad)
                yield b"MPCK" + key + v + tail
                yield b"MPCK" + key + v + b"\x00" * 12 + tail
                yield sv8[:6 + 0] + sv8[6:] + key + v + b"\0" * 3
    # SH internals: sample count var-ints and the rate index / channel byte
    for n in (0, 1, 127, 128, 2 ** 32 - 1, 2 ** 63 - 1):
        for m in (0, 5, 2 ** 63 - 1):
            for rb in (0x00, 0x20, 0x60, 0x80, 0xE0):
                body = b"\0\0\0\0\x08" + sv8_varint(n) + sv8_varint(m) + bytes([rb, 0x10])
                for extra in (-2, -1, 0, 1, 3):
                    pk = b"SH" + sv8_varint(len(body) + 3 + extra) + body
                    yield b"MPCK" + pk + b"RG" + sv8_varint(12) + b"\x01\x12\x34\x00\x00\xff\xff\x00\x01" + b"AP\x03"


# ------------------------------------------------------------------------------------------- WavPack
def wv_impl(f):
    from mutagen.wavpack import WavPackInfo
    return WavPackInfo(f)


def wv_canon(i, data):
    return (i.version, int(i.channels), i.sample_rate, i.bits_per_sample, fh(i.length))


def wv_expect(l, data):
    version, ch, rate, bits, samples = l
    return (version, ch, rate, bits, fh(float(samples) / rate))


def wv_block(size, samples=0xFFFFFFFF, index=0, bsamples=100, flags=(9 << 23) | 1):
    return b"wvpk" + struct.pack("<IHBBIIIII", size, 0x407, 0, 0, samples, index, bsamples, flags, 0)


def wv_sweep(samples):
    for name in ("silence-44-s.wv", "no_length.wv", "dsd.wv"):
        s = samples[name][:600]
        yield from field_sweep(s, range(0, 32))
        yield from truncations(s)
    # every sample-rate index, with and without the DSD flag
    for idx in range(16):
        for dsd in (0, 1):
            for mono in (0, 4):
                yield wv_block(24, 1000, 0, 10, (idx << 23) | (dsd << 31) | mono | 1) + b"\0" * 8
    # the block walk: block sizes that move the stream by 8 bytes, backwards into the header, or past the end
    for size in (0, 1, 23, 24, 25, 31, 32, 56, 57, 100, 2 ** 16, 2 ** 31, 2 ** 32 - 1):
        for nblocks in (1, 2, 3, 8):
            blocks = b"".join(wv_block(size, 0xFFFFFFFF, 0, 7 + k) + b"\0" * max(0, min(size, 200) - 24) for k in range(nblocks))
            yield blocks
            yield blocks[:-5]
            yield blocks + b"wvpk"
        yield wv_block(size, 5, 1, 3) + b"wvpk" * 20
    yield b"wvpk" * 64


# ------------------------------------------------------------------------------------------- SMF
def smf_impl(f):
    from mutagen.smf import SMF
    return SMF(f).info


def smf_canon(i, data):
    return (fh(i.length),)


def smf_expect(l, data):
    tickdiv, ntracks = l[0], l[1]
    pos = 2
    durations = []
    for _ in range(ntracks):
        n = l[pos]; pos += 1
        duration = 0
        for k in range(n):
            deltasum, tempo = l[pos], l[pos + 1]; pos += 2
            quarter, tpq = deltasum / float(tickdiv), tempo
            duration += (quarter * tpq)
        duration /= 10 ** 6
        durations.append(duration)
    return (fh(max(durations)),)


def smf_varint(n):
    out = [n & 0x7F]
    n >>= 7
    while n:
        out.append(0x80 | (n & 0x7F))
        n >>= 7
    return bytes(reversed(out))


def smf_file(tracks, fmt=1, ntracks=None, tickdiv=96, hdrlen=6):
    d = b"MThd" + struct.pack(">I", hdrlen) + struct.pack(">HHH", fmt, len(tracks) if ntracks is None else ntracks, tickdiv)[:hdrlen]
    for t in tracks:
        d += b"MTrk" + struct.pack(">I", len(t)) + t
    return d


def smf_sweep(samples):
    s = samples["sample.mid"]
    yield from field_sweep(s[:400], range(0, 30))
    yield from truncations(s[:400])
    tempo = b"\x00\xff\x51\x03\x07\xa1\x20"
    note = b"\x10\x90\x40\x40" + b"\x10\x40\x00"
    base = [tempo + note * 3 + b"\x00\xff\x2f\x00", b"\x05\xc0\x01" + note + b"\x00\xf0\x02\x01\x02" + b"\x01\xd0\x05"]
    for fmt in (0, 1, 2, 0xFFFF):
        for td in (0, 1, 96, 0x7FFF, 0x8000, 0xFFFF):
            for nt in (None, 0, 1, 3, 0xFFFF):
                yield smf_file(base, fmt, nt, td)
    for hl in (0, 5, 6, 7):
        yield smf_file(base, hdrlen=hl)
    # delta-time / length var-ints of every size class, incl. the float conversion limit (2^1024 - 2^970)
    for bits in (0, 7, 8, 14, 28, 32, 64, 970, 1016, 1022, 1023, 1024, 1030, 2000):
        for val in sorted({max(0, 2 ** bits - 1), 2 ** bits, 2 ** 1024 - 2 ** 970 - 1 if bits == 1024 else 1, 2 ** 1024 - 2 ** 970 if bits == 1024 else 1}):
            v = smf_varint(val)
            yield smf_file([v + b"\x90\x40\x40" + b"\x00\xff\x2f\x00"])
            yield smf_file([tempo + v + b"\x90\x40\x40", b"\x01\x90\x40\x40"])
            yield smf_file([b"\x00\xff\x51" + v + b"\x07\xa1\x20" + note])
            yield smf_file([b"\x00\xf0" + v + note])
            yield smf_file([b"\x00\xff\x01" + v + b"abc" + note])
    # event bytes: running status, invalid status, truncated events at every cut
    for ev in (b"\x00\x40\x40", b"\x00\xf1", b"\x00\xf8\x00", b"\x00\xc0", b"\x00\xd0\x01\x00\x05", b"\x00\x80", b"\x00\xff", b"\x00\xff\x51",
               b"\x00\xff\x51\x03\x01", b"\x00\xff\x51\x04\x01\x02\x03\x04", b"\x81", b"\xff\xff\xff"):
        for pre in (b"", note, b"\x00\xc5\x01"):
            yield smf_file([pre + ev])
            yield smf_file([pre + ev + note])
    t = base[0]
    for k in range(len(t) + 1):
        yield smf_file([t[:k]])
    yield smf_file([b""]) ; yield smf_file([]) ; yield smf_file([base[0]], ntracks=2) + b"XXXX\x00\x00\x00\x02ab"


SMF_TEMPO = b"\x00\xff\x51\x03\x07\xa1\x20"
SMF_NOTE = b"\x10\x90\x40\x40" + b"\x10\x40\x00"
SMF_SEEDS = [smf_file([SMF_TEMPO + SMF_NOTE * 5 + b"\x00\xff\x2f\x00"], fmt=0),
             smf_file([SMF_TEMPO + b"\x60\xff\x51\x03\x03\xd0\x90" + b"\x00\xff\x2f\x00", b"\x05\xc0\x01" + SMF_NOTE * 8 + b"\x00\xf0\x02\x01\xf7" + b"\x81\x00\xd0\x05" + b"\x00\xff\x2f\x00",
                       SMF_NOTE * 3 + b"\x00\xff\x03\x04name" + SMF_NOTE], fmt=1),
             smf_file([SMF_NOTE * 40], fmt=0, tickdiv=480)]


# ------------------------------------------------------------------------------------------- VComment
def vc_impl(f):
    from mutagen._vorbis import VComment
    return VComment(f.getvalue())


def vc_canon(v, data):
    return (len(v), v._size)


def vc_expect(l, data):
    vendor_len, count, kept, size = l
    return (kept, size)


def vc_make(vendor, comments, framing=b"\x01", count=None, vlen=None):
    d = struct.pack("<I", len(vendor) if vlen is None else vlen) + vendor
    d += struct.pack("<I", len(comments) if count is None else count)
    for c in comments:
        if isinstance(c, tuple):
            d += struct.pack("<I", c[0]) + c[1]
        else:
            d += struct.pack("<I", len(c)) + c
    return d + framing


VC_COMMENTS = [b"TITLE=x", b"artist=\xc3\xa9", b"noequals", b"=empty", b"bad\x7fkey=1", b"bad\x1fkey=1", b"\xff\xfe=2", b"k~=3", b"a}=b=c", b" =sp", b""]


def vc_sweep(samples):
    base = vc_make(b"vendor", VC_COMMENTS)
    yield base
    yield from field_sweep(base, list(range(0, 24)) + [len(base) - 1, len(base) - 2])
    yield from truncations(base)
    for fr in (b"", b"\x00", b"\x01", b"\x02", b"\x03", b"\xff", b"\x01junk"):
        yield vc_make(b"v", VC_COMMENTS[:3], fr)
    for cnt in (0, 1, 2, 3, 4, 255, 2 ** 16, 2 ** 31, 2 ** 32 - 1):
        yield vc_make(b"v", VC_COMMENTS[:3], count=cnt)
        yield vc_make(b"v", VC_COMMENTS[:3], count=cnt) + b"\x00" * 64
    for vl in (0, 1, 5, 6, 7, 100, 2 ** 31, 2 ** 32 - 1):
        yield vc_make(b"vendor", VC_COMMENTS[:2], vlen=vl)
    for ln in (0, 1, 6, 7, 8, 100, 2 ** 31, 2 ** 32 - 1):
        yield vc_make(b"v", [(ln, b"TITLE=x"), b"a=b"])
    for c in range(256):
        yield vc_make(b"v", [bytes([0x41, c]) + b"=v"])


VC_SEEDS = [vc_make(b"Xiph.Org libVorbis I 20020717", [b"TITLE=hello", b"ARTIST=world", b"no equals sign", b"\xc3\xa4=\xff"]),
            vc_make(b"", []), vc_make(b"v" * 300, VC_COMMENTS)]


# ------------------------------------------------------------------------------------------- Ogg Vorbis
def ogv_impl(f):
    from mutagen.oggvorbis import OggVorbisInfo
    return OggVorbisInfo(f)


def ogv_canon(i, data):
    return (i.channels, i.sample_rate, i.bitrate, i.serial)


def ogv_expect(l, data):
    return tuple(l)


def ogg_page(packets_lacing, body, flags=2, version=0, serial=1, seq=0, pos=0, magic=b"OggS"):
    return magic + struct.pack("<BBqIIiB", version, flags, pos, serial, seq, 0, len(packets_lacing)) + bytes(packets_lacing) + body


def vorbis_id(channels=2, rate=44100, maxb=0, nomb=128000, minb=0, extra=b"\xb8\x01"):
    return b"\x01vorbis" + struct.pack("<IBIiii", 0, channels, rate, maxb, nomb, minb) + extra


def ogv_sweep(samples):
    s = samples["empty.ogg"]
    yield from field_sweep(s[:200], range(0, 60))
    yield from truncations(s)
    idp = vorbis_id()
    for segs, body in (([len(idp)], idp), ([], b""), ([0], b""), ([255], idp + b"\0" * 300), ([255, 0], b"\0" * 255), ([10], idp[:10]), ([27], idp[:27]),
                       ([28], idp[:28]), ([len(idp), 3], idp + b"abc"), ([len(idp)], idp[:-1])):
        for flags in (0, 1, 2, 4, 7, 255):
            yield ogg_page(segs, body, flags)
            # some other stream's pages first
            yield ogg_page([4], b"abcd", 2, serial=9) + ogg_page(segs, body, flags)
            yield ogg_page([], b"", 2, serial=9) + ogg_page(segs, body, flags)
    for ver in (0, 1, 255):
        yield ogg_page([len(idp)], idp, 2, version=ver)
    yield ogg_page([len(idp)], idp, 2, magic=b"OggX")
    for rate in (0, 1, 2 ** 32 - 1):
        for rates in ((0, 0, 0), (-1, -1, -1), (5, 10, 20), (20, 10, 5), (0, 10, 20), (2 ** 31 - 1, 0, -2 ** 31), (7, 0, 4)):
            yield ogg_page([30], vorbis_id(1, rate, *rates), 2)
    junk = ogg_page([4], b"abcd", 0, serial=9)
    for k in (1, 2, 10, 50):
        yield junk * k
        yield junk * k + ogg_page([30], idp, 2)
        yield (junk * k)[:-3]


def ogo_impl(f):
    from mutagen.oggopus import OggOpusInfo
    return OggOpusInfo(f)


def ogo_canon(i, data):
    return (i.channels, i._OggOpusInfo__pre_skip, i.serial)


def ogs_impl(f):
    from mutagen.oggspeex import OggSpeexInfo
    return OggSpeexInfo(f)


def ogs_canon(i, data):
    return (i.sample_rate, i.channels, i.bitrate, i.serial)


def ogt_impl(f):
    from mutagen.oggtheora import OggTheoraInfo
    return OggTheoraInfo(f)


def ogt_canon(i, data):
    return (fh(i.fps), i.bitrate, i.granule_shift, i.serial)


def ogt_expect(l, data):
    num, den, bitrate, gs, serial = l
    return (fh(num / float(den)), bitrate, gs, serial)


def ogg_codec_sweep(sample_name, idpackets):
    def sweep(samples):
        s = samples[sample_name]
        yield from field_sweep(s[:220], range(0, 100, 1), widths=(1, 4))
        yield from truncations(s)
        junk = ogg_page([4], b"abcd", 0, serial=9)
        for idp in idpackets:
            for cut in range(0, len(idp) + 1):
                pk = idp[:cut]
                if len(pk) < 255:
                    yield ogg_page([len(pk)], pk, 2)
            for flags in (0, 1, 2, 4, 255):
                yield ogg_page([len(idp)], idp, flags)
                yield junk + ogg_page([], b"", 2) + ogg_page([len(idp)], idp, flags)
            yield junk * 5
            yield junk * 5 + ogg_page([len(idp)], idp, 2)[:-2]
    return sweep


OPUS_ID = [b"OpusHead" + struct.pack("<BBHIhB", v, 2, 312, 48000, 0, 0) for v in (1, 0, 15, 16, 255)]
SPEEX_ID = [b"Speex   " + b"1.2rc1".ljust(20, b"\0") + struct.pack("<IIIIIIiIIIIII", 1, 80, rate, 1, 4, ch, br, 320, 0, 1, 0, 0, 0)
            for rate, ch, br in ((44100, 2, -1), (0, 1, 5), (8000, 0, 2 ** 31 - 1), (1, 2 ** 32 - 1, -2 ** 31))]
THEORA_ID = [b"\x80theora" + bytes([vm, vn, 1]) + b"\0" * 12 + struct.pack(">II", fn, fd) + b"\0" * 7 + bytes([1, 2, 3]) + struct.pack(">H", gs) + b"\0"
             for vm, vn, fn, fd, gs in ((3, 2, 30000, 1001, 0xC0), (3, 1, 1, 1, 0), (3, 2, 0, 1, 0), (3, 2, 1, 0, 0xFFFF), (2, 2, 1, 1, 0), (3, 2, 2 ** 32 - 1, 1, 0x3E0))]


# ------------------------------------------------------------------------------------------- APEv2
def ape_impl(f):
    from mutagen.apev2 import _APEv2Data
    return _APEv2Data(f)


def ape_canon(a, data):
    if a.metadata is None:
        return ()
    return (a.start, a.header, -1 if a.footer is None else a.footer, a.data, a.end, a.size, a.items, a.flags, int(a.is_at_start), len(a.tag))


def ape_expect(l, data):
    return tuple(l)


def ape_tag(items=b"", nitems=0, header=True, size=None, fflags=None, hflags=0xA0000000):
    sz = len(items) + 32 if size is None else size
    hdr = b"APETAGEX" + struct.pack("<IIII", 2000, sz, nitems, hflags) + b"\0" * 8
    ff = (0x80000000 if header else 0) if fflags is None else fflags
    ftr = b"APETAGEX" + struct.pack("<IIII", 2000, sz, nitems, ff) + b"\0" * 8
    return (hdr if header else b"") + items + ftr


def ape_sweep(samples):
    item = struct.pack("<II", 3, 0) + b"Title\0abc"
    id3v1 = b"TAG" + b"\0" * 125
    for name in ("oldtag.apev2", "brokentag.apev2", "145-invalid-item-count.apev2", "click.mpc"):
        s = samples[name]
        tail = s[-220:]
        yield from field_sweep(tail, range(max(0, len(tail) - 32), len(tail)))
        yield from field_sweep(s[:64], range(0, 32))
        for k in range(0, min(len(s), 200)):
            yield s[k:] if len(s) - k <= 8192 else s[-8192:]
            yield s[:len(s) - k][-8192:]
    for pre in (b"", b"x" * 10, b"x" * 100, b"x" * 200):
        for hdr in (True, False):
            for size in (None, 0, 1, 31, 32, 33, 45, 46, 47, 77, 78, 200, 2 ** 31, 2 ** 32 - 1):
                for ff in (None, 0, 0x80000000, 0xFFFFFFFF):
                    t = ape_tag(item, 1, hdr, size, ff)
                    yield pre + t
                    yield pre + t + id3v1
                    yield t + pre                      # tag at the start
    # PyMusepack brokenness: stray 24-byte header starts in front of the tag
    for k in (1, 2, 5, 30):
        for pre in (b"", b"y" * 7, b"y" * 24, b"y" * 100):
            yield pre + (b"APETAGEX" + b"\0" * 16) * k + ape_tag(item, 1)
    # Lyrics3v2 between the APEv2 tag and the ID3v1 tag, with every spelling of the 6-digit size
    for digits in (b"000031", b"   31 ", b"+00031", b"-00031", b"3_1   ", b"0003_1", b"_00031", b"00031_", b"3__1  ", b"abcdef", b"      ", b"\x0031   ",
                   b"999999", b"-99999", b"000000", b"00031\x0b", b"0x1f  ", b"31\x85   "):
        lyr = b"LYRICSBEGIN" + b"IND0000200" + digits + b"LYRICS200"
        for pre in (b"", b"z" * 50, b"z" * 300):
            yield pre + ape_tag(item, 1) + lyr + id3v1
            yield pre + ape_tag(item, 1, header=False) + lyr + id3v1
    for n in range(0, 170, 7):
        yield b"q" * n + id3v1
        yield b"q" * n + b"APETAGEX" + b"\0" * 24 + id3v1
    for k in range(0, 40):
        yield (b"APETAGEX" + struct.pack("<IIII", 2000, 40, 0, 0xA0000000) + b"\0" * 8 + b"\0" * 8 + b"APETAGEX" + b"\0" * 24)[:k]


# ------------------------------------------------------------------------------------------- MP4 atoms
def mp4_impl(f):
    from mutagen.mp4._atom import Atoms
    return Atoms(f)


def mp4_canon(atoms, data):
    out = []

    def walk(a, level):
        out.extend([level, a.offset, a.length, int.from_bytes(a.name, "big"), a._dataoffset])
        for c in (a.children or []):
            walk(c, level + 1)
    for a in atoms.atoms:
        walk(a, 0)
    return tuple(out)


def mp4_expect(l, data):
    return tuple(l)


def mp4_atom(name, body=b"", length=None, ext=None):
    if ext is not None:
        return struct.pack(">I", 1) + name + struct.pack(">Q", ext) + body
    return struct.pack(">I", len(body) + 8 if length is None else length) + name + body


def mp4_sweep(samples):
    for name in ("has-tags.m4a", "64bit.mp4", "truncated-64bit.mp4", "no-tags.m4a"):
        s = samples[name][:3000]
        yield from field_sweep(s, range(0, 64), widths=(1, 4))
        yield from truncations(s)
    ftyp = mp4_atom(b"ftyp", b"M4A \0\0\0\0")
    leaf = mp4_atom(b"free", b"abcd")
    for cname in (b"moov", b"meta", b"udta", b"ilst", b"traf", b"xxxx"):
        for length in (None, 0, 1, 2, 7, 8, 9, 12, 15, 16, 17, 20, 100, 2 ** 31, 2 ** 32 - 1):
            for kids in (b"", leaf, leaf * 2, mp4_atom(b"moov", leaf), b"\0\0\0"):
                body = (b"\0\0\0\0" if cname == b"meta" else b"") + kids
                yield ftyp + mp4_atom(cname, body, length) + leaf
                yield ftyp + mp4_atom(b"moov", mp4_atom(cname, body, length))
        for ext in (0, 1, 15, 16, 17, 24, 100, 2 ** 32, 2 ** 62, 2 ** 63 - 17, 2 ** 63 - 1, 2 ** 63, 2 ** 64 - 1):
            yield ftyp + mp4_atom(cname, leaf, ext=ext) + leaf
            yield ftyp + mp4_atom(b"moov", mp4_atom(cname, leaf, ext=ext) + leaf)
    # nesting depth around the limit (level > 64)
    for depth in (1, 2, 10, 63, 64, 65, 66, 67, 100, 300, 1200):
        d = leaf
        for _ in range(depth):
            d = mp4_atom(b"moov", d)
        yield ftyp + d
        yield ftyp + b"\0\x0f\xff\xffmoov" * depth
        yield ftyp + b"\0\x0f\xff\xffmoov" * depth + leaf


# ------------------------------------------------------------------------------------------- fixed headers
def tta_impl(f):
    from mutagen.trueaudio import TrueAudioInfo
    return TrueAudioInfo(f, 0)


def tta_canon(i, data):
    return (i.sample_rate, fh(i.length))


def tta_expect(l, data):
    rate, samples = l
    return (rate, fh(float(samples) / rate if rate != 0 else 0.0))


def mac_impl(f):
    from mutagen.monkeysaudio import MonkeysAudioInfo
    return MonkeysAudioInfo(f)


def mac_canon(i, data):
    return (fh(i.version), i.channels, i.sample_rate, i.bits_per_sample, fh(i.length))


def mac_expect(l, data):
    version, ch, rate, bits, blocks = l
    return (fh(version / 1000.0), ch, rate, bits, fh(float(blocks) / rate if rate != 0 else 0.0))


def ofr_impl(f):
    from mutagen.optimfrog import OptimFROGInfo
    return OptimFROGInfo(f)


def ofr_canon(i, data):
    return (i.channels, i.sample_rate, i.bits_per_sample, fh(i.length), i.encoder_info)


def ofr_expect(l, data):
    from mutagen.optimfrog import SAMPLE_TYPE_BITS
    channels, rate, sample_type, total, enc = l
    length = float(total) / (channels * rate) if rate else 0.0
    if enc >= 0:
        v = str((enc >> 4) + 4500)
        info = "%s.%s" % (v[0], v[1:])
    else:
        info = ""
    return (channels, rate, SAMPLE_TYPE_BITS.get(sample_type), fh(length), info)


def hdr_sweep(names, n):
    def sweep(samples):
        for name in names:
            s = samples[name][:n + 40]
            yield from field_sweep(s, range(0, n))
            yield from truncations(s)
    return sweep


# ------------------------------------------------------------------------------------------- ID3 header
def id3h_impl(f):
    from mutagen.id3._tags import ID3Header
    h = ID3Header(f)
    return h, f.tell()


def id3h_canon(r, data):
    h, pos = r
    return (h.version[1], h.version[2], h._flags, h.size, len(h._extdata) if hasattr(h, "_extdata") else -1, pos)


def id3h_expect(l, data):
    return tuple(l)


def id3h_sweep(samples):
    for name in ("id3v24_extended_header.id3", "id3v23_unsynch.id3", "id3v22-test.mp3", "silence-44-s.mp3"):
        s = samples[name][:300]
        yield from field_sweep(s, range(0, 24))
        yield from truncations(s, 60)
    body = b"TIT2\0\0\0\x05\0\0\0abcd" + b"\0" * 40
    for vmaj in (0, 1, 2, 3, 4, 5, 255):
        for flags in (0x00, 0x40, 0x41, 0x50, 0x60, 0x80, 0xC0, 0xCF, 0xE0, 0xFF):
            for ext in (b"", b"\0\0\0", b"\0\0\0\0", b"\0\0\0\x03", b"\0\0\0\x04", b"\0\0\0\x06", b"\0\0\0\x0a", b"\0\0\0\x7f", b"\0\0\0\x80", b"\0\0\1\0",
                        b"\x7f\x7f\x7f\x7f", b"\xff\xff\xff\xff", b"TIT2", b"TPE1", b"TT2\0", b"XXXX", b"TIT\xb2", b"APIC"):
                yield b"ID3" + bytes([vmaj, 0, flags]) + b"\0\0\0\x40" + ext + body
    # v2.2/v2.3 with the unsynchronisation flag: the extended header (size field and data) is read de-unsynchronised
    # (_read_unsynched: FF 00 -> FF, the 00 behind a final FF is consumed, a missing byte is read in a further round);
    # v2.4 and tags without the flag read it raw
    exts = [b"\0\0\0\x0a\x80\0\0\0\0\0\x8a\xff\0\xf4\xf8",        # the CRC 8A FF F4 F8, stuffed (known finding C14-v23-ext-header-stuffed)
            b"\0\0\0\x0a\x80\0\0\0\0\0\x8a\xff\xf4\xf8",           # ... not stuffed
            b"\0\0\0\x0a\x80\0\0\0\0\0\x8a\xf4\xf8\xff\0",        # FF 00 at the end of the extended header: the 00 is consumed
            b"\0\0\0\x0a\x80\0\0\0\0\0\x8a\xf4\xf8\xff",           # a final FF, a frame id (or nothing) behind it: the byte is given back
            b"\0\0\0\x0a\x80\0\0\0\0\0\x8a\xf4\xf8\xff\0\0",
            b"\0\0\0\x06\xff\0\xff\0\xff\0\xff\0\xff\0\xff\0",   # every byte stuffed: several rounds
            b"\0\0\0\x06\xff\0\xff\0\xff\0\xff\0\xff\0\xff",
            b"\0\0\0\x06\xff\0\xff\0\xff\0\xff\0\xff\0",
            b"\0\0\0\x06\xff\xff\0\0\xff\xe0\xff\0\0\xff",
            b"\0\0\0\xff\0\x06\0\0\0\0\0\0",                     # the size field itself stuffed: 00 00 00 FF
            b"\0\0\xff\0\0\0",                                    # ... 00 00 FF 00 -> 65280 bytes wanted
            b"\xff\0\xff\0\xff\0\xff\0",                            # FF FF FF FF
            b"\xff\0\xff\0\xff\0\xff",
            b"\0\0\0\xff", b"\0\0\0\xff\0", b"\0\0\0\0\xff\0", b"\0\0\0\x01\xff", b"\0\0\0\x01\xff\0", b"\0\0\0\x02\xff\0\xff",
            b"TIT2", b"TIT\xff\0", b"TT2\0", b"\xff\0TIT2"]
    for vmaj in (2, 3, 4):
        for flags in (0x40, 0x80, 0xC0, 0xE0):
            for ext in exts:
                for tail in (b"", body, b"\0" + body, b"\xff\0" + body):
                    yield b"ID3" + bytes([vmaj, 0, flags]) + b"\0\0\1\x06" + ext + tail
    long = b"\0\0\1\x2c" + (b"\xff\0" * 40 + b"ab\xff\0\0" * 30 + b"\xff\xfe\0" * 40 + b"\xff\0\xff\0\xff" * 20)
    for vmaj in (3, 4):
        for flags in (0x40, 0xC0):
            yield b"ID3" + bytes([vmaj, 0, flags]) + b"\0\0\3\x06" + long + body
            for cut in (14, 15, 16, 100, 101, 160, 161, 162, 300, 301, 302, 303, 313, 314, 315, 400, 401):
                yield (b"ID3" + bytes([vmaj, 0, flags]) + b"\0\0\3\x06" + long)[:cut]


def bpi_impl(f):
    from mutagen.id3._tags import determine_bpi
    from mutagen.id3._frames import Frames
    return determine_bpi(f.getvalue(), Frames)


def bpi_canon(r, data):
    return (8 if r is int else 7,)


def id3_frame(name, body, size=None, sync=False):
    n = len(body) if size is None else size
    sz = bytes(((n >> s) & 0x7F) for s in (21, 14, 7, 0)) if sync else struct.pack(">I", n & 0xFFFFFFFF)
    return name + sz + b"\0\0" + body


def bpi_sweep(samples):
    base = id3_frame(b"TIT2", b"\0abc") + id3_frame(b"TPE1", b"\0" + b"x" * 200) + id3_frame(b"XXXX", b"\0y") + b"\0" * 30
    yield base
    yield from field_sweep(base, range(0, 40))
    yield from truncations(base, 260)
    for n in (0, 1, 9, 10, 11, 19, 20, 21, 127, 128, 129, 255, 256, 0x3FFF, 0x4000, 2 ** 28 - 1, 2 ** 31, 2 ** 32 - 1):
        for sync in (False, True):
            for name in (b"TIT2", b"TIT\xb2", b"\0\0\0\0", b"ZZZZ"):
                for pad in (0, 1, 9, 10, 11, 25):
                    yield id3_frame(name, b"\0" + b"q" * 130, n, sync) + id3_frame(b"TALB", b"\0z") + b"\0" * pad
    for k in range(0, 45):
        yield b"\0" * k
        yield id3_frame(b"TIT2", b"\0abc") + b"\0" * k


# ------------------------------------------------------------------------------------------- DSF
def dsf_impl(f):
    """what DSF.load does with the stream before ID3Header is parsed: DSFFile(fileobj), then
    _DSFID3._pre_load_header (ID3NoHeaderError -> tags = None), then DSFInfo(fmt_chunk)"""
    from mutagen.dsf import DSFFile, DSFInfo, _DSFID3
    from mutagen.id3._util import ID3NoHeaderError
    dsf_file = DSFFile(f)
    try:
        _DSFID3()._pre_load_header(f)
        loc = dsf_file.dsd_chunk.offset_metdata_chunk
    except ID3NoHeaderError:
        loc = 0
    return DSFInfo(dsf_file.fmt_chunk), dsf_file, loc, f.tell()


def dsf_length(samples, rate):
    try:
        return fh(float(samples) / rate)
    except ZeroDivisionError:
        return "ZeroDivisionError"


def dsf_canon(r, data):
    i, ff, loc, pos = r
    try:
        length = fh(i.length)
    except ZeroDivisionError:
        length = "ZeroDivisionError"          # a property computed on access, not during load
    return (ff.fmt_chunk.channel_type, i.channels, i.sample_rate, i.bits_per_sample, length, i.bitrate,
            ff.dsd_chunk.total_size, ff.data_chunk.chunk_size, loc, pos)


def dsf_expect(l, data):
    ctype, ch, rate, bits, samples, total, dsize, loc, pos = l
    return (ctype, ch, rate, bits, dsf_length(samples, rate), rate * bits * ch, total, dsize, loc, pos)


def dsf_file(meta=0, total=None, sizes=(28, 52, 12), version=1, fid=0, ch=2, rate=2822400, bits=1, samples=5644800, magic=(b"DSD ", b"fmt ", b"data"), tail=b""):
    q = lambda v: struct.pack("<Q", v & (2 ** 64 - 1))
    body = (magic[1] + q(sizes[1]) + struct.pack("<IIIIII", version, fid, 2, ch, rate, bits) + q(samples) + struct.pack("<II", 4096, 0) +
            magic[2] + q(sizes[2]) + tail)
    return magic[0] + q(sizes[0]) + q(92 + len(tail) if total is None else total) + q(meta) + body


DSF_BIG = [0, 1, 2, 11, 12, 13, 27, 28, 29, 51, 52, 53, 91, 92, 93, 100, 0xFF, 0x100, 0xFFFF, 2 ** 31 - 1, 2 ** 31, 2 ** 32 - 1, 2 ** 32, 2 ** 62, 2 ** 63 - 1, 2 ** 63, 2 ** 64 - 1]


def dsf_sweep(samples):
    for name in ("with-id3.dsf", "without-id3.dsf", "2822400-1ch-0s-silence.dsf", "5644800-2ch-s01-silence.dsf"):
        s = samples[name][:140]
        yield from field_sweep(s, range(0, 92))
        yield from truncations(s)
    id3 = b"ID3\x04\x00\x00\x00\x00\x00\x0a" + b"\0" * 10
    for v in DSF_BIG:
        yield dsf_file(meta=v, tail=id3)                    # the metadata pointer: 0 = no tag, beyond ssize_t = OverflowError in seek
        yield dsf_file(total=v)
        yield dsf_file(samples=v)
        for k in range(3):
            sz = [28, 52, 12]
            sz[k] = v
            yield dsf_file(sizes=tuple(sz), tail=b"\0" * 16)
    for v in SWEEP_VALUES:
        yield dsf_file(version=v) ; yield dsf_file(fid=v) ; yield dsf_file(ch=v) ; yield dsf_file(rate=v) ; yield dsf_file(bits=v)
    for magic in ((b"DSD\0", b"fmt ", b"data"), (b"DSD ", b"fmt\0", b"data"), (b"DSD ", b"fmt ", b"dat\0"), (b"dsd ", b"fmt ", b"data"), (b"fmt ", b"DSD ", b"data")):
        yield dsf_file(magic=magic)


DSF_SEEDS = [dsf_file(), dsf_file(meta=92, tail=b"ID3\x04\x00\x00\x00\x00\x00\x0a" + b"\0" * 10), dsf_file(rate=0), dsf_file(meta=2 ** 63)]


# ------------------------------------------------------------------------------------------- AC3
def ac3_impl(f):
    from mutagen.ac3 import AC3Info
    return AC3Info(f)


def ac3_canon(i, data):
    return (i.codec, i.sample_rate, i.bitrate, i.channels, fh(i.length))


def ac3_expect(l, data):
    codec, rate, bitrate, channels, has_length, nbytes = l
    return ("ec-3" if codec else "ac-3", rate, bitrate, channels, fh(8.0 * nbytes / bitrate) if has_length else None)


def bitpack(fields, pad_to=0):
    v = n = 0
    for x, w in fields:
        v = (v << w) | (x & ((1 << w) - 1))
        n += w
    pad = (-n) % 8
    out = (v << pad).to_bytes((n + pad) // 8, "big")
    return out + b"\0" * max(0, pad_to - len(out))


def ac3_frame(fscod=0, frmsizecod=20, bsid=8, acmod=2, lfe=1, opts=(0, 0, 0), opts2=(0, 0, 0), tc=(0, 0), addbsi=None, pad_to=0, cut=None):
    f = [(0x0B77, 16), (0, 16), (fscod, 2), (frmsizecod, 6), (bsid, 5), (0, 3), (acmod, 3)]
    if (acmod & 1) and acmod != 1:
        f.append((1, 2))
    if acmod & 4:
        f.append((1, 2))
    if acmod == 2:
        f.append((1, 2))
    f += [(lfe, 1), (27, 5)]
    for o, w in zip(opts, (8, 8, 7)):
        f += [(1, 1), (0x55, w)] if o else [(0, 1)]
    if acmod == 0:
        f.append((27, 5))
        for o, w in zip(opts2, (8, 8, 7)):
            f += [(1, 1), (0x55, w)] if o else [(0, 1)]
    f += [(0, 2), (tc[0], 1), (tc[1], 1)]
    f += [(0x1555, 14)] * (tc[0] + tc[1])
    if addbsi is None:
        f.append((0, 1))
    else:
        f += [(1, 1), (addbsi, 6)]
    d = bitpack(f, pad_to)
    return d if cut is None else d[:cut]


def eac3_frame(strmtyp=0, frmsiz=100, fscod=0, code2=0, acmod=2, lfe=1, bsid=16, compre=0, chanmape=0, mixmdate=0, infomdate=0, audprod=(0, 0), blkid=0,
               addbsi=None, pad_to=0):
    f = [(0x0B77, 16), (strmtyp, 2), (0, 3), (frmsiz, 11), (fscod, 2), (code2, 2), (acmod, 3), (lfe, 1), (bsid, 5), (27, 5)]
    f += [(1, 1), (0x55, 8)] if compre else [(0, 1)]
    if acmod == 0:
        f += [(27, 5)] + ([(1, 1), (0x55, 8)] if compre else [(0, 1)])
    if strmtyp == 1:
        f += [(1, 1), (0xAAAA, 16)] if chanmape else [(0, 1)]
    f.append((mixmdate, 1))
    if not mixmdate:
        f.append((infomdate, 1))
        if infomdate:
            f.append((0, 5))
            if acmod == 2:
                f.append((5, 4))
            elif acmod >= 6:
                f.append((1, 2))
            f += [(1, 1), (0x55, 8)] if audprod[0] else [(0, 1)]
            if acmod == 0:
                f += [(1, 1), (0x55, 8)] if audprod[1] else [(0, 1)]
            if fscod < 3:
                f.append((0, 1))
        numblk = 3 if fscod == 3 else code2
        if strmtyp == 0 and numblk == 3:
            f.append((0, 1))
        if strmtyp == 2 and numblk != 3:
            f += [(1, 1), (9, 6)] if blkid else [(0, 1)]
        if addbsi is None:
            f.append((0, 1))
        else:
            f += [(1, 1), (addbsi, 6)]
    return bitpack(f, pad_to)


def ac3_sweep(samples):
    for name in ("silence-44-s.ac3", "silence-44-s.eac3"):
        s = samples[name][:200]
        yield from field_sweep(s, range(0, 24))
        yield from truncations(s, 60)
        # every value of every header byte pair that carries the codes (sr code / frame size code / bsid / channel mode)
        for o in (2, 3, 4, 5, 6, 7):
            for v in range(256):
                d = bytearray(s[:64]); d[o] = v
                yield bytes(d)
    for bsid in range(0, 32):
        for acmod in range(8):
            yield ac3_frame(bsid=bsid, acmod=acmod, pad_to=40)
            yield eac3_frame(bsid=bsid, acmod=acmod, pad_to=40)
    for fscod in range(4):
        for frm in (0, 1, 36, 37, 38, 39, 63):
            for bsid in (0, 8, 9, 10):
                yield ac3_frame(fscod, frm, bsid, pad_to=32)
    for acmod in range(8):
        for lfe in (0, 1):
            for opts in ((0, 0, 0), (1, 0, 0), (0, 1, 0), (0, 0, 1), (1, 1, 1)):
                for tc in ((0, 0), (1, 0), (0, 1), (1, 1)):
                    for addbsi in (None, 0, 1, 62, 63):
                        full = ac3_frame(acmod=acmod, lfe=lfe, opts=opts, opts2=opts[::-1], tc=tc, addbsi=addbsi)
                        yield full                          # ends exactly after the last parsed bit
                        yield full + b"\0" * 70
                        if lfe == 0 and tc == (1, 1):
                            for cut in range(6, len(full)):
                                yield full[:cut]
    for strmtyp in range(4):
        for fscod in range(4):
            for code2 in range(4):
                for frmsiz in (0, 1, 2, 3, 100, 2047):
                    yield eac3_frame(strmtyp, frmsiz, fscod, code2, pad_to=40)
                for acmod in (0, 1, 2, 6, 7):
                    for infomdate in (0, 1):
                        for compre in (0, 1):
                            for addbsi in (None, 0, 63):
                                full = eac3_frame(strmtyp, 100, fscod, code2, acmod, 1, 16, compre, compre, 0, infomdate, (compre, 1 - compre), compre, addbsi)
                                yield full
                                yield full + b"\0" * 70
                                if fscod in (0, 3) and code2 == 1 and compre:
                                    for cut in range(6, len(full)):
                                        yield full[:cut]
                    yield eac3_frame(strmtyp, 100, fscod, code2, acmod, mixmdate=1, pad_to=40)


AC3_SEEDS = [ac3_frame(pad_to=64), ac3_frame(acmod=0, opts=(1, 1, 1), opts2=(1, 1, 1), tc=(1, 1), addbsi=3, pad_to=64), eac3_frame(pad_to=64),
             eac3_frame(strmtyp=1, fscod=3, code2=1, acmod=0, compre=1, chanmape=1, infomdate=1, audprod=(1, 1), addbsi=2, pad_to=64)]


# ------------------------------------------------------------------------------------------- AIFF
def aiff_impl(f):
    """AIFF.load without the ID3 parse: _IFFID3._pre_load_header (ID3NoHeaderError -> tags = None), seek(0, 0), AIFFInfo"""
    from mutagen.aiff import _IFFID3, AIFFInfo
    from mutagen.id3._util import ID3NoHeaderError
    try:
        _IFFID3()._pre_load_header(f)
        loc = f.tell()
    except ID3NoHeaderError:
        loc = -1
    f.seek(0, 0)
    return AIFFInfo(f), loc


def aiff_canon(r, data):
    i, loc = r
    return (i.channels, i.sample_rate, i.bits_per_sample, i.bitrate, fh(i.length), loc)


def aiff_expect(l, data):
    channels, rate, bits, frames, loc = l
    return (channels, rate, bits, channels * bits * rate, fh(frames / float(rate) if rate != 0 else 0), loc)


def iff_chunk(cid, body, size=None):
    return cid + struct.pack(">I", (len(body) if size is None else size) & 0xFFFFFFFF) + body + (b"\0" if len(body) % 2 else b"")


def ext80(expon, mant, sign=0):
    return struct.pack(">HQ", (sign << 15) | (expon & 0x7FFF), mant & (2 ** 64 - 1))


def aiff_comm(rate=None, channels=2, frames=1000, bits=16, ext=b""):
    return struct.pack(">hIh", channels, frames, bits) + (ext80(16383 + 15, 44100 << 48) if rate is None else rate) + ext


def aiff_form(chunks, size=None, name=b"AIFF", magic=b"FORM"):
    body = name + b"".join(chunks)
    return magic + struct.pack(">I", (len(body) if size is None else size) & 0xFFFFFFFF) + body


def aiff_sweep(samples):
    for name in ("with-id3.aif", "8k-1ch-1s-silence.aif", "48k-2ch-s16-silence.aif", "11k-1ch-2s-silence.aif"):
        s = samples[name][:400]
        yield from field_sweep(s, range(0, 60))
        yield from truncations(s, 120)
    comm = iff_chunk(b"COMM", aiff_comm())
    id3 = iff_chunk(b"ID3 ", b"ID3\x04\x00\x00\x00\x00\x00\x0a" + b"\0" * 10)
    ssnd = iff_chunk(b"SSND", b"\0" * 20)
    yield aiff_form([comm, ssnd, id3])
    # chunk ids: padding / whitespace that str.rstrip() removes, control and non-ASCII characters, case, the container id itself
    ids = [b"COMM", b"COM ", b"COMM"[:3] + b"\t", b"ID3 ", b"ID3\0", b"ID3\n", b"ID3\x1c", b"ID3\x1f", b"ID3\x7f", b"ID3\x80", b"ID3\xa0", b"ID3\x85", b"id3 ", b"    ", b"\t\n\r ",
           b" ID3", b"I D ", b"\x1fD3 ", b"~~~~", b"\x7f   ", b"A\x00  ", b"FORM", b"FOR ", b"AB\x0b\x0c", b"\xffOMM", b"C\xc3\xa9M"]
    for cid in ids:
        for where in (0, 1):
            chunks = [comm, ssnd]
            chunks.insert(where, iff_chunk(cid, b"ID3\x04\x00\x00\x00\x00\x00\x00" + b"abcdef"))
            yield aiff_form(chunks + [id3])
            yield aiff_form(chunks)
        yield aiff_form([comm], magic=cid)
        yield aiff_form([iff_chunk(cid, aiff_comm())])
    # chunk sizes: odd / even, running past the container, past the file, and the container's own size
    sizes = [0, 1, 2, 3, 4, 5, 7, 8, 17, 18, 19, 26, 27, 28, 100, 0xFFFF, 2 ** 31 - 1, 2 ** 31, 2 ** 32 - 2, 2 ** 32 - 1]
    for sz in sizes:
        yield aiff_form([comm, ssnd, id3], size=sz)
        yield aiff_form([iff_chunk(b"SSND", b"\0" * 21, sz), comm, id3])
        yield aiff_form([iff_chunk(b"COMM", aiff_comm(ext=b"NONE\0\0"), sz), id3])
        yield aiff_form([comm, iff_chunk(b"ID3 ", b"ID3\x04\x00\x00\x00\x00\x00\x00", sz)])
        yield aiff_form([iff_chunk(b"COMM", aiff_comm()[:min(sz, 18)])])
        # a nested FORM chunk: init_container again (short size: InvalidChunk ends the walk; non-ASCII name: error)
        yield aiff_form([comm, iff_chunk(b"FORM", b"AIFF" + ssnd, sz), id3])
        yield aiff_form([iff_chunk(b"FORM", b"AI\xffF" + ssnd, sz), comm])
    for nm in (b"AIFF", b"AIFC", b"\0\0\0\0", b"AIF\x80", b"\xff\xff\xff\xff", b"AIF"):
        yield aiff_form([comm, id3], name=nm)
        yield aiff_form([comm, iff_chunk(b"FORM", nm + ssnd), id3])
    many = [iff_chunk(b"C%03d" % k, b"x" * (k % 5)) for k in range(40)]
    yield aiff_form(many + [comm, id3]) ; yield aiff_form(many) ; yield aiff_form([comm] + many + [id3])[:-3]
    full = aiff_form([ssnd, comm, id3])
    for k in range(len(full) + 1):
        yield full[:k]
    # the 80-bit extended sample rate: exponent lattice, mantissa rounding (53 bits, ties to even), sign, inf/nan, overflow of pow and of the product
    mants = [0, 1, 2 ** 52, 2 ** 53 - 1, 2 ** 53, 2 ** 53 + 1, 2 ** 54 + 1, 2 ** 54 + 2, 2 ** 54 + 3, 2 ** 63, 2 ** 63 + 2 ** 10, 2 ** 63 + 2 ** 10 + 1, 2 ** 63 + 3 * 2 ** 10,
             2 ** 63 + 2 ** 11, 2 ** 64 - 2 ** 11, 2 ** 64 - 2 ** 10, 2 ** 64 - 2 ** 10 - 1, 2 ** 64 - 1, 44100 << 48, 0xAC44 << 48 | 0x8000, 0xAC44 << 48 | 0x7FFF]
    expons = [0, 1, 16383 - 1100, 16383 - 64, 16383 - 1, 16383, 16383 + 1, 16383 + 15, 16383 + 31, 16383 + 52, 16383 + 53, 16383 + 62, 16383 + 63, 16383 + 64, 16383 + 65,
              16383 + 1022, 16383 + 1023, 16383 + 1024, 16383 + 63 + 959, 16383 + 63 + 960, 16383 + 63 + 961, 16383 + 63 + 1023, 16383 + 63 + 1024, 0x7FFE, 0x7FFF]
    for m in mants:
        for e in expons:
            for sign in (0, 1):
                yield aiff_form([iff_chunk(b"COMM", aiff_comm(ext80(e, m, sign)))])
    for ch in (0, 1, -1, 0x7FFF, -0x8000):
        for bits in (0, 16, -1, 0x7FFF, -0x8000):
            for frames in (0, 1, 2 ** 32 - 1):
                yield aiff_form([iff_chunk(b"COMM", aiff_comm(None, ch, frames, bits))])


AIFF_SEEDS = [aiff_form([iff_chunk(b"COMM", aiff_comm()), iff_chunk(b"SSND", b"\0" * 40), iff_chunk(b"ID3 ", b"ID3\x04\x00\x00\x00\x00\x00\x0a" + b"\0" * 10)]),
              aiff_form([iff_chunk(b"SSND", b"\0" * 7), iff_chunk(b"COMM", aiff_comm(ext=b"NONE\x0enot compressed\0"))], name=b"AIFC"),
              aiff_form([iff_chunk(b"FORM", b"AIFF" + iff_chunk(b"COMM", aiff_comm())), iff_chunk(b"COMM", aiff_comm(ext80(16383 + 12, 8000 << 51)))])]


# ------------------------------------------------------------------------------------------- WAVE
def wave_impl(f):
    """WAVE.load without the ID3 parse: WaveStreamInfo, seek(0, 0), _WaveID3._pre_load_header (ID3NoHeaderError -> tags = None)"""
    from mutagen.wave import WaveStreamInfo, _WaveID3
    from mutagen.id3._util import ID3NoHeaderError
    info = WaveStreamInfo(f)
    f.seek(0, 0)
    try:
        _WaveID3()._pre_load_header(f)
        loc = f.tell()
    except ID3NoHeaderError:
        loc = -1
    return info, loc


def wave_canon(r, data):
    i, loc = r
    return (i.audio_format, i.channels, i.sample_rate, i.bits_per_sample, i.bitrate, fh(i._number_of_samples), fh(i.length), loc)


def wave_expect(l, data):
    fmt, channels, rate, bits, block_align, dsz, loc = l
    ns = 0
    if block_align > 0 and dsz >= 0:
        ns = dsz / block_align
    length = ns / rate if rate > 0 else 0.0
    return (fmt, channels, rate, bits, channels * bits * rate, fh(ns), fh(length), loc)


def riff_chunk(cid, body, size=None):
    return cid + struct.pack("<I", (len(body) if size is None else size) & 0xFFFFFFFF) + body + (b"\0" if len(body) % 2 else b"")


def wave_fmt(fmt=1, channels=2, rate=44100, byte_rate=176400, block_align=4, bits=16, ext=b""):
    return struct.pack("<HHIIHH", fmt, channels, rate, byte_rate, block_align, bits) + ext


def riff_form(chunks, size=None, name=b"WAVE", magic=b"RIFF"):
    body = name + b"".join(chunks)
    return magic + struct.pack("<I", (len(body) if size is None else size) & 0xFFFFFFFF) + body


def wave_sweep(samples):
    for name in sorted(n for n in samples if n.endswith(".wav"))[:4]:
        s = samples[name][:400]
        yield from field_sweep(s, range(0, 60))
        yield from truncations(s, 120)
    fmt = riff_chunk(b"fmt ", wave_fmt())
    data = riff_chunk(b"data", b"\0" * 20)
    tag = b"ID3\x04\x00\x00\x00\x00\x00\x0a" + b"\0" * 10
    id3 = riff_chunk(b"id3 ", tag)
    yield riff_form([fmt, data, id3])
    ids = [b"fmt ", b"fmt\0", b"fmt\t", b"FMT ", b"fmt\x1c", b"fm  ", b"data", b"dat ", b"DATA", b"id3 ", b"ID3 ", b"Id3 ", b"id3\n", b"ID3\x1f", b"ID3\x80", b"id3\x7f", b"    ",
           b"\t\n\r ", b" id3", b"~~~~", b"A\x00  ", b"RIFF", b"LIST", b"LIS ", b"list", b"\xffmt ", b"JUNK"]
    for cid in ids:
        for where in (0, 1, 2):
            chunks = [fmt, data]
            chunks.insert(where, riff_chunk(cid, tag + b"abcdef"))
            yield riff_form(chunks + [id3])
            yield riff_form(chunks)
        yield riff_form([fmt, data], magic=cid)
        yield riff_form([riff_chunk(cid, wave_fmt()), data])
        yield riff_form([fmt, riff_chunk(cid, b"\0" * 8)])
    # both spellings of the tag chunk, in both orders: the first 'ID3' is renamed, the first 'id3' (native or renamed) is found
    up = riff_chunk(b"ID3 ", tag)
    for order in ([up, id3], [id3, up], [up, up], [id3, id3], [up], [id3], []):
        yield riff_form([fmt] + order + [data])
        yield riff_form(order + [fmt, data])
    sizes = [0, 1, 2, 3, 4, 5, 7, 8, 15, 16, 17, 18, 19, 20, 21, 100, 0xFFFF, 2 ** 31 - 1, 2 ** 31, 2 ** 32 - 2, 2 ** 32 - 1]
    for sz in sizes:
        yield riff_form([fmt, data, id3], size=sz)
        yield riff_form([riff_chunk(b"JUNK", b"\0" * 21, sz), fmt, data, id3])
        yield riff_form([riff_chunk(b"fmt ", wave_fmt(ext=b"\0\0"), sz), data, id3])
        yield riff_form([fmt, riff_chunk(b"data", b"\0" * 9, sz), id3])
        yield riff_form([fmt, data, riff_chunk(b"id3 ", tag, sz)])
        yield riff_form([riff_chunk(b"fmt ", wave_fmt()[:min(sz, 16)]), data])
        # nested containers: init_container again (short size: InvalidChunk ends the walk; non-ASCII name: error)
        yield riff_form([fmt, riff_chunk(b"LIST", b"INFO" + riff_chunk(b"INAM", b"x"), sz), data, id3])
        yield riff_form([riff_chunk(b"LIST", b"IN\xffO" + data, sz), fmt])
        yield riff_form([fmt, riff_chunk(b"RIFF", b"WAVE" + fmt, sz), data])
    for nm in (b"WAVE", b"wave", b"WAV ", b"AVI ", b"\0\0\0\0", b"WAV\x80", b"\xff\xff\xff\xff", b"WAV", b""):
        yield riff_form([fmt, data, id3], name=nm)
        yield riff_form([fmt, riff_chunk(b"LIST", nm + data), id3])
    for nm in (b"WAV", b"WA", b""):
        yield b"RIFF" + struct.pack("<I", 100) + nm
    many = [riff_chunk(b"C%03d" % k, b"x" * (k % 5)) for k in range(40)]
    yield riff_form(many + [fmt, data, id3]) ; yield riff_form(many) ; yield riff_form([fmt] + many + [id3])[:-3]
    yield riff_form([]) ; yield riff_form([], size=4) ; yield riff_form([], size=400)
    full = riff_form([data, fmt, up])
    for k in range(len(full) + 1):
        yield full[:k]
    for v in SWEEP_VALUES:
        if v < 2 ** 16:
            yield riff_form([riff_chunk(b"fmt ", wave_fmt(block_align=v)), data])
            yield riff_form([riff_chunk(b"fmt ", wave_fmt(block_align=v))])
            yield riff_form([riff_chunk(b"fmt ", wave_fmt(channels=v, bits=v)), data])
        yield riff_form([riff_chunk(b"fmt ", wave_fmt(rate=v)), data])
        yield riff_form([riff_chunk(b"fmt ", wave_fmt(rate=v, block_align=0)), data])
        yield riff_form([fmt, riff_chunk(b"data", b"\0" * 8, v)])


WAVE_SEEDS = [riff_form([riff_chunk(b"fmt ", wave_fmt()), riff_chunk(b"data", b"\0" * 40), riff_chunk(b"id3 ", b"ID3\x04\x00\x00\x00\x00\x00\x0a" + b"\0" * 10)]),
              riff_form([riff_chunk(b"LIST", b"INFO" + riff_chunk(b"INAM", b"title")), riff_chunk(b"fmt ", wave_fmt(ext=b"\0\0")), riff_chunk(b"ID3 ", b"ID3\x03\x00\x00\x00\x00\x00\x00"),
                         riff_chunk(b"data", b"\0" * 7)]),
              riff_form([riff_chunk(b"JUNK", b"\0" * 28), riff_chunk(b"fmt ", wave_fmt(3, 1, 8000, 32000, 4, 32)), riff_chunk(b"fact", b"\0" * 4), riff_chunk(b"data", b"\0" * 64)])]


# ------------------------------------------------------------------------------------------- DSDIFF
def dsdiff_impl(f):
    """DSDIFF.load without the ID3 parse: _DSDIFFID3._pre_load_header (ID3NoHeaderError -> tags = None), seek(0, 0), DSDIFFInfo"""
    from mutagen.dsdiff import _DSDIFFID3, DSDIFFInfo
    from mutagen.id3._util import ID3NoHeaderError
    try:
        _DSDIFFID3()._pre_load_header(f)
        loc = f.tell()
    except ID3NoHeaderError:
        loc = -1
    f.seek(0, 0)
    return DSDIFFInfo(f), loc


def dsdiff_canon(r, data):
    i, loc = r
    return (loc, i.channels, i.sample_rate, i.compression, fh(i.length), fh(i.bitrate), type(i.bitrate).__name__)


def dsdiff_expect(l, data):
    loc, channels, rate, kind, a, b, c, d, has_comp = l[:9]
    comp = bytes(l[9:]).decode("ascii") if has_comp else None
    length, bitrate = 0, 0
    if kind == 1:
        sample_count = a * 8 / (channels or 1)
        if rate != 0:
            length = sample_count / float(rate)
        bitrate = channels * 1 * rate
    elif kind == 2 and a:
        frame_count, frame_rate = b, c
        if frame_rate:
            length = frame_count / frame_rate
        if frame_count:
            bitrate = (d / frame_count) * 8 * frame_rate
    return (loc, channels, rate, comp, fh(length), fh(bitrate), type(bitrate).__name__)


def dff_chunk(cid, body, size=None):
    return cid + struct.pack(">Q", (len(body) if size is None else size) & (2 ** 64 - 1)) + body + (b"\0" if len(body) % 2 else b"")


def dff_prop(rate=2822400, channels=2, cmpr=b"DSD ", name=b"SND ", extra=(), sizes=(None, None, None)):
    subs = [dff_chunk(b"FS  ", struct.pack(">I", rate), sizes[0]), dff_chunk(b"CHNL", struct.pack(">H", channels) + b"SLFTSRGT"[:4 * min(channels, 2)], sizes[1]),
            dff_chunk(b"CMPR", cmpr + b"\x0enot compressed\0", sizes[2])] + list(extra)
    return dff_chunk(b"PROP", name + b"".join(subs))


def dff_form(chunks, size=None, name=b"DSD ", magic=b"FRM8"):
    body = name + b"".join(chunks)
    return magic + struct.pack(">Q", (len(body) if size is None else size) & (2 ** 64 - 1)) + body


def dff_frte(frames=75, rate=75, size=None, pad=b""):
    return dff_chunk(b"FRTE", struct.pack(">IH", frames, rate) + pad, size)


DFF_BIG = [0, 1, 2, 3, 4, 5, 6, 7, 11, 12, 13, 100, 0xFFFF, 2 ** 31, 2 ** 32 - 1, 2 ** 32, 2 ** 62, 2 ** 63 - 13, 2 ** 63 - 12, 2 ** 63 - 1, 2 ** 63, 2 ** 64 - 2, 2 ** 64 - 1]


def dsdiff_sweep(samples):
    for name in sorted(n for n in samples if n.endswith(".dff")):
        s = samples[name][:500]
        yield from field_sweep(s, range(0, 110), widths=(1, 4))
        yield from truncations(s, 160)
    fver = dff_chunk(b"FVER", b"\x01\x05\0\0")
    dsd = dff_chunk(b"DSD ", b"\0" * 16)
    tag = b"ID3\x04\x00\x00\x00\x00\x00\x0a" + b"\0" * 10
    id3 = dff_chunk(b"ID3 ", tag)
    dst = dff_chunk(b"DST ", dff_frte() + dff_chunk(b"DSTF", b"\0" * 10))
    yield dff_form([fver, dff_prop(), dsd, id3])
    yield dff_form([fver, dff_prop(cmpr=b"DST "), dst, id3])
    for v in DFF_BIG:
        yield dff_form([fver, dff_prop(), dsd, id3], size=v)
        yield dff_form([dff_chunk(b"JUNK", b"\0" * 5, v), dff_prop(), dsd, id3])
        yield dff_form([dff_prop(), dff_chunk(b"DSD ", b"\0" * 8, v), id3])
        yield dff_form([dff_prop(), dsd, dff_chunk(b"ID3 ", tag, v)])
        for k in range(3):
            sz = [None, None, None]
            sz[k] = v
            yield dff_form([dff_prop(sizes=tuple(sz)), dsd])
        yield dff_form([dff_prop(cmpr=b"DST "), dff_chunk(b"DST ", dff_frte(size=v) + b"\0" * 8), id3])
        yield dff_form([dff_prop(cmpr=b"DST "), dff_chunk(b"DST ", dff_frte(), v), id3])
        yield dff_form([dff_chunk(b"PROP", b"SND " + dff_chunk(b"FS  ", b"\0\x2b\x11\0"), v), dsd])
        # nested containers inside PROP / FRM8 / DST
        yield dff_form([dff_prop(extra=[dff_chunk(b"PROP", b"SND ", v)]), dsd])
        yield dff_form([dff_prop(), dff_chunk(b"FRM8", b"DS\xffD", v), dsd])
        yield dff_form([dff_prop(cmpr=b"DST "), dff_chunk(b"DST ", dff_chunk(b"PROP", b"AB\x80C", v) + dff_frte())])
    for cmpr in (b"DSD ", b"DST ", b"DSD\0", b"DSD\n", b"DST\x1f", b"dsd ", b"    ", b"DS\xff ", b"ABCD", b"DSDX", b" DSD", b"D\x00  "):
        yield dff_form([dff_prop(cmpr=cmpr), dsd, dst, id3])
        yield dff_form([dff_prop(cmpr=cmpr), dst])
        yield dff_form([dff_prop(cmpr=cmpr)])
    for nm in (b"SND ", b"SND\0", b"snd ", b"SND", b"\xff\xff\xff\xff", b"ABCD"):
        yield dff_form([dff_prop(name=nm), dsd])
        yield dff_form([dff_prop(), dsd], name=nm)
    for ch in (0, 1, 2, 6, 0xFFFF):
        for rate in (0, 1, 2822400, 2 ** 32 - 1):
            yield dff_form([dff_prop(rate, ch), dff_chunk(b"DSD ", b"\0" * 8, 2 ** 40 + 7)])
            yield dff_form([dff_prop(rate, ch, b"DST "), dst])
    for frames in (0, 1, 75, 2 ** 32 - 1):
        for rate in (0, 1, 75, 0xFFFF):
            for dsz in (None, 0, 1, 30, 2 ** 63, 2 ** 64 - 1):
                yield dff_form([dff_prop(cmpr=b"DST "), dff_chunk(b"DST ", dff_frte(frames, rate) + b"\0" * 8, dsz)])
    for fsz in (0, 5, 6, 7, 8):
        yield dff_form([dff_prop(cmpr=b"DST "), dff_chunk(b"DST ", dff_frte(size=fsz, pad=b"\0\0")[:12 + fsz])])
        yield dff_form([dff_prop(cmpr=b"DST "), dff_chunk(b"DST ", dff_chunk(b"DSTF", b"\0" * 4) + dff_frte(pad=b"\0\0"))])
    # several FS / CHNL / CMPR chunks: the last one wins; ids that differ by padding / case / control characters
    yield dff_form([dff_prop(extra=[dff_chunk(b"FS  ", struct.pack(">I", 5644800)), dff_chunk(b"CMPR", b"DST "), dff_chunk(b"CHNL", b"\0\x05")]), dsd, dst])
    for cid in (b"FS  ", b"FS\0\0", b"FS\t ", b"fs  ", b"CHNL", b"CHN ", b"CMPR", b"cmpr", b"PROP", b"PRO ", b"DST ", b"DST\x1c", b"DSD ", b"ID3 ", b"id3 ", b"ID3\x80", b"FRM8", b"FRTE", b"\xffRTE"):
        yield dff_form([dff_prop(extra=[dff_chunk(cid, b"\0\0\0\x07abcd")]), dsd, id3])
        yield dff_form([dff_chunk(cid, b"SND " + b"\0" * 8), dff_prop(), dsd, id3])
        yield dff_form([dff_prop(cmpr=b"DST "), dff_chunk(b"DST ", dff_chunk(cid, b"\0\0\0\x07\0\x08ab") + dff_frte())])
        yield dff_form([dff_prop(), dsd], magic=cid)
    full = dff_form([fver, dff_prop(cmpr=b"DST "), dst, id3])
    for k in range(len(full) + 1):
        yield full[:k]
    many = [dff_chunk(b"C%03d" % k, b"x" * (k % 5)) for k in range(30)]
    yield dff_form(many + [dff_prop(extra=many), dsd, id3]) ; yield dff_form(many)


DSDIFF_SEEDS = [dff_form([dff_chunk(b"FVER", b"\x01\x05\0\0"), dff_prop(), dff_chunk(b"DSD ", b"\0" * 32), dff_chunk(b"ID3 ", b"ID3\x04\x00\x00\x00\x00\x00\x0a" + b"\0" * 10)]),
                dff_form([dff_chunk(b"FVER", b"\x01\x05\0\0"), dff_prop(5644800, 2, b"DST "), dff_chunk(b"DST ", dff_frte() + dff_chunk(b"DSTF", b"\0" * 20) + dff_chunk(b"DSTC", b"\0" * 4))]),
                dff_form([dff_prop(name=b"SND ", extra=[dff_chunk(b"ABSS", b"\0" * 8), dff_chunk(b"LSCO", b"\0\0")]), dff_chunk(b"DSD ", b"\0" * 9)])]


# ------------------------------------------------------------------------------------------- AAC
def aac_impl(f):
    from mutagen.aac import AACInfo
    return AACInfo(f)


def aac_canon(i, data):
    return (i._type, i.sample_rate, i.channels, fh(i.bitrate), type(i.bitrate).__name__, fh(i.length))


def aac_expect(l, data):
    if l[0] == 0:
        _, rate, channels, bitrate, nbytes = l
        return ("ADIF", rate, channels, fh(bitrate), "int", fh((8.0 * nbytes) / bitrate if bitrate != 0 else 0))
    _, freq, channels, hasf, bitrate, samples, stream_size, last8 = l
    length = 0.0
    if freq != 0:
        length = float(samples * stream_size) / ((last8 / 8 - 0.0) * freq)
    return ("ADTS", freq, channels, fh(float(bitrate) if hasf else 0), "float" if hasf else "int", fh(length))


def adts_frame(length=32, sfi=4, chan=2, prot_absent=1, nordbif=0, id_=0, layer=0, profile=1, body=None, sync=0xFFF):
    hdr = bitpack([(sync, 12), (id_, 1), (layer, 2), (prot_absent, 1), (profile, 2), (sfi, 4), (0, 1), (chan, 3), (0, 1), (0, 1), (0, 2), (length, 13), (0x7FF, 11), (nordbif, 2)])
    return hdr + (b"\x21" * max(0, length - 7) if body is None else body)


def aac_pce(sfi=4, front=1, side=0, back=0, lfe=0, assoc=0, cc=0, mixdown=(0, 0, 0), cpe=1, comment=b""):
    f = [(0, 4), (1, 2), (sfi, 4), (front, 4), (side, 4), (back, 4), (lfe, 2), (assoc, 3), (cc, 4)]
    for m, w in zip(mixdown, (4, 4, 3)):
        f += [(1, 1), (5, w)] if m else [(0, 1)]
    f += [(cpe, 1), (3, 4)] * (front + side + back) + [(1, 4)] * lfe + [(2, 4)] * assoc + [(3, 5)] * cc
    n = sum(w for _, w in f)
    f.append((0, (-n) % 8))
    f.append((len(comment), 8))
    return f + [(c, 8) for c in comment]


def aac_adif(copyright=0, bitstream_type=0, bitrate=128000, npce=0, pces=None, pad=b"\0" * 40, offset_bits=0):
    f = [(copyright, 1)] + ([(0xAB, 8)] * 9 if copyright else []) + [(0, 2), (bitstream_type, 1), (bitrate, 23), (npce, 4)]
    pos = sum(w for _, w in f)
    for k, pce in enumerate(pces if pces is not None else [aac_pce()] * (npce + 1)):
        if bitstream_type == 0:
            f.append((0x12345, 20)); pos += 20
        # each PCE aligns relative to the reader start (byte 4 of the file): rebuild the alignment padding
        fixed = [x for x in pce]
        f += fixed
    return b"ADIF" + bitpack(f) + pad


def aac_sweep(samples):
    for name in ("empty.aac", "adif.aac"):
        s = samples[name][:300]
        yield from field_sweep(s, range(0, 40), widths=(1, 2))
        yield from truncations(s, 120)
        for o in range(0, 12):
            for v in range(0, 256, 5):
                d = bytearray(s[:200]); d[o] = v
                yield bytes(d)
    fr = adts_frame()
    yield fr * 5
    for n in range(0, 6):
        yield fr * n
        yield b"\0" * 7 + fr * n + b"\xff"
        yield fr * n + fr[:9]
    # junk in front: the sync search window (512 bytes, 0xff bytes cost two), the ten tries
    for k in (0, 1, 2, 255, 256, 509, 510, 511, 512, 513, 600):
        yield b"\0" * k + fr * 4
        yield b"\xff" * k + fr * 4
        yield b"\xff\x00" * (k // 2) + fr * 4
    for tries in range(0, 13):
        yield (b"\xff\xf0" + b"\0" * 3) * tries + fr * 3
        yield (fr + b"\0" * 11) * tries + fr * 3               # one good frame, then no resync within 10 bytes
        yield (fr * 2 + b"\0" * 10) * tries + fr * 3
    # frame length: below the header size, crossing the end, the largest; CRC words; resync distance
    for length in (0, 1, 6, 7, 8, 9, 31, 32, 33, 100, 8191):
        for prot in (0, 1):
            for nord in (0, 1, 3):
                f2 = adts_frame(length, prot_absent=prot, nordbif=nord)
                yield f2 * 3
                yield f2 * 3 + b"\0" * 9000
                yield f2 + fr * 3
    for gap in range(0, 14):
        yield (fr + b"\0" * gap) * 4
        yield (fr + b"\xff" * gap) * 4
    # the fixed header must repeat: one differing field per frame
    for kw in (dict(sfi=5), dict(chan=3), dict(id_=1), dict(layer=1), dict(profile=2), dict(prot_absent=0)):
        yield fr * 2 + adts_frame(**kw) + fr * 3
        yield adts_frame(**kw) * 4
    for sfi in range(16):
        for chan in range(8):
            yield adts_frame(sfi=sfi, chan=chan) * 3
    # an ID3v2 tag in front
    for size in (0, 1, 10, 127, 128, 300, 0x0FFFFFFF):
        bp = bytes(((size >> sh) & 0x7F) for sh in (21, 14, 7, 0))
        for body in (b"\0" * min(size, 400) + fr * 4, fr * 4):
            yield b"ID3\x04\x00\x00" + bp + body
            yield b"ID3\x04\x00\x00" + bytes(b | 0x80 for b in bp) + body
        yield b"ID3\x04\x00\x00" + bp + b"\0" * min(size, 400) + aac_adif()
    for k in range(0, 12):
        yield (b"ID3\x04\x00\x00\x00\x00\x00\x02" + b"ab" + fr * 4)[:k]
    # ADIF: header options, program config elements
    for cr in (0, 1):
        for bt in (0, 1):
            for npce in (0, 1, 2, 15):
                yield aac_adif(cr, bt, 128000, npce)
                yield aac_adif(cr, bt, 0, npce, pad=b"")
                full = aac_adif(cr, bt, 1, min(npce, 2), pad=b"")
                for cut in range(4, len(full), 3):
                    yield full[:cut]
    for sfi in range(16):
        yield aac_adif(pces=[aac_pce(sfi=sfi)])
    for front, side, back, lfe, assoc, cc in ((0, 0, 0, 0, 0, 0), (15, 15, 15, 3, 7, 15), (1, 0, 0, 1, 0, 0), (2, 1, 1, 0, 3, 2), (15, 0, 0, 0, 0, 0)):
        for mix in ((0, 0, 0), (1, 1, 1), (1, 0, 1)):
            for cpe in (0, 1):
                for comment in (b"", b"hello", b"x" * 255):
                    yield aac_adif(pces=[aac_pce(4, front, side, back, lfe, assoc, cc, mix, cpe, comment)])
                    yield aac_adif(pces=[aac_pce(4, front, side, back, lfe, assoc, cc, mix, cpe, comment)], pad=b"")
    yield b"ADIF" ; yield b"ADI" ; yield b"" ; yield b"ADIF\xff" * 3


AAC_SEEDS = [adts_frame() * 6, b"\0" * 20 + adts_frame(40, 3, 2, 0, 1) * 5 + b"\xff\xf1", aac_adif(), aac_adif(1, 1, 96000, 1, [aac_pce(3, 2, 0, 1, 1, 0, 0, (1, 0, 0), 1, b"c"), aac_pce()]),
             b"ID3\x04\x00\x00\x00\x00\x00\x05hello" + adts_frame(20, 11, 1) * 4]


# ------------------------------------------------------------------------------------------- FLAC
def flac_impl(f):
    from mutagen.flac import FLAC
    return FLAC(f)


def flac_canon(F, data):
    i = F.info
    return (i.min_blocksize, i.max_blocksize, i.sample_rate, i.channels, i.bits_per_sample, i.total_samples, fh(i.length), i.bitrate,
            len(F.tags) if F.tags is not None else -1, len(F.cuesheet.tracks) if F.cuesheet is not None else -1,
            len(F.seektable.seekpoints) if F.seektable is not None else -1, len(F.pictures), tuple(b.code for b in F.metadata_blocks))


def flac_expect(l, data):
    mn, mx, rate, ch, bps, total, has, nbytes, tags, cue, seek, pics = l[:12]
    length = total / float(rate)
    bitrate = int(float(nbytes) * 8 / length) if has else 0
    return (mn, mx, rate, ch, bps, total, fh(length), bitrate, tags, cue, seek, pics, tuple(l[12:]))


def flac_block(code, body, last=False, size=None):
    n = len(body) if size is None else size
    return bytes([code | (0x80 if last else 0)]) + (n & 0xFFFFFF).to_bytes(3, "big") + body


def flac_si(rate=44100, channels=2, bps=16, total=88200, mn=4096, mx=4096):
    v = (rate << 44) | ((channels - 1) << 41) | ((bps - 1) << 36) | total
    return struct.pack(">HH", mn, mx) + b"\0\0\x10\0\0\x20" + v.to_bytes(8, "big") + b"\x11" * 16


def flac_vc(comments=(b"TITLE=x", b"noequals", b"=empty", b"bad\x7fkey=1"), vendor=b"ref", count=None, vlen=None):
    d = struct.pack("<I", len(vendor) if vlen is None else vlen) + vendor + struct.pack("<I", len(comments) if count is None else count)
    for c in comments:
        d += (struct.pack("<I", c[0]) + c[1]) if isinstance(c, tuple) else (struct.pack("<I", len(c)) + c)
    return d


def flac_pic(mime=b"image/png", desc=b"d", data=b"\x89PNG", lens=(None, None, None)):
    l0, l1, l2 = [len(x) if y is None else y for x, y in zip((mime, desc, data), lens)]
    return struct.pack(">II", 3, l0) + mime + struct.pack(">I", l1) + desc + struct.pack(">IIIII", 1, 1, 24, 0, l2) + data


def flac_cue(ntracks=2, nidx=(1, 2), cut=None, num=None):
    d = b"1234567890123".ljust(128, b"\0") + struct.pack(">QB", 88200, 0x80) + b"\0" * 258 + bytes([ntracks if num is None else num])
    for t in range(ntracks):
        n = nidx[t % len(nidx)]
        d += struct.pack(">QB12sB", t * 588, t + 1, b"ISRC", 0) + b"\0" * 13 + bytes([n])
        d += b"".join(struct.pack(">QB", k * 10, k) + b"\0" * 3 for k in range(n))
    return d if cut is None else d[:cut]


def flac_file(blocks, magic=b"fLaC", audio=b"\xff\xf8" + b"\0" * 30):
    out = magic
    for k, (code, body) in enumerate(blocks):
        out += flac_block(code, body, k == len(blocks) - 1)
    return out + audio


def flac_sweep(samples):
    for k, name in enumerate(sorted(n for n in samples if n.endswith(".flac"))):
        s = samples[name][:1500]
        yield from field_sweep(s, range(0, 60 if k % 2 == 0 else 12), widths=(1, 4))
        yield from truncations(s, 120 if k % 2 == 0 else 50)
    si, vc, seek, pad = (0, flac_si()), (4, flac_vc()), (3, b"\0" * 36), (1, b"\0" * 10)
    yield flac_file([si, vc, seek, (5, flac_cue()), (6, flac_pic()), pad])
    # block order, missing / repeated blocks, unknown codes
    for blocks in ([si], [vc], [], [vc, si], [si, si], [si, vc, vc], [si, seek, seek], [si, (5, flac_cue()), (5, flac_cue())], [pad, si], [si, (6, flac_pic()), (6, flac_pic())],
                   [(2, b"appl"), si], [si, (7, b"x")], [si, (126, b"xy")], [si, (127, b"")]):
        yield flac_file(blocks)
        yield flac_file(blocks, audio=b"")
    for code in range(0, 128):
        yield flac_file([si, (code, b"\0" * 40)])
    # the size field: shorter / longer than the content, past the end; is_last on every block
    for sz in (0, 1, 17, 33, 34, 35, 100, 0xFFFF, 0xFFFFFF):
        for code in (0, 1, 3, 4, 5, 6, 9):
            body = {0: flac_si(), 4: flac_vc(), 5: flac_cue(), 6: flac_pic()}.get(code, b"\0" * 40)
            yield b"fLaC" + flac_block(code, body, False, sz) + flac_block(0, flac_si(), True) + b"\0" * 50
            yield b"fLaC" + flac_block(0, flac_si(), False) + flac_block(code, body, True, sz) + b"\0" * 50
    for k in range(0, 4):
        yield b"fLaC" + flac_block(0, flac_si(), k == 0) + flac_block(4, flac_vc(), k == 1) + flac_block(1, b"\0" * 8, k == 2) + flac_block(3, b"\0" * 18, True) + b"\xff\xf8"
    # STREAMINFO fields
    for rate in (0, 1, 15, 16, 44100, 2 ** 20 - 1):
        for ch in (1, 8):
            for bps in (1, 16, 17, 32):
                for total in (0, 1, 2 ** 35, 2 ** 36 - 1):
                    yield flac_file([(0, flac_si(rate, ch, bps, total)), pad])
    for cut in range(0, 35):
        yield flac_file([(0, flac_si()[:cut]), vc])
    # Vorbis comment: counts / lengths beyond the data (the block size is not trusted)
    for cnt in (0, 1, 3, 4, 5, 255, 2 ** 16, 2 ** 32 - 1):
        yield flac_file([si, (4, flac_vc(count=cnt)), pad])
    for vl in (0, 2, 3, 4, 100, 2 ** 31, 2 ** 32 - 1):
        yield flac_file([si, (4, flac_vc(vlen=vl)), pad])
    for ln in (0, 6, 7, 8, 100, 2 ** 31, 2 ** 32 - 1):
        yield flac_file([si, (4, flac_vc(comments=[(ln, b"TITLE=x"), b"a=b"])), pad])
    full = flac_file([si, vc], audio=b"")
    for k in range(len(full) + 1):
        yield full[:k]
    # picture lengths, cue sheet counts
    for v in (0, 1, 8, 9, 10, 100, 2 ** 24, 2 ** 32 - 1):
        for k in range(3):
            lens = [None, None, None]
            lens[k] = v
            yield flac_file([si, (6, flac_pic(lens=tuple(lens))), pad])
    full = flac_file([si, (6, flac_pic())], audio=b"")
    for k in range(len(full) - 50, len(full) + 1):
        yield full[:k]
    for nt in (0, 1, 2, 5):
        for ni in ((0,), (1,), (3, 0), (255,)):
            yield flac_file([si, (5, flac_cue(nt, ni))])
            yield flac_file([si, (5, flac_cue(nt, ni, num=nt + 1))])
            yield flac_file([si, (5, flac_cue(nt, ni, num=255))])
    c = flac_cue(2, (2,))
    for cut in list(range(380, 400)) + list(range(len(c) - 40, len(c) + 1)):
        yield flac_file([si, (5, c[:cut])])
    for n in (0, 17, 18, 19, 36, 180):
        yield flac_file([si, (3, b"\x01" * n)])
    # an ID3v2 tag in front
    for size in (0, 1, 10, 127, 128, 300, 0x0FFFFFFF):
        bp = bytes(((size >> sh) & 0x7F) for sh in (21, 14, 7, 0))
        rest = flac_file([si, vc])
        for body in (b"\0" * min(size, 400) + rest, rest):
            yield b"ID3\x04\x00\x00" + bp + body
            yield b"ID3\x04\x00\x00" + bytes(b | 0x80 for b in bp) + body
    for k in range(0, 16):
        yield (b"ID3\x04\x00\x00\x00\x00\x00\x02" + b"ab" + flac_file([si]))[:k]
    for magic in (b"fLaC", b"flac", b"fLa", b"OggS", b"ID3", b""):
        yield flac_file([si], magic=magic)


FLAC_SEEDS = [flac_file([(0, flac_si()), (4, flac_vc()), (3, b"\0" * 36), (5, flac_cue()), (6, flac_pic()), (1, b"\0" * 20)]),
              flac_file([(0, flac_si(96000, 6, 24, 2 ** 33)), (2, b"ABCDdata"), (4, flac_vc(comments=[b"ARTIST=a", b"ARTIST=b"])), (1, b"")]),
              b"ID3\x03\x00\x00\x00\x00\x00\x0a" + b"\0" * 10 + flac_file([(0, flac_si()), (1, b"\0" * 4)])]


# ------------------------------------------------------------------------------------------- ASF
def asf_impl(f):
    from mutagen.asf import ASF
    return ASF(f)


def asf_canon(a, data):
    i = a.info
    return (fh(i.length), i.channels, i.sample_rate, i.bitrate, len(a.tags), len(a._header.objects), i.codec_type, i.codec_name, i.codec_description)


def asf_expect(l, data):
    from mutagen.asf._util import CODECS
    has_fp, length, preroll, ch, rate, br, ntags, nobj, has_codec = l[:9]
    ln = max((length / 10000000.0) - (preroll / 1000.0), 0.0) if has_fp else 0.0
    ctype = cname = cdesc = ""
    if has_codec:
        cid, n = l[9], l[10]
        name = bytes(l[11:11 + n])
        m = l[11 + n]
        desc = bytes(l[12 + n:12 + n + m])
        ctype = CODECS.get(cid, "") if cid >= 0 else ""
        cname = name.decode("utf-16-le").strip("\x00").strip()
        cdesc = desc.decode("utf-16-le").strip("\x00").strip()
    return (fh(ln), ch, rate, br, ntags, nobj, ctype, cname, cdesc)


ASF_G = {"header": "3026b2758e66cf11a6d900aa0062ce6c", "content": "3326b2758e66cf11a6d900aa0062ce6c", "extcont": "40a4d0d207e3d21197f000a0c95ea850",
         "fileprop": "a1dcab8c47a9cf118ee400c00c205365", "stream": "9107dcb7b7a9cf118ee600c00c205365", "codecs": "4052d1861d31d011a3a400a0c90348f6",
         "hdrext": "b503bf5f2ea9cf118ee300c00c205365", "metadata": "eacbf8c5af5b77488467aa8c44fa4cca", "metalib": "941c23449894d149a1411d134e457054",
         "padding": "74d40618dfca0945a4ba9aabcb96aae8", "bitrate": "ce75f87b8d46d1118d82006097c9a2b2", "unknown": "00112233445566778899aabbccddeeff"}
ASF_G = {k: bytes.fromhex(v) for k, v in ASF_G.items()}


def asf_obj(kind, payload, size=None):
    return ASF_G[kind] + struct.pack("<Q", ((len(payload) + 24) if size is None else size) & (2 ** 64 - 1)) + payload


def asf_hdr(objs, n=None, size=None, guid=None):
    body = b"".join(objs)
    return (ASF_G["header"] if guid is None else guid) + struct.pack("<QL", ((len(body) + 30) if size is None else size) & (2 ** 64 - 1), len(objs) if n is None else n) + b"\x01\x02" + body


def asf_ext(inner, datasize=None):
    return asf_obj("hdrext", b"\0" * 16 + b"\x06\0" + struct.pack("<I", len(inner) if datasize is None else datasize) + inner)


def u16(s):
    return s.encode("utf-16-le")


def asf_cd(texts=("t", "a", "", "d", ""), lens=None):
    enc = [u16(t) + (b"\0\0" if t else b"") for t in texts]
    return asf_obj("content", struct.pack("<HHHHH", *(lens or [len(e) for e in enc])) + b"".join(enc))


def asf_ecd_attr(name, typ, val, nlen=None, vlen=None):
    n = name if isinstance(name, bytes) else u16(name) + b"\0\0"
    return struct.pack("<H", len(n) if nlen is None else nlen) + n + struct.pack("<HH", typ, len(val) if vlen is None else vlen) + val


def asf_ecd(attrs, count=None):
    return asf_obj("extcont", struct.pack("<H", len(attrs) if count is None else count) + b"".join(attrs))


def asf_md_attr(name, typ, val, nlen=None, vlen=None):
    n = name if isinstance(name, bytes) else u16(name) + b"\0\0"
    return struct.pack("<HHHHI", 0, 1, len(n) if nlen is None else nlen, typ, len(val) if vlen is None else vlen) + n + val


def asf_md(attrs, kind="metadata", count=None):
    return asf_obj(kind, struct.pack("<H", len(attrs) if count is None else count) + b"".join(attrs))


def asf_fp(length=50000000, preroll=1000, cut=None):
    d = b"\0" * 40 + struct.pack("<QQQ", length, 0, preroll) + b"\0" * 16
    return asf_obj("fileprop", d if cut is None else d[:cut])


def asf_sp(ch=2, rate=44100, br=16000, cut=None):
    d = b"\0" * 54 + b"\x61\x01" + struct.pack("<HII", ch, rate, br) + b"\0" * 12
    return asf_obj("stream", d if cut is None else d[:cut])


def asf_codec_entry(typ=2, name=u16("WMA 9") + b"\0\0", desc=u16(" 64 kbps ") + b"\0\0", info=b"\x61\x01", units=(None, None, None)):
    u = [len(name) // 2, len(desc) // 2, len(info)]
    u = [a if b is None else b for a, b in zip(u, units)]
    return struct.pack("<HH", typ, u[0]) + name + struct.pack("<H", u[1]) + desc + struct.pack("<H", u[2]) + info


def asf_cl(entries, count=None, cut=None):
    d = b"\0" * 16 + struct.pack("<I", len(entries) if count is None else count) + b"".join(entries)
    return asf_obj("codecs", d if cut is None else d[:cut])


def asf_nested(depth, inner=b""):
    """a header object whose only child is a header extension whose only sub-object is a header extension ... (depth levels)"""
    for _ in range(depth):
        inner = asf_ext(inner)
    return asf_hdr([inner])


ASF_VALUES = {0: u16("text") + b"\0\0", 1: b"\x01\x02\x03", 2: b"\x01\0\0\0", 3: b"\x07\0\0\0", 4: b"\x07" + b"\0" * 7, 5: b"\x07\0", 6: b"g" * 16}


def asf_sweep(samples):
    for k, name in enumerate(sorted(n for n in samples if n.endswith(".wma"))[:4]):
        s = samples[name][:5400]
        if k == 0:
            yield from field_sweep(s, list(range(16, 30)) + list(range(46, 54)), widths=(1, 4))        # header size / object count, first object size
        yield from truncations(s, 60 if k == 0 else 31)
    base = [asf_fp(), asf_sp(), asf_cd(), asf_ecd([asf_ecd_attr("WM/Year", 0, u16("2000") + b"\0\0")]), asf_cl([asf_codec_entry()]),
            asf_ext(asf_md([asf_md_attr("a", 3, ASF_VALUES[3])]) + asf_md([asf_md_attr("b", 2, b"\x01\0")], "metalib") + asf_obj("padding", b"\0" * 8)), asf_obj("padding", b"\0" * 10)]
    yield asf_hdr(base)
    full = asf_hdr(base)
    for k in range(0, len(full) + 1, 3):
        yield full[:k]
    # header: object count / size against the content
    for n in (0, 1, 6, 7, 8, 9, 255, 2 ** 16, 2 ** 32 - 1):
        yield asf_hdr(base, n=n)
        yield asf_hdr(base, n=n) + b"\0" * 100
    for sz in (0, 29, 30, 31, 53, 54, 55, 100, len(full) - 1, len(full), len(full) + 1, 2 ** 32, 2 ** 63, 2 ** 64 - 1):
        yield asf_hdr(base, size=sz)
    yield asf_hdr(base, guid=ASF_G["content"]) ; yield asf_hdr([asf_obj("header", b"\0" * 6)]) ; yield asf_hdr([asf_ext(asf_obj("header", b"\0" * 6))])
    # object sizes: below the object header (a negative payload reads to the end), beyond the header / the file, 64-bit
    for sz in (0, 1, 23, 24, 25, 34, 35, 100, 2 ** 31, 2 ** 32, 2 ** 63 - 1, 2 ** 63, 2 ** 63 + 23, 2 ** 63 + 24, 2 ** 64 - 1):
        for kind in ("padding", "unknown", "fileprop", "hdrext"):
            yield asf_hdr([asf_fp(), asf_obj(kind, b"\0" * 10, sz), asf_sp()])
            yield asf_hdr([asf_fp(), asf_obj(kind, b"\0" * 10, sz), asf_sp()], size=2 ** 64 - 1)
    for kind in ASF_G:
        for n in (0, 1, 2, 10, 22, 46, 66, 100):
            yield asf_hdr([asf_obj(kind, b"\0" * n)]) ; yield asf_hdr([asf_obj(kind, b"\xff" * n)]) ; yield asf_hdr([asf_ext(asf_obj(kind, b"\x01" * n))])
    # attributes: every type with every length around the exact one, in the three attribute objects
    for typ in range(0, 9):
        for val in [ASF_VALUES.get(typ, b"xy")] + [b"\x01" * k for k in (0, 1, 2, 3, 4, 5, 8, 9)] + [b"\x00\xd8", b"\x00\xdc", b"\x00\xd8\x00\xdc", b"\x00\xd8a\x00"]:
            yield asf_hdr([asf_ecd([asf_ecd_attr("n", typ, val)])])
            yield asf_hdr([asf_ext(asf_md([asf_md_attr("n", typ, val)]))])
            yield asf_hdr([asf_ext(asf_md([asf_md_attr("n", typ, val)], "metalib"))])
    for nm in (b"", b"a", b"a\0", b"a\0\0", b"\x00\xd8", b"\x00\xdc\0\0", b"\x00\xd8\x00\xdc\0\0", b"a\0" * 300):
        yield asf_hdr([asf_ecd([asf_ecd_attr(nm, 3, ASF_VALUES[3])])]) ; yield asf_hdr([asf_md([asf_md_attr(nm, 3, ASF_VALUES[3])])])
    for v in (0, 1, 2, 3, 5, 100, 0xFFFF):
        yield asf_hdr([asf_ecd([asf_ecd_attr("n", 1, b"abc", nlen=v)])]) ; yield asf_hdr([asf_ecd([asf_ecd_attr("n", 1, b"abc", vlen=v)])])
        yield asf_hdr([asf_md([asf_md_attr("n", 1, b"abc", nlen=v)])]) ; yield asf_hdr([asf_md([asf_md_attr("n", 1, b"abc", vlen=v * 65537)])])
        yield asf_hdr([asf_ecd([asf_ecd_attr("n", 3, ASF_VALUES[3])] * 2, count=v)]) ; yield asf_hdr([asf_md([asf_md_attr("n", 5, ASF_VALUES[5])] * 2, count=v)])
    # content description lengths, file / stream properties cuts
    for lens in ((0, 0, 0, 0, 0), (1, 0, 0, 0, 0), (2, 2, 2, 2, 2), (4, 0, 6, 0, 0), (0xFFFF, 0, 0, 0, 2), (3, 3, 0, 0, 0)):
        yield asf_hdr([asf_cd(("ab", "c", "", "\ud7ff", ""), lens)])
    yield asf_hdr([asf_obj("content", b"\x02\0\0\0\0\0\0\0\0\0" + b"\x00\xd8")]) ; yield asf_hdr([asf_obj("content", b"\x02\0\0\0\0\0\0\0\0")])
    for cut in (0, 39, 40, 63, 64, 65, 80):
        yield asf_hdr([asf_fp(cut=cut)]) ; yield asf_hdr([asf_sp(cut=cut)])
    for ln, pr in ((0, 0), (1, 0), (10 ** 7, 999), (10 ** 7, 1001), (2 ** 64 - 1, 0), (0, 2 ** 64 - 1), (2 ** 64 - 1, 2 ** 64 - 1)):
        yield asf_hdr([asf_fp(ln, pr), asf_fp(5, 0)]) ; yield asf_hdr([asf_fp(5, 0), asf_fp(ln, pr)])
    for v in (0, 1, 0xFFFF, 2 ** 32 - 1):
        yield asf_hdr([asf_sp(v & 0xFFFF, v, v)])
    # codec list: counts, entry kinds, unit counts running past the data, codec info sizes, texts that do not decode
    ent = asf_codec_entry()
    for cnt in (0, 1, 2, 3, 255, 2 ** 32 - 1):
        yield asf_hdr([asf_cl([asf_codec_entry(1), ent], cnt)]) ; yield asf_hdr([asf_cl([asf_codec_entry(1), asf_codec_entry(3)], cnt)])
    c = asf_cl([asf_codec_entry(1), ent])
    for cut in range(0, len(c) - 24 + 1):
        yield asf_hdr([asf_cl([asf_codec_entry(1), ent], cut=cut)])
    for units in ((0, 0, 0), (0xFFFF, None, None), (None, 0xFFFF, None), (None, None, 0xFFFF), (None, None, 1), (None, None, 3), (1, 1, 2)):
        yield asf_hdr([asf_cl([asf_codec_entry(units=units)])]) ; yield asf_hdr([asf_cl([asf_codec_entry(units=units)]), asf_cl([ent])])
    for cid in (0, 1, 0x161, 0x162, 0xFFFE, 0xFFFF, 0x1234):
        yield asf_hdr([asf_cl([asf_codec_entry(info=struct.pack("<H", cid))])])
    yield asf_hdr([asf_cl([asf_codec_entry(name=b"\x00\xd8", desc=b"\x00\xdc")])]) ; yield asf_hdr([asf_cl([asf_codec_entry(name=u16(" x \0"), desc=u16("\0\0"))])])
    # header extension: data size against the content, sub-object sizes, nesting (a nested extension recurses)
    sub = asf_md([asf_md_attr("a", 3, ASF_VALUES[3])])
    for ds in (0, 1, 23, 24, len(sub) - 1, len(sub), len(sub) + 1, 2 * len(sub), 2 ** 32 - 1):
        yield asf_hdr([asf_ext(sub + sub, ds)])
    for sz in (0, 1, 2, 23, 24, 25, len(sub), len(sub) + 5, 2 ** 32, 2 ** 64 - 1):
        yield asf_hdr([asf_ext(asf_obj("metadata", sub[24:], sz) + sub)])
    for k in range(0, 60):
        yield asf_hdr([asf_ext(sub)[:24 + k]], size=2 ** 32)
    for depth in (1, 2, 3, 10, 40, 60):
        inner = sub
        for _ in range(depth):
            inner = asf_ext(inner)
        yield asf_hdr([inner]) ; yield asf_hdr([inner[:-3]])
    # header extensions nested in each other, deeper than the interpreter's recursion limit (one frame per level if they were parsed)
    for depth in (2, 900, 1000, 2000):
        yield asf_nested(depth) ; yield asf_hdr([asf_fp(), asf_ext(sub + asf_nested(depth)[30:])])


ASF_SEEDS = [asf_hdr([asf_fp(), asf_sp(), asf_cd(), asf_ecd([asf_ecd_attr("WM/Year", 0, u16("2000") + b"\0\0"), asf_ecd_attr("b", 2, ASF_VALUES[2]), asf_ecd_attr("q", 4, ASF_VALUES[4])]),
                      asf_cl([asf_codec_entry(1), asf_codec_entry()]), asf_ext(asf_md([asf_md_attr("a", 3, ASF_VALUES[3]), asf_md_attr("w", 5, ASF_VALUES[5])]) +
                                                                                asf_md([asf_md_attr("g", 6, ASF_VALUES[6])], "metalib")), asf_obj("padding", b"\0" * 20)]) + b"\0" * 50]
ASF_SEEDS += [asf_nested(1000), asf_nested(2000)]
ASF_SEEDS += [asf_hdr([asf_fp(), asf_sp(), asf_ecd([asf_ecd_attr("k%d" % t, t, ASF_VALUES[t]) for t in range(7)])]),
              asf_hdr([asf_sp(), asf_cl([asf_codec_entry(1), asf_codec_entry(3), asf_codec_entry()]), asf_fp(10 ** 8, 3000)]),
              asf_hdr([asf_ext(asf_md([asf_md_attr("m%d" % t, t, ASF_VALUES[t] if t != 2 else b"\x01\0") for t in range(7)]) + asf_ext(asf_md([asf_md_attr("l", 0, ASF_VALUES[0])], "metalib"))), asf_cd()]),
              asf_hdr([asf_cd(("Title", "Author", "(c)", "Desc", "5")), asf_obj("bitrate", b"\x01\0\x01\0\0\xfa\0\0"), asf_obj("unknown", b"xyz"), asf_fp(), asf_sp(1, 8000, 1000)]) + b"data" * 10]


# ------------------------------------------------------------------------------------------- OggFLAC
def oggflac_impl(f):
    """OggFileType.load as it is (its exception mapping included), with OggFLACStreamInfo._post_tags (OggPage.find_last) left out"""
    from mutagen.oggflac import OggFLAC, OggFLACStreamInfo

    class _Info(OggFLACStreamInfo):
        def _post_tags(self, fileobj):
            pass

    class _Loader(OggFLAC):
        _Info = None
    _Loader._Info = _Info
    return _Loader(f)


def oggflac_canon(F, data):
    i = F.info
    return (i.min_blocksize, i.max_blocksize, i.sample_rate, i.channels, i.bits_per_sample, i.total_samples, fh(i.length), i.serial, len(F.tags))


def oggflac_expect(l, data):
    mn, mx, rate, ch, bps, total, serial, kept = l
    return (mn, mx, rate, ch, bps, total, fh(total / float(rate)), serial, kept)


def ogf_head(si=None, major=1, minor=0, npk=1, marker=b"fLaC", magic=b"\x7fFLAC", cut=None):
    pk = magic + bytes([major, minor]) + struct.pack(">H", npk) + marker + b"\0\0\0\x22" + (flac_si() if si is None else si)
    return pk if cut is None else pk[:cut]


def ogf_comment(vc=None, hdr=b"\x84\0\0\x10"):
    return hdr + (flac_vc() if vc is None else vc)


def ogf_pages(packets, serial=1, seq0=0, flags0=2):
    out = b""
    for k, pk in enumerate(packets):
        lac = [255] * (len(pk) // 255) + [len(pk) % 255]
        out += ogg_page(lac, pk, flags0 if k == 0 else 0, serial=serial, seq=seq0 + k)
    return out


def oggflac_sweep(samples):
    s = samples["empty.oggflac"]
    yield from field_sweep(s[:260], range(0, 100), widths=(1, 4))
    yield from truncations(s, 200)
    head, com = ogf_head(), ogf_comment()
    yield ogf_pages([head, com])
    junk = ogg_page([4], b"abcd", 0, serial=9)
    # the identification packet: cuts, version, marker, magic, stream info fields
    for cut in range(0, len(head) + 1):
        yield ogf_pages([head[:cut], com])
    for major, minor in ((0, 0), (1, 0), (1, 1), (2, 0), (255, 255)):
        yield ogf_pages([ogf_head(major=major, minor=minor), com])
    for marker in (b"fLaC", b"flac", b"fLa\0"):
        yield ogf_pages([ogf_head(marker=marker), com])
    for magic in (b"\x7fFLAC", b"\x7fFLAD", b"FLAC\x7f"):
        yield ogf_pages([ogf_head(magic=magic), com]) ; yield junk + ogf_pages([ogf_head(magic=magic)]) + ogf_pages([head, com], serial=5)
    for rate in (0, 1, 44100, 2 ** 20 - 1):
        for total in (0, 1, 2 ** 36 - 1):
            yield ogf_pages([ogf_head(flac_si(rate, 2, 16, total)), com])
    # the comment packet: other streams' pages in between, wrong sequence / serial, continued and incomplete pages, no packet at all
    yield ogf_pages([head]) ; yield ogf_pages([head]) + junk * 3 ; yield junk * 2 + ogf_pages([head]) + junk + ogf_pages([com], seq0=1, flags0=0) + junk
    yield ogf_pages([head]) + ogf_pages([com], seq0=5, flags0=0) ; yield ogf_pages([head]) + ogf_pages([com], serial=2, seq0=1, flags0=0)
    yield ogf_pages([head]) + ogg_page([], b"", 0, seq=1) + ogf_pages([com], seq0=2, flags0=0)
    yield ogf_pages([head]) + ogg_page([], b"", 0, seq=1) + ogg_page([5], b"hello", 1, seq=2)                 # continued page after a page without packets
    big = ogf_comment(flac_vc(comments=[b"TITLE=" + b"x" * 900]))
    yield ogf_pages([head]) + ogg_page([255], big[:255], 0, seq=1) + ogg_page([255, 255, len(big) - 765], big[255:], 1, seq=2)
    yield ogf_pages([head]) + ogg_page([255], big[:255], 0, seq=1) + ogg_page([255], big[255:510], 1, seq=3)
    yield ogf_pages([head]) + ogg_page([255], big[:255], 0, seq=1) + junk + ogg_page([255, 255, len(big) - 765], big[255:], 1, seq=2)
    yield ogf_pages([head]) + ogg_page([255], big[:255], 0, seq=1)
    yield ogf_pages([head]) + ogg_page([10, 4], com[:10] + b"next", 1, seq=1)
    for hdr in (b"", b"\x84", b"\x84\0\0", b"\x84\0\0\x10", b"\x04\xff\xff\xff"):
        yield ogf_pages([head, ogf_comment(hdr=hdr)])
    for cnt in (0, 1, 3, 4, 5, 255, 2 ** 32 - 1):
        yield ogf_pages([head, ogf_comment(flac_vc(count=cnt))])
    for vl in (0, 2, 3, 4, 100, 2 ** 31, 2 ** 32 - 1):
        yield ogf_pages([head, ogf_comment(flac_vc(vlen=vl))])
    for ln in (0, 6, 7, 8, 100, 2 ** 31, 2 ** 32 - 1):
        yield ogf_pages([head, ogf_comment(flac_vc(comments=[(ln, b"TITLE=x"), b"a=b"]))])
    full = ogf_pages([head, com])
    for k in range(len(full) + 1):
        yield full[:k]
    yield from field_sweep(full, range(0, 140, 2), widths=(1,))


OGGFLAC_SEEDS = [ogf_pages([ogf_head(), ogf_comment(), b"\xff\xf8" + b"\0" * 20]), ogg_page([4], b"abcd", 2, serial=9) + ogf_pages([ogf_head(flac_si(96000, 6, 24, 1000)), ogf_comment(flac_vc(comments=[b"A=1", b"B=2"]))], serial=3)]


# ------------------------------------------------------------------------------------------- registry
LOADERS = {
    "Musepack": dict(impl=mpc_impl, canon=mpc_canon, expect=mpc_expect, sweep=mpc_sweep,
                     own=lambda n: n.endswith(".mpc") or n in ("synth0",), coq=("Parse_musepack", "musepack_load", "mpc_info_list"),
                     mirrors="musepack.MusepackInfo.__init__ (ID3v2 skip, __parse_sv8, _parse_sv8_int, __parse_stream_header, "
                             "__parse_replaygain_packet, __parse_sv467)"),
    "WavPack": dict(impl=wv_impl, canon=wv_canon, expect=wv_expect, sweep=wv_sweep, coq=("Parse_wavpack", "wavpack_load", "wv_info_list"),
                    own=lambda n: n.endswith(".wv") or n == "synth5",
                    mirrors="wavpack._WavPackHeader.from_fileobj + WavPackInfo.__init__ (RATES index guard, block walk)"),
    "SMF": dict(seeds=SMF_SEEDS, impl=smf_impl, canon=smf_canon, expect=smf_expect, sweep=smf_sweep, coq=("Parse_smf", "smf_load", "smf_info_list"), max_len=2048,
                own=lambda n: n.endswith(".mid") or n == "synth2",
                mirrors="smf._var_int, _read_track, _read_midi_length, SMF.load (IOError mapping)"),
    "VComment": dict(impl=vc_impl, canon=vc_canon, expect=vc_expect, sweep=vc_sweep, coq=("Parse_vcomment", "vcomment_load", "vc_info_list"),
                     own=lambda n: False, seeds=VC_SEEDS,
                     mirrors="_vorbis.VComment.__init__(bytes) / VComment.load(errors='replace', framing=True)"),
    "OggVorbisInfo": dict(impl=ogv_impl, canon=ogv_canon, expect=ogv_expect, sweep=ogv_sweep, coq=("Parse_ogg", "oggvorbis_info_load", "ogv_info_list"),
                          own=lambda n: n.endswith(".ogg") or n == "synth1", allowed=("EOFError",), max_len=6000,
                          mirrors="ogg.OggPage.__init__ + oggvorbis.OggVorbisInfo.__init__ (EOFError is mapped by OggFileType.load: "
                                  "theorem C04_OggVorbis_total is about the mapped loader)"),
    "APEv2Data": dict(impl=ape_impl, canon=ape_canon, expect=ape_expect, sweep=ape_sweep, coq=("Parse_apev2", "apev2data_load", "ape_data_list"),
                      own=lambda n: n.endswith((".apev2", ".mpc", ".ape", ".wv", ".tak", ".ofr", ".ofs")) or n in ("apev2-lyricsv2.mp3", "audacious-trailing-id32-apev2.mp3"),
                      cut="tail", max_len=6000,
                      mirrors="apev2._APEv2Data.__init__ (__find_metadata incl. ID3v1/Lyrics3v2 detection and int(), __fill_missing, __fix_brokenness)"),
    "MP4Atoms": dict(impl=mp4_impl, canon=mp4_canon, expect=mp4_expect, sweep=mp4_sweep, coq=("Parse_mp4", "mp4_atoms_raw", "mp4_flat_list"),
                     own=lambda n: n.endswith((".m4a", ".mp4", ".m4b", ".3g2")), allowed=("AtomError",), rename={"AssertionError": "AtomError"}, max_len=4096,
                     mirrors="mp4._atom.Atom.__init__ + Atoms.__init__ (AtomError, not a MutagenError, is mapped by MP4.load: theorem "
                             "C04_MP4_total is about the mapped loader)"),
    "TrueAudio": dict(impl=tta_impl, canon=tta_canon, expect=tta_expect, sweep=hdr_sweep(["empty.tta"], 18), coq=("Parse_headers", "trueaudio_load", "hdr_id"),
                      own=lambda n: n.endswith(".tta"), max_len=256, mirrors="trueaudio.TrueAudioInfo.__init__(fileobj, offset=0)"),
    "MonkeysAudio": dict(impl=mac_impl, canon=mac_canon, expect=mac_expect, sweep=hdr_sweep(["mac-399.ape", "mac-396.ape", "mac-390-hdr.ape"], 76),
                         coq=("Parse_headers", "monkeysaudio_load", "hdr_id"), own=lambda n: n.endswith(".ape"), max_len=256,
                         mirrors="monkeysaudio.MonkeysAudioInfo.__init__"),
    "OptimFROG": dict(impl=ofr_impl, canon=ofr_canon, expect=ofr_expect, sweep=hdr_sweep(["empty.ofr", "empty.ofs", "silence-2s-44100-16.ofr"], 76),
                      coq=("Parse_headers", "optimfrog_load", "hdr_id"), own=lambda n: n.endswith((".ofr", ".ofs")), max_len=256,
                      mirrors="optimfrog.OptimFROGInfo.__init__"),
    "ID3Header": dict(impl=id3h_impl, canon=id3h_canon, expect=id3h_expect, sweep=id3h_sweep, coq=("Parse_id3", "id3header_load", "id3h_id"),
                      own=lambda n: n.endswith((".id3", ".mp3")) or n == "synth4", max_len=1024,
                      mirrors="id3._tags.ID3Header.__init__ (incl. extended header, read_full and _read_unsynched)"),
    "OggOpusInfo": dict(impl=ogo_impl, canon=ogo_canon, expect=ogv_expect, sweep=ogg_codec_sweep("example.opus", OPUS_ID),
                        coq=("Parse_ogg", "oggopus_info_load", "ogg_id"), own=lambda n: n.endswith(".opus") or n == "synth1", allowed=("EOFError",), max_len=3000,
                        mirrors="ogg.OggPage.__init__ + oggopus.OggOpusInfo.__init__ (EOFError mapped by OggFileType.load)"),
    "OggSpeexInfo": dict(impl=ogs_impl, canon=ogs_canon, expect=ogv_expect, sweep=ogg_codec_sweep("empty.spx", SPEEX_ID),
                         coq=("Parse_ogg", "oggspeex_info_load", "ogg_id"), own=lambda n: n.endswith(".spx") or n == "synth1", allowed=("EOFError",), max_len=3000,
                         mirrors="ogg.OggPage.__init__ + oggspeex.OggSpeexInfo.__init__ (EOFError mapped by OggFileType.load)"),
    "OggTheoraInfo": dict(impl=ogt_impl, canon=ogt_canon, expect=ogt_expect, sweep=ogg_codec_sweep("sample.oggtheora", THEORA_ID),
                          coq=("Parse_ogg", "oggtheora_info_load", "ogg_id"), own=lambda n: n.endswith(".oggtheora") or n == "synth1", allowed=("EOFError",), max_len=3000,
                          mirrors="ogg.OggPage.__init__ + oggtheora.OggTheoraInfo.__init__ (EOFError mapped by OggFileType.load)"),
    "ID3determine_bpi": dict(impl=bpi_impl, canon=bpi_canon, expect=ogv_expect, sweep=bpi_sweep, coq=("Parse_id3", "id3_determine_bpi", "id3_bpi_list"),
                             own=lambda n: n.endswith(".id3"), seeds=[id3_frame(b"TIT2", b"\0abc") + id3_frame(b"COMM", b"\0eng\0" + b"c" * 140, sync=True) + b"\0" * 20],
                             max_len=2048, mirrors="id3._tags.determine_bpi(data, Frames)"),
    "AC3": dict(impl=ac3_impl, canon=ac3_canon, expect=ac3_expect, sweep=ac3_sweep, coq=("Parse_ac3", "ac3_load", "ac3_id"), cmd="c04_load_ac3",
                own=lambda n: n.endswith((".ac3", ".eac3")), seeds=AC3_SEEDS, max_len=512,
                mirrors="ac3.AC3Info.__init__ (what AC3.load runs): sync word, bitstream_id dispatch, _read_header (BitReaderError mapping), _read_header_normal, "
                        "_read_header_enhanced, _skip_unused_header_bits_*, _get_channels, _guess_length, over _util.BitReader.bits/skip/align"),
    "AIFF": dict(impl=aiff_impl, canon=aiff_canon, expect=aiff_expect, sweep=aiff_sweep, coq=("Parse_aiff", "aiff_load", "aiff_id"), cmd="c04_load_aiff",
                 own=lambda n: n.endswith(".aif"), seeds=AIFF_SEEDS, max_len=1024,
                 mirrors="aiff.AIFF.load without the ID3 parse: _IFFID3._pre_load_header, AIFFInfo.__init__, read_float, AIFFFile / IffFile.__init__, "
                         "IffChunk.parse / __init__ / read, AIFFFormChunk.__init__ + init_container, IffContainerChunkMixin.subchunks / __getitem__"),
    "WAVE": dict(impl=wave_impl, canon=wave_canon, expect=wave_expect, sweep=wave_sweep, coq=("Parse_wave", "wave_load", "wave_id"), cmd="c04_load_wave",
                 own=lambda n: n.endswith(".wav"), seeds=WAVE_SEEDS, max_len=1024,
                 mirrors="wave.WAVE.load without the ID3 parse: WaveStreamInfo.__init__, _WaveID3._pre_load_header, _WaveFile.__init__ (ID3 -> id3 renaming), RiffFile / "
                         "IffFile.__init__, RiffChunk.parse (IffChunk.parse / __init__ / read), RiffListChunk.__init__ + init_container, subchunks (cache) / __getitem__"),
    "DSDIFF": dict(impl=dsdiff_impl, canon=dsdiff_canon, expect=dsdiff_expect, sweep=dsdiff_sweep, coq=("Parse_dsdiff", "dsdiff_load", "dsdiff_id"), cmd="c04_load_dsdiff",
                   own=lambda n: n.endswith(".dff"), seeds=DSDIFF_SEEDS, max_len=1024,
                   mirrors="dsdiff.DSDIFF.load without the ID3 parse: IffID3._pre_load_header, DSDIFFInfo.__init__ (PROP/SND loop over FS, CHNL, CMPR; DSD and DST/FRTE "
                           "branches), DSDIFFFile, DSDIFFChunk.parse (12-byte header, 64-bit sizes), DSDIFFListChunk / DSTChunk.__init__ + init_container, subchunks / __getitem__, IffChunk.read"),
    "AAC": dict(impl=aac_impl, canon=aac_canon, expect=aac_expect, sweep=aac_sweep, coq=("Parse_aac", "aac_load", "aac_id"), cmd="c04_load_aac",
                own=lambda n: n.endswith(".aac"), seeds=AAC_SEEDS, max_len=2048,
                mirrors="aac.AACInfo.__init__ (what AAC.load runs): ID3v2 skip, ADIF dispatch, _parse_adif + ProgramConfigElement (BitReaderError mapping), _parse_adts "
                        "(sync tries / frame loops), _ADTSStream.find_stream / sync / parse_frame / _parse_frame and its properties, over _util.BitReader"),
    "FLAC": dict(impl=flac_impl, canon=flac_canon, expect=flac_expect, sweep=flac_sweep, coq=("Parse_flac", "flac_load", "flac_id"), cmd="c04_load_flac",
                 own=lambda n: n.endswith(".flac"), seeds=FLAC_SEEDS, max_len=4096,
                 mirrors="flac.FLAC.load: StrictFileObject.read, __check_header (ID3 skip), __read_metadata_block (dispatch, _distrust_size, one CueSheet / SeekTable), "
                         "StreamInfo.load, CueSheet.load, Picture.load, VCFLACDict (VComment.load framing=False, strict reads), the block loop, info / bitrate"),
    "ASF": dict(impl=asf_impl, canon=asf_canon, expect=asf_expect, sweep=asf_sweep, coq=("Parse_asf", "asf_load", "asf_id"), cmd="c04_load_asf",
                own=lambda n: n.endswith(".wma"), seeds=ASF_SEEDS, max_len=5400,
                mirrors="asf.ASF.load: HeaderObject.parse_size / parse_full (object loop, GUID dispatch, exception mapping), ContentDescription, ExtendedContentDescription, "
                        "FileProperties, StreamProperties, CodecList, HeaderExtension (sub-object loop, recursion), Metadata, MetadataLibrary .parse, _attrs.*Attribute.parse"),
    "OggFLAC": dict(impl=oggflac_impl, canon=oggflac_canon, expect=oggflac_expect, sweep=oggflac_sweep, coq=("Parse_oggflac", "oggflac_load", "oggflac_id"), cmd="c04_load_oggflac",
                    own=lambda n: n.endswith(".oggflac") or n == "synth1", seeds=OGGFLAC_SEEDS, max_len=3000,
                    mirrors="oggflac.OggFLACStreamInfo.__init__ + OggFLACVComment.__init__ under OggFileType.load's mapping (ogg.OggPage.__init__, OggPage.to_packets, "
                            "flac.StreamInfo.load, VComment.load framing=False); OggFLACStreamInfo._post_tags / OggPage.find_last are NOT mirrored"),
    "DSF": dict(impl=dsf_impl, canon=dsf_canon, expect=dsf_expect, sweep=dsf_sweep, coq=("Parse_dsf", "dsf_load", "dsf_id"), cmd="c04_load_dsf",
                own=lambda n: n.endswith(".dsf"), seeds=DSF_SEEDS, max_len=512,
                mirrors="dsf.DSF.load up to the ID3 header: DSFFile (DSDChunk, FormatChunk, DataChunk .load), _DSFID3._pre_load_header (seek to the "
                        "metadata pointer, OverflowError/ValueError mapping), DSFInfo(fmt_chunk)"),
}
