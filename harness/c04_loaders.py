"""C04 correspondence: the loaders that have an exception-faithful Coq mirror (coq/model/Parse_*.v).
For every loader: `impl` (the mutagen code the mirror follows, called on a BytesIO), `canon` (decoded
stream info of an accepted input as a tuple), `expect` (the same tuple rebuilt from the integer list the
model returns -- floats are recomputed here with the implementation's own formula from the model's exact
integers and compared as float.hex()), `own` (which samples of tests/data seed the malformed stream) and
`sweep` (targeted field sweeps of valid headers)."""
import io, os, struct


def fh(x):
    return None if x is None else float(x).hex()


def intround(x):
    return int(round(x))


SWEEP_VALUES = [0, 1, 2, 0x7F, 0x80, 0xFF, 0x100, 0x7FFF, 0x8000, 0xFFFF, 0xFFFFFF, 0x7FFFFFFF, 0x80000000, 0xFFFFFFFF]


def field_sweep(sample, offsets, widths=(1, 2, 4)):
    """every (offset, width, byte order) field set to 0, 1, 2^k-1, 2^31, 2^32-1 (those that fit)"""
    for o in offsets:
        if o >= len(sample):
            break
        for w in widths:
            for v in SWEEP_VALUES:
                if v >= 1 << (8 * w):
                    continue
                for order in (("big",) if w == 1 else ("big", "little")):
                    d = bytearray(sample)
                    d[o:o + w] = v.to_bytes(w, order)
                    yield bytes(d)


def truncations(sample, upto=200):
    for k in range(min(len(sample), upto) + 1):
        yield sample[:k]


def sv8_varint(n, pad=0):
    out = [n & 0x7F]
    n >>= 7
    while n:
        out.append(0x80 | (n & 0x7F))
        n >>= 7
    out += [0x80] * pad
    return bytes(reversed(out))


# ------------------------------------------------------------------------------------------- Musepack
def mpc_impl(f):
    from mutagen.musepack import MusepackInfo
    return MusepackInfo(f)


def mpc_canon(i, data):
    g = lambda n: getattr(i, n, None)
    return (i.version, int(i.channels), i.sample_rate, fh(i.length), i.bitrate,
            fh(g("title_gain")), fh(g("title_peak")), fh(g("album_gain")), fh(g("album_peak")))


def mpc_expect(l, data):
    kind, version, ch, rate, samples, tg, tp, ag, ap, num, den, br, size = l
    length = float(num) / den
    bitrate = br if size == -1 else intround(size * 8 / length)
    if kind == 8:
        gain = lambda v: (64.82 - v / 256.0) if v else None
        peak = lambda v: (10 ** (v / (256.0 * 20.0)) / 65535.0) if v else None
        gs = (gain(tg), peak(tp), gain(ag), peak(ap))
    elif kind == 7:
        gs = (tg / 100.0, tp / 65535.0, ag / 100.0, ap / 65535.0)
    else:
        gs = (None, None, None, None)
    return (version, ch, rate, fh(length), bitrate) + tuple(fh(x) for x in gs)


def mpc_sweep(samples):
    sv8 = samples["sv8_header.mpc"]
    for name in ("sv8_header.mpc", "click.mpc", "sv4_header.mpc", "sv5_header.mpc"):
        s = samples[name]
        yield from field_sweep(s, range(0, 40))
        yield from truncations(s)
    # an ID3v2 tag in front (the size is a 4-byte synchsafe integer)
    for size in (0, 1, 10, 127, 128, 0x3FFF, 0x0FFFFFFF):
        bp = bytes(((size >> s) & 0x7F) for s in (21, 14, 7, 0))
        for body in (b"\0" * min(size, 300) + sv8, sv8):
            yield b"ID3\x04\x00\x00" + bp + body
            yield b"ID3\x04\x00\x00" + bytes(b | 0x80 for b in bp) + body
    for k in range(0, 14):
        yield (b"ID3\x04\x00\x00\x00\x00\x00\x04" + b"abcd" + sv8)[:k]
    # packet size var-ints: SH at offset 6, and an unknown packet / RG / SH with every size class
    tail = sv8[4:]
    for key in (b"SH", b"RG", b"XX", b"AP", b"SE", b"AA", b"ZZ", b"A@", b"Z[", b"@A"):
        for n in (0, 1, 2, 3, 4, 5, 11, 12, 13, 127, 128, 0x3FFF, 0x4000, 2 ** 31, 2 ** 32 - 1, 2 ** 56 - 1, 2 ** 62, 2 ** 63 - 1, 2 ** 63, 2 ** 64 - 1):
            for pad in (0, 1, 8):
                v = sv8_varint(n, pad)
                yield b"MPCK" + key + v + tail
                yield b"MPCK" + key + v + b"\x00" * 12 + tail
                yield sv8[:6 + 0] + sv8[6:] + key + v + b"\0" * 3
    # SH internals: sample count var-ints and the rate index / channel byte
    for n in (0, 1, 127, 128, 2 ** 32 - 1, 2 ** 63 - 1):
        for m in (0, 5, 2 ** 63 - 1):
            for rb in (0x00, 0x20, 0x60, 0x80, 0xE0):
                body = b"\0\0\0\0\x08" + sv8_varint(n) + sv8_varint(m) + bytes([rb, 0x10])
                for extra in (-2, -1, 0, 1, 3):
                    pk = b"SH" + sv8_varint(len(body) + 3 + extra) + body
                    yield b"MPCK" + pk + b"RG" + sv8_varint(12) + b"\x01\x12\x34\x00\x00\xff\xff\x00\x01" + b"AP\x03"


# ------------------------------------------------------------------------------------------- registry
LOADERS = {
    "Musepack": dict(impl=mpc_impl, canon=mpc_canon, expect=mpc_expect, sweep=mpc_sweep,
                     own=lambda n: n.endswith(".mpc") or n in ("synth0",), coq=("Parse_musepack", "musepack_load", "mpc_info_list"),
                     mirrors="musepack.MusepackInfo.__init__ (ID3v2 skip, __parse_sv8, _parse_sv8_int, __parse_stream_header, "
                             "__parse_replaygain_packet, __parse_sv467)"),
}
