#!/usr/bin/env python3
"""./check <Cxx> quick|thorough       ./check <Cxx> --replay <file>
Decision procedure (DESIGN.md section 4.1): proofs + correspondence + direct oracle; a broken proof or
correspondence escalates the search for a concrete failing input."""
import os, sys, json, importlib, traceback, time
sys.path.insert(0, os.path.dirname(os.path.abspath(__file__)))
import common
from common import Ctx

BASE_TRUSTED = [
    "Coq 8.16.1 kernel / coqc; vm_compute (finite-domain proofs, examples, cross-check shard); no native_compute",
    "axioms: none declared by the development; Print Assumptions output of every property theorem is recorded in coverage.print_assumptions",
    "py2v translator (py2v/*.py): meaning of the supported Python subset",
    "extraction with ExtrOcamlBasic only (bool option unit list prod sumbool -> OCaml natives; Z/positive/nat inductive), OCaml 4.13.1, hand-written driver ocaml/*.ml",
    "correspondence harness and direct oracles (harness/*.py)",
]


def main(argv):
    os.makedirs(os.path.join(common.VERIF, ".run"), exist_ok=True)
    if len(argv) < 3:
        print(__doc__)
        return 2
    prop = argv[1]
    mod = importlib.import_module("props." + prop.lower())
    seed = int(os.environ.get("VERIF_SEED", "20260930"))
    if argv[2] == "--replay":
        tier = "quick"
        ctx = Ctx(prop, tier, seed)
        payload = json.load(open(argv[3]))
        with common.Lock():
            ok, out = common.build_model()
        try:
            still = mod.replay(ctx, payload)
        finally:
            if ctx._model is not None:
                ctx._model.close()
            common.cleanup_run()
        if still:
            print("VIOLATION property=%s replay=%s" % (prop, argv[3]))
            return 1
        print("replay passes on the current tree")
        return 0
    tier = argv[2]
    if os.environ.get("VERIF_TIER"):
        tier = os.environ["VERIF_TIER"]
    ctx = Ctx(prop, tier, seed)
    build = None
    broken = []
    try:
        with common.Lock():
            build = common.coq_build(mod.PROP_FILES, clean=ctx.thorough)
            ok, out = common.build_model()
        if not build["ok"]:
            for e in build["errors"]:
                broken.append({"obligation": e.get("file"), "line": e.get("line"), "error": e.get("error")})
        if not ok:
            broken.append({"obligation": "extraction/ocaml build", "error": out})
        if ctx.thorough and build["ok"] and not os.environ.get("VERIF_NO_COQCHK"):
            vos = " ".join("Props." + p.split("/")[-1][:-2] for p in mod.PROP_FILES)
            rc, chk = common.sh("timeout 1500 coqchk -silent -o -Q base Base -Q gen Gen -Q model Model -Q proofs Proofs -Q props Props %s" % vos,
                                cwd=common.COQ, timeout=1600)
            ctx.notes["coqchk"] = {"rc": rc, "tail": chk[-1500:]}
            if rc != 0:
                broken.append({"obligation": "coqchk", "error": chk[-800:]})
        if ok:
            try:
                mod.run(ctx)
            except Exception:
                broken.append({"obligation": "harness", "error": traceback.format_exc()[-1500:]})
        for d in ctx.disagreements:
            broken.append({"obligation": "correspondence:" + d["runner"], "error": d["what"], "case": d["data"]})
        if broken and not ctx.violations:
            # escalate: search the implementation for a concrete failing input (also when the model
            # could not be built: the direct oracles do not need it)
            if not ok:
                ctx.use_model = False
            try:
                mod.search(ctx, broken)
            except Exception:
                ctx.notes["search_error"] = traceback.format_exc()[-1500:]
                broken.append({"obligation": "harness: the escalated search crashed", "error": traceback.format_exc()[-600:]})
    finally:
        if ctx._model is not None:
            ctx._model.close()
        common.cleanup_run()
    known = [k for k in common.load_known() if k.get("property") == prop]
    lines, nviol = [], 0
    reported_known = set()
    unmatched = []
    for v in ctx.violations:
        hit = None
        for k in known:
            if k.get("kind") == "known" and common.matches(k, v):
                hit = k
                break
        if hit:
            reported_known.add(hit["id"])
        else:
            unmatched.append(v)
    for k in known:
        if k.get("kind") == "known" and k["id"] in reported_known:
            lines.append("KNOWN-FINDING: property=%s %s" % (prop, k["what"]))
    n = 0
    # de-duplicate violations by 'what'
    seen = set()
    for v in unmatched:
        key = v["what"]
        if key in seen:
            continue
        seen.add(key)
        if n >= 12:
            # more distinct violations than anyone will read: they are counted in the evidence
            continue
        n += 1
        path = common.write_replay(prop, ctx.seed, n, {"property": prop, "kind": "failing-input", "seed": ctx.seed,
                                                       "tier": tier, "what": v["what"], "vkind": v["kind"], "data": v["data"]})
        lines.append("VIOLATION property=%s replay=%s" % (prop, path))
        nviol += 1
    # a broken obligation that is explained by a known finding's own obligation is not re-reported
    if broken and not unmatched:
        unexplained = []
        for b in broken:
            explained = False
            for k in known:
                if k.get("kind") == "known" and k["id"] in reported_known and k.get("explains_obligation") and \
                        k["explains_obligation"] in str(b.get("obligation")):
                    explained = True
            if not explained:
                unexplained.append(b)
        if unexplained:
            n += 1
            path = common.write_replay(prop, ctx.seed, n, {"property": prop, "kind": "broken-obligation", "seed": ctx.seed,
                                                           "tier": tier, "broken": unexplained,
                                                           "search": ctx.notes.get("search", "escalated search found no failing input")})
            lines.append("VIOLATION property=%s replay=%s no-failing-input-found" % (prop, path))
            nviol += 1
    extra = dict(getattr(mod, "coverage_extra", lambda c: {})(ctx))
    extra["rule"] = mod.RULE
    extra["notes"] = ctx.notes
    extra["known_findings_reported"] = sorted(reported_known)
    extra["broken_obligations"] = broken[:20]
    extra["broken_obligations_total"] = len(broken)
    extra["distinct_violations_found"] = len(seen)
    common.write_evidence(ctx, build, extra, BASE_TRUSTED + list(mod.TRUSTED), nviol)
    for l in lines:
        print(l)
    print("%s %s: obligations=%s discharged=%s evaluations=%d distinct_nontrivial=%d violations=%d wall=%.0fs" % (
        prop, tier, len(build["theorems"]) if build else 0,
        sum(f["theorems"] for f in build["files"] if f["compiled"]) if build else 0,
        ctx.evaluations, len(ctx.nontrivial), nviol, ctx.elapsed()))
    return 1 if nviol else 0


if __name__ == "__main__":
    sys.exit(main(sys.argv))
