#!/usr/bin/env python3
"""Regenerate MANIFEST.json from harness/manifest_data.py (keeps the file valid by construction)."""
import json, os, sys
sys.path.insert(0, os.path.dirname(os.path.abspath(__file__)))
from manifest_data import CHECKS, NOT_APPLICABLE, NOTES
V = os.path.dirname(os.path.dirname(os.path.abspath(__file__)))
m = {
    "version": 1,
    "setup_cmd": "./setup.sh",
    "hooks": {
        "guard": "MUTAGEN_VERIF",
        "enable": "no source hooks: all observation is through the public API, tracing/fault-injecting file objects and patched function defaults built in /verif/harness",
        "baseline_off_cmd": "cd /repo && /venv/bin/python -m pytest -ra -q -p no:cacheprovider --timeout=900 --continue-on-collection-errors",
        "source_commits": [],
        "add_only": True,
    },
    "engines": [{"name": "coq-proof+correspondence", "path": "/verif/check", "serves_properties": [c["property_id"] for c in CHECKS],
                 "kind_free_text": "Coq 8.16.1 theorems over generated (py2v) and hand-written Gallina models; extracted OCaml model driven against the implementation"}],
    "checks": [],
    "notes": NOTES,
    "not_applicable": NOT_APPLICABLE,
}
for c in CHECKS:
    pid = c["property_id"]
    m["checks"].append({
        "property_id": pid,
        "quick_cmd": "./check %s quick" % pid,
        "thorough_cmd": "./check %s thorough" % pid,
        "evidence_file": "/verif/evidence/%s.json" % pid,
        "replay_cmd_template": "./check %s --replay {path}" % pid,
        "engine": "coq-proof+correspondence",
        "level_claimed": {"category": "proof", "text": c["text"], "design_ref": c.get("design_ref", "DESIGN.md section 5")},
        "level_note": c["note"],
        "technique": c["technique"],
    })
json.dump(m, open(os.path.join(V, "MANIFEST.json"), "w"), indent=1)
print("MANIFEST.json written: %d checks, %d not_applicable" % (len(m["checks"]), len(NOT_APPLICABLE)))
