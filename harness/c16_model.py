"""C16 helper: encoding of operation sequences for the extracted Coq model (drv_c16.ml), expected reply
tokens from canonical outcomes, and the vm_compute cross-check shard."""
import re
from c16_values import FRAME_SPECS, frame_hashkey, cd

MODEL_KINDS = {"vc": "vc", "fvc": "fvc", "fvc_flac": "fvc", "fvc_ogg": "fvc", "ape": "ape", "fape": "fape",
               "id3": "id3", "fid3": "fid3"}


def tstr(s):
    return "u" + ".".join("%x" % ord(c) for c in s)


def tbytes(h):
    return "u" + ".".join("%x" % b for b in bytes.fromhex(h))


def _frame_index():
    return dict((cd(["frame", i])[1], i) for i in range(len(FRAME_SPECS)))


_FI = {}


def val_tok(fam, d):
    """descriptor (or canonical returned value) -> model value token; None if the model has no such value"""
    t = d[0]
    if fam == "vc":
        if t == "s":
            return "o" + tstr(d[1])
        if t == "l" and all(x[0] == "s" for x in d[1]):
            return "m" + ",".join(tstr(x[1]) for x in d[1])
        return None
    if fam == "ape":
        if t == "s":
            return "s" + tstr(d[1])
        if t == "l":
            return "l" + ",".join(tstr(x[1]) if x[0] == "s" else "n" for x in d[1])
        if t == "b":
            return "b" + tbytes(d[1])
        if t == "ape":
            return "v%x/" % d[1] + (tbytes(d[2]) if d[1] == 1 else tstr(d[2]))
        return "x"
    if fam == "id3":
        if t == "frame":
            if isinstance(d[1], int):
                return "f%s/%x" % (tstr(frame_hashkey(d)), d[1])
            if not _FI:
                _FI.update(_frame_index())
            i = _FI[d[1]]
            return "f%s/%x" % (tstr(FRAME_SPECS[i][2]), i)
        return "n0"
    raise ValueError(fam)


def fam_of(mkind):
    return {"vc": "vc", "fvc": "vc", "ape": "ape", "fape": "ape", "id3": "id3", "fid3": "id3"}[mkind]


def op_tok(fam, op):
    """operation -> model token, or None when the model cannot express it"""
    n = op[0]
    if n in ("keys", "values", "items", "len", "clear", "popitem"):
        return {"keys": "K", "values": "V", "items": "I", "len": "L", "clear": "C", "popitem": "i"}[n]
    if n in ("get", "del", "in", "pop"):
        return {"get": "g", "del": "d", "in": "c", "pop": "p"}[n] + ":" + tstr(op[1])
    if n in ("set", "getd", "setdefault", "popd"):
        v = val_tok(fam, op[2])
        if v is None:
            return None
        return {"set": "s", "getd": "G", "setdefault": "D", "popd": "P"}[n] + ":" + tstr(op[1]) + ":" + v
    if n == "update":
        parts = []
        for k, d in op[2]:
            v = val_tok(fam, d)
            if v is None:
                return None
            parts.append(tstr(k) + "=" + v)
        return "U:" + ";".join(parts)
    if n == "add" and fam == "id3":
        d = op[2]
        if d[0] == "frame":
            return "s:" + tstr(frame_hashkey(d)) + ":" + val_tok(fam, d)
        return "s:u:n0"
    return None


def expect_tok(fam, op, outcome):
    """the reply token the model must give if it agrees with the canonical outcome of the implementation"""
    if outcome[0] == "exc":
        return "E" + outcome[1]
    n, c = op[0], outcome[1]
    if n in ("set", "del", "clear", "update", "add"):
        return "N"
    if n == "in":
        return "B1" if c[1] else "B0"
    if n in ("get", "getd", "setdefault", "pop", "popd"):
        v = val_tok(fam, c)
        return None if v is None else "V" + v
    if n == "keys":
        return "K" + ";".join(sorted(tstr(k) for k in c[1]))
    if n == "values":
        return "W" + ";".join(sorted(val_tok(fam, v) for v in c[1]))
    if n == "items":
        return "I" + ";".join(sorted(tstr(k) + "=" + val_tok(fam, v) for k, v in c[1]))
    if n == "len":
        return "L%x" % c[1]
    if n == "popitem":
        return "T" + tstr(c[1][0][1]) + "=" + val_tok(fam, c[1][1])
    raise ValueError(n)


def norm_tok(t):
    if t[:1] in ("K", "W", "I") and len(t) > 1:
        return t[0] + ";".join(sorted(t[1:].split(";")))
    return t


def init_tok(mkind, pairs):
    """pairs: None (no tags), or list of (key, str) for vc"""
    if pairs is None:
        return "N"
    if not pairs:
        return "-"
    return ";".join(tstr(k) + "=" + tstr(v) for k, v in pairs)


# ---- vm_compute shard: the same sequences evaluated by the Coq kernel, flattened to integer lists ----
VM_PREAMBLE = r"""
From Coq Require Import ZArith List Bool. Import ListNotations.
Require Import Base.Py Model.Dict. Open Scope Z_scope.
Definition e_str (s : list Z) : list Z := zlen s :: s.
Definition e_list {A} (f : A -> list Z) (l : list A) : list Z := zlen l :: concat (map f l).
Definition e_vval (v : vval) : list Z :=
  match v with VOne x => 1 :: e_str x | VMany l => 2 :: e_list e_str l end.
Definition e_aval (v : aval) : list Z :=
  match v with
  | AStr s => 1 :: e_str s
  | AList l => 2 :: e_list (fun o => match o with None => [0] | Some x => 1 :: e_str x end) l
  | ABytes b => 3 :: e_str b | AOther => [4] | AValue k p => 5 :: k :: e_str p end.
Definition e_ival (v : ival) : list Z :=
  match v with IFrame k p => 1 :: e_str k ++ [p] | INotFrame x => [2; x] end.
Definition e_exc (e : exc) : Z := match e with EValue => 1 | EKey => 2 | EType => 3 | _ => 9 end.
Definition e_out {V} (f : V -> list Z) (r : result (dout V)) : list Z :=
  match r with
  | Raise e => [0; e_exc e]
  | Ok ONone => [1]
  | Ok (OBool b) => [2; if b then 1 else 0]
  | Ok (OVal v) => 3 :: f v
  | Ok (OKeys l) => 4 :: e_list e_str l
  | Ok (OVals l) => 5 :: e_list f l
  | Ok (OItems l) => 6 :: e_list (fun p => e_str (fst p) ++ f (snd p)) l
  | Ok (OLen n) => [7; n]
  | Ok (OPair k v) => 8 :: e_str k ++ f v
  end.
Definition e_outs {V} (f : V -> list Z) (l : list (result (dout V))) : list Z := concat (map (e_out f) l).
"""


def _ints(tok):
    assert tok[0] == "u", tok
    return [int(x, 16) for x in tok[1:].split(".")] if len(tok) > 1 else []


def _estr(tok):
    l = _ints(tok)
    return [len(l)] + l


def _eval(fam, t):
    c, r = t[0], t[1:]
    if fam == "vc":
        if c == "o":
            return [1] + _estr(r)
        items = r.split(",") if r else []
        return [2, len(items)] + [x for i in items for x in _estr(i)]
    if fam == "ape":
        if c == "s":
            return [1] + _estr(r)
        if c == "l":
            items = r.split(",") if r else []
            out = [2, len(items)]
            for i in items:
                out += [0] if i == "n" else [1] + _estr(i)
            return out
        if c == "b":
            return [3] + _estr(r)
        if c == "x":
            return [4]
        k, p = r.split("/")
        return [5, int(k, 16)] + _estr(p)
    if c == "f":
        k, p = r.split("/")
        return [1] + _estr(k) + [int(p, 16)]
    return [2, int(r, 16)]


def reply_ints(fam, reply):
    """flatten a model reply the way e_outs does"""
    out = []
    for t in reply.split(" "):
        c, r = t[0], t[1:]
        if c == "E":
            out += [0, {"ValueError": 1, "KeyError": 2, "TypeError": 3}.get(r, 9)]
        elif c == "N":
            out += [1]
        elif c == "B":
            out += [2, int(r)]
        elif c == "V":
            out += [3] + _eval(fam, r)
        elif c == "K":
            items = r.split(";") if r else []
            out += [4, len(items)] + [x for i in items for x in _estr(i)]
        elif c == "W":
            items = r.split(";") if r else []
            out += [5, len(items)] + [x for i in items for x in _eval(fam, i)]
        elif c == "I":
            items = r.split(";") if r else []
            out += [6, len(items)]
            for i in items:
                k, v = i.split("=", 1)
                out += _estr(k) + _eval(fam, v)
        elif c == "L":
            out += [7, int(r, 16)]
        elif c == "T":
            k, v = r.split("=", 1)
            out += [8] + _estr(k) + _eval(fam, v)
        else:
            raise ValueError(t)
    return out


def cz(l):
    return "[" + ";".join(str(x) for x in l) + "]"


def _cstr(tok):
    return cz(_ints(tok))


def _cval(fam, t):
    c, r = t[0], t[1:]
    if fam == "vc":
        if c == "o":
            return "(VOne %s)" % _cstr(r)
        return "(VMany [%s])" % ";".join(_cstr(i) for i in (r.split(",") if r else []))
    if fam == "ape":
        if c == "s":
            return "(AStr %s)" % _cstr(r)
        if c == "l":
            return "(AList [%s])" % ";".join("None" if i == "n" else "Some %s" % _cstr(i) for i in (r.split(",") if r else []))
        if c == "b":
            return "(ABytes %s)" % _cstr(r)
        if c == "x":
            return "AOther"
        k, p = r.split("/")
        return "(AValue %d %s)" % (int(k, 16), _cstr(p))
    if c == "f":
        k, p = r.split("/")
        return "(IFrame %s %d)" % (_cstr(k), int(p, 16))
    return "(INotFrame %d)" % int(r, 16)


def coq_op(fam, tok):
    p = tok.split(":")
    c = p[0]
    simple = {"K": "OpKeys", "V": "OpValues", "I": "OpItems", "L": "OpLen", "C": "OpClear", "i": "OpPopItem"}
    if c in simple:
        return simple[c]
    if c in ("g", "d", "c", "p"):
        return "%s %s" % ({"g": "OpGet", "d": "OpDel", "c": "OpContains", "p": "OpPop"}[c], _cstr(p[1]))
    if c in ("s", "G", "D", "P"):
        return "%s %s %s" % ({"s": "OpSet", "G": "OpGetD", "D": "OpSetDefault", "P": "OpPopD"}[c], _cstr(p[1]), _cval(fam, p[2]))
    if c == "U":
        items = p[1].split(";") if p[1] else []
        return "OpUpdate [%s]" % ";".join("(%s, %s)" % (_cstr(i.split("=", 1)[0]), _cval(fam, i.split("=", 1)[1])) for i in items)
    raise ValueError(tok)


def coq_case(mkind, init, optoks):
    """Gallina term flattening the outputs of the run; init: '-' or 'N' only (vc pairs are passed explicitly)"""
    fam = fam_of(mkind)
    ops = "[" + "; ".join(coq_op(fam, t) for t in optoks) + "]"
    enc = {"vc": "e_vval", "ape": "e_aval", "id3": "e_ival"}[fam]
    if init == "N":
        st = "None"
    elif init == "-":
        st = {"vc": "[]", "fvc": "(Some [])", "ape": "ape_empty", "fape": "(Some ape_empty)", "id3": "[]", "fid3": "(Some [])"}[mkind]
    else:
        pairs = "[" + ";".join("(%s, %s)" % (_cstr(x.split("=")[0]), _cstr(x.split("=")[1])) for x in init.split(";")) + "]"
        st = pairs if mkind == "vc" else "(Some %s)" % pairs
    return "e_outs %s (fst (%s_run %s %s))" % (enc, mkind, st, ops)


def parse_zlist(s):
    s = s.replace("%Z", "").strip()
    m = re.match(r"^\[(.*)\]$", s, re.S)
    if not m:
        return None
    body = m.group(1).strip()
    return [int(x) for x in body.split(";")] if body else []
