"""Shared machinery of the /verif checks: build (regenerate + make), model client, vm_compute shard,
evidence, violation protocol, known findings.  Python stdlib only; run with /venv/bin/python and
PYTHONPATH=/repo so that `import mutagen` is /repo's current working tree."""
import os, sys, json, time, subprocess, random, re, fcntl, hashlib, signal, shutil

VERIF = os.path.dirname(os.path.dirname(os.path.abspath(__file__)))
REPO = os.environ.get("VERIF_REPO", "/repo")
COQ = os.path.join(VERIF, "coq")
BIN = os.path.join(VERIF, "bin", "mutagen_model")
PY = sys.executable

GREP_FORBIDDEN = re.compile(
    r"\b(Admitted|admit|Axiom|Parameter|Conjecture|Unset\s+Guard|bypass_check|Admit\s+Obligations)\b|type-in-type|impredicative-set")


def sh(cmd, timeout=1800, cwd=None, env=None):
    p = subprocess.run(cmd, shell=isinstance(cmd, str), cwd=cwd, env=env, timeout=timeout,
                       stdout=subprocess.PIPE, stderr=subprocess.STDOUT, text=True)
    return p.returncode, p.stdout


class Lock:
    def __enter__(self):
        self.f = open(os.path.join(COQ, ".lock"), "w")
        fcntl.flock(self.f, fcntl.LOCK_EX)
        return self

    def __exit__(self, *a):
        fcntl.flock(self.f, fcntl.LOCK_UN)
        self.f.close()


def regenerate():
    rc, out = sh([PY, os.path.join(VERIF, "py2v", "run.py")], env=dict(os.environ, PYTHONPATH=REPO, VERIF_REPO=REPO))
    try:
        return json.loads(out.strip().splitlines()[-1])
    except Exception:
        return {"py2v": {"ok": False, "error": out[-500:]}}


def cone_files(target_v):
    """.v files in the dependency cone of a props file (via coqdep)."""
    rc, out = sh("coqdep -Q base Base -Q gen Gen -Q model Model -Q proofs Proofs -Q props Props -sort %s $(find base gen model proofs -name '*.v')" % target_v, cwd=COQ)
    # -sort prints all given files in order; filter by actual dependency closure
    deps = {}
    rc, out2 = sh("coqdep -Q base Base -Q gen Gen -Q model Model -Q proofs Proofs -Q props Props $(find base gen model proofs props -name '*.v')", cwd=COQ)
    for line in out2.splitlines():
        if ":" not in line:
            continue
        lhs, rhs = line.split(":", 1)
        tg = [t for t in lhs.split() if t.endswith(".vo")]
        if not tg:
            continue
        deps[tg[0][:-1]] = [d[:-1] for d in rhs.split() if d.endswith(".vo") and not d.startswith("/")]
    seen, stack = [], [target_v]
    while stack:
        f = stack.pop()
        if f in seen:
            continue
        seen.append(f)
        stack += deps.get(f, [])
    return seen


def coq_build(prop_files, clean=False):
    """Regenerate, then make the given props/*.vo targets.  Returns a status dict."""
    t0 = time.time()
    if True:
        gen = regenerate()
        st = {"gen": gen, "ok": True, "errors": [], "assumptions": {}, "theorems": [], "files": []}
        for name, g in gen.items():
            if not g.get("ok"):
                st["ok"] = False
                st["errors"].append({"file": "gen/" + name, "error": "translator: " + g.get("error", "")})
        targets = [p[:-2] + ".vo" for p in prop_files]
        if clean:
            for p in prop_files:
                for f in cone_files(p):
                    for ext in (".vo", ".vok", ".vos", ".glob"):
                        try:
                            os.remove(os.path.join(COQ, f[:-2] + ext))
                        except OSError:
                            pass
        # always recompile the props files themselves so that Print Assumptions output is captured
        for p in prop_files:
            try:
                os.remove(os.path.join(COQ, p[:-2] + ".vo"))
            except OSError:
                pass
        cmd = "./mk.sh -k " + " ".join(targets)
        rc, out = sh(cmd, cwd=COQ, timeout=3000)
        st["checker_cmd"] = "cd /verif/coq && coq_makefile -f _CoqProject -o Makefile && make -j16 " + " ".join(targets)
        st["make_rc"] = rc
        if rc != 0:
            st["ok"] = False
            # first error block
            m = re.search(r'File "([^"]+)", line (\d+), characters [^\n]*\n(Error:.*?)(?:\n\n|\nmake)', out, re.S)
            if m:
                st["errors"].append({"file": m.group(1), "line": int(m.group(2)), "error": m.group(3)[:1500]})
            else:
                st["errors"].append({"file": "?", "error": out[-1500:]})
        # theorems and assumptions of each props file
        for p in prop_files:
            txt = open(os.path.join(COQ, p)).read()
            ths = re.findall(r"^(?:Theorem|Example)\s+(\w+)", txt, re.M)
            st["theorems"] += ["%s:%s" % (p, t) for t in ths]
            if GREP_FORBIDDEN.search(re.sub(r"\(\*.*?\*\)", "", txt, flags=re.S)):
                st["ok"] = False
                st["errors"].append({"file": p, "error": "forbidden keyword in props file"})
            compiled = os.path.exists(os.path.join(COQ, p[:-2] + ".vo"))
            st["files"].append({"file": p, "compiled": compiled, "theorems": len(ths)})
            if compiled:
                for f in cone_files(p):
                    body = re.sub(r"\(\*.*?\*\)", "", open(os.path.join(COQ, f)).read(), flags=re.S)
                    mm = GREP_FORBIDDEN.search(body)
                    if mm:
                        st["ok"] = False
                        st["errors"].append({"file": f, "error": "forbidden keyword %r in cone" % mm.group(0)})
        # Print Assumptions output: "Closed under the global context" or "Axioms:" blocks, in order
        closed = out.count("Closed under the global context")
        axioms = re.findall(r"Axioms:\n((?:.+\n)+?)(?=\S|\Z)", out)
        st["assumptions"] = {"closed_under_global_context": closed, "axiom_blocks": [a.strip()[:400] for a in axioms]}
        st["wall_s"] = round(time.time() - t0, 1)
        return st


def build_model():
    """build bin/mutagen_model and take a private copy for this run (call under Lock)"""
    global BIN
    shared = os.path.join(VERIF, "bin", "mutagen_model")
    rc, out = sh([os.path.join(VERIF, "ocaml", "build.sh")], timeout=3000)
    ok = rc == 0 and os.path.exists(shared)
    if ok:
        d = os.path.join(VERIF, ".run", "bin_%d" % os.getpid())
        os.makedirs(d, exist_ok=True)
        BIN = os.path.join(d, "mutagen_model")
        shutil.copy2(shared, BIN)
    return ok, out[-2000:]


def cleanup_run():
    shutil.rmtree(os.path.join(VERIF, ".run", "bin_%d" % os.getpid()), ignore_errors=True)


class Model:
    """Long-running extracted model process speaking the line protocol."""
    def __init__(self):
        self.p = subprocess.Popen("ulimit -s unlimited 2>/dev/null || ulimit -s 4000000 2>/dev/null; exec %s" % BIN, shell=True,
                                  stdin=subprocess.PIPE, stdout=subprocess.PIPE, text=True, bufsize=1)
        self.calls = 0

    TIMEOUT = float(os.environ.get("VERIF_MODEL_TIMEOUT", "300"))
    SLOWLOG = os.environ.get("VERIF_MODEL_SLOWLOG")

    def call(self, *parts):
        import select, time
        line = " ".join(parts)
        t0 = time.time()
        try:
            self.p.stdin.write(line + "\n")
            self.p.stdin.flush()
            # the extracted model is total, but a list-of-Z model can be very slow on multi-megabyte inputs:
            # never wait for ever
            ready, _, _ = select.select([self.p.stdout], [], [], self.TIMEOUT)
            if not ready:
                self.p.kill()
                self.__init__()
                self.calls += 1
                with open(os.path.join(VERIF, ".run", "model_timeouts.log"), "a") as f:
                    f.write("%s  (%d bytes)\n" % (line[:200], len(line)))
                return "error model-timeout"
            r = self.p.stdout.readline()
        except BrokenPipeError:
            r = ""
        if self.SLOWLOG and time.time() - t0 > 5:
            with open(self.SLOWLOG, "a") as f:
                f.write("%.1fs %s (%d bytes)\n" % (time.time() - t0, line[:120], len(line)))
        self.calls += 1
        if not r:
            # process died (stack overflow): restart and report
            self.close()
            self.__init__()
            return "error model-process-died"
        return r.rstrip("\n")

    def close(self):
        try:
            self.p.stdin.close()
            self.p.wait(timeout=5)
        except Exception:
            self.p.kill()


def zs(n):
    """int -> protocol hex"""
    return ("-%x" % -n) if n < 0 else ("%x" % n)


def zp(s):
    return int(s, 16)


def hx(b):
    return "x" + bytes(b).hex()


def unhx(s):
    assert s.startswith("x"), s
    return bytes.fromhex(s[1:])


def coq_bytes(b):
    return "[" + ";".join(str(x) for x in b) + "]%Z"


def vm_shard(name, preamble, cases, timeout=600):
    """Evaluate `cases` (list of Gallina terms of type string-less printable values) with vm_compute in
    one coqc run.  Each case is printed on its own as `Eval vm_compute in (<term>).`; returns the list of
    printed results (whitespace-normalised)."""
    d = os.path.join(VERIF, ".run", "vm_%s_%d" % (name, os.getpid()))
    os.makedirs(d, exist_ok=True)
    path = os.path.join(d, "cases.v")
    with open(path, "w") as f:
        f.write(preamble + "\n")
        for c in cases:
            f.write("Eval vm_compute in (%s).\n" % c)
    rc, out = sh("ulimit -s unlimited 2>/dev/null; timeout %d coqc -Q %s/base Base -Q %s/gen Gen -Q %s/model Model -Q %s/proofs Proofs %s" %
                 (timeout, COQ, COQ, COQ, COQ, path), timeout=timeout + 30)
    shutil.rmtree(d, ignore_errors=True)
    if rc != 0:
        return None, out[-1500:]
    res = re.findall(r"^\s*= (.*?)\n\s*: [^\n]*(?:\n(?!\s*=)[^\n]*)*?(?=\n\s*= |\Z)", out, re.S | re.M)
    res = [re.sub(r"\s+", " ", r).strip() for r in res]
    return res, out[-500:]


class Ctx:
    def __init__(self, prop, tier, seed):
        self.prop, self.tier, self.seed = prop, tier, seed
        self.rng = random.Random(seed)
        self.t0 = time.time()
        self.evaluations = 0
        self.nontrivial = set()
        self.samples = []
        self.hist = {}
        self.violations = []      # concrete failing inputs (dicts)
        self.disagreements = []   # model/impl correspondence failures (dicts)
        self.notes = {}
        self.corr_cases = 0
        self.oracle_cases = 0
        self.vm_cases = 0
        self.thorough = tier == "thorough"
        self._model = None
        self.use_model = True

    @property
    def model(self):
        if self._model is None:
            self._model = Model()
        return self._model

    def count(self, key, n=1):
        self.hist[key] = self.hist.get(key, 0) + n

    def case(self, nontrivial_key=None, sample=None):
        """record one evaluated case; nontrivial_key: hashable identifying a distinct non-trivial case"""
        self.evaluations += 1
        if nontrivial_key is not None:
            if not isinstance(nontrivial_key, (str, bytes)):
                nontrivial_key = repr(nontrivial_key)
            if isinstance(nontrivial_key, str):
                nontrivial_key = nontrivial_key.encode()
            self.nontrivial.add(hashlib.blake2b(nontrivial_key, digest_size=8).digest())
        if sample is not None and len(self.samples) < 12:
            self.samples.append(sample)

    def violation(self, kind, what, data):
        self.violations.append({"kind": kind, "what": what, "data": data})

    def disagree(self, runner, what, data):
        self.disagreements.append({"runner": runner, "what": what, "data": data})

    def elapsed(self):
        return time.time() - self.t0


def load_known():
    p = os.path.join(VERIF, "known_findings.json")
    if not os.path.exists(p):
        return []
    return json.load(open(p))


def matches(entry, v):
    """A known finding suppresses a violation only if every key of entry['match'] equals the
    corresponding key of the violation's data (structural pattern on the minimised replay)."""
    m = entry.get("match") or {}
    if not m:
        return False
    d = dict(v.get("data") or {})
    d["what"] = v.get("what")
    d["kind"] = v.get("kind")
    for k, want in m.items():
        have = d.get(k)
        if isinstance(want, dict) and "regex" in want:
            if have is None or not re.search(want["regex"], str(have)):
                return False
        elif have != want:
            return False
    return True


def write_replay(prop, seed, n, payload):
    os.makedirs(os.path.join(VERIF, "replays"), exist_ok=True)
    p = os.path.join(VERIF, "replays", "%s-%d-%d.json" % (prop, seed, n))
    with open(p, "w") as f:
        json.dump(payload, f, indent=1, default=str)
    return p


def write_evidence(ctx, build, extra_cov, assumptions, violations_n):
    obligations = len(build.get("theorems", [])) if build else 0
    discharged = sum(f["theorems"] for f in build.get("files", []) if f["compiled"]) if build else 0
    cov = {
        "obligations": obligations,
        "discharged": discharged,
        "checker_cmd": build.get("checker_cmd", "") if build else "",
        "trusted_base": assumptions,
        "theorems": build.get("theorems", []) if build else [],
        "print_assumptions": build.get("assumptions", {}) if build else {},
        "proof_build_ok": bool(build and build.get("ok")),
        "proof_build_errors": build.get("errors", []) if build else [],
        "generated_files": build.get("gen", {}) if build else {},
        "evaluations": ctx.evaluations,
        "distinct_nontrivial": len(ctx.nontrivial),
        "samples": ctx.samples or ["(none)"],
        "histogram": ctx.hist,
        "correspondence_cases": ctx.corr_cases,
        "direct_oracle_cases": ctx.oracle_cases,
        "vm_compute_crosscheck_cases": ctx.vm_cases,
        "traces_validated_against_impl": ctx.corr_cases,
        "disagreements": len(ctx.disagreements),
        "exhaustive": False,
    }
    cov.update(extra_cov or {})
    ev = {
        "property_id": ctx.prop, "tier": ctx.tier, "seed": ctx.seed, "level": "proof",
        "coverage": cov,
        "assumptions": assumptions,
        "wall_s": round(ctx.elapsed(), 1),
        "violations": violations_n,
    }
    # evidence/ describes runs against /repo itself; runs against another tree (VERIF_REPO, seeded changes) go elsewhere
    evdir = os.path.join(VERIF, "evidence") if os.path.realpath(REPO) == "/repo" else os.path.join(VERIF, ".run", "evidence_other")
    os.makedirs(evdir, exist_ok=True)
    p = os.path.join(evdir, "%s.json" % ctx.prop)
    tmp = p + ".tmp"
    with open(tmp, "w") as f:
        json.dump(ev, f, indent=1, default=str)
    os.replace(tmp, p)
    return p
