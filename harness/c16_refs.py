"""C16 helper: plain reference dictionary models (the direct oracle).  Every rule below was derived by
reading /repo/mutagen (see the comments), none of it calls mutagen's dictionary code."""
import json, re
from c16_values import cd, cv, truthy, pystr, frame_hashkey


class RefExc(Exception):
    def __init__(self, cls):
        Exception.__init__(self, cls)
        self.cls = cls


def J(x):
    return json.dumps(x, sort_keys=True)


NONE = ["n"]
# deviation classes of the unchanged code that the references reproduce (True) or not (False: documented behaviour)
ACTIVE = {}


class BaseRef(object):
    """derived mapping operations over four primitives p_get/p_set/p_del/p_keys"""
    offers = {"get", "set", "del", "in", "keys", "values", "items", "len", "clear", "getd", "setdefault",
              "pop", "popd", "popitem", "update"}

    def __init__(self):
        self.hits = []

    def p_len(self):
        return len(self.p_keys())

    def p_clear(self):
        for k in list(self.p_keys()):
            self.p_del(k)

    def p_contains(self, k):
        try:
            self.p_get(k)
        except RefExc as e:
            if e.cls == "KeyError":
                return False
            raise
        return True

    def apply(self, op):
        self.hits = []
        try:
            return ("ok", self._apply(op))
        except RefExc as e:
            return ("exc", e.cls)

    def _apply(self, op):
        name = op[0]
        k = op[1] if len(op) > 1 else None
        v = op[2] if len(op) > 2 else None
        if name == "get":
            return self.p_get(k)
        if name == "set":
            self.p_set(k, v)
            return NONE
        if name == "del":
            self.p_del(k)
            return NONE
        if name == "in":
            return ["B", self.p_contains(k)]
        if name == "keys":
            return ["keys", sorted(self.p_keys())]
        if name == "values":
            return ["vals", sorted((self.p_get(x) for x in self.p_keys()), key=J)]
        if name == "items":
            return ["items", sorted(([x, self.p_get(x)] for x in self.p_keys()), key=J)]
        if name == "len":
            return ["i", self.p_len()]
        if name == "clear":
            self.p_clear()
            return NONE
        if name == "getd":
            return self.p_get(k) if self.p_contains(k) else cd(v)
        if name == "setdefault":
            if self.p_contains(k):
                return self.p_get(k)
            self.p_set(k, v)
            return cd(v)
        if name == "pop":
            x = self.p_get(k)
            self.p_del(k)
            return x
        if name == "popd":
            if not self.p_contains(k):
                return cd(v)
            x = self.p_get(k)
            self.p_del(k)
            return x
        if name == "popitem":
            keys = self.p_keys()
            if not keys:
                raise RefExc("KeyError")
            if k not in keys:
                raise RefExc("popitem-key-not-in-reference")
            x = self.p_get(k)
            self.p_del(k)
            return ["t", [["s", k], x]]
        if name == "update":
            try:
                for kk, vv in v:
                    self.p_set(kk, vv)
            except RefExc as e:
                # DictMixin.update: "except AttributeError: for key, value in other" -- an AttributeError raised by
                # a setter is taken for "other has no items()" and the dict's KEYS are then unpacked as pairs
                # (a list of pairs has no items() to begin with: the setter's AttributeError then comes from the
                # pair loop itself and propagates)
                if e.cls != "AttributeError" or not ACTIVE.get("dictmixin-update-masks-attributeerror", True) or \
                        (len(op) > 3 and op[3] == "pairs"):
                    raise
                self.hits.append("dictmixin-update-masks-attributeerror")
                for kk, vv in v:
                    if len(kk) != 2:
                        raise RefExc("ValueError")
                    self.p_set(kk[0], ["s", kk[1]])
            return NONE
        raise ValueError(name)

    def state(self):
        return sorted(([x, self.p_get(x)] for x in self.p_keys()), key=J)


class PlainRef(BaseRef):
    """normalised key -> (display key, stored canonical value); operations stated directly on the dict"""
    len_values = False

    def __init__(self):
        BaseRef.__init__(self)
        self.m = {}

    # rules to override
    def kr(self, k, opname):
        return k

    def vr(self, k, d):
        return cd(d)

    def disp(self, k):
        return k

    def p_get(self, k):
        nk = self.kr(k, "get")
        if nk not in self.m:
            raise RefExc("KeyError")
        return self.m[nk][1]

    def p_set(self, k, d):
        nk = self.kr(k, "set")
        w = self.vr(k, d)
        if w is None:
            self.m.pop(nk, None)
        else:
            self.m[nk] = (self.disp(k), w)

    def p_del(self, k):
        nk = self.kr(k, "del")
        if nk not in self.m:
            raise RefExc("KeyError")
        del self.m[nk]

    def p_keys(self):
        return [dk for dk, w in self.m.values()]

    def p_contains(self, k):
        try:
            nk = self.kr(k, "get")
        except RefExc as e:
            if e.cls == "KeyError":
                return False
            raise
        return nk in self.m

    def p_clear(self):
        self.m.clear()

    def p_len(self):
        if self.len_values:
            return sum(len(w[1]) for dk, w in self.m.values())
        return len(self.m)

    def state(self):
        return sorted(([dk, w] for dk, w in self.m.values()), key=J)


LIST_OFFERS = BaseRef.offers - {"pop", "popd", "popitem"}


# ---- Vorbis comment (_vorbis.py: is_valid_key, VCommentDict) ----
def vc_valid(k):
    return k != "" and all(" " <= c <= "}" and c != "=" for c in k)


class VCRef(PlainRef):
    """keys case-insensitive (lower-cased), invalid key -> ValueError, a value is a list of values
    (a non-list is wrapped), setting [] removes the key; len() is the number of values (documented)"""
    len_values = True
    offers = LIST_OFFERS

    def kr(self, k, opname):
        if not vc_valid(k):
            raise RefExc("ValueError")
        return k.lower()

    def disp(self, k):
        return k.lower()

    def vr(self, k, d):
        if d[0] == "l":
            return ["l", [cd(x) for x in d[1]]] if d[1] else None
        return ["l", [cd(d)]]

    def load_pairs(self, pairs):
        for k, v in pairs:
            nk = k.lower()
            if nk in self.m:
                self.m[nk][1][1].append(cv(v))
            else:
                self.m[nk] = (nk, ["l", [cv(v)]])


class VCFileRef(VCRef):
    """the same through FileType (DictMixin over the file object): all operations, len = number of keys"""
    len_values = False
    offers = BaseRef.offers


# ---- APEv2 (apev2.py: is_valid_apev2_key, APEv2.__setitem__) ----
def ape_valid(k):
    return 2 <= len(k) <= 255 and min(k) >= " " and max(k) <= "~" and k not in ("OggS", "TAG", "ID3", "MP+")


class APERef(PlainRef):
    """keys case-insensitive, keys() shows the spelling of the last set; invalid key -> KeyError;
    str -> text, list of str -> text joined by NUL (a non-str item -> TypeError), bytes -> binary,
    an APEValue is stored as is, anything else -> TypeError"""

    def kr(self, k, opname):
        if not ape_valid(k):
            raise RefExc("KeyError")
        return k.lower()

    def vr(self, k, d):
        t = d[0]
        if t == "ape":
            return cd(d)
        if t == "s":
            return ["ape", 0, d[1]]
        if t == "l":
            for x in d[1]:
                if x[0] != "s":
                    raise RefExc("TypeError")
            return ["ape", 0, "\0".join(x[1] for x in d[1])]
        if t == "b":
            return ["ape", 1, d[1]]
        raise RefExc("TypeError")


# ---- ID3Tags (id3/_tags.py): exact keys, only Frame values ----
class ID3Ref(PlainRef):
    offers = BaseRef.offers | {"add", "delall", "getall", "setall"}

    def vr(self, k, d):
        if d[0] != "frame":
            raise RefExc("TypeError")
        return cd(d)

    def _apply(self, op):
        name = op[0]
        if name == "add":
            d = op[2]
            if d[0] != "frame":
                raise RefExc("TypeError")
            self.m[frame_hashkey(d)] = (frame_hashkey(d), cd(d))
            return NONE
        if name == "delall":
            self._delall(op[1])
            return NONE
        if name == "getall":
            k = op[1]
            if k in self.m:
                return ["vals", [self.m[k][1]]]
            return ["vals", sorted((w for dk, w in self.m.values() if dk.startswith(k + ":")), key=J)]
        if name == "setall":
            self._delall(op[1])
            for d in op[2]:
                if d[0] != "frame":
                    raise RefExc("AttributeError")      # tag.HashKey of a non-frame
                self.m[frame_hashkey(d)] = (frame_hashkey(d), cd(d))
            return NONE
        return PlainRef._apply(self, op)

    def _delall(self, k):
        if k in self.m:
            del self.m[k]
        else:
            for x in [x for x in self.m if x.startswith(k + ":")]:
                del self.m[x]


# ---- MP4Tags (mp4/__init__.py: __setitem__ renders the value; per-atom render functions) ----
INT64 = (-(1 << 63), (1 << 63) - 1)
MP4_TEXT = {"\xa9nam", "\xa9alb", "\xa9ART", "aART", "\xa9wrt", "\xa9day", "\xa9cmt", "desc", "purd", "\xa9grp",
            "\xa9gen", "\xa9lyr", "catg", "keyw", "\xa9too", "cprt", "soal", "soaa", "soar", "sonm", "soco",
            "sosn", "tvsh", "purl", "egid"}
MP4_INT = {"plID", "cnID", "geID", "atID", "sfID", "cmID", "akID", "tvsn", "tves", "tmpo", "\xa9mvi", "\xa9mvc",
           "shwm", "stik", "hdvd", "rtng"}
MP4_BOOL = {"cpil", "pgap", "pcst"}


def _iter_items(d):
    t = d[0]
    if t in ("l", "t"):
        return list(d[1])
    if t == "s":
        return [["s", c] for c in d[1]]
    if t in ("b", "ff", "cover"):
        return [["i", x] for x in bytes.fromhex(d[1])]
    return None


def _is_bytes(d):
    return d[0] in ("b", "ff", "cover")


def _intlike(d):
    return d[0] in ("i", "B")


def _ival(d):
    return int(d[1])


def mp4_check(key, d):
    """None if MP4Tags accepts key/value, else the exception class (read off the render functions)"""
    try:
        key.encode("latin-1")
    except UnicodeEncodeError:
        return "ValueError"                      # _key2name: UnicodeEncodeError is a ValueError
    atom = key[:4]
    if atom == "gnre":
        return "TypeError"                       # render function is None
    if atom in MP4_BOOL:
        return None
    if atom == "----":
        if len(key.split(":", 2)) != 3:
            return "ValueError"
        items = [d] if _is_bytes(d) else _iter_items(d)
        if items is None:
            return "TypeError"
        for x in items:
            if not _is_bytes(x):
                return "TypeError"
        return None
    if atom in ("trkn", "disk"):
        items = _iter_items(d)
        if items is None:
            return "TypeError"
        for x in items:
            pair = _iter_items(x)
            if pair is None:
                return "ValueError" if atom == "trkn" else "TypeError"
            if len(pair) != 2:
                return "ValueError"
            if not (_intlike(pair[0]) and _intlike(pair[1])):
                return "TypeError"
            if not (0 <= _ival(pair[0]) < 65536 and 0 <= _ival(pair[1]) < 65536):
                return "ValueError"
        return None
    if atom in MP4_INT:
        items = _iter_items(d)
        if items is None:
            return "ValueError"
        for x in items:
            if not _intlike(x) or not INT64[0] <= _ival(x) <= INT64[1]:
                return "ValueError"
        return None
    if atom == "covr":
        items = _iter_items(d)
        if items is None:
            return "TypeError"
        for x in items:
            if not _is_bytes(x):
                return "TypeError"
        return None
    # text atoms and unknown atoms
    if d[0] == "s":
        return None
    items = _iter_items(d)
    if items is None:
        return "TypeError"
    for x in items:
        if x[0] != "s":
            return "TypeError"
    return None


class MP4Ref(PlainRef):
    """exact keys; the value is stored as given if the atom's renderer accepts it"""

    def p_set(self, k, d):
        e = mp4_check(k, d)
        if e:
            raise RefExc(e)
        self.m[k] = (k, cd(d))


# ---- ASFTags (asf/__init__.py: __setitem__ coerces values; asf/_attrs.py) ----
class ASFRef(PlainRef):
    """exact keys; list of attribute values; str -> Unicode(0), bytes -> ByteArray(1), bool -> Bool(2),
    int -> DWord(3) in 0..2**32-1 else ValueError, ASF attribute as is, anything else TypeError"""
    len_values = True
    offers = LIST_OFFERS

    def vr(self, k, d):
        items = d[1] if d[0] == "l" else [d]
        out = []
        for x in items:
            t = x[0]
            if t == "asf":
                out.append(cd(x))
            elif t == "s":
                out.append(["asf", 0, x])
            elif t == "b":
                out.append(["asf", 1, x])
            elif t == "B":
                out.append(["asf", 2, x])
            elif t == "i":
                if not 0 <= x[1] <= 2 ** 32 - 1:
                    raise RefExc("ValueError")
                out.append(["asf", 3, x])
            else:
                raise RefExc("TypeError")
        return ["l", out] if out else None

    def load_pairs(self, pairs):
        for k, v in pairs:
            if k in self.m:
                self.m[k][1][1].append(cv(v))
            else:
                self.m[k] = (k, ["l", [cv(v)]])


class ASFFileRef(ASFRef):
    len_values = False
    offers = BaseRef.offers


# ---- FileType proxying (_file.py): tags may be None ----
class FileRef(BaseRef):
    """tags None: get/del -> KeyError, keys -> [], set -> add_tags() then set (the new tags stay even if
    the set raises)"""

    def __init__(self, factory, inner=None):
        BaseRef.__init__(self)
        self.factory = factory
        self.inner = inner

    def p_get(self, k):
        if self.inner is None:
            raise RefExc("KeyError")
        return self.inner.p_get(k)

    def p_set(self, k, d):
        if self.inner is None:
            self.inner = self.factory()
        self.inner.hits = self.hits
        self.inner.p_set(k, d)

    def p_del(self, k):
        if self.inner is None:
            raise RefExc("KeyError")
        self.inner.hits = self.hits
        self.inner.p_del(k)

    def p_keys(self):
        if self.inner is None:
            return []
        self.inner.hits = self.hits
        return self.inner.p_keys()

    def state(self):
        return [] if self.inner is None else self.inner.state()


# ---- EasyID3 (easyid3.py) ----
# RegisterTextKey table (frame id -> key) and RegisterTXXXKey table (desc -> key), copied from the source;
# 'albumartistsort' is registered twice, the TXXX registration wins.
EASYID3_TEXT = {
    "TALB": "album", "TBPM": "bpm", "TCMP": "compilation", "TCOM": "composer", "TCOP": "copyright",
    "TENC": "encodedby", "TEXT": "lyricist", "TLEN": "length", "TMED": "media", "TMOO": "mood",
    "TIT1": "grouping", "TIT2": "title", "TIT3": "version", "TPE1": "artist", "TPE2": "albumartist",
    "TPE3": "conductor", "TPE4": "arranger", "TPOS": "discnumber", "TPUB": "organization",
    "TRCK": "tracknumber", "TOLY": "author", "TSO2": "albumartistsort", "TSOA": "albumsort",
    "TSOC": "composersort", "TSOP": "artistsort", "TSOT": "titlesort", "TSRC": "isrc",
    "TSST": "discsubtitle", "TLAN": "language"}
EASYID3_TXXX = {
    "MusicBrainz Artist Id": "musicbrainz_artistid", "MusicBrainz Album Id": "musicbrainz_albumid",
    "MusicBrainz Album Artist Id": "musicbrainz_albumartistid", "MusicBrainz TRM Id": "musicbrainz_trmid",
    "MusicIP PUID": "musicip_puid", "MusicMagic Fingerprint": "musicip_fingerprint",
    "MusicBrainz Album Status": "musicbrainz_albumstatus", "MusicBrainz Album Type": "musicbrainz_albumtype",
    "MusicBrainz Album Release Country": "releasecountry", "MusicBrainz Disc Id": "musicbrainz_discid",
    "ASIN": "asin", "ALBUMARTISTSORT": "albumartistsort", "PERFORMER": "performer", "BARCODE": "barcode",
    "CATALOGNUMBER": "catalognumber", "MusicBrainz Release Track Id": "musicbrainz_releasetrackid",
    "MusicBrainz Release Group Id": "musicbrainz_releasegroupid", "MusicBrainz Work Id": "musicbrainz_workid",
    "Acoustid Fingerprint": "acoustid_fingerprint", "Acoustid Id": "acoustid_id"}
EASYID3_KEYCLASS = {}
for _f, _k in EASYID3_TEXT.items():
    EASYID3_KEYCLASS[_k] = ("text", _f)
for _d, _k in EASYID3_TXXX.items():
    EASYID3_KEYCLASS[_k] = ("txxx", "TXXX:" + _d)
EASYID3_KEYCLASS.update({"genre": ("genre", "TCON"), "date": ("date", "TDRC"), "originaldate": ("date", "TDOR"),
                         "musicbrainz_trackid": ("mbid", "UFID:http://musicbrainz.org"),
                         "website": ("website", "WOAR")})
GENRE_IDS = {0: "Blues", 1: "Classic Rock", 2: "Country", 4: "Disco", 5: "Funk", 17: "Rock"}     # the entries of mutagen._constants.GENRES the universe uses

QUIRKS = ("easyid3-del-absent-website", "easyid3-del-absent-replaygain", "easyid3-wildcard-case",
          "easyid3-failed-set-mutates", "easyid3-pattern-key-duplicate", "dictmixin-update-masks-attributeerror")


def date_canon(text):
    """ID3TimeStamp.set_text / get_text"""
    parts = re.split("[-T:/.]|\\s+", text + ":::::")[:6]
    vals = []
    for p in parts:
        try:
            vals.append(int(p))
        except ValueError:
            vals.append(None)
    fmts = ["%04d", "%02d", "%02d", "%02d", "%02d", "%02d"]
    seps = ["-", "-", " ", ":", ":", "x"]
    out = ""
    for i, v in enumerate(vals):
        if v is None:
            break
        out += fmts[i] % v + seps[i]
    return out[:-1]


def genre_canon(texts):
    """TCON.genres getter, for the value strings of the universe"""
    out = []
    for v in texts:
        if v.isdecimal() and int(v) < 256:
            out.append(GENRE_IDS.get(int(v), "Unknown-id"))
        elif v == "CR":
            out.append("Cover")
        elif v == "RX":
            out.append("Remix")
        elif v:
            m = re.match(r"((?:\((?P<id>[0-9]+|RX|CR)\))*)(?P<str>.+)?", v)
            ids, _, name = m.groups()
            new = []
            if ids:
                for g in ids[1:-1].split(")("):
                    if g.isdigit() and int(g) in GENRE_IDS:
                        new.append(GENRE_IDS[int(g)])
                    elif g == "CR":
                        new.append("Cover")
                    elif g == "RX":
                        new.append("Remix")
                    else:
                        new.append("Unknown")
            if name:
                if name.startswith("(("):
                    name = name[1:]
                if name not in new:
                    new.append(name)
            out += new
    return out


def sl(strs):
    return ["l", [["s", x] for x in strs]]


def _sized(d):
    return d[0] in ("l", "t", "s", "b")


def _seq(d):
    """a list or a tuple: what 'for v in value' walks item by item (a str was wrapped into a list before)"""
    return d[0] in ("l", "t")


def _fits(val, scale, lo, hi):
    """VolumeAdjustmentSpec / VolumePeakSpec.validate: intround(value * scale) must be in range
    -> None (fits) | the exception class (nan: int() ValueError; inf: OverflowError; out of range: ValueError)"""
    x = val * scale
    if x != x:
        return "ValueError"
    if x in (float("inf"), float("-inf")):
        return "OverflowError"
    return None if lo <= int(round(x)) <= hi else "ValueError"


class EasyID3Ref(BaseRef):
    """The Easy view as coded, key by key.  `quirks[c]` True = behave as the unchanged code does for the
    known deviation class c (and record a hit when a step exercises it); False = the documented behaviour."""

    def __init__(self, quirks=None):
        BaseRef.__init__(self)
        self.q = dict.fromkeys(QUIRKS, True)
        self.q.update(quirks or {})
        self.text = {}      # lower-cased key -> list of stored strings
        self.people = []    # TMCL people: [role, person]
        self.tmcl = False
        self.rva = {}       # desc -> [gain, peak]
        self.web = []

    # key dispatch: dict_match(self.Get, key.lower()) with the three glob patterns
    def kc(self, key):
        lk = key.lower()
        if lk in EASYID3_KEYCLASS and "[" not in lk:
            return EASYID3_KEYCLASS[lk] + (lk,)
        part = None
        if lk.startswith("performer:"):
            cls, part = "perf", key.split(":", 1)[1]
        elif lk.startswith("replaygain_") and lk.endswith("_gain") and len(lk) >= 16:
            cls, part = "gain", key[11:-5]
        elif lk.startswith("replaygain_") and lk.endswith("_peak") and len(lk) >= 16:
            cls, part = "peak", key[11:-5]
        else:
            raise RefExc("KeyError")
        if not self.q["easyid3-wildcard-case"]:
            part = part.lower()
        return (cls, part, lk)

    def _case_hit(self, cls, part):
        """documented: Easy keys are case-insensitive; the code compares the wildcard part exactly"""
        if not self.q["easyid3-wildcard-case"]:
            return
        if cls == "perf":
            others = set(p[0] for p in self.people)
        else:
            others = set(self.rva)
        if any(o != part and o.lower() == part.lower() for o in others):
            self.hits.append("easyid3-wildcard-case")

    def p_get(self, key):
        cls, arg, lk = self.kc(key)
        if cls in ("text", "txxx", "date", "mbid"):
            if lk not in self.text:
                raise RefExc("KeyError")
            return sl(self.text[lk])
        if cls == "genre":
            if lk not in self.text:
                raise RefExc("KeyError")
            return sl(genre_canon(self.text[lk]))
        if cls == "website":
            if not self.web:
                raise RefExc("KeyError")
            return sl(self.web)
        self._case_hit(cls, arg)
        if cls == "perf":
            got = [p[1] for p in self.people if p[0] == arg]
            if not got:
                raise RefExc("KeyError")
            return sl(got)
        if arg not in self.rva:
            raise RefExc("KeyError")
        g, p = self.rva[arg]
        return sl(["%+f dB" % g]) if cls == "gain" else sl(["%f" % p])

    def _multispec_reject(self, d):
        """MultiSpec.validate of a non-list: raise ValueError('Invalid MultiSpec data: %r' % value) -- for a tuple the
        '%' takes the tuple as the argument list, so only a 1-tuple formats (ValueError); any other length is a TypeError"""
        if d[0] == "t" and len(d[1]) != 1:
            raise RefExc("TypeError")
        raise RefExc("ValueError")

    def _multispec_text(self, d):
        """MultiSpec('text', EncodedTextSpec): a list -> [str(v)...]; anything else (str was wrapped) is rejected"""
        if d[0] != "l":
            self._multispec_reject(d)
        return [pystr(x) for x in d[1]]

    def p_set(self, key, d):
        if d[0] == "s":
            d = ["l", [d]]
        cls, arg, lk = self.kc(key)
        if cls == "text":
            self.text[lk] = self._multispec_text(d)
        elif cls == "txxx":
            if not _seq(d):
                raise RefExc("TypeError")            # for v in value
            for x in d[1]:
                if truthy(x):
                    if x[0] != "s":
                        raise RefExc("TypeError")    # max(v) on a non-str
                    if any(c > "\x7f" for c in x[1]):
                        break
            if d[0] != "l":
                self._multispec_reject(d)            # MultiSpec wants a list
            self.text[lk] = [pystr(x) for x in d[1]]
        elif cls == "genre":
            if lk in self.text:
                if not _seq(d):
                    raise RefExc("TypeError")        # frame.genres = value iterates (any sequence will do)
                d = ["l", d[1]]
            self.text[lk] = self._multispec_text(d)
        elif cls == "date":
            if d[0] != "l":
                self._multispec_reject(d)
            for x in d[1]:
                if x[0] != "s":
                    raise RefExc("ValueError")       # TimeStampSpec: TypeError -> ValueError
            self.text[lk] = [date_canon(x[1]) for x in d[1]]
        elif cls == "mbid":
            if not _sized(d):
                raise RefExc("TypeError")            # len(value)
            if len(d[1]) != 1:
                raise RefExc("ValueError")
            x = d[1][0]
            if x[0] != "s":
                raise RefExc("AttributeError")       # value[0].encode
            if any(c > "\x7f" for c in x[1]):
                raise RefExc("ValueError")           # UnicodeEncodeError
            self.text[lk] = [x[1]]
        elif cls == "website":
            old = self.web
            self.web = []                            # id3.delall("WOAR") comes first
            if not _seq(d):
                if self.q["easyid3-failed-set-mutates"]:
                    if old:
                        self.hits.append("easyid3-failed-set-mutates")
                else:
                    self.web = old
                raise RefExc("TypeError")
            for x in d[1]:
                u = pystr(x)
                if u not in self.web:                # frames hash by 'WOAR:' + url
                    self.web.append(u)
        elif cls == "perf":
            self._case_hit(cls, arg)
            self.tmcl = True                         # TMCL is created first
            if not _seq(d):
                raise RefExc("TypeError")
            self.people = [p for p in self.people if p[0] != arg] + [[arg, pystr(x)] for x in d[1]]
        else:
            self._case_hit(cls, arg)
            if not _sized(d):
                raise RefExc("TypeError")
            if len(d[1]) != 1:
                raise RefExc("ValueError")
            x = d[1][0]
            if cls == "gain":
                if x[0] != "s":
                    raise RefExc("AttributeError")   # value[0].split
                w = x[1].split()
                if not w:
                    raise RefExc("IndexError")
                try:
                    val = float(w[0])
                except ValueError:
                    raise RefExc("ValueError")
                bad = _fits(val, 512, -32768, 32767)
            else:
                if x[0] == "s":
                    try:
                        val = float(x[1])
                    except ValueError:
                        raise RefExc("ValueError")
                elif x[0] in ("i", "B", "f"):
                    val = float(x[1])
                else:
                    raise RefExc("TypeError")
                if val >= 2 or val < 0:
                    raise RefExc("ValueError")
                bad = _fits(val, 32768, 0, 65535)    # only a nan gets this far
            created = arg not in self.rva
            if created:
                self.rva[arg] = [0.0, 0.0]           # RVA2(gain=0, peak=0) is added before the assignment
            if bad:
                if created:
                    if self.q["easyid3-failed-set-mutates"]:
                        self.hits.append("easyid3-failed-set-mutates")
                    else:
                        del self.rva[arg]
                raise RefExc(bad)
            self.rva[arg][0 if cls == "gain" else 1] = val

    def p_del(self, key):
        cls, arg, lk = self.kc(key)
        if cls in ("text", "txxx", "date", "mbid", "genre"):
            if lk not in self.text:
                raise RefExc("KeyError")
            del self.text[lk]
        elif cls == "website":
            if not self.web:
                if self.q["easyid3-del-absent-website"]:
                    self.hits.append("easyid3-del-absent-website")
                else:
                    raise RefExc("KeyError")
            self.web = []
        elif cls == "perf":
            self._case_hit(cls, arg)
            if not self.tmcl:
                raise RefExc("KeyError")
            rest = [p for p in self.people if p[0] != arg]
            if rest == self.people:
                raise RefExc("KeyError")
            self.people = rest
            if not rest:
                self.tmcl = False
        else:
            self._case_hit(cls, arg)
            if arg not in self.rva:
                if self.q["easyid3-del-absent-replaygain"]:
                    self.hits.append("easyid3-del-absent-replaygain")
                    return
                raise RefExc("KeyError")
            g, p = self.rva[arg]
            other = p if cls == "gain" else g
            if other:
                self.rva[arg][0 if cls == "gain" else 1] = 0.0   # the RVA2 frame is shared: the key stays
            else:
                del self.rva[arg]

    def p_keys(self):
        keys = list(self.text)
        if self.web:
            keys.append("website")
        roles = []
        for p in self.people:
            if p[0] not in roles:
                roles.append(p[0])
        keys += ["performer:" + r for r in roles]
        for desc in self.rva:
            keys += ["replaygain_%s_gain" % desc, "replaygain_%s_peak" % desc]
        if "*" in self.rva:
            # the literal pattern 'replaygain_*_peak' is itself a key of Get and matches RVA2:*
            if self.q["easyid3-pattern-key-duplicate"]:
                keys.append("replaygain_*_peak")
                self.hits.append("easyid3-pattern-key-duplicate")
        return keys

    def p_contains(self, key):
        try:
            self.p_get(key)
        except RefExc as e:
            if e.cls == "KeyError":
                return False
            raise
        return True

    def p_clear(self):
        for k in list(self.p_keys()):
            self.p_del(k)

    def state(self):
        return sorted(([k, self.p_get(k)] for k in self.p_keys()), key=J)

    def native(self):
        """what the wrapped ID3 must hold: HashKey -> projection"""
        out = {}
        inv = dict((v, k) for k, v in EASYID3_KEYCLASS.items())
        for lk, vals in self.text.items():
            out[EASYID3_KEYCLASS[lk][1]] = vals
        for u in self.web:
            out["WOAR:" + u] = [u]
        if self.tmcl:
            out["TMCL"] = [list(p) for p in self.people]
        for desc, (g, p) in self.rva.items():
            out["RVA2:" + desc] = [float(g).hex(), float(p).hex()]
        return out


# ---- EasyMP4Tags (easymp4.py) ----
EASYMP4_TEXT = {"\xa9nam": "title", "\xa9alb": "album", "\xa9ART": "artist", "aART": "albumartist",
                "\xa9day": "date", "\xa9cmt": "comment", "desc": "description", "\xa9grp": "grouping",
                "\xa9gen": "genre", "cprt": "copyright", "soal": "albumsort", "soaa": "albumartistsort",
                "soar": "artistsort", "sonm": "titlesort", "soco": "composersort"}
EASYMP4_FREE = {"MusicBrainz Artist Id": "musicbrainz_artistid", "MusicBrainz Track Id": "musicbrainz_trackid",
                "MusicBrainz Album Id": "musicbrainz_albumid",
                "MusicBrainz Album Artist Id": "musicbrainz_albumartistid", "MusicIP PUID": "musicip_puid",
                "MusicBrainz Album Status": "musicbrainz_albumstatus",
                "MusicBrainz Album Type": "musicbrainz_albumtype",
                "MusicBrainz Release Country": "releasecountry"}
EASYMP4_KEYCLASS = {}
for _a, _k in EASYMP4_TEXT.items():
    EASYMP4_KEYCLASS[_k] = ("text", _a)
for _n, _k in EASYMP4_FREE.items():
    EASYMP4_KEYCLASS[_k] = ("free", "----:com.apple.iTunes:" + _n)
EASYMP4_KEYCLASS.update({"bpm": ("int", "tmpo"), "tracknumber": ("pair", "trkn"), "discnumber": ("pair", "disk")})


def _pyint(d):
    """int(x) as Python does for the descriptor types of the universe"""
    t = d[0]
    if t in ("i", "B"):
        return int(d[1])
    if t == "f":
        return int(float(d[1]))
    if t == "s":
        try:
            return int(d[1])
        except ValueError:
            raise RefExc("ValueError")
    raise RefExc("TypeError")


def _clamp(x):
    return int(min(max(0, x), 65535))


class EasyMP4Ref(PlainRef):
    """lower-cased registered keys; per-key setters: text (list of str), freeform (list of str),
    bpm (ints clamped to 0..65535, read back as str), track/disc number ('n' or 'n/m')"""

    def kr(self, k, opname):
        lk = k.lower()
        if lk not in EASYMP4_KEYCLASS:
            raise RefExc("KeyError")
        return lk

    def disp(self, k):
        return k.lower()

    def vr(self, k, d):
        if d[0] == "s":
            d = ["l", [d]]
        cls = EASYMP4_KEYCLASS[k.lower()][0]
        if d[0] not in ("l", "t"):
            raise RefExc("TypeError")                # not iterable (int, None, bool, float)
        items = d[1]
        if cls in ("text", "free"):
            for x in items:
                if x[0] != "s":
                    raise RefExc("TypeError")
            # a text atom keeps the sequence it was given (a tuple stays a tuple), a freeform key builds a new list
            return [d[0] if cls == "text" else "l", [["s", x[1]] for x in items]]
        if cls == "int":
            return sl([str(_clamp(_pyint(x))) for x in items])
        out = []
        for x in items:
            if x[0] != "s":
                raise RefExc("AttributeError")       # v.split on a non-str is not caught
            parts = x[1].split("/")
            pair = None
            if len(parts) == 2:
                try:
                    pair = (_clamp(int(parts[0])), _clamp(int(parts[1])))
                except ValueError:
                    pair = None
            if pair is None:
                pair = (_clamp(_pyint(x)), 0)
            out.append("%d/%d" % pair if pair[1] else str(pair[0]))
        return sl(out)

    def native(self):
        return dict((EASYMP4_KEYCLASS[nk][1], w) for nk, (dk, w) in self.m.items())
