"""Prototype fail-closed translator: a Python subset -> Gallina (shallow, file monad)."""
import ast, sys, textwrap

class Unsupported(Exception):
    pass

ERRNO = {"ENOSPC": 28, "EINVAL": 22}

class Fn:
    def __init__(self, node, consts, known_funcs):
        self.node = node
        self.consts = consts
        self.known = known_funcs
        self.types = {}      # var -> 'Z' | 'bytes'
        self.fresh = 0

    def err(self, node, msg):
        raise Unsupported("%s:%d: %s (%s)" % (self.node.name, getattr(node, "lineno", 0), msg, ast.dump(node)[:80]))

    # ---------- expressions ----------
    def ty(self, e):
        if isinstance(e, ast.Constant):
            if isinstance(e.value, bool): return "bool"
            if isinstance(e.value, int): return "Z"
            if isinstance(e.value, bytes): return "bytes"
        if isinstance(e, ast.Name):
            if e.id in self.types: return self.types[e.id]
            if e.id in self.consts: return "Z"
            self.err(e, "unknown variable type")
        if isinstance(e, ast.BinOp):
            if isinstance(e.op, ast.Mult) and (self.ty(e.left) == "bytes" or self.ty(e.right) == "bytes"):
                return "bytes"
            return "Z"
        if isinstance(e, ast.UnaryOp):
            return "bool" if isinstance(e.op, ast.Not) else "Z"
        if isinstance(e, (ast.Compare, ast.BoolOp)): return "bool"
        if isinstance(e, ast.Call) and isinstance(e.func, ast.Name) and e.func.id in ("min", "max", "len"): return "Z"
        self.err(e, "cannot type expression")

    def expr(self, e):
        if isinstance(e, ast.Constant):
            if isinstance(e.value, bool): return "true" if e.value else "false"
            if isinstance(e.value, int): return "(%d)" % e.value
            if isinstance(e.value, bytes): return "[" + "; ".join(str(b) for b in e.value) + "]"
            self.err(e, "constant")
        if isinstance(e, ast.Name):
            return e.id
        if isinstance(e, ast.UnaryOp):
            if isinstance(e.op, ast.USub): return "(- %s)" % self.expr(e.operand)
            if isinstance(e.op, ast.Not): return "(negb %s)" % self.cond(e.operand)
        if isinstance(e, ast.BinOp):
            l, r = e.left, e.right
            if isinstance(e.op, ast.Mult) and self.ty(l) == "bytes":
                return "(zrepeat_bytes %s %s)" % (self.expr(l), self.expr(r))
            ops = {ast.Add: "+", ast.Sub: "-", ast.Mult: "*", ast.FloorDiv: "/", ast.Mod: "mod"}
            for k, v in ops.items():
                if isinstance(e.op, k):
                    return "(%s %s %s)" % (self.expr(l), v, self.expr(r))
        if isinstance(e, ast.Call) and isinstance(e.func, ast.Name):
            if e.func.id in ("min", "max") and len(e.args) == 2:
                return "(Z.%s %s %s)" % (e.func.id, self.expr(e.args[0]), self.expr(e.args[1]))
            if e.func.id == "len" and len(e.args) == 1:
                return "(zlen %s)" % self.expr(e.args[0])
        if isinstance(e, (ast.Compare, ast.BoolOp)):
            return self.cond(e)
        self.err(e, "expression")

    def cond(self, e):
        """Python truthiness of e as a Gallina bool."""
        if isinstance(e, ast.Compare):
            if len(e.ops) != 1: self.err(e, "chained comparison")
            l, r = self.expr(e.left), self.expr(e.comparators[0])
            op = e.ops[0]
            # errno comparison
            m = {ast.Lt: "<?", ast.LtE: "<=?", ast.Gt: ">?", ast.GtE: ">=?", ast.Eq: "=?"}
            for k, v in m.items():
                if isinstance(op, k): return "(%s %s %s)" % (l, v, r)
            if isinstance(op, ast.NotEq): return "(negb (%s =? %s))" % (l, r)
            self.err(e, "comparison op")
        if isinstance(e, ast.BoolOp):
            j = " || " if isinstance(e.op, ast.Or) else " && "
            return "(" + j.join(self.cond(v) for v in e.values) + ")"
        if isinstance(e, ast.UnaryOp) and isinstance(e.op, ast.Not):
            return "(negb %s)" % self.cond(e.operand)
        t = self.ty(e)
        if t == "bool": return self.expr(e)
        if t == "Z": return "(negb (%s =? 0))" % self.expr(e)
        if t == "bytes": return "(negb (zlen %s =? 0))" % self.expr(e)
        self.err(e, "truthiness")

    # ---------- statements ----------
    def assigned(self, stmts):
        out = []
        for s in ast.walk(ast.Module(body=list(stmts), type_ignores=[])):
            if isinstance(s, ast.Assign):
                for t in s.targets:
                    if isinstance(t, ast.Name) and t.id not in out: out.append(t.id)
            if isinstance(s, ast.AugAssign) and isinstance(s.target, ast.Name) and s.target.id not in out:
                out.append(s.target.id)
        return out

    def tup(self, vs):
        if not vs: return "tt"
        if len(vs) == 1: return vs[0]
        return "(" + ", ".join(vs) + ")"

    def pat(self, vs):
        if not vs: return "_"
        if len(vs) == 1: return vs[0]
        return "'(" + ", ".join(vs) + ")"

    def fileop(self, call):
        """fobj.<op>(args) -> monadic term, result type"""
        f = call.func
        if not (isinstance(f, ast.Attribute) and isinstance(f.value, ast.Name) and f.value.id in self.fileobjs):
            return None
        a = call.args
        if f.attr == "seek":
            wh = self.expr(a[1]) if len(a) > 1 else "0"
            return ("(f_seek %s %s)" % (self.expr(a[0]), wh), "unit")
        if f.attr == "tell" and not a: return ("f_tell", "Z")
        if f.attr == "read" and len(a) == 1: return ("(f_read %s)" % self.expr(a[0]), "bytes")
        if f.attr == "write" and len(a) == 1: return ("(f_write %s)" % self.expr(a[0]), "unit")
        if f.attr == "truncate":
            return ("(f_truncate %s)" % (self.expr(a[0]) if a else "None_pos"), "unit") if a else ("f_truncate_here", "unit")
        if f.attr == "flush" and not a: return ("f_flush", "unit")
        self.err(call, "file method")

    def raise_term(self, s):
        if s.exc is None: return None
        exc = s.exc
        name = exc.func.id if isinstance(exc, ast.Call) else exc.id
        m = {"ValueError": "EValue", "IOError": "(EIO 0)"}
        if name not in m: self.err(s, "raise class")
        return "(raise %s)" % m[name]

    def reads(self, node):
        return {n.id for n in ast.walk(node) if isinstance(n, ast.Name) and isinstance(n.ctx, ast.Load)}

    def exposed(self, ss):
        """names read in ss before being definitely assigned at the top level of ss"""
        defined, out = set(), set()
        for s in ss:
            if isinstance(s, (ast.Assign, ast.AugAssign)):
                tgt = s.targets[0] if isinstance(s, ast.Assign) else s.target
                out |= (self.reads(s.value) - defined)
                if isinstance(s, ast.AugAssign): out |= ({tgt.id} - defined)
                defined.add(tgt.id)
            else:
                out |= (self.reads(s) - defined)
        return out

    def stmts(self, ss, k, live):
        """Translate statement list ss followed by continuation term k (a string);
        live = names the continuation k may read."""
        if not ss: return k
        s, rest = ss[0], ss[1:]
        live_rest = self.exposed(rest) | live
        cont = lambda: self.stmts(rest, k, live)
        if isinstance(s, ast.Expr) and isinstance(s.value, ast.Constant):   # docstring
            return cont()
        if isinstance(s, ast.Pass):
            return cont()
        if isinstance(s, ast.Raise):
            if s.exc is None:
                if not self.reraise: self.err(s, "bare raise outside handler")
                return "(raise %s)" % self.reraise
            return self.raise_term(s)
        if isinstance(s, ast.Return):
            if rest: self.err(s, "return not in tail position")
            return "(ret tt)" if s.value is None else "(ret %s)" % self.expr(s.value)
        if isinstance(s, ast.Expr) and isinstance(s.value, ast.Call):
            fo = self.fileop(s.value)
            if fo: return "(%s ;; %s)" % (fo[0], cont())
            c = s.value
            if isinstance(c.func, ast.Name) and c.func.id in self.known:
                args = " ".join(self.expr(a) for a in c.args
                                if not (isinstance(a, ast.Name) and (a.id in self.fileobjs or a.id == "BUFFER_SIZE")))
                return "(%s %s ;; %s)" % (c.func.id, args, cont())
            self.err(s, "call statement")
        if isinstance(s, ast.Assign) and len(s.targets) == 1 and isinstance(s.targets[0], ast.Name):
            v = s.targets[0].id
            if isinstance(s.value, ast.Call):
                fo = self.fileop(s.value)
                if fo:
                    self.types[v] = fo[1]
                    return "(%s <- %s ;; %s)" % (v, fo[0], cont())
            t = self.ty(s.value); ex = self.expr(s.value); self.types[v] = t
            return "(let %s := %s in %s)" % (v, ex, cont())
        if isinstance(s, ast.AugAssign) and isinstance(s.target, ast.Name):
            v = s.target.id
            op = {ast.Add: "+", ast.Sub: "-"}.get(type(s.op))
            if op is None: self.err(s, "augassign op")
            return "(let %s := (%s %s %s) in %s)" % (v, v, op, self.expr(s.value), cont())
        if isinstance(s, ast.If):
            mod = [v for v in self.assigned([s]) if v in live_rest]
            self.prescan([s])
            for v in mod:
                if not self.defined_before(v): self.err(s, "variable %s may be unbound after if" % v)
            thn = self.stmts(s.body, "(ret %s)" % self.tup(mod), set(mod))
            els = self.stmts(s.orelse, "(ret %s)" % self.tup(mod), set(mod)) if s.orelse else "(ret %s)" % self.tup(mod)
            return "(%s <- (if %s then %s else %s) ;; %s)" % (self.pat(mod), self.cond(s.test), thn, els, cont())
        if isinstance(s, ast.While):
            if s.orelse: self.err(s, "while-else")
            need = live_rest | self.reads(s.test) | self.exposed(s.body)
            mod = [v for v in self.assigned(s.body) if v in need]
            self.prescan(s.body)
            self.fresh += 1
            name = "loop%d" % self.fresh
            body = self.stmts(s.body, "(%s fuel' %s)" % (name, " ".join(mod)), set(mod))
            free = sorted(v for v in (self.reads(s.test) | set().union(*[self.reads(x) for x in s.body]))
                          if v in self.types and v not in mod and v != "BUFFER_SIZE" and v not in self.inner_bound(s.body))
            gname = "%s_%s" % (self.node.name, name)
            self.lifted.append(
                "Fixpoint %s %s (fuel : nat) %s {struct fuel} : M %s :=\n  match fuel with O => raise EOutOfFuel | S fuel' =>\n"
                "  if %s then %s else ret %s end." % (
                    gname, " ".join("(%s : %s)" % (v, self.cty(v)) for v in free),
                    " ".join("(%s : %s)" % (v, self.cty(v)) for v in mod), self.tupty(mod),
                    self.cond(s.test), body.replace("(%s fuel'" % name, "(%s %s fuel'" % (gname, " ".join(free))), self.tup(mod)))
            return "(%s <- %s %s (%s) %s ;; %s)" % (self.pat(mod), gname, " ".join(free), self.fuel_for(s), " ".join(mod), cont())
        if isinstance(s, ast.Try):
            if len(s.handlers) != 1 or s.orelse or s.finalbody: self.err(s, "try shape")
            h = s.handlers[0]
            if not (isinstance(h.type, ast.Name) and h.type.id == "IOError"): self.err(s, "handler class")
            mod = [v for v in self.assigned(s.body) if v in live_rest]
            body = self.stmts(s.body, "(ret %s)" % self.tup(mod), set(mod))
            self.reraise = "(EIO errno_)"
            self.errvar = h.name
            hb = self.stmts(h.body, "(ret %s)" % self.tup(mod), set(mod))
            self.reraise = None
            return ("(%s <- (try_io %s (fun errno_ => %s)) ;; %s)" % (self.pat(mod), body, hb, cont()))
        self.err(s, "statement")

    def inner_bound(self, body):
        """names first bound inside the loop body (assigned there, not loop-carried)"""
        return {v for v in self.assigned(body)}

    def defined_before(self, v):
        return v in self.bound

    def cty(self, v):
        return {"Z": "Z", "bytes": "list Z", "bool": "bool", "unit": "unit"}[self.types[v]]
    def tupty(self, vs):
        if not vs: return "unit"
        return "(" + " * ".join(self.cty(v) for v in vs) + ")"

    def prescan(self, ss):
        for n in ast.walk(ast.Module(body=list(ss), type_ignores=[])):
            if isinstance(n, ast.Assign) and isinstance(n.targets[0], ast.Name):
                v = n.targets[0].id
                if v in self.types: continue
                if isinstance(n.value, ast.Call) and isinstance(n.value.func, ast.Attribute):
                    self.types[v] = {"read": "bytes", "tell": "Z"}.get(n.value.func.attr, "Z")
                else:
                    try: self.types[v] = self.ty(n.value)
                    except Unsupported: self.types[v] = "Z"

    def fuel_for(self, w):
        # a loop `while X:` / `while A - B:` over a non-negative int that strictly decreases:
        # fuel = value of the test expression + 1
        t = w.test
        return "S (Z.to_nat %s)" % self.expr(t)

    def translate(self):
        n = self.node
        self.reraise = None
        self.lifted = []
        args = [a.arg for a in n.args.args]
        self.fileobjs = {a for a in args if a in ("fobj", "fileobj")}
        params = []
        defaults = n.args.defaults
        nd = len(defaults)
        for i, a in enumerate(args):
            if a in self.fileobjs: continue
            # a default that names a module constant becomes that section variable
            di = i - (len(args) - nd)
            if di >= 0 and isinstance(defaults[di], ast.Name) and defaults[di].id in self.consts and a == "BUFFER_SIZE":
                self.types[a] = "Z"
                continue    # bound to the Section variable of the same name
            self.types[a] = "Z"
            params.append("(%s : Z)" % a)
        # compare errno attr: handled textually
        self.bound = set(self.types)
        for s in n.body:
            if isinstance(s, ast.Assign) and isinstance(s.targets[0], ast.Name): self.bound.add(s.targets[0].id)
        body = self.stmts(n.body, "(ret tt)", set())
        return "\n\n".join(self.lifted + ["Definition %s %s : M unit :=\n%s." % (n.name, " ".join(params), body)])

def errno_rewrite(src):
    # `e.errno == errno.ENOSPC` -> `errno_ == 28`
    return src.replace("e.errno == errno.ENOSPC", "errno_ == 28")

def translate_module(path, names):
    src = errno_rewrite(open(path).read())
    mod = ast.parse(src)
    consts = {}
    for s in mod.body:
        if isinstance(s, ast.Assign) and isinstance(s.targets[0], ast.Name):
            try:
                v = eval(compile(ast.Expression(s.value), "c", "eval"), {})
                if isinstance(v, int): consts[s.targets[0].id] = v
            except Exception: pass
    fns = {s.name: s for s in mod.body if isinstance(s, ast.FunctionDef)}
    out = ["(* generated by py2v from %s -- do not edit *)" % path,
           "From Coq Require Import ZArith List Bool. Import ListNotations.",
           "Require Import Base.Py Base.FileModel.", "Open Scope bool_scope.", "Open Scope Z_scope.", "Section Gen.",
           "Variable BUFFER_SIZE : Z.", ""]
    known = []
    for nm in names:
        f = Fn(fns[nm], consts, list(known))
        f.types["errno_"] = "Z"
        out.append(f.translate()); out.append("")
        known.append(nm)
    out.append("End Gen.")
    out.append("(* EXTRACT: %s *)" % " ".join(names))
    return "\n".join(out) + "\n"

if __name__ == "__main__":
    print(translate_module(sys.argv[1], sys.argv[2:]))
