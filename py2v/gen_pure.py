"""py2v back-end for small pure integer functions/methods (no loops): straight-line assignments and
nested if/else trees ending in `return`.  `self.<attr>` reads become parameters.  Fail-closed."""
import ast, os


class Unsupported(Exception):
    pass


BIN = {ast.Add: "+", ast.Sub: "-", ast.Mult: "*", ast.FloorDiv: "/", ast.Mod: "mod"}
CMP = {ast.Lt: "<?", ast.LtE: "<=?", ast.Gt: ">?", ast.GtE: ">=?", ast.Eq: "=?"}


class Pure:
    def __init__(self, fn, self_attrs):
        self.fn = fn
        self.self_attrs = self_attrs

    def err(self, n, msg):
        raise Unsupported("%s:%d: %s (%s)" % (self.fn.name, getattr(n, "lineno", 0), msg, ast.dump(n)[:80]))

    def expr(self, e):
        if isinstance(e, ast.Constant) and isinstance(e.value, int) and not isinstance(e.value, bool):
            return "(%d)" % e.value
        if isinstance(e, ast.Name):
            return e.id
        if isinstance(e, ast.Attribute) and isinstance(e.value, ast.Name) and e.value.id == "self":
            if e.attr not in self.self_attrs:
                self.err(e, "unknown attribute self.%s" % e.attr)
            return e.attr
        if isinstance(e, ast.BinOp) and type(e.op) in BIN:
            return "(%s %s %s)" % (self.expr(e.left), BIN[type(e.op)], self.expr(e.right))
        if isinstance(e, ast.UnaryOp) and isinstance(e.op, ast.USub):
            return "(- %s)" % self.expr(e.operand)
        if isinstance(e, ast.Call) and isinstance(e.func, ast.Name) and e.func.id in ("min", "max") and len(e.args) == 2:
            return "(Z.%s %s %s)" % (e.func.id, self.expr(e.args[0]), self.expr(e.args[1]))
        self.err(e, "expression")

    def cond(self, e):
        if isinstance(e, ast.Compare) and len(e.ops) == 1:
            op = e.ops[0]
            l, r = self.expr(e.left), self.expr(e.comparators[0])
            if type(op) in CMP:
                return "(%s %s %s)" % (l, CMP[type(op)], r)
            if isinstance(op, ast.NotEq):
                return "(negb (%s =? %s))" % (l, r)
        if isinstance(e, ast.BoolOp):
            j = " || " if isinstance(e.op, ast.Or) else " && "
            return "(" + j.join(self.cond(v) for v in e.values) + ")"
        if isinstance(e, ast.UnaryOp) and isinstance(e.op, ast.Not):
            return "(negb %s)" % self.cond(e.operand)
        self.err(e, "condition")

    def stmts(self, ss):
        if not ss:
            self.err(self.fn, "control reaches end of function without return")
        s, rest = ss[0], ss[1:]
        if isinstance(s, ast.Expr) and isinstance(s.value, ast.Constant):
            return self.stmts(rest)
        if isinstance(s, ast.Assign) and len(s.targets) == 1 and isinstance(s.targets[0], ast.Name):
            return "(let %s := %s in %s)" % (s.targets[0].id, self.expr(s.value), self.stmts(rest))
        if isinstance(s, ast.Return) and s.value is not None:
            return self.expr(s.value)
        if isinstance(s, ast.If):
            els = list(s.orelse) if s.orelse else []
            return "(if %s then %s else %s)" % (self.cond(s.test), self.stmts(list(s.body) + rest), self.stmts(els + rest))
        self.err(s, "statement")

    def translate(self, name=None):
        args = [a.arg for a in self.fn.args.args if a.arg != "self"]
        params = " ".join("(%s : Z)" % a for a in list(self.self_attrs) + args)
        return "Definition %s %s : Z :=\n  %s." % (name or self.fn.name, params, self.stmts(list(self.fn.body)))


def find_method(mod, cls, name):
    for s in mod.body:
        if isinstance(s, ast.ClassDef) and s.name == cls:
            for m in s.body:
                if isinstance(m, ast.FunctionDef) and m.name == name:
                    return m
    raise Unsupported("%s.%s not found" % (cls, name))


def gen_tags(repo):
    path = os.path.join(repo, "mutagen/_tags.py")
    mod = ast.parse(open(path).read())
    init = find_method(mod, "PaddingInfo", "__init__")
    attrs = []
    for s in init.body:
        if isinstance(s, ast.Assign) and isinstance(s.targets[0], ast.Attribute):
            if not (isinstance(s.value, ast.Name) and s.value.id == s.targets[0].attr):
                raise Unsupported("PaddingInfo.__init__: attribute not a plain copy of its argument")
            attrs.append(s.targets[0].attr)
    if attrs != ["padding", "size"]:
        raise Unsupported("PaddingInfo attributes changed: %r" % attrs)
    gdp = Pure(find_method(mod, "PaddingInfo", "get_default_padding"), attrs).translate()
    # _get_padding: `if user_func is None: return self.get_default_padding() else: return user_func(self)`
    gp = find_method(mod, "PaddingInfo", "_get_padding")
    body = [s for s in gp.body if not (isinstance(s, ast.Expr) and isinstance(s.value, ast.Constant))]
    want = "If(test=Compare(left=Name(id='user_func', ctx=Load()), ops=[Is()], comparators=[Constant(value=None)]), body=[Return(value=Call(func=Attribute(value=Name(id='self', ctx=Load()), attr='get_default_padding', ctx=Load()), args=[], keywords=[]))], orelse=[Return(value=Call(func=Name(id='user_func', ctx=Load()), args=[Name(id='self', ctx=Load())], keywords=[]))])"
    if len(body) != 1 or ast.dump(body[0]) != want:
        raise Unsupported("PaddingInfo._get_padding has an unexpected shape: %s" % ast.dump(body[0])[:200])
    out = ["(* generated by py2v (gen_pure) from %s -- do not edit *)" % path,
           "From Coq Require Import ZArith Bool. Open Scope bool_scope. Open Scope Z_scope.", "",
           gdp, "",
           "(* user_func receives the PaddingInfo, i.e. (padding, size) *)",
           "Definition _get_padding (user_func : option (Z -> Z -> Z)) (padding size : Z) : Z :=",
           "  match user_func with None => get_default_padding padding size | Some f => f padding size end.",
           "(* EXTRACT: get_default_padding _get_padding *)", ""]
    return "\n".join(out)


def generators(repo):
    return {"Gen_tags.v": lambda: gen_tags(repo)}
