"""py2v back-end for C18: the `score(filename, fileobj, header)` static method of every class that
`mutagen.File` lists in its default `options`, the `options` list itself and the easy=True class mapping,
as Gallina over byte lists (Gen_scores.v).  Python `ast` only, nothing is imported or executed.

Fail-closed: every construct outside the small subset below raises Unsupported with file:line, and the
helpers the scores call (`_util.endswith`, `_util.seek_end`, `_util.get_size`) as well as the selection
tail of `File` (hand-modelled in coq/model/Score.v) must be structurally identical to the shapes this
translator knows -- otherwise the generator refuses and the framework reports the obligation broken.

Supported subset (exactly what occurs):
  statements   v = e | v += e | return e | filename = filename.lower()
               try: seek_end(fileobj, N); v = fileobj.read()  except IOError: return K      (file trailer)
  expressions  int/bytes/str literals, header.startswith(lit), endswith(name, lit | (lit, ...)),
               lit in bytesvar, bytesvar[a:b] == lit, + - *, int(), bool(), and/or/not on bools,
               comparisons of ints, name.lower()
The file object is modelled by one extra input `trailer : option (list Z)`: `Some t` = the last
min(size, N) bytes of the file, `None` = seeking/reading raised IOError."""
import ast, os


class Unsupported(Exception):
    pass


# ---- canonical shapes of the trusted helpers / of File's selection tail -------------------------------
CANON_ENDSWITH = '''
def endswith(text, end):
    if isinstance(text, str):
        if not isinstance(end, str):
            end = end.decode("ascii")
    else:
        if not isinstance(end, bytes):
            end = end.encode("ascii")
    return text.endswith(end)
'''
CANON_SEEK_END = '''
def seek_end(fileobj, offset):
    if offset < 0:
        raise ValueError
    if get_size(fileobj) < offset:
        fileobj.seek(0, 0)
    else:
        fileobj.seek(-offset, 2)
'''
CANON_GET_SIZE = '''
def get_size(fileobj):
    old_pos = fileobj.tell()
    try:
        fileobj.seek(0, 2)
        return fileobj.tell()
    finally:
        fileobj.seek(old_pos, 0)
'''
# File(filething, options=None, easy=False): everything after the `if options is None:` block
CANON_FILE_TAIL = '''
def File(filething, options=None, easy=False):
    if not options:
        return None
    fileobj = filething.fileobj
    try:
        header = fileobj.read(128)
    except IOError:
        header = b""
    results = [(Kind.score(filething.name, fileobj, header), Kind.__name__)
               for Kind in options]
    results = list(zip(results, options))
    results.sort()
    (score, name), Kind = results[-1]
    if score > 0:
        try:
            fileobj.seek(0, 0)
        except IOError:
            pass
        return Kind(fileobj, filename=filething.filename)
    else:
        return None
'''


def strip_doc(body):
    body = list(body)
    if body and isinstance(body[0], ast.Expr) and isinstance(body[0].value, ast.Constant) and isinstance(body[0].value.value, str):
        body = body[1:]
    return body


def shape(fn_or_stmts):
    """annotation-, docstring- and position-free structural dump"""
    if isinstance(fn_or_stmts, ast.FunctionDef):
        args = [a.arg for a in fn_or_stmts.args.args]
        stmts = strip_doc(fn_or_stmts.body)
    else:
        args, stmts = [], fn_or_stmts
    return repr(args) + "|" + ";".join(ast.dump(s, annotate_fields=False, include_attributes=False) for s in stmts)


def canon(src):
    return ast.parse(src).body[0]


class Repo:
    def __init__(self, root):
        self.root = root
        self.cache = {}

    def modpath(self, mod):
        p = os.path.join(self.root, *mod.split("."))
        if os.path.isdir(p):
            return os.path.join(p, "__init__.py"), True
        return p + ".py", False

    def parse(self, mod):
        if mod not in self.cache:
            path, ispkg = self.modpath(mod)
            if not os.path.exists(path):
                raise Unsupported("module %s not found (%s)" % (mod, path))
            self.cache[mod] = (ast.parse(open(path, encoding="utf-8").read(), path), path, ispkg)
        return self.cache[mod]

    def absmod(self, mod, node, ispkg):
        """absolute module named by an ImportFrom found in module `mod`"""
        if not node.level:
            return node.module
        parts = mod.split(".")
        if not ispkg:
            parts = parts[:-1]
        parts = parts[:len(parts) - (node.level - 1)]
        return ".".join(parts + ([node.module] if node.module else []))

    def resolve(self, mod, name, depth=0):
        """-> (module, ClassDef | FunctionDef) for top-level `name` of `mod`, following re-exports"""
        if depth > 6:
            raise Unsupported("import chain too long for %s.%s" % (mod, name))
        tree, path, ispkg = self.parse(mod)
        found = None
        for s in tree.body:
            if isinstance(s, (ast.ClassDef, ast.FunctionDef)) and s.name == name:
                found = (mod, s)
            elif isinstance(s, ast.ImportFrom):
                for a in s.names:
                    if (a.asname or a.name) == name:
                        found = ("import", self.absmod(mod, s, ispkg), a.name)
            elif isinstance(s, ast.Assign):
                for t in s.targets:
                    if isinstance(t, ast.Name) and t.id == name:
                        found = ("assign", s)
        if found is None:
            raise Unsupported("%s: no top-level definition of %s" % (path, name))
        if found[0] == "import":
            return self.resolve(found[1], found[2], depth + 1)
        if found[0] == "assign":
            raise Unsupported("%s: %s is bound by assignment (line %d), not a class/def" % (path, name, found[1].lineno))
        return found

    def imported_from(self, mod, name):
        """module that top-level `name` of `mod` is imported from, or None if defined locally"""
        tree, path, ispkg = self.parse(mod)
        out = None
        for s in tree.body:
            if isinstance(s, (ast.ClassDef, ast.FunctionDef)) and s.name == name:
                out = ("local", mod)
            elif isinstance(s, ast.ImportFrom):
                for a in s.names:
                    if (a.asname or a.name) == name:
                        out = ("import", self.absmod(mod, s, ispkg), a.name)
            elif isinstance(s, ast.Import):
                for a in s.names:
                    if (a.asname or a.name) == name:
                        out = ("module", a.name)
        return out


def lit_bytes(e):
    """ASCII/bytes literal -> list of ints, else None"""
    if isinstance(e, ast.Constant):
        if isinstance(e.value, bytes):
            return list(e.value)
        if isinstance(e.value, str):
            try:
                return list(e.value.encode("ascii"))
            except UnicodeEncodeError:
                return None
    return None


def coq_list(b):
    return "[" + "; ".join(str(x) for x in b) + "]"


def show(b):
    s = "".join(chr(x) if 32 <= x < 127 and chr(x) not in '"*()' else "\\x%02x" % x for x in b)
    return '(* "%s" *)' % s


class Score:
    """translator of one score() body"""

    def __init__(self, repo, mod, cls, fn, path):
        self.repo, self.mod, self.cls, self.fn, self.path = repo, mod, cls, fn, path
        self.types = {}          # var -> 'name' | 'bytes' | 'bool' | 'int'
        self.markers = []        # Gallina bool expressions testing the *header* for a marker
        self.prefixes = []       # literals of header.startswith
        self.exts = []           # (literal, lowered?) of endswith on the file name
        self.trailer_len = None
        self.uses_trailer = False
        self.header_vars = set()
        self.lowered = set()     # name-typed variables currently holding a lower-cased name

    def err(self, n, msg):
        raise Unsupported("%s:%d: %s.score: %s [%s]" % (self.path, getattr(n, "lineno", self.fn.lineno), self.cls, msg,
                                                      ast.dump(n)[:90] if isinstance(n, ast.AST) else n))

    def helper(self, node, name, canon_src, sub=()):
        """the called helper `name` must come from mutagen._util with the canonical shape"""
        src = self.repo.imported_from(self.mod, name)
        if src is None or src[0] == "module":
            self.err(node, "helper %s is not imported by name" % name)
        m, d = self.repo.resolve(self.mod, name)
        if not isinstance(d, ast.FunctionDef):
            self.err(node, "helper %s is not a function" % name)
        if shape(d) != shape(canon(canon_src)):
            self.err(node, "helper %s.%s (line %d) does not have the shape this translator models" % (m, name, d.lineno))
        for n2, c2 in sub:
            m2, d2 = self.repo.resolve(m, n2)
            if not isinstance(d2, ast.FunctionDef) or shape(d2) != shape(canon(c2)):
                self.err(node, "helper %s.%s does not have the shape this translator models" % (m2, n2))

    # ----- expressions: return (gallina, type) -----
    def name_expr(self, e):
        """file-name valued expression -> (gallina, lowered?)"""
        if isinstance(e, ast.Name) and self.types.get(e.id) == "name":
            return e.id, e.id in self.lowered
        if isinstance(e, ast.Call) and isinstance(e.func, ast.Attribute) and e.func.attr == "lower" and not e.args and not e.keywords:
            inner, _ = self.name_expr(e.func.value)
            return "(lower %s)" % inner, True
        self.err(e, "not a file-name expression")

    def bytes_var(self, e):
        if isinstance(e, ast.Name) and self.types.get(e.id) == "bytes":
            return e.id
        self.err(e, "not a bytes variable")

    def as_int(self, e):
        g, t = self.expr(e)
        if t == "int":
            return g
        if t == "bool":
            return "(b2z %s)" % g
        self.err(e, "expected int/bool, got %s" % t)

    def as_bool(self, e):
        g, t = self.expr(e)
        if t == "bool":
            return g
        self.err(e, "expected bool operand, got %s (Python and/or/not on non-bools is not modelled)" % t)

    def expr(self, e):
        if isinstance(e, ast.Constant):
            if isinstance(e.value, bool):
                return ("true" if e.value else "false"), "bool"
            if isinstance(e.value, int):
                return "(%d)" % e.value, "int"
            self.err(e, "literal outside a test")
        if isinstance(e, ast.Name):
            t = self.types.get(e.id)
            if t in ("int", "bool"):
                return e.id, t
            self.err(e, "variable of type %s used as a value" % t)
        if isinstance(e, ast.UnaryOp):
            if isinstance(e.op, ast.Not):
                return "(negb %s)" % self.as_bool(e.operand), "bool"
            if isinstance(e.op, ast.USub):
                return "(- %s)" % self.as_int(e.operand), "int"
            self.err(e, "unary operator")
        if isinstance(e, ast.BinOp):
            op = {ast.Add: "+", ast.Sub: "-", ast.Mult: "*"}.get(type(e.op))
            if op is None:
                self.err(e, "binary operator")
            return "(%s %s %s)" % (self.as_int(e.left), op, self.as_int(e.right)), "int"
        if isinstance(e, ast.BoolOp):
            j = " || " if isinstance(e.op, ast.Or) else " && "
            return "(" + j.join(self.as_bool(v) for v in e.values) + ")", "bool"
        if isinstance(e, ast.Compare):
            if len(e.ops) != 1:
                self.err(e, "chained comparison")
            op, l, r = e.ops[0], e.left, e.comparators[0]
            if isinstance(op, ast.In):
                lit = lit_bytes(l)
                if lit is None or not isinstance(l.value, bytes):
                    self.err(e, "`in` needs a bytes literal on the left")
                v = self.bytes_var(r)
                g = "(contains %s %s)" % (coq_list(lit), v)
                if v in self.header_vars:
                    self.markers.append(g)
                return g, "bool"
            if isinstance(op, (ast.Eq, ast.NotEq)) and isinstance(l, ast.Subscript):
                lit = lit_bytes(r)
                sl = l.slice
                if lit is None or not isinstance(r.value, bytes) or not isinstance(sl, ast.Slice) or sl.step is not None:
                    self.err(e, "slice comparison shape")
                ab = []
                for b in (sl.lower, sl.upper):
                    if not (isinstance(b, ast.Constant) and isinstance(b.value, int) and not isinstance(b.value, bool) and b.value >= 0):
                        self.err(e, "slice bounds must be non-negative integer literals")
                    ab.append(b.value)
                v = self.bytes_var(l.value)
                g = "(list_eqb (zslice %d %d %s) %s)" % (ab[0], ab[1], v, coq_list(lit))
                if v in self.header_vars:
                    self.markers.append(g)
                if isinstance(op, ast.NotEq):
                    g = "(negb %s)" % g
                return g, "bool"
            cmpop = {ast.Lt: "<?", ast.LtE: "<=?", ast.Gt: ">?", ast.GtE: ">=?", ast.Eq: "=?"}.get(type(op))
            if cmpop:
                return "(%s %s %s)" % (self.as_int(l), cmpop, self.as_int(r)), "bool"
            if isinstance(op, ast.NotEq):
                return "(negb (%s =? %s))" % (self.as_int(l), self.as_int(r)), "bool"
            self.err(e, "comparison operator")
        if isinstance(e, ast.Call):
            if e.keywords:
                self.err(e, "keyword arguments")
            f = e.func
            if isinstance(f, ast.Attribute) and f.attr == "startswith" and len(e.args) == 1:
                v = self.bytes_var(f.value)
                lit = lit_bytes(e.args[0])
                if lit is None or not isinstance(e.args[0].value, bytes):
                    # a class constant such as HeaderObject.GUID
                    lit = self.const_bytes(e.args[0])
                if v in self.header_vars:
                    self.prefixes.append(lit)
                return "(starts_with %s %s)" % (coq_list(lit), v), "bool"
            if isinstance(f, ast.Name) and f.id == "endswith" and len(e.args) == 2:
                self.helper(e, "endswith", CANON_ENDSWITH)
                nm, low = self.name_expr(e.args[0])
                a = e.args[1]
                lits = [a] if not isinstance(a, ast.Tuple) else list(a.elts)
                if isinstance(a, ast.Tuple):
                    self.err(e, "_util.endswith does not accept a tuple")
                out = []
                for x in lits:
                    lit = lit_bytes(x)
                    if lit is None:
                        self.err(e, "endswith needs an ASCII literal")
                    self.exts.append((lit, low))
                    out.append("(ends_with %s %s)" % (coq_list(lit), nm))
                return ("(" + " || ".join(out) + ")" if len(out) > 1 else out[0]), "bool"
            if isinstance(f, ast.Name) and f.id == "int" and len(e.args) == 1 and self.repo.imported_from(self.mod, "int") is None:
                return self.as_int(e.args[0]), "int"
            if isinstance(f, ast.Name) and f.id == "bool" and len(e.args) == 1 and self.repo.imported_from(self.mod, "bool") is None:
                g, t = self.expr(e.args[0])
                return (g if t == "bool" else "(negb (%s =? 0))" % g), "bool"
            self.err(e, "call")
        self.err(e, "expression")

    def const_bytes(self, e):
        """`Cls.ATTR` where the class (of the same module or imported) assigns ATTR = bytes literal or
        guid2bytes("...")-free literal; only plain bytes literals are accepted"""
        if isinstance(e, ast.Attribute) and isinstance(e.value, ast.Name):
            try:
                m, d = self.repo.resolve(self.mod, e.value.id)
            except Unsupported as ex:
                self.err(e, "cannot resolve %s: %s" % (e.value.id, ex))
            if isinstance(d, ast.ClassDef):
                val = None
                for s in d.body:
                    if isinstance(s, ast.Assign) and any(isinstance(t, ast.Name) and t.id == e.attr for t in s.targets):
                        val = s.value
                if val is not None:
                    lit = lit_bytes(val)
                    if lit is not None and isinstance(val.value, bytes):
                        return lit
                    if isinstance(val, ast.Call) and isinstance(val.func, ast.Name) and val.func.id == "guid2bytes" \
                            and len(val.args) == 1 and isinstance(val.args[0], ast.Constant) and isinstance(val.args[0].value, str):
                        return self.guid2bytes(m, val)
        self.err(e, "startswith needs a bytes literal or a class constant bound to one")

    def guid2bytes(self, m, call):
        """mutagen.asf._util.guid2bytes on a literal: checked against the canonical shape, then evaluated here"""
        mm, d = self.repo.resolve(m, "guid2bytes")
        canon_src = '''
def guid2bytes(s):
    assert isinstance(s, str)
    assert len(s) == 36
    p = struct.pack
    return b"".join([
        p("<IHH", int(s[:8], 16), int(s[9:13], 16), int(s[14:18], 16)),
        p(">H", int(s[19:23], 16)),
        p(">Q", int(s[24:], 16))[2:],
    ])
'''
        if not isinstance(d, ast.FunctionDef) or shape(d) != shape(canon(canon_src)):
            self.err(call, "guid2bytes (in %s) does not have the shape this translator models" % mm)
        import struct
        s = call.args[0].value
        if len(s) != 36:
            self.err(call, "GUID literal length")
        return list(b"".join([struct.pack("<IHH", int(s[:8], 16), int(s[9:13], 16), int(s[14:18], 16)),
                              struct.pack(">H", int(s[19:23], 16)), struct.pack(">Q", int(s[24:], 16))[2:]]))

    # ----- statements -----
    def stmts(self, ss):
        if not ss:
            self.err(self.fn, "control reaches the end of score() without return")
        s, rest = ss[0], ss[1:]
        if isinstance(s, ast.Return):
            if rest:
                self.err(s, "code after return")
            if s.value is None:
                self.err(s, "bare return")
            return self.as_int(s.value)
        if isinstance(s, ast.Assign) and len(s.targets) == 1 and isinstance(s.targets[0], ast.Name):
            v = s.targets[0].id
            # filename = filename.lower()
            if isinstance(s.value, ast.Call) and isinstance(s.value.func, ast.Attribute) and s.value.func.attr == "lower":
                g, low = self.name_expr(s.value)
                self.types[v] = "name"
                self.lowered.add(v)
                return "(let %s := %s in\n   %s)" % (v, g, self.stmts(rest))
            if self.types.get(v) in ("name", "bytes"):
                self.err(s, "re-binding of %s" % v)
            g, t = self.expr(s.value)
            self.types[v] = t
            return "(let %s := %s in\n   %s)" % (v, g, self.stmts(rest))
        if isinstance(s, ast.AugAssign) and isinstance(s.target, ast.Name) and isinstance(s.op, (ast.Add, ast.Sub, ast.Mult)):
            v = s.target.id
            if self.types.get(v) not in ("int", "bool"):
                self.err(s, "augmented assignment to %s of type %s" % (v, self.types.get(v)))
            op = {ast.Add: "+", ast.Sub: "-", ast.Mult: "*"}[type(s.op)]
            cur = v if self.types[v] == "int" else "(b2z %s)" % v
            g = "(%s %s %s)" % (cur, op, self.as_int(s.value))
            self.types[v] = "int"
            return "(let %s := %s in\n   %s)" % (v, g, self.stmts(rest))
        if isinstance(s, ast.Try):
            return self.trailer_try(s, rest)
        self.err(s, "statement")

    def trailer_try(self, s, rest):
        ok = (len(s.body) == 2 and len(s.handlers) == 1 and not s.orelse and not s.finalbody)
        h = s.handlers[0] if ok else None
        ok = ok and isinstance(h.type, ast.Name) and h.type.id in ("IOError", "OSError", "EnvironmentError") and h.name is None
        ok = ok and len(h.body) == 1 and isinstance(h.body[0], ast.Return) and h.body[0].value is not None
        if ok:
            c, a = s.body
            ok = (isinstance(c, ast.Expr) and isinstance(c.value, ast.Call) and isinstance(c.value.func, ast.Name)
                  and c.value.func.id == "seek_end" and len(c.value.args) == 2 and not c.value.keywords
                  and isinstance(c.value.args[0], ast.Name) and c.value.args[0].id == self.fileobj
                  and isinstance(c.value.args[1], ast.Constant) and isinstance(c.value.args[1].value, int)
                  and not isinstance(c.value.args[1].value, bool) and c.value.args[1].value >= 0)
            ok = ok and (isinstance(a, ast.Assign) and len(a.targets) == 1 and isinstance(a.targets[0], ast.Name)
                         and isinstance(a.value, ast.Call) and isinstance(a.value.func, ast.Attribute)
                         and a.value.func.attr == "read" and not a.value.args and not a.value.keywords
                         and isinstance(a.value.func.value, ast.Name) and a.value.func.value.id == self.fileobj)
        if not ok or self.uses_trailer:
            self.err(s, "try statement is not the modelled trailer read "
                        "(try: seek_end(fileobj, N); v = fileobj.read()  except IOError: return K)")
        self.helper(s, "seek_end", CANON_SEEK_END, sub=(("get_size", CANON_GET_SIZE),))
        self.uses_trailer = True
        self.trailer_len = c.value.args[1].value
        v = a.targets[0].id
        if v in self.types:
            self.err(s, "re-binding of %s" % v)
        fail = self.as_int(h.body[0].value)
        self.types[v] = "bytes"
        return "(match trailer with\n   | None => %s\n   | Some %s =>\n   %s\n   end)" % (fail, v, self.stmts(rest))

    def translate(self):
        fn = self.fn
        a = fn.args
        if a.vararg or a.kwarg or a.kwonlyargs or a.defaults or getattr(a, "posonlyargs", []) or len(a.args) != 3:
            self.err(fn, "score signature")
        if not any(isinstance(d, ast.Name) and d.id == "staticmethod" for d in fn.decorator_list) or len(fn.decorator_list) != 1:
            self.err(fn, "score must be decorated with @staticmethod only")
        fname, self.fileobj, header = [x.arg for x in a.args]
        self.types[fname] = "name"
        self.types[header] = "bytes"
        self.header_vars.add(header)
        self.header_name, self.fname_name = header, fname
        for n in ast.walk(fn):
            if isinstance(n, ast.Name) and n.id == self.fileobj and isinstance(n.ctx, ast.Store):
                self.err(n, "file object re-bound")
        body = self.stmts(strip_doc(fn.body))
        return body


def file_options(repo):
    """-> (plain: [(local, module, class)], easy: {local: (module, class)}) from mutagen._file.File"""
    tree, path, _ = repo.parse("mutagen._file")
    fn = None
    for s in tree.body:
        if isinstance(s, ast.FunctionDef) and s.name == "File":
            fn = s
    if fn is None:
        raise Unsupported("%s: no function File" % path)
    if [a.arg for a in fn.args.args] != ["filething", "options", "easy"]:
        raise Unsupported("%s:%d: File signature changed" % (path, fn.lineno))
    body = strip_doc(fn.body)
    if not body or not isinstance(body[0], ast.If):
        raise Unsupported("%s:%d: File does not start with `if options is None:`" % (path, fn.lineno))
    blk = body[0]
    t = blk.test
    if not (isinstance(t, ast.Compare) and isinstance(t.left, ast.Name) and t.left.id == "options" and len(t.ops) == 1
            and isinstance(t.ops[0], ast.Is) and isinstance(t.comparators[0], ast.Constant) and t.comparators[0].value is None) or blk.orelse:
        raise Unsupported("%s:%d: expected `if options is None:`" % (path, blk.lineno))
    # the rest must be the selection code modelled by hand in coq/model/Score.v
    tail = canon(CANON_FILE_TAIL)
    if shape(body[1:]) != shape(tail.body):
        raise Unsupported("%s:%d: the selection code of File (after the default options) differs from the shape modelled in "
                          "coq/model/Score.v (read 128 bytes; results = [(score, __name__)]; sort; last; score > 0)" % (path, blk.lineno))
    plain, easy, opts = {}, {}, None

    def imp(s, *maps):
        if not isinstance(s, ast.ImportFrom) or s.level:
            raise Unsupported("%s:%d: unexpected statement in the default-options block" % (path, s.lineno))
        for a in s.names:
            for m in maps:
                m[a.asname or a.name] = (s.module, a.name)
    for s in blk.body:
        if isinstance(s, ast.ImportFrom):
            imp(s, plain, easy)
        elif isinstance(s, ast.If) and isinstance(s.test, ast.Name) and s.test.id == "easy":
            for x in s.body:
                imp(x, easy)
            for x in s.orelse:
                imp(x, plain)
        elif isinstance(s, ast.Assign) and len(s.targets) == 1 and isinstance(s.targets[0], ast.Name) and s.targets[0].id == "options" \
                and isinstance(s.value, ast.List) and all(isinstance(e, ast.Name) for e in s.value.elts) and opts is None:
            opts = [e.id for e in s.value.elts]
        else:
            raise Unsupported("%s:%d: unexpected statement in the default-options block" % (path, s.lineno))
    if not opts:
        raise Unsupported("%s: no `options = [...]` list in File" % path)
    for o in opts:
        if o not in plain or o not in easy:
            raise Unsupported("%s: option %s is not imported on both the easy and the plain path" % (path, o))
    return [(o,) + plain[o] for o in opts], {o: easy[o] for o in opts}


def find_score(repo, mod, clsname):
    """class `clsname` of module `mod` -> (defining module, defining class name, class __name__, score FunctionDef)"""
    m, c = repo.resolve(mod, clsname)
    if not isinstance(c, ast.ClassDef):
        raise Unsupported("%s.%s is not a class" % (mod, clsname))
    own = c.name
    for s in c.body:
        if isinstance(s, ast.Assign) and any(isinstance(t, ast.Name) and t.id in ("__name__", "__qualname__") for t in s.targets):
            raise Unsupported("%s.%s overrides __name__" % (m, c.name))
    hops = 0
    while True:
        sc = [s for s in c.body if isinstance(s, ast.FunctionDef) and s.name == "score"]
        others = [s for s in c.body if not isinstance(s, ast.FunctionDef) and any(
            isinstance(t, ast.Name) and t.id == "score" for t in getattr(s, "targets", []))]
        if others:
            raise Unsupported("%s.%s binds score by assignment" % (m, c.name))
        if len(sc) == 1:
            return m, c.name, own, sc[0]
        if len(sc) > 1:
            raise Unsupported("%s.%s defines score twice" % (m, c.name))
        if len(c.bases) != 1 or not isinstance(c.bases[0], ast.Name) or hops > 4:
            raise Unsupported("%s.%s has no score and no single named base class" % (m, c.name))
        m, c = repo.resolve(m, c.bases[0].id)
        if not isinstance(c, ast.ClassDef):
            raise Unsupported("base of %s is not a class" % clsname)
        hops += 1


def ident(s):
    if not s.isidentifier() or not s.isascii():
        raise Unsupported("class name %r is not a plain identifier" % s)
    return s


def generate(root):
    repo = Repo(root)
    plain, easy = file_options(repo)
    out = ["(* generated by py2v/gen_scores.py from %s -- do not edit *)" % "mutagen/_file.py (File) and the score() of every class in its options",
           "From Coq Require Import ZArith List Bool. Import ListNotations.",
           "Require Import Base.Py Model.ScorePrims.", "Open Scope bool_scope.", "Open Scope Z_scope.", ""]
    rows = []
    seen = set()
    trailer_len = None
    for local, mod, cname in plain:
        dm, dc, own, fn = find_score(repo, mod, cname)
        em, ec = easy[local]
        edm, edc, eown, efn = find_score(repo, em, ec)
        if (edm, edc) != (dm, dc):
            raise Unsupported("easy counterpart %s.%s of %s does not inherit %s.%s.score" % (em, ec, cname, dm, dc))
        ident(own), ident(eown)
        if own in seen:
            raise Unsupported("class name %s occurs twice in options" % own)
        seen.add(own)
        path = repo.parse(dm)[1]
        sc = Score(repo, dm, dc, fn, os.path.relpath(path, root))
        body = sc.translate()
        if sc.uses_trailer:
            if trailer_len not in (None, sc.trailer_len):
                raise Unsupported("two different trailer lengths (%s, %s)" % (trailer_len, sc.trailer_len))
            trailer_len = sc.trailer_len
        rows.append((own, eown, sc, body, os.path.relpath(path, root), fn.lineno))
    for own, eown, sc, body, path, line in rows:
        params = "(%s %s : list Z)" % (sc.fname_name, sc.header_name)
        if sc.uses_trailer:
            params += " (trailer : option (list Z))"
        out.append("(* %s:%d *)" % (path, line))
        out.append("Definition score_%s %s : Z :=\n  %s." % (own, params, body))
        # marker tests (sub-string / fixed-offset tests on the header), as a function of the header alone
        out.append("Definition markers_%s (%s : list Z) : list bool :=\n  [%s]." % (own, sc.header_name, "; ".join(sc.markers)))
        out.append("")
    names = [r[0] for r in rows]
    out.append("Inductive cls : Set := %s." % " | ".join("C_" + n for n in names))
    out.append("Definition options : list cls := [%s]." % "; ".join("C_" + n for n in names))
    out.append("Definition cls_name (c : cls) : list Z :=\n  match c with\n%s\n  end." % "\n".join(
        "  | C_%s => %s %s" % (n, coq_list(list(n.encode())), show(list(n.encode()))) for n in names))
    out.append("(* Kind.__name__ of the class File(easy=True) lists in the same position *)")
    out.append("Definition easy_name (c : cls) : list Z :=\n  match c with\n%s\n  end." % "\n".join(
        "  | C_%s => %s %s" % (r[0], coq_list(list(r[1].encode())), show(list(r[1].encode()))) for r in rows))
    out.append("Definition score_of (c : cls) (fname header : list Z) (trailer : option (list Z)) : Z :=\n  match c with\n%s\n  end." % "\n".join(
        "  | C_%s => score_%s fname header%s" % (r[0], r[0], " trailer" if r[2].uses_trailer else "") for r in rows))
    out.append("Definition markers_of (c : cls) (header : list Z) : list bool :=\n  match c with\n%s\n  end." % "\n".join(
        "  | C_%s => markers_%s header" % (n, n) for n in names))

    def uniq(ls):
        o = []
        for x in ls:
            if x not in o:
                o.append(x)
        return o
    out.append("(* literals of header.startswith per class; extensions tested on the lower-cased / raw file name *)")
    out.append("Definition prefixes_of (c : cls) : list (list Z) :=\n  match c with\n%s\n  end." % "\n".join(
        "  | C_%s => [%s]" % (r[0], "; ".join(coq_list(p) for p in uniq(r[2].prefixes))) for r in rows))
    out.append("Definition exts_of (c : cls) : list (list Z) :=\n  match c with\n%s\n  end." % "\n".join(
        "  | C_%s => [%s]" % (r[0], "; ".join(coq_list(p) for p in uniq([e for e, low in r[2].exts]))) for r in rows))
    out.append("Definition raw_exts_of (c : cls) : list (list Z) :=\n  match c with\n%s\n  end." % "\n".join(
        "  | C_%s => [%s]" % (r[0], "; ".join(coq_list(p) for p in uniq([e for e, low in r[2].exts if not low]))) for r in rows))
    out.append("Definition trailer_len : Z := %d." % (trailer_len if trailer_len is not None else 0))
    out.append("Definition header_len : Z := 128.")
    out.append("Definition cls_of_name (n : list Z) : option cls := find (fun c => list_eqb (cls_name c) n) options.")
    out.append("Definition score_by_name (n fname header : list Z) (trailer : option (list Z)) : option Z :=\n"
               "  match cls_of_name n with Some c => Some (score_of c fname header trailer) | None => None end.")
    out.append("Definition option_names : list (list Z) := map cls_name options.")
    out.append("Definition option_easy_names : list (list Z) := map easy_name options.")
    out.append("Create HintDb scores.")
    out.append("#[global] Hint Unfold %s : scores." % " ".join("score_%s markers_%s" % (n, n) for n in names))
    out.append("(* EXTRACT: score_by_name score_of cls_of_name cls_name easy_name options option_names option_easy_names trailer_len header_len markers_of *)")
    return "\n".join(out) + "\n"


def generators(repo):
    return {"Gen_scores.v": lambda: generate(repo)}


if __name__ == "__main__":
    import sys
    print(generate(sys.argv[1] if len(sys.argv) > 1 else "/repo"))
