"""py2v generator for C12: dump the LIVE ID3 frame registry of the repo (mutagen.id3.Frames / Frames_2_2:
class name, base-class chain, _framespec / _optionalspec as (spec kind, field name, parameters)) into
coq/gen/Gen_frames.v as a `list frame_desc` over Model.Id3Spec.spec_kind.  Fail-closed: an unknown Spec
class, a Spec subclass defined outside mutagen.id3._specs, a MultiSpec nesting another MultiSpec, or a
frame class that overrides _readData/_writeData/_fromData raises (run.py then writes a stub that does not
compile, so the C12 obligations are reported broken)."""
import os, sys, json, subprocess

_PROBE = r'''
import json, sys
import mutagen.id3 as I
import mutagen.id3._specs as S
import mutagen.id3._frames as F
def spec(s):
    t = type(s)
    if t.__module__ != "mutagen.id3._specs":
        raise SystemExit("spec class %s.%s is not defined in mutagen.id3._specs" % (t.__module__, t.__name__))
    d = {"cls": t.__name__, "name": s.name}
    for meth in ("read", "write"):
        owner = [k for k in t.__mro__ if meth in k.__dict__][0]
        d[meth + "_owner"] = owner.__name__
    if t.__name__ == "SizedIntegerSpec":
        d["size"] = s._SizedIntegerSpec__sz
    if t.__name__ in ("StringSpec", "FrameIDSpec"):
        d["size"] = s.len
    if t.__name__ == "RVASpec":
        d["max"] = s._max_values
    if t.__name__ == "MultiSpec":
        d["subs"] = [spec(x) for x in s.specs]
    d["handle_nodata"] = bool(s.handle_nodata)
    return d
out = {}
for reg in ("Frames", "Frames_2_2"):
    l = []
    for name, cls in sorted(getattr(I, reg).items()):
        if cls.__name__ != name:
            raise SystemExit("registry key %s != class name %s" % (name, cls.__name__))
        for meth in ("_readData", "_writeData", "_get_v23_frame"):
            if getattr(cls, meth) is not getattr(F.Frame, meth):
                raise SystemExit("%s overrides %s" % (name, meth))
        if cls._fromData.__func__ is not F.Frame._fromData.__func__:
            raise SystemExit("%s overrides _fromData" % name)
        l.append({"id": name,
                  "bases": [c.__name__ for c in cls.__mro__[1:] if c is not object],
                  "spec": [spec(s) for s in cls._framespec],
                  "opt": [spec(s) for s in cls._optionalspec]})
    out[reg] = l
out["handle_nodata_classes"] = sorted(k for k, v in vars(S).items()
                                      if isinstance(v, type) and issubclass(v, S.Spec) and v.handle_nodata)
print(json.dumps(out))
'''

SIMPLE = {
    "ByteSpec": "KByte", "EncodingSpec": "KEncoding", "PictureTypeSpec": "KPictureType",
    "CTOCFlagsSpec": "KCTOCFlags", "ChannelSpec": "KChannel", "IntegerSpec": "KInteger",
    "Latin1TextSpec": "KLatin1Text", "EncodedTextSpec": "KEncodedText",
    "EncodedNumericTextSpec": "KEncodedNumericText", "EncodedNumericPartTextSpec": "KEncodedNumericPartText",
    "TimeStampSpec": "KTimeStamp", "BinaryDataSpec": "KBinaryData", "VolumeAdjustmentSpec": "KVolumeAdjustment",
    "VolumePeakSpec": "KVolumePeak", "SynchronizedTextSpec": "KSynchronizedText", "KeyEventSpec": "KKeyEvent",
    "VolumeAdjustmentsSpec": "KVolumeAdjustments", "ASPIIndexSpec": "KASPIIndex", "ID3FramesSpec": "KID3Frames",
    "Latin1TextListSpec": "KLatin1TextList",
}
# which class must own read/write of each Spec class (a moved/overridden method changes the model's meaning)
OWNERS = {
    "ByteSpec": ("ByteSpec", "ByteSpec"), "EncodingSpec": ("EncodingSpec", "ByteSpec"),
    "PictureTypeSpec": ("PictureTypeSpec", "ByteSpec"), "CTOCFlagsSpec": ("CTOCFlagsSpec", "ByteSpec"),
    "ChannelSpec": ("ByteSpec", "ByteSpec"), "IntegerSpec": ("IntegerSpec", "IntegerSpec"),
    "SizedIntegerSpec": ("SizedIntegerSpec", "SizedIntegerSpec"), "StringSpec": ("StringSpec", "StringSpec"),
    "FrameIDSpec": ("StringSpec", "StringSpec"), "Latin1TextSpec": ("Latin1TextSpec", "Latin1TextSpec"),
    "EncodedTextSpec": ("EncodedTextSpec", "EncodedTextSpec"),
    "EncodedNumericTextSpec": ("EncodedTextSpec", "EncodedTextSpec"),
    "EncodedNumericPartTextSpec": ("EncodedTextSpec", "EncodedTextSpec"),
    "TimeStampSpec": ("TimeStampSpec", "TimeStampSpec"), "BinaryDataSpec": ("BinaryDataSpec", "BinaryDataSpec"),
    "VolumeAdjustmentSpec": ("VolumeAdjustmentSpec", "VolumeAdjustmentSpec"),
    "VolumePeakSpec": ("VolumePeakSpec", "VolumePeakSpec"),
    "SynchronizedTextSpec": ("SynchronizedTextSpec", "SynchronizedTextSpec"),
    "KeyEventSpec": ("KeyEventSpec", "KeyEventSpec"),
    "VolumeAdjustmentsSpec": ("VolumeAdjustmentsSpec", "VolumeAdjustmentsSpec"),
    "ASPIIndexSpec": ("ASPIIndexSpec", "ASPIIndexSpec"), "RVASpec": ("RVASpec", "RVASpec"),
    "ID3FramesSpec": ("ID3FramesSpec", "ID3FramesSpec"), "Latin1TextListSpec": ("Latin1TextListSpec", "Latin1TextListSpec"),
    "MultiSpec": ("MultiSpec", "MultiSpec"),
}


def zl(s):
    return "[" + ";".join(str(ord(c)) for c in s) + "]"


def prim(d):
    c = d["cls"]
    if OWNERS.get(c) != (d["read_owner"], d["write_owner"]):
        raise ValueError("spec class %s: read/write now defined by %s/%s" % (c, d["read_owner"], d["write_owner"]))
    want_nodata = c in ("BinaryDataSpec", "ID3FramesSpec")
    if d["handle_nodata"] != want_nodata:
        raise ValueError("spec class %s: handle_nodata is %r" % (c, d["handle_nodata"]))
    if c in SIMPLE:
        return SIMPLE[c]
    if c == "SizedIntegerSpec":
        return "(KSizedInteger %d)" % d["size"]
    if c == "StringSpec":
        return "(KString %d)" % d["size"]
    if c == "FrameIDSpec":
        return "(KFrameID %d)" % d["size"]
    if c == "RVASpec":
        if d["max"] not in (4, 12):
            raise ValueError("RVASpec max values %r" % d["max"])
        return "(KRVA %s)" % ("true" if d["max"] == 4 else "false")
    raise ValueError("unknown Spec class %s (field %s)" % (c, d["name"]))


def kind(d):
    if d["cls"] == "MultiSpec":
        if OWNERS["MultiSpec"] != (d["read_owner"], d["write_owner"]) or d["handle_nodata"]:
            raise ValueError("MultiSpec changed")
        for s in d["subs"]:
            if s["cls"] == "MultiSpec":
                raise ValueError("nested MultiSpec in field %s" % d["name"])
        return "(KMulti [%s])" % "; ".join(prim(s) for s in d["subs"])
    return "(KPrim %s)" % prim(d)


def fields(l):
    return "[" + ";\n     ".join("mkField (* %s *) %s %s" % (d["name"], zl(d["name"]), kind(d)) for d in l) + "]"


def probe(repo):
    env = dict(os.environ, PYTHONPATH=repo, PYTHONDONTWRITEBYTECODE="1")
    p = subprocess.run([sys.executable, "-c", _PROBE], env=env, stdout=subprocess.PIPE, stderr=subprocess.PIPE,
                       text=True, timeout=120, cwd="/")
    if p.returncode != 0:
        raise RuntimeError("registry probe failed: " + (p.stderr or p.stdout)[-400:])
    return json.loads(p.stdout.strip().splitlines()[-1])


def gen(repo):
    reg = probe(repo)
    if reg["handle_nodata_classes"] != ["BinaryDataSpec", "ID3FramesSpec"]:
        raise ValueError("handle_nodata classes changed: %r" % reg["handle_nodata_classes"])
    out = ["(* generated by py2v/gen_frames.py from the live registry mutagen.id3.Frames / Frames_2_2 -- do not edit *)",
           "From Coq Require Import ZArith List.", "Import ListNotations.", "Require Import Model.Id3Spec.",
           "Open Scope Z_scope.", ""]
    for regname in ("Frames", "Frames_2_2"):
        for fr in reg[regname]:
            if not fr["id"].isascii() or not fr["id"].isalnum():
                raise ValueError("frame id %r" % fr["id"])
            out.append("Definition fr_%s : frame_desc :=\n  mkFrame (* %s *) %s\n    [%s]\n    %s\n    %s." % (
                fr["id"], fr["id"], zl(fr["id"]),
                "; ".join("(* %s *) %s" % (b, zl(b)) for b in fr["bases"]),
                fields(fr["spec"]), fields(fr["opt"])))
    out.append("")
    out.append("Definition all_frames : list frame_desc :=\n  [%s]." % "; ".join("fr_" + f["id"] for f in reg["Frames"]))
    out.append("Definition frames_2_2 : list frame_desc :=\n  [%s]." % "; ".join("fr_" + f["id"] for f in reg["Frames_2_2"]))
    out.append("(* EXTRACT: all_frames frames_2_2 *)")
    return "\n".join(out) + "\n"


def generators(repo):
    return {"Gen_frames.v": lambda: gen(repo)}


if __name__ == "__main__":
    sys.stdout.write(gen(sys.argv[1] if len(sys.argv) > 1 else "/repo"))
