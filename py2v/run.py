#!/usr/bin/env python3
"""Regenerate coq/gen/*.v from /repo's current working tree.  Fail-closed: a generator that cannot
translate its source writes a stub that does not compile (so the obligation is reported broken) and
the status JSON printed on stdout names the error.  A file is rewritten only if its text changed."""
import os, sys, json, importlib, traceback
HERE = os.path.dirname(os.path.abspath(__file__))
sys.path.insert(0, HERE)
REPO = os.environ.get("VERIF_REPO", "/repo")
GEN = os.path.join(os.path.dirname(HERE), "coq", "gen")

def write_if_changed(path, text):
    old = open(path).read() if os.path.exists(path) else None
    if old != text:
        with open(path, "w") as f:
            f.write(text)
        return True
    return False

def generators():
    import py2v_util
    g = {}
    g["Gen_util.v"] = lambda: py2v_util.translate_module(
        os.path.join(REPO, "mutagen/_util.py"),
        ["resize_file", "move_bytes", "insert_bytes", "delete_bytes", "resize_bytes"])
    for modname in ("gen_pure", "gen_tables", "gen_scores", "gen_frames"):
        try:
            m = importlib.import_module(modname)
        except ModuleNotFoundError:
            continue
        g.update(m.generators(REPO))
    return g

def main(only=None):
    os.makedirs(GEN, exist_ok=True)
    status = {}
    for name, fn in generators().items():
        if only and name not in only:
            continue
        path = os.path.join(GEN, name)
        try:
            text = fn()
            changed = write_if_changed(path, text)
            status[name] = {"ok": True, "changed": changed}
        except Exception as e:
            stub = "(* py2v FAILED: %s *)\nDefinition py2v_failed : False := I.\n" % str(e).replace("*)", "* )")
            write_if_changed(path, stub)
            status[name] = {"ok": False, "error": str(e), "trace": traceback.format_exc()[-800:]}
    print(json.dumps(status))
    return 0

if __name__ == "__main__":
    sys.exit(main(set(sys.argv[1:]) or None))
