#!/bin/bash
# seedall.sh [jobs] : re-validate every seeded change of seeded/ against the current checks (development aid).
# Each seed runs in its own scratch worktree of /repo and its own private copy of /verif (see seedcheck.sh); results
# land in /tmp/seedres/<id>_<k>.txt and a summary in /tmp/seedres/final.txt; harness/seedmeta.py then records them
# in seeded/*/meta.json and harness/mkdesign.py regenerates the table of DESIGN.md Appendix E.
cd "$(dirname "$0")"
jobs=${1:-3}
mkdir -p /tmp/seedres
: > /tmp/seedres/final.txt
ls -d seeded/C*_* | sed 's/seeded\///' | sort | while read s; do echo "${s%_*} ${s#*_}"; done > /tmp/seedres/todo.txt
run_one() {
  id=$1; k=$2
  extra=""
  # seeds whose changed code belongs to another property's check are also run against that check
  case "${id}_$k" in C14_5) extra="C14 C12";; C03_3) extra="C03 C10";; C08_12) extra="C08 C10";; C01_11) extra="C01 C12";; C06_12) extra="C06 C08";; esac
  /verif/seedcheck.sh $id $k $extra > /dev/null 2>&1
  echo "== $id/$k: $(grep -v '^suite\|^demo\|^VIOLATION' /tmp/seedres/${id}_$k.txt | tr '\n' ' ' | cut -c1-400)" >> /tmp/seedres/final.txt
}
export -f run_one
xargs -P $jobs -L 1 bash -c 'run_one $0 $1' < /tmp/seedres/todo.txt
echo ALLDONE >> /tmp/seedres/final.txt
