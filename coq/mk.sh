#!/bin/bash
# (re)create _CoqProject and Makefile from the files present; then run make with the given targets
cd "$(dirname "$0")"
# the lock only protects the regeneration of _CoqProject/Makefile; make itself runs unlocked
exec 9>.mklock; flock 9
{
  echo "-Q base Base"; echo "-Q gen Gen"; echo "-Q model Model"; echo "-Q proofs Proofs"; echo "-Q props Props"
  find base gen model proofs props -name '*.v' | sort
} > _CoqProject.new
if ! cmp -s _CoqProject.new _CoqProject; then mv _CoqProject.new _CoqProject; coq_makefile -f _CoqProject -o Makefile >/dev/null; else rm _CoqProject.new; fi
[ -f Makefile ] || coq_makefile -f _CoqProject -o Makefile >/dev/null
flock -u 9; exec 9>&-
# memory guard: a runaway coqc must not take the machine down
ulimit -v ${VERIF_COQ_MEM_KB:-25000000} 2>/dev/null
# deep proof terms / vm_compute on long lists need a large stack
ulimit -s unlimited 2>/dev/null || ulimit -s 4000000 2>/dev/null
exec timeout ${VERIF_MAKE_TIMEOUT:-1500} make -j${VERIF_JOBS:-16} "$@"
