(* Model.Fam_iff: the IFF chunk carriers of an ID3v2 tag -- AIFF (FORM, big-endian 32-bit sizes, chunk "ID3 "),
   WAVE (RIFF, little-endian 32-bit sizes, chunk "id3 ", an existing "ID3 " is accepted) and DSDIFF (FRM8,
   big-endian 64-bit sizes, 12-byte chunk headers, chunk "ID3 ") -- as ONE executable reference model,
   parametric in a `flavour` record.  Anchors: mutagen/_iff.py, _riff.py, aiff.py, wave.py, dsdiff.py.
   DEFINITIONS ONLY.  Bytes are list Z.  The ID3v2 tag is opaque: iff_save takes the tag bytes that
   ID3._prepare_data rendered (header + frames + padding); iff_save_cb (C09) composes it with
   Model.Fam_carrier.id3_prepare.  Two readers live here on purpose:
     - the STRICT, independent one written from the format layout (parse_chunks, iff_parse, iff_wf, iff_load):
       root id, root size = file extent, form type, sub-chunks tile the root exactly, every odd chunk is followed
       by its pad byte, ids printable without leading space, size fields are bytes;
     - the MIRROR of mutagen's lenient code (mut_id, mut_header, mut_walk = IffContainerChunkMixin.subchunks,
       mut_root = IffFile.__init__ + AIFFFile/RiffFile/_WaveFile/DSDIFFFile, insert_new = insert_chunk,
       resize_write = IffChunk.resize + _update_size + write, iff_save = IffID3.save / _WaveID3.save,
       iff_delete = IffChunk.delete + _remove_subchunk behind IffID3.delete and the module-level delete functions).
   Nested containers (RIFF LIST, DSDIFF PROP / DST, a FORM inside a FORM) are leaves at the top level -- the ID3 chunk
   is always a direct child of the root -- except for what their constructor does while the root's children are
   walked (init_container: data_size < 4 ends the walk, a non-ASCII container name raises). *)
From Coq Require Import ZArith List Bool.
Import ListNotations.
Require Import Base.Py Model.Splice Model.Fam_carrier.
Open Scope Z_scope.

Record flavour := mkFl {
  fl_root : list Z;          (* id of the root chunk as stored: FORM / RIFF / FRM8 *)
  fl_le : bool;              (* little-endian size fields (RIFF) *)
  fl_w : nat;                (* width of a size field in bytes: 4, DSDIFF 8 *)
  fl_new : list Z;           (* id written by insert_chunk: "ID3 " (AIFF, DSDIFF), "id3 " (WAVE) *)
  fl_ids : list (list Z);    (* right-stripped ids under which the tag chunk is looked up *)
  fl_type : list Z;          (* form type the loader insists on ("WAVE"); [] = any *)
  fl_cont : list (list Z)    (* right-stripped ids of sub-chunks constructed as named containers *)
}.

Definition s_FORM := [70; 79; 82; 77].   Definition s_RIFF := [82; 73; 70; 70].
Definition s_FRM8 := [70; 82; 77; 56].   Definition s_LIST := [76; 73; 83; 84].
Definition s_PROP := [80; 82; 79; 80].   Definition s_WAVE := [87; 65; 86; 69].
Definition s_ID3 := [73; 68; 51].        Definition s_id3 := [105; 100; 51].

Definition aiff : flavour := mkFl s_FORM false 4 (s_ID3 ++ [32]) [s_ID3] [] [s_FORM].
Definition wave : flavour := mkFl s_RIFF true 4 (s_id3 ++ [32]) [s_ID3; s_id3] s_WAVE [s_LIST; s_RIFF].
Definition dsdiff : flavour := mkFl s_FRM8 false 8 (s_ID3 ++ [32]) [s_ID3] [] [s_FRM8; s_PROP].

Section Flavour.
Variable fl : flavour.

Definition hsize : Z := 4 + Z.of_nat (fl_w fl).                 (* HEADER_SIZE *)
Definition enc (v : Z) : list Z := if fl_le fl then le_encode (fl_w fl) v else be_encode (fl_w fl) v.
Definition dec (bs : list Z) : Z := if fl_le fl then le_decode bs else be_decode bs.
(* struct.pack('>I' / '<I' / '>Q', v) succeeds *)
Definition fits (v : Z) : bool := (0 <=? v) && (v <? 256 ^ Z.of_nat (fl_w fl)).

(* ------------------------------------------------------------------ chunk ids *)
(* str.rstrip() on an ASCII string: \t \n \v \f \r, FS GS RS US, space *)
Definition is_space (c : Z) : bool := (c =? 32) || ((9 <=? c) && (c <=? 13)) || ((28 <=? c) && (c <=? 31)).
Fixpoint rstrip (l : list Z) : list Z :=
  match l with
  | [] => []
  | c :: r => match rstrip r with
              | [] => if is_space c then [] else [c]
              | r' => c :: r'
              end
  end.
Definition ascii (l : list Z) : bool := forallb (fun b => b <? 128) l.         (* bytes.decode('ascii') succeeds *)
Definition printable (c : Z) : bool := (32 <=? c) && (c <=? 126).
(* is_valid_chunk_id(id): 0 < len(id) <= 4 and min(id) >= ' ' and max(id) <= '~' *)
Definition valid_chunk_id (id : list Z) : bool :=
  (0 <? zlen id) && (zlen id <=? 4) && forallb printable id.
(* IffChunk.parse: id.decode('ascii').rstrip() checked by is_valid_chunk_id; None = InvalidChunk *)
Definition mut_id (raw : list Z) : option (list Z) :=
  if negb (ascii raw) then None else
  let id := rstrip raw in
  if valid_chunk_id id then Some id else None.
Definition id_in (id : list Z) (ids : list (list Z)) : bool := existsb (list_eqb id) ids.
(* the raw 4-byte id names the tag chunk / a named container *)
Definition is_id3 (raw : list Z) : bool := id_in (rstrip raw) (fl_ids fl).
Definition is_cont (raw : list Z) : bool := id_in (rstrip raw) (fl_cont fl).

(* strict: four printable characters, no leading space (EA IFF 85) *)
Definition sid_ok (raw : list Z) : bool :=
  (zlen raw =? 4) && forallb printable raw && negb (znth 0 raw =? 32).

(* ------------------------------------------------------------------ structure, rendering *)
Record chunk := mkChunk { cid : list Z; cdata : list Z; cpad : list Z }.
Record iff_struct := mkIff { s_name : list Z; s_chunks : list chunk }.

Definition render_chunk (c : chunk) : list Z := cid c ++ enc (zlen (cdata c)) ++ cdata c ++ cpad c.
Fixpoint render_chunks (cs : list chunk) : list Z :=
  match cs with [] => [] | c :: r => render_chunk c ++ render_chunks r end.
Definition iff_render (s : iff_struct) : list Z :=
  fl_root fl ++ enc (zlen (s_name s) + zlen (render_chunks (s_chunks s))) ++ s_name s ++ render_chunks (s_chunks s).

(* a named container child must have room for its name, and the name must be ASCII *)
Definition cont_ok (c : chunk) : bool :=
  if is_cont (cid c) then (4 <=? zlen (cdata c)) && ascii (ztake 4 (cdata c)) else true.
Definition chunk_ok (c : chunk) : bool :=
  sid_ok (cid c) && fits (zlen (cdata c)) && (zlen (cpad c) =? zlen (cdata c) mod 2) && cont_ok c.
Definition name_ok (n : list Z) : bool :=
  (zlen n =? 4) && ascii n && (match fl_type fl with [] => true | t => list_eqb n t end).
Definition struct_ok (s : iff_struct) : bool :=
  name_ok (s_name s) && forallb chunk_ok (s_chunks s) && fits (4 + zlen (render_chunks (s_chunks s))).

(* builder of synthetic layouts: chunks given as (id, payload), pad bytes zero *)
Definition build_chunk (ip : list Z * list Z) : chunk := mkChunk (fst ip) (snd ip) (zeros (zlen (snd ip) mod 2)).
Definition iff_build (name : list Z) (cs : list (list Z * list Z)) : list Z :=
  iff_render (mkIff name (map build_chunk cs)).

(* ------------------------------------------------------------------ strict reader *)
Fixpoint parse_chunks (fuel : nat) (b : list Z) : result (list chunk) :=
  match fuel with
  | O => Raise EOutOfFuel
  | S k =>
    if zlen b =? 0 then Ok [] else
    if zlen b <? hsize then Raise EMutagen else
    let szf := zslice 4 hsize b in
    if negb (all_bytes szf) then Raise EMutagen else
    let ds := dec szf in
    let tot := ds + ds mod 2 in
    if zlen b <? hsize + tot then Raise EMutagen else
    let c := mkChunk (ztake 4 b) (zslice hsize (hsize + ds) b) (zslice (hsize + ds) (hsize + tot) b) in
    if negb (chunk_ok c) then Raise EMutagen else
    rbind (parse_chunks k (zdrop (hsize + tot) b)) (fun cs => Ok (c :: cs))
  end.

Definition iff_parse (f : list Z) : result iff_struct :=
  if zlen f <? hsize + 4 then Raise EMutagen else
  if negb (list_eqb (ztake 4 f) (fl_root fl)) then Raise EMutagen else
  let szf := zslice 4 hsize f in
  if negb (all_bytes szf) then Raise EMutagen else
  if negb (hsize + dec szf =? zlen f) then Raise EMutagen else          (* root size = file extent *)
  let name := zslice hsize (hsize + 4) f in
  if negb (name_ok name) then Raise EMutagen else
  rbind (parse_chunks (S (length f)) (zdrop (hsize + 4) f)) (fun cs => Ok (mkIff name cs)).

Definition iff_wf (f : list Z) : bool := is_ok (iff_parse f).

(* the chunk list around the first tag chunk *)
Fixpoint split_id3 (cs : list chunk) : option (list chunk * chunk * list chunk) :=
  match cs with
  | [] => None
  | c :: r => if is_id3 (cid c) then Some ([], c, r) else
              match split_id3 r with
              | Some (pre, x, post) => Some (c :: pre, x, post)
              | None => None
              end
  end.
(* C02: everything that is not the tag chunk, in order *)
Definition others (cs : list chunk) : list chunk :=
  match split_id3 cs with Some (pre, _, post) => pre ++ post | None => cs end.
Definition count_id3 (cs : list chunk) : Z := zlen (filter (fun c => is_id3 (cid c)) cs).

(* independent reader of the tag bytes: payload of the first ID3 chunk *)
Definition iff_load (f : list Z) : result (option (list Z)) :=
  rbind (iff_parse f) (fun s =>
  Ok (match split_id3 (s_chunks s) with Some (_, c, _) => Some (cdata c) | None => None end)).

(* ------------------------------------------------------------------ mirror of mutagen's reader *)
Inductive hdr := HStop | HErr | HChunk (raw : list Z) (ds : Z).
(* IffChunk.parse(fileobj, parent) + the constructor of the class get_class(id) selects, on the bytes b that
   start at next_offset.  HStop: EmptyChunk / InvalidChunk (the walk ends); HErr: error (escapes) *)
Definition mut_header (b : list Z) : hdr :=
  if zlen b <? hsize then HStop else
  let raw := ztake 4 b in
  match mut_id raw with
  | None => HStop
  | Some _ =>
    let ds := dec (zslice 4 hsize b) in
    if is_cont raw then
      if ds <? 4 then HStop                                     (* 'Container chunk data size < 4' *)
      else if negb (ascii (zslice hsize (hsize + 4) b)) then HErr  (* name .decode('ascii') *)
      else HChunk raw ds
    else HChunk raw ds
  end.

Record centry := mkCe { ce_off : Z; ce_id : list Z; ce_ds : Z }.   (* offset, raw id, data_size *)
Definition ce_size (e : centry) : Z := hsize + ce_ds e + ce_ds e mod 2.   (* _calculate_size *)

(*  next_offset = self.data_offset + self.__name_size
    while next_offset < self.offset + self.size:
        try: chunk = self.parse_next_subchunk()
        except EmptyChunk / InvalidChunk: break
        next_offset = chunk.offset + chunk.size                                    (b = file[next_offset:]) *)
Fixpoint mut_walk (fuel : nat) (off endoff : Z) (b : list Z) : result (list centry) :=
  match fuel with
  | O => Raise EOutOfFuel
  | S k =>
    if negb (off <? endoff) then Ok [] else
    match mut_header b with
    | HStop => Ok []
    | HErr => Raise EMutagen
    | HChunk raw ds =>
      let e := mkCe off raw ds in
      (* file[next_offset:] -- a seek past EOF reads nothing (written so that a huge declared size is never counted out) *)
      let rest := if zlen b <? ce_size e then [] else zdrop (ce_size e) b in
      rbind (mut_walk k (off + ce_size e) endoff rest) (fun es => Ok (e :: es))
    end
  end.

(* IffFile.__init__ / AIFFFile / RiffFile / _WaveFile / DSDIFFFile: the root chunk's data_size *)
Definition mut_root (f : list Z) : result Z :=
  if zlen f <? hsize then Raise EMutagen else                               (* EmptyChunk *)
  match mut_id (ztake 4 f) with
  | None => Raise EMutagen
  | Some id =>
    if negb (list_eqb id (rstrip (fl_root fl))) then Raise EMutagen else    (* root must be FORM / RIFF / FRM8 *)
    let ds := dec (zslice 4 hsize f) in
    if ds <? 4 then Raise EMutagen else
    let name := zslice hsize (hsize + 4) f in
    if negb (ascii name) then Raise EMutagen else
    if negb (match fl_type fl with [] => true | t => list_eqb name t end) then Raise EMutagen else
    Ok ds
  end.

Definition mut_chunks (f : list Z) (rds : Z) : result (list centry) :=
  mut_walk (S (length f)) (hsize + 4) (hsize + rds + rds mod 2) (zdrop (hsize + 4) f).
Definition find_id3 (es : list centry) : option centry := find (fun e => is_id3 (ce_id e)) es.

(* ------------------------------------------------------------------ mirror of mutagen's writers *)
(* IffChunk.resize(len(data)) ; IffChunk.write(data) on the child e of the root (data_size rds):
     old_size = min(data_size + padding, file_size - data_offset)
     resize_bytes(fileobj, old_size, new + new % 2, data_offset)
     _update_size: data_size = new; seek(offset + 4); write_size()      -> struct.error beyond the field width
                   parent._update_size(self.size - old_size)            -> the root's size field at offset 4
                                                                          (InvalidChunk if it would become negative)
     write: seek(data_offset); write(data); pad byte b'\x00' at data_offset + data_size *)
Definition resize_write (f : list Z) (rds : Z) (e : centry) (data : list Z) : result (list Z) :=
  let data_offset := ce_off e + hsize in
  let old_size := Z.min (ce_ds e + ce_ds e mod 2) (zlen f - data_offset) in
  let new := zlen data in
  let f1 := splice f data_offset old_size (data ++ zeros (new mod 2)) in
  if negb (fits new) then Raise EStruct else
  let rds' := rds + ((hsize + new + new mod 2) - ce_size e) in
  if rds' <? 0 then Raise EMutagen else                       (* _update_size: InvalidChunk("Invalid chunk size") *)
  if negb (fits rds') then Raise EStruct else
  Ok (patch (patch f1 (ce_off e + 4) (enc new)) 4 (enc rds')).

(* IffContainerChunkMixin.insert_chunk(id) on the root, data=None:
     next_offset = data_offset + min(data_size + padding, file_size - data_offset)
     insert_bytes(fileobj, HEADER_SIZE, next_offset); write_new_header(id.ljust(4), 0)
     self._update_size(chunk.size)                                       -> root data_size += HEADER_SIZE *)
Definition insert_new (f : list Z) (rds : Z) : result (list Z * Z * centry) :=
  let next := hsize + Z.min (rds + rds mod 2) (zlen f - hsize) in
  let f1 := splice f next 0 (fl_new fl ++ enc 0) in
  if negb (fits (rds + hsize)) then Raise EStruct else
  Ok (patch f1 4 (enc (rds + hsize)), rds + hsize, mkCe next (fl_new fl) 0).

(* where the tag will live and what _prepare_data is told: (file, root data_size, chunk entry) after the chunk
   has been created if it was missing *)
Definition iff_target (f : list Z) : result (list Z * Z * centry) :=
  rbind (mut_root f) (fun rds =>
  rbind (mut_chunks f rds) (fun es =>
  match find_id3 es with
  | Some e => Ok (f, rds, e)
  | None => insert_new f rds
  end)).

(* IffID3.save / _WaveID3.save with the tag bytes _prepare_data returned *)
Definition iff_save (f : list Z) (tag : list Z) : result (list Z) :=
  rbind (iff_target f) (fun t => match t with (f1, rds, e) => resize_write f1 rds e tag end).

(* the same with _prepare_data modelled (C09): available = chunk.data_size, start = chunk.data_offset *)
Definition iff_padinfo (t : list Z * Z * centry) (framedata : list Z) : Z * Z :=
  match t with (f1, _, e) => pad_info framedata (ce_ds e) (trailing_size (zlen f1) (ce_off e + hsize) (ce_ds e)) end.
Definition iff_save_cb (f : list Z) (framedata : list Z) (v2_version : Z) (cb : Z -> Z -> Z) : result (list Z) :=
  rbind (iff_target f) (fun t => match t with (f1, rds, e) =>
  rbind (id3_prepare framedata v2_version cb (ce_ds e) (trailing_size (zlen f1) (ce_off e + hsize) (ce_ds e))) (fun tag =>
  resize_write f1 rds e tag) end).

(* IffChunk.delete of the first tag chunk (KeyError when absent: nothing happens):
     delete_bytes(fileobj, self.size, self.offset)      -> InvalidChunk when the chunk overruns the file
     parent._update_size(-self.size)                    -> InvalidChunk when the root size would be negative *)
Definition iff_delete (f : list Z) : result (list Z) :=
  rbind (mut_root f) (fun rds =>
  rbind (mut_chunks f rds) (fun es =>
  match find_id3 es with
  | None => Ok f
  | Some e =>
    if zlen f <? ce_off e + ce_size e then Raise EMutagen else
    let f1 := splice f (ce_off e) (ce_size e) [] in
    if rds - ce_size e <? 0 then Raise EMutagen else
    if negb (fits (rds - ce_size e)) then Raise EStruct else
    Ok (patch f1 4 (enc (rds - ce_size e)))
  end)).

End Flavour.

(* EXTRACT: Fam_iff.aiff Fam_iff.wave Fam_iff.dsdiff Fam_iff.iff_parse Fam_iff.iff_wf Fam_iff.iff_load Fam_iff.iff_target Fam_iff.iff_save Fam_iff.iff_padinfo Fam_iff.iff_save_cb Fam_iff.iff_delete Fam_iff.iff_build Fam_iff.others Fam_iff.count_id3 Fam_iff.mut_root Fam_iff.mut_chunks *)
