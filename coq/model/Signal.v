(* Model.Signal -- mutagen/_tools/_util.py SignalHandler as a state machine, and a tool run as a list of
   events.  DEFINITIONS ONLY (proofs: Proofs.C20_signal; theorems: Props.C20).

   The Python (mutagen/_tools/_util.py):

       class SignalHandler:
           def __init__(self): self._interrupted = False; self._nosig = False
           def _handler(self, signum, frame):
               self._interrupted = True
               if not self._nosig: raise SystemExit("Aborted...")
           @contextlib.contextmanager
           def block(self):
               self._nosig = True
               yield
               self._nosig = False
               if self._interrupted: raise SystemExit("Aborted...")

   There is no try/finally in block(): an exception escaping the body leaves _nosig set; block() is not
   re-entrant (an inner Leave clears the flag of the outer block).  Both are mirrored as they are.

   All names carry the prefix sig_ / sg_ because the extraction imports every model file into one scope. *)
From Coq Require Import ZArith List Bool.
Import ListNotations.
Open Scope Z_scope.

(* One event of a tool run.
   Sig      a SIGINT/SIGTERM/SIGHUP is delivered: _handler runs
   Enter    `with _sig.block():` entered  (the statement `self._nosig = True`)
   Leave    the body of the with-statement ended normally (the code after `yield`)
   FileOp   the i-th file-object operation (open/read/write/seek/truncate/flush/close) on file `file`
   Other    anything else (option parsing, a print, a line of pure computation)
   Exn      an exception escapes the body of the innermost with-block (none of the tools catches
            outside a block, so the run ends; the generator never reaches `self._nosig = False`) *)
Inductive sg_event := Sig | Enter | Leave | FileOp (file : Z) (i : Z) | Other | Exn.

Record sg_state := mkSg { interrupted : bool; nosig : bool }.
Definition sg_init : sg_state := mkSg false false.

(* Finished: main() returned; Exit: SystemExit("Aborted...") raised by _handler or by block();
   Crashed: an exception other than the abort escaped (Exn) *)
Inductive sg_outcome := Finished | Exit | Crashed.

Inductive sg_step_result := Cont (s : sg_state) | Stop (o : sg_outcome) (s : sg_state).

Definition sig_step (s : sg_state) (e : sg_event) : sg_step_result :=
  match e with
  | Sig =>                                   (* _handler *)
      let s' := mkSg true (nosig s) in
      if nosig s then Cont s' else Stop Exit s'
  | Enter => Cont (mkSg (interrupted s) true)
  | Leave =>                                 (* after the yield *)
      let s' := mkSg (interrupted s) false in
      if interrupted s then Stop Exit s' else Cont s'
  | FileOp _ _ => Cont s
  | Other => Cont s
  | Exn => Stop Crashed s                    (* _nosig stays as it is *)
  end.

Definition sg_op := (Z * Z)%type.            (* (file, index) *)

Definition sg_opof (e : sg_event) : list sg_op :=
  match e with FileOp f i => [(f, i)] | _ => [] end.

(* result of a run: executed file operations in order, how the run ended, the handler object at the
   end, and the number of events that took effect (the stopping Sig/Leave/Exn included) *)
Record sg_res := mkRes { r_ops : list sg_op; r_out : sg_outcome; r_state : sg_state; r_steps : Z }.

Fixpoint sig_run_from (s : sg_state) (l : list sg_event) : sg_res :=
  match l with
  | [] => mkRes [] Finished s 0
  | e :: r =>
      match sig_step s e with
      | Stop o s' => mkRes [] o s' 1
      | Cont s' =>
          let q := sig_run_from s' r in
          mkRes (sg_opof e ++ r_ops q) (r_out q) (r_state q) (1 + r_steps q)
      end
  end.

Definition sig_run (l : list sg_event) : sg_res := sig_run_from sg_init l.

(* exec : program-with-signals -> (executed FileOps, outcome) *)
Definition sig_exec (l : list sg_event) : list sg_op * sg_outcome :=
  (r_ops (sig_run l), r_out (sig_run l)).

(* ---- programs and schedules ------------------------------------------------------------------ *)

Definition sg_is_sig (e : sg_event) : bool := match e with Sig => true | _ => false end.

(* the program underneath a run with signals: the run with every Sig removed *)
Definition sig_strip (l : list sg_event) : list sg_event := filter (fun e => negb (sg_is_sig e)) l.

Definition sig_free (l : list sg_event) : bool := forallb (fun e => negb (sg_is_sig e)) l.
Definition sig_has (l : list sg_event) : bool := existsb sg_is_sig l.

(* all file operations of an event list, executed or not *)
Definition sig_fileops (l : list sg_event) : list sg_op := flat_map sg_opof l.

(* a schedule: how many signals to deliver before each event of the program; whatever is left of the
   schedule after the last event is delivered after it *)
Fixpoint sig_weave (sched : list nat) (prog : list sg_event) : list sg_event :=
  match sched, prog with
  | [], _ => prog
  | n :: ns, [] => repeat Sig n ++ sig_weave ns []
  | n :: ns, e :: es => repeat Sig n ++ e :: sig_weave ns es
  end.

(* the value of _nosig after running the (signal-free) events of p from a state with _nosig = b *)
Fixpoint sig_flag (b : bool) (p : list sg_event) : bool :=
  match p with
  | [] => b
  | Enter :: r => sig_flag true r
  | Leave :: r => sig_flag false r
  | _ :: r => sig_flag b r
  end.

(* protected: scanning the program with the same flag the handler keeps, every FileOp is met with the
   flag set (it lies between an Enter and the next Leave), no exception escapes a block, and the program
   ends outside a block (every Enter is followed by a Leave).  Sig events are transparent. *)
Fixpoint sig_prot (b : bool) (p : list sg_event) : bool :=
  match p with
  | [] => negb b
  | Enter :: r => sig_prot true r
  | Leave :: r => sig_prot false r
  | FileOp _ _ :: r => b && sig_prot b r
  | Exn :: _ => false
  | _ :: r => sig_prot b r
  end.
Definition sig_protected (p : list sg_event) : bool := sig_prot false p.

(* split at the first Leave, the Leave going to the first part: the rest of the current block / what
   comes after it *)
Fixpoint sig_block_rest (p : list sg_event) : list sg_event :=
  match p with
  | [] => []
  | Leave :: _ => [Leave]
  | e :: r => e :: sig_block_rest r
  end.
Fixpoint sig_after_block (p : list sg_event) : list sg_event :=
  match p with
  | [] => []
  | Leave :: r => r
  | _ :: r => sig_after_block r
  end.

(* Where a run of `pre ++ Sig :: post` (pre signal-free) ends, expressed on the program
   pre ++ sig_strip post: outside a block right at the signal; inside a block at the end of that block *)
Definition sig_done (pre post : list sg_event) : list sg_event :=
  if sig_flag false pre then pre ++ sig_block_rest (sig_strip post) else pre.
Definition sig_later (pre post : list sg_event) : list sg_event :=
  if sig_flag false pre then sig_after_block (sig_strip post) else sig_strip post.

(* operations on one file *)
Definition sig_on (f : Z) (ops : list sg_op) : list sg_op := filter (fun o => fst o =? f) ops.
Definition sig_files (ops : list sg_op) : list Z := map fst ops.

(* for the driver *)
Definition sig_outcome_code (o : sg_outcome) : Z := match o with Finished => 0 | Exit => 1 | Crashed => 2 end.

Definition sg_is_exn (e : sg_event) : bool := match e with Exn => true | _ => false end.
Definition sig_noexn (l : list sg_event) : bool := forallb (fun e => negb (sg_is_exn e)) l.

(* EXTRACT: sig_run sig_run_from sig_protected sig_weave sig_strip sig_exec sig_done sig_later sig_fileops sig_outcome_code *)
