(* Model.Parse_id3 -- exception-faithful mirror of mutagen.id3._tags.ID3Header.__init__ (header checks,
   synchsafe size, flag checks per version, extended header incl. the "flag set but a frame follows"
   work-around, read_full, and -- v2.2/v2.3 with the unsynchronisation flag -- the de-unsynchronised reading of the
   extended header, _read_unsynched) over a BytesIO.  Definitions only. *)
From Coq Require Import ZArith List Bool.
Import ListNotations.
Require Import Base.Py Model.Parse_base Model.Parse_musepack Model.Id3Spec Gen.Gen_frames.
Open Scope Z_scope.

Definition id3_ID3 := [73;68;51].
(* BitPaddedInt.has_valid_padding(bytes): no byte has bit 7 set *)
Definition id3_valid_padding (l : list Z) : bool := forallb (fun b => b <? 128) l.
(* extsize_data.decode("ascii", "replace") in Frames: a non-ASCII byte becomes U+FFFD and matches no frame id *)
Definition id3_in_frames (name : list Z) : bool :=
  forallb (fun b => b <? 128) name && existsb (fun fr => list_eqb (fr_id fr) name) all_frames.

(* read_full(fileobj, size) *)
Definition id3_read_full (size : Z) : P (list Z) :=
  if size <? 0 then praise EValue
  else data <~ p_read size ;; if negb (zlen data =? size) then praise (EIO 0) else pret data.

(* chunk.replace(b"\xff\x00", b"\xff"): left to right, non-overlapping *)
Fixpoint id3_unstuff (l : list Z) : list Z :=
  match l with
  | [] => []
  | a :: t => a :: (if a =? 255 then match t with 0 :: t' => id3_unstuff t' | _ => id3_unstuff t end
                    else id3_unstuff t)
  end.

(* _read_unsynched(fileobj, size): read_full of what is missing, the 0x00 behind a final 0xFF is consumed (or the
   byte read for the test is given back), FF 00 -> FF; returns (data, consumed).  Every round at least halves what
   is missing, so 33 rounds suffice for a 32-bit size (Proofs.C04_id3). *)
Fixpoint id3_read_unsynched (fuel : nat) (size : Z) (data : list Z) (consumed : Z) : P (list Z * Z) :=
  match fuel with
  | O => praise EOutOfFuel
  | S f =>
    if zlen data <? size then
      chunk <~ id3_read_full (size - zlen data) ;;
      consumed <~
        (if last chunk 0 =? 255 then                       (* chunk.endswith(b"\xff") *)
           following <~ p_read 1 ;;
           if list_eqb following [0] then pret (consumed + zlen chunk + 1)
           else p_seek (- zlen following) 1 ;;~ pret (consumed + zlen chunk)
         else pret (consumed + zlen chunk)) ;;
      id3_read_unsynched f size (data ++ id3_unstuff chunk) consumed
    else pret (data, consumed)
  end.

(* the local `read`: _read_unsynched for an unsynchronised v2.2/v2.3 tag, else (read_full(fileobj, size), size) *)
Definition id3_read_ext (unsynched : bool) (size : Z) : P (list Z * Z) :=
  if unsynched then id3_read_unsynched 33 size [] 0
  else data <~ id3_read_full size ;; pret (data, size).

Definition id3h_init : P (list Z) :=
  pconvert_io (
    data <~ p_read 10 ;;
    if negb (zlen data =? 10) then praise EMutagen
    else
      let id3 := ztake 3 data in
      let vmaj := znth 3 data in
      let vrev := znth 4 data in
      let flags := znth 5 data in
      let size4 := zslice 6 10 data in
      let size := mpc_bpi7 size4 + 10 in
      if negb (list_eqb id3 id3_ID3) then praise EMutagen
      else if negb ((vmaj =? 2) || (vmaj =? 3) || (vmaj =? 4)) then praise EMutagen
      else if negb (id3_valid_padding size4) then praise EMutagen
      else if (4 <=? vmaj) && negb (flags mod 16 =? 0) then praise EMutagen
      else if (vmaj =? 3) && negb (flags mod 32 =? 0) then praise EMutagen
      else if (flags / 64) mod 2 =? 1 then
        (* self.f_unsynch and self.version < self._V24 *)
        let unsynched := ((flags / 128) mod 2 =? 1) && (vmaj <? 4) in
        ' (ext, consumed) <~ id3_read_ext unsynched 4 ;;
        ' (flags, extsize, consumed) <~
          (if id3_in_frames ext then p_seek (- consumed) 1 ;;~ pret (flags - 64, 0, 0)
           else if 4 <=? vmaj then
             if negb (id3_valid_padding ext) then praise EMutagen else pret (flags, mpc_bpi7 ext - 4, consumed)
           else
             v <~ plift (unpack_be 4 ext) ;; pret (flags, v, consumed)) ;;
        if extsize <? 0 then praise EMutagen
        else
          ' (extdata, extconsumed) <~ id3_read_ext unsynched extsize ;;
          pos <~ p_tell ;;
          (* _extsize = consumed + extconsumed is pos - 10 when the flag stays set *)
          pret [vmaj; vrev; flags; size; zlen extdata; pos]
      else pos <~ p_tell ;; pret [vmaj; vrev; flags; size; -1; pos]).
Definition id3header_load (d : list Z) : result (list Z) := prun id3h_init d.
Definition id3h_id (l : list Z) : list Z := l.


(* ---- determine_bpi(data, frames): the two counting loops over the v2.4 frame area ---- *)
Definition id3_empty10 : list Z := [0;0;0;0;0;0;0;0;0;0].
(* one `while o < len(data) - 10:` loop; bpi: sizes are read as BitPaddedInt (true) or plain int (false);
   returns (number of known frame names, the loop's `off` value) *)
Fixpoint id3_bpi_scan (fuel : nat) (bpi : bool) (data : list Z) (o cnt : Z) : result (Z * Z) :=
  match fuel with
  | O => Raise EOutOfFuel
  | S f =>
    if o <? zlen data - 10 then
      let part := lslice o (o + 10) data in
      if list_eqb part id3_empty10 then Ok (cnt, - ((zlen data - o) mod 10))
      else if negb (zlen part =? 10) then Raise EStruct                 (* struct.unpack('>4sLH', part) *)
      else
        let name := ztake 4 part in
        let size := if bpi then mpc_bpi7 (zslice 4 8 part) else be_decode (zslice 4 8 part) in
        (* try: name.decode("ascii") except UnicodeDecodeError: continue ; if name in frames: count += 1 *)
        id3_bpi_scan f bpi data (o + 10 + size) (if id3_in_frames name then cnt + 1 else cnt)
    else Ok (cnt, o - zlen data)
  end.
(* 7: BitPaddedInt, 8: int *)
Definition id3_determine_bpi (data : list Z) : result Z :=
  match id3_bpi_scan (S (length data)) true data 0 0 with
  | Raise e => Raise e
  | Ok (asbpi, bpioff) =>
    match id3_bpi_scan (S (length data)) false data 0 0 with
    | Raise e => Raise e
    | Ok (asint, intoff) =>
      Ok (if (asbpi <? asint) || ((asint =? asbpi) && ((1 <=? bpioff) && (intoff <=? 1))) then 8 else 7)
    end
  end.
Definition id3_bpi_list (b : Z) : list Z := [b].

(* EXTRACT: id3header_load id3h_id id3_determine_bpi id3_bpi_list *)
