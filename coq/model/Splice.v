(* Model.Splice: the skeleton shared by every in-place save in mutagen:
     resize_bytes(fileobj, old, len(data), off); fileobj.seek(off); fileobj.write(data); patch*
   stated once as a pure function on byte lists and as a program in the file monad over the
   regenerated resize_bytes. *)
From Coq Require Import ZArith List Bool.
Import ListNotations.
Require Import Base.Py Base.FileModel Gen.Gen_util.
Open Scope Z_scope.

(* replace the region [off, off+old) of f by data *)
Definition splice (f : list Z) (off old : Z) (data : list Z) : list Z :=
  ztake off f ++ data ++ zdrop (off + old) f.

(* overwrite bs at position p (inside the file) *)
Definition patch (f : list Z) (p : Z) (bs : list Z) : list Z :=
  ztake p f ++ bs ++ zdrop (p + zlen bs) f.
Definition apply_patches (ps : list (Z * list Z)) (f : list Z) : list Z :=
  fold_left (fun g pb => patch g (fst pb) (snd pb)) ps f.

(* the program every save runs *)
Definition splice_prog (BUF : Z) (off old : Z) (data : list Z) : M unit :=
  resize_bytes BUF old (zlen data) off ;; f_seek off 0 ;; f_write data.
Definition patch_prog (p : Z) (bs : list Z) : M unit := f_seek p 0 ;; f_write bs.
(* EXTRACT: splice patch apply_patches splice_prog *)
