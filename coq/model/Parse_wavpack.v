(* Model.Parse_wavpack -- exception-faithful mirror of mutagen.wavpack._WavPackHeader.from_fileobj and
   WavPackInfo.__init__ (RATES index guard, block-walking loop) over a BytesIO.  Definitions only. *)
From Coq Require Import ZArith List Bool.
Import ListNotations.
Require Import Base.Py Model.Parse_base.
Open Scope Z_scope.

Definition wv_magic := [119;118;112;107].     (* b"wvpk" *)
Definition wv_rates : list Z :=
  [6000; 8000; 9600; 11025; 12000; 16000; 22050; 24000; 32000; 44100; 48000; 64000; 88200; 96000; 192000].

Record wv_header := mkWvH {
  wh_block_size : Z; wh_version : Z; wh_track_no : Z; wh_index_no : Z; wh_total_samples : Z;
  wh_block_index : Z; wh_block_samples : Z; wh_flags : Z; wh_crc : Z }.

(* ord(b) of a bytes slice: TypeError unless it has exactly one byte *)
Definition py_ord (l : list Z) : result Z := match l with [x] => Ok x | _ => Raise EType end.

(* @convert_error(IOError, WavPackHeaderError) _WavPackHeader.from_fileobj *)
Definition wv_from_fileobj : P wv_header :=
  pconvert_io (
    header <~ p_read 32 ;;
    if negb (zlen header =? 32) || negb (starts_with wv_magic header) then praise EMutagen
    else
      block_size <~ plift (unpack_le 4 (zslice 4 8 header)) ;;
      version <~ plift (unpack_le 2 (zslice 8 10 header)) ;;
      track_no <~ plift (py_ord (zslice 10 11 header)) ;;
      index_no <~ plift (py_ord (zslice 11 12 header)) ;;
      samples <~ plift (unpack_le 4 (zslice 12 16 header)) ;;
      let samples := if samples =? 4294967295 then -1 else samples in
      block_index <~ plift (unpack_le 4 (zslice 16 20 header)) ;;
      block_samples <~ plift (unpack_le 4 (zslice 20 24 header)) ;;
      flags <~ plift (unpack_le 4 (zslice 24 28 header)) ;;
      crc <~ plift (unpack_le 4 (zslice 28 32 header)) ;;
      pret (mkWvH block_size version track_no index_no samples block_index block_samples flags crc)).

Definition is_mutagen (e : exc) : bool := exc_eqb e EMutagen.

(* while 1: fileobj.seek(header.block_size - 32 + 8, 1)
            try: header = from_fileobj(fileobj)  except WavPackHeaderError: break
            samples += header.block_samples *)
Fixpoint wv_walk (fuel : nat) (h : wv_header) (samples : Z) : P Z :=
  match fuel with
  | O => praise EOutOfFuel
  | S fuel' =>
    p_seek (wh_block_size h - 32 + 8) 1 ;;~
    r <~ pcatch (h' <~ wv_from_fileobj ;; pret (Some h')) is_mutagen (fun _ => pret None) ;;
    match r with
    | None => pret samples
    | Some h' => wv_walk fuel' h' (samples + wh_block_samples h')
    end
  end.

Record wv_info := mkWvI { wi_version : Z; wi_channels : Z; wi_rate : Z; wi_bits : Z; wi_samples : Z }.

(* @convert_error(IOError, WavPackHeaderError) WavPackInfo.__init__ *)
Definition wv_init (fuel : nat) : P wv_info :=
  pconvert_io (
    header <~ pcatch wv_from_fileobj is_mutagen (fun _ => praise EMutagen) ;;
    let flags := wh_flags header in
    let channels := if (flags / 4) mod 2 =? 1 then 1 else 2 in             (* bool(flags & 4) or 2 *)
    rate <~ pcatch (plift (list_index ((flags / 8388608) mod 16) wv_rates))  (* RATES[(flags >> 23) & 0xF] *)
                   (fun e => exc_eqb e EIndex) (fun _ => praise EMutagen) ;;
    let bits := (flags mod 4 + 1) * 8 in
    let dsd := (flags / 2147483648) mod 2 =? 1 in
    let rate := if dsd then rate * 4 else rate in
    let bits := if dsd then 1 else bits in
    samples <~ (if (wh_total_samples header =? -1) || negb (wh_block_index header =? 0)
                then wv_walk fuel header (wh_block_samples header)
                else pret (wh_total_samples header)) ;;
    if rate =? 0 then praise EZeroDiv                                        (* float(samples) / self.sample_rate *)
    else pret (mkWvI (wh_version header) channels rate bits samples)).

(* every walked block advances the stream by at least 8 bytes: len/8 + 1 iterations; the wrapper gives len + 1 *)
Definition wv_fuel (d : list Z) : nat := lin_fuel 1 1 d.
Definition wavpack_load (d : list Z) : result wv_info := prun (wv_init (wv_fuel d)) d.
Definition wv_info_list (i : wv_info) : list Z := [wi_version i; wi_channels i; wi_rate i; wi_bits i; wi_samples i].

(* EXTRACT: wavpack_load wv_info_list *)
