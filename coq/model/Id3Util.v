(* Model.Id3Util: hand model of mutagen/id3/_util.py -- BitPaddedInt.__new__ (int and bytes input),
   _BitPaddedMixin.to_str / has_valid_padding, unsynch.encode / unsynch.decode.
   DEFINITIONS ONLY.  Mirrors the Python statement by statement: Python int = Z, bytes/bytearray =
   list Z, `>>` `&` `<<` = Z.shiftr / Z.land / Z.shiftl, exceptions = Base.Py.result.
   Tied to /repo by the exhaustive correspondence of harness/props/c14.py (extracted binary). *)
From Coq Require Import ZArith List Bool.
Import ListNotations.
Require Import Base.Py.
Open Scope Z_scope.

(* bytes_[i] = x   (0 <= i < len is checked by the caller: IndexError otherwise) *)
Definition zset (i x : Z) (l : list Z) : list Z := ztake i l ++ x :: zdrop (i + 1) l.

(* fuel for `while value: ...; value >>= k` (k >= 1): one step per bit of |value| plus the final test *)
Definition loop_fuel (value : Z) : nat := S (S (Z.to_nat (Z.log2 (Z.abs value)))).

(* ------------------------------------------------------------------------------------------ *)
(* class BitPaddedInt.__new__(cls, value, bits=7, bigendian=True)                                *)

(*  while value:
        numeric_value += (value & mask) << shift
        value >>= 8
        shift += bits                                                                            *)
Fixpoint bpi_int_loop (fuel : nat) (value mask bits numeric_value shift : Z) : result Z :=
  match fuel with
  | O => Raise EOutOfFuel
  | S k =>
    if value =? 0 then Ok numeric_value
    else bpi_int_loop k (Z.shiftr value 8) mask bits
                      (numeric_value + Z.shiftl (Z.land value mask) shift) (shift + bits)
  end.

(* the `isinstance(value, int)` branch *)
Definition bpi_of_int (bits value : Z) : result Z :=
  if bits <? 0 then Raise EValue                      (* 1 << bits: negative shift count *)
  else
    let mask := Z.shiftl 1 bits - 1 in
    if value <? 0 then Raise EValue
    else bpi_int_loop (loop_fuel value) value mask bits 0 0.

(*  for byte in bytearray(value):
        numeric_value += (byte & mask) << shift
        shift += bits                                                                            *)
Fixpoint bpi_bytes_loop (value : list Z) (mask bits numeric_value shift : Z) : Z :=
  match value with
  | [] => numeric_value
  | byte :: rest =>
    bpi_bytes_loop rest mask bits (numeric_value + Z.shiftl (Z.land byte mask) shift) (shift + bits)
  end.

(* the `isinstance(value, bytes)` branch *)
Definition bpi_of_bytes (bits : Z) (bigendian : bool) (value : list Z) : result Z :=
  if bits <? 0 then Raise EValue
  else
    let mask := Z.shiftl 1 bits - 1 in
    let value := if bigendian then rev value else value in
    Ok (bpi_bytes_loop value mask bits 0 0).

(* ------------------------------------------------------------------------------------------ *)
(* _BitPaddedMixin.to_str(value, bits=7, bigendian=True, width=4, minwidth=4)                   *)

(*  index = 0; bytes_ = bytearray(width)
    try:
        while value:
            bytes_[index] = value & mask        # IndexError -> ValueError('Value too wide')
            value >>= bits                      # (a byte > 255 is a ValueError as well)
            index += 1                                                                           *)
Fixpoint to_str_fixed_loop (fuel : nat) (value bits mask index : Z) (bytes_ : list Z) : result (list Z) :=
  match fuel with
  | O => Raise EOutOfFuel
  | S k =>
    if value =? 0 then Ok bytes_
    else if negb (index <? zlen bytes_) then Raise EValue
    else if 255 <? Z.land value mask then Raise EValue
    else to_str_fixed_loop k (Z.shiftr value bits) bits mask (index + 1)
                           (zset index (Z.land value mask) bytes_)
  end.

(*  bytes_ = bytearray()
    while value:
        append(value & mask)
        value >>= bits                                                                           *)
Fixpoint to_str_grow_loop (fuel : nat) (value bits mask : Z) (bytes_ : list Z) : result (list Z) :=
  match fuel with
  | O => Raise EOutOfFuel
  | S k =>
    if value =? 0 then Ok bytes_
    else if 255 <? Z.land value mask then Raise EValue
    else to_str_grow_loop k (Z.shiftr value bits) bits mask (bytes_ ++ [Z.land value mask])
  end.

(* bytes_.ljust(minwidth, b"\x00") *)
Definition ljust0 (bytes_ : list Z) (minwidth : Z) : list Z := bytes_ ++ zeros (minwidth - zlen bytes_).

Definition to_str (value bits : Z) (bigendian : bool) (width minwidth : Z) : result (list Z) :=
  if value <? 0 then Raise EValue                     (* 'Value must not be negative' *)
  else if bits <? 0 then Raise EValue                 (* 1 << bits *)
  else
    let mask := Z.shiftl 1 bits - 1 in
    rbind
      (if negb (width =? -1) then
         if width <? 0 then Raise EValue              (* bytearray(width): negative count *)
         else to_str_fixed_loop (S (Z.to_nat width)) value bits mask 0 (zeros width)
       else
         rmap (fun b => ljust0 b minwidth) (to_str_grow_loop (loop_fuel value) value bits mask []))
      (fun bytes_ => Ok (if bigendian then rev bytes_ else bytes_)).

(* ------------------------------------------------------------------------------------------ *)
(* _BitPaddedMixin.has_valid_padding(value, bits=7)                                             *)

Definition padding_mask (bits : Z) : Z := Z.shiftl (Z.shiftl 1 (8 - bits) - 1) bits.

(*  for byte in bytearray(value):
        if byte & mask: return False
    return True                                                                                  *)
Fixpoint hvp_bytes_loop (value : list Z) (mask : Z) : bool :=
  match value with
  | [] => true
  | byte :: rest => if negb (Z.land byte mask =? 0) then false else hvp_bytes_loop rest mask
  end.

(*  while value:
        if value & mask: return False
        value >>= 8
    return True                                                                                  *)
Fixpoint hvp_int_loop (fuel : nat) (value mask : Z) : result bool :=
  match fuel with
  | O => Raise EOutOfFuel
  | S k =>
    if value =? 0 then Ok true
    else if negb (Z.land value mask =? 0) then Ok false
    else hvp_int_loop k (Z.shiftr value 8) mask
  end.

Definition has_valid_padding_bytes (bits : Z) (value : list Z) : result bool :=
  if 8 <? bits then Raise EAssert                     (* assert bits <= 8 *)
  else if bits <? 0 then Raise EValue                 (* << bits *)
  else Ok (hvp_bytes_loop value (padding_mask bits)).

Definition has_valid_padding_int (bits value : Z) : result bool :=
  if 8 <? bits then Raise EAssert
  else if bits <? 0 then Raise EValue
  else hvp_int_loop (loop_fuel value) value (padding_mask bits).

(* ------------------------------------------------------------------------------------------ *)
(* class unsynch                                                                                 *)

(* bytearray(value).split(b'\xff'): never empty; n separators give n+1 fragments *)
Fixpoint split_on (sep : Z) (l : list Z) : list (list Z) :=
  match l with
  | [] => [[]]
  | b :: r =>
    if b =? sep then [] :: split_on sep r
    else match split_on sep r with
         | [] => [[b]]
         | f :: fs => (b :: f) :: fs
         end
  end.

(* bytearray(b'\xff').join(fragments) *)
Fixpoint join_with (sep : Z) (fs : list (list Z)) : list Z :=
  match fs with
  | [] => []
  | f :: rest => match rest with [] => f | _ :: _ => f ++ sep :: join_with sep rest end
  end.

(*  if (not f) or (f[0] >= 0xE0) or (f[0] == 0x00): f.insert(0, 0x00)                            *)
Definition enc_fragment (f : list Z) : list Z :=
  match f with
  | [] => [0]
  | b :: _ => if (0xE0 <=? b) || (b =? 0) then 0 :: f else f
  end.

Definition unsynch_encode (value : list Z) : list Z :=
  match split_on 0xFF value with
  | [] => []
  | f0 :: fs => join_with 0xFF (f0 :: map enc_fragment fs)
  end.

(*  for f in fragments[1:]:
        if (not f) or (f[0] >= 0xE0): raise ValueError('invalid sync-safe string')
        if f[0] == 0x00: del f[0]                                                                *)
Fixpoint dec_fragments (fs : list (list Z)) : result (list (list Z)) :=
  match fs with
  | [] => Ok []
  | f :: rest =>
    match f with
    | [] => Raise EValue
    | b :: t =>
      if 0xE0 <=? b then Raise EValue
      else rbind (dec_fragments rest) (fun rest' => Ok ((if b =? 0 then t else f) :: rest'))
    end
  end.

Definition is_nil {A} (l : list A) : bool := match l with [] => true | _ :: _ => false end.

Definition unsynch_decode (value : list Z) : result (list Z) :=
  let fragments := split_on 0xFF value in
  if (1 <? zlen fragments) && is_nil (last fragments [])   (* 'string ended unsafe' *)
  then Raise EValue
  else match fragments with
       | [] => Ok []
       | f0 :: fs => rbind (dec_fragments fs) (fun fs' => Ok (join_with 0xFF (f0 :: fs')))
       end.

(* EXTRACT: bpi_of_int bpi_of_bytes to_str has_valid_padding_bytes has_valid_padding_int unsynch_encode unsynch_decode *)
