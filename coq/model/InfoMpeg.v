(* Model.InfoMpeg -- MPEG audio frame header (C05).
   SPEC side: ISO/IEC 11172-3 / 13818-3 header layout, bitrate and sampling-frequency tables, frame
   length formulas.  CODE side: mutagen.mp3.MPEGFrame.__init__ read through mutagen._util.BitReader,
   with the tables regenerated from the live class (Gen.Gen_tables). *)
From Coq Require Import ZArith List Bool.
Import ListNotations.
Require Import Base.Py Model.InfoBase Gen.Gen_tables.
Open Scope Z_scope.

(* ------------------------------------------------------------------ SPEC side *)
Record mpeg_p := mkMpeg {
  mp_vb : Z;      (* version bits: 3 = MPEG-1, 2 = MPEG-2, 0 = MPEG-2.5 (1 reserved) *)
  mp_lb : Z;      (* layer bits: 3 = Layer I, 2 = Layer II, 1 = Layer III (0 reserved) *)
  mp_prot : Z;    (* protection bit: 0 = CRC follows *)
  mp_bri : Z;     (* bitrate index 1..14 (0 free format, 15 forbidden) *)
  mp_sri : Z;     (* sampling rate index 0..2 (3 reserved) *)
  mp_pad : Z; mp_priv : Z;
  mp_mode : Z;    (* 0 stereo, 1 joint stereo, 2 dual channel, 3 mono *)
  mp_tail : Z     (* mode extension 2, copyright 1, original 1, emphasis 2 *)
}.

(* version as version*10: 10, 20, 25 *)
Definition spec_mpeg_version10 (vb : Z) : Z := if vb =? 3 then 10 else if vb =? 2 then 20 else 25.
Definition spec_mpeg_layer (lb : Z) : Z := 4 - lb.

(* kbit/s by bitrate index (index 0 = free format) *)
Definition spec_mpeg_bitrates (v10 layer : Z) : list Z :=
  if v10 =? 10 then
    if layer =? 1 then [0; 32; 64; 96; 128; 160; 192; 224; 256; 288; 320; 352; 384; 416; 448]
    else if layer =? 2 then [0; 32; 48; 56; 64; 80; 96; 112; 128; 160; 192; 224; 256; 320; 384]
    else [0; 32; 40; 48; 56; 64; 80; 96; 112; 128; 160; 192; 224; 256; 320]
  else
    if layer =? 1 then [0; 32; 48; 56; 64; 80; 96; 112; 128; 144; 160; 176; 192; 224; 256]
    else [0; 8; 16; 24; 32; 40; 48; 56; 64; 80; 96; 112; 128; 144; 160].
Definition spec_mpeg_rates (v10 : Z) : list Z :=
  if v10 =? 10 then [44100; 48000; 32000]
  else if v10 =? 20 then [22050; 24000; 16000] else [11025; 12000; 8000].

Definition spec_mpeg_bitrate (p : mpeg_p) : Z :=
  1000 * nth (Z.to_nat (mp_bri p)) (spec_mpeg_bitrates (spec_mpeg_version10 (mp_vb p)) (spec_mpeg_layer (mp_lb p))) 0.
Definition spec_mpeg_rate (p : mpeg_p) : Z :=
  nth (Z.to_nat (mp_sri p)) (spec_mpeg_rates (spec_mpeg_version10 (mp_vb p))) 0.
Definition spec_mpeg_samples_per_frame (p : mpeg_p) : Z :=
  if spec_mpeg_layer (mp_lb p) =? 1 then 384
  else if (spec_mpeg_layer (mp_lb p) =? 3) && negb (mp_vb p =? 3) then 576 else 1152.
(* frame length in bytes *)
Definition spec_mpeg_frame_length (p : mpeg_p) : Z :=
  let br := spec_mpeg_bitrate p in let sr := spec_mpeg_rate p in
  if spec_mpeg_layer (mp_lb p) =? 1 then (12 * br / sr + mp_pad p) * 4
  else if (spec_mpeg_layer (mp_lb p) =? 3) && negb (mp_vb p =? 3) then 72 * br / sr + mp_pad p
  else 144 * br / sr + mp_pad p.

Definition mpeg_header_word (p : mpeg_p) : Z :=
  2047 * 2097152 + mp_vb p * 524288 + mp_lb p * 131072 + mp_prot p * 65536 +
  mp_bri p * 4096 + mp_sri p * 1024 + mp_pad p * 512 + mp_priv p * 256 + mp_mode p * 64 + mp_tail p.
Definition build_mpeg_header (p : mpeg_p) : list Z := be_encode 4 (mpeg_header_word p).
(* one whole frame: header followed by zero bytes up to the frame length of the specification *)
Definition build_mpeg_frame (p : mpeg_p) : list Z :=
  build_mpeg_header p ++ zeros (spec_mpeg_frame_length p - 4).

(* reported attributes, in the order of decode_mpeg_frame:
   [bitrate; sample_rate; channels; layer; version*10; mode; protected; padding; samples per frame; frame_length] *)
Definition expected_mpeg (p : mpeg_p) : list Z :=
  [spec_mpeg_bitrate p; spec_mpeg_rate p; (if mp_mode p =? 3 then 1 else 2);
   spec_mpeg_layer (mp_lb p); spec_mpeg_version10 (mp_vb p); mp_mode p; 1 - mp_prot p; mp_pad p;
   spec_mpeg_samples_per_frame p; spec_mpeg_frame_length p].

(* ------------------------------------------------------------------ CODE side *)
(* mutagen._util.BitReader over an in-memory tail of the file *)
Record bitreader := mkBR { br_buffer : Z; br_bits : Z; br_rest : list Z }.
Definition br_new (data : list Z) : bitreader := mkBR 0 0 data.

(* BitReader.bits(count); None = BitReaderError *)
Definition br_read (count : Z) (r : bitreader) : option (Z * bitreader) :=
  let filled :=
    if count >? br_bits r then
      let n_bytes := (count - br_bits r + 7) / 8 in
      let data := ztake n_bytes (br_rest r) in
      if negb (zlen data =? n_bytes) then None
      else Some (mkBR (fold_left (fun acc b => acc * 256 + b) data (br_buffer r))
                      (br_bits r + n_bytes * 8) (zdrop n_bytes (br_rest r)))
    else Some r in
  match filled with
  | None => None
  | Some r1 =>
      let bits' := br_bits r1 - count in
      Some (br_buffer r1 / 2 ^ bits', mkBR (br_buffer r1 mod 2 ^ bits') bits' (br_rest r1))
  end.

(* BitReader.skip(count) *)
Definition br_skip (count : Z) (r : bitreader) : option bitreader :=
  if count <=? br_bits r then option_map snd (br_read count r)
  else
    let count1 := count - br_bits r in            (* count -= self.align() *)
    let n_bytes := count1 / 8 in
    let r1 := mkBR 0 0 (zdrop n_bytes (br_rest r)) in   (* seek(n_bytes, 1): may pass the end *)
    option_map snd (br_read (count1 - n_bytes * 8) r1).

Definition obind {A B} (o : option A) (k : A -> option B) : option B :=
  match o with Some a => k a | None => None end.

(* the nine header fields as MPEGFrame.__init__ reads them; None = BitReaderError *)
Definition mpeg_read_fields (h : list Z) : option (list Z) :=
  obind (br_read 11 (br_new h)) (fun '(sync, r) =>
  obind (br_read 2 r) (fun '(version, r) =>
  obind (br_read 2 r) (fun '(layer, r) =>
  obind (br_read 1 r) (fun '(protection, r) =>
  obind (br_read 4 r) (fun '(bitrate, r) =>
  obind (br_read 2 r) (fun '(sample_rate, r) =>
  obind (br_read 1 r) (fun '(padding, r) =>
  obind (br_skip 1 r) (fun r =>
  obind (br_read 2 r) (fun '(mode, r) =>
  obind (br_skip 6 r) (fun r =>
  Some [sync; version; layer; protection; bitrate; sample_rate; padding; mode])))))))))).

(* MPEGFrame.__init__ up to and including frame_length (HeaderNotFoundError is a MutagenError);
   `f` is the file content from the frame offset on. *)
Definition decode_mpeg_frame (f : list Z) : result (list Z) :=
  match mpeg_read_fields f with
  | None => Raise EMutagen                                   (* truncated header *)
  | Some [sync; version; layer; protection; bitrate; sample_rate; padding; mode] =>
    if negb (sync =? 2047) then Raise EMutagen               (* invalid sync *)
    else if (version =? 1) || (layer =? 0) || (sample_rate =? 3) || (bitrate =? 15) || (bitrate =? 0)
    then Raise EMutagen                                      (* invalid header *)
    else
      let channels := if mode =? nth 3 gen_mpeg_modes 3 then 1 else 2 in
      let version10 := nth (Z.to_nat version) [25; -1; 20; 10] (-1) in
      let layer' := 4 - layer in
      match assoc_zz (version10, layer') gen_mpeg_bitrate with
      | None => Raise EKey
      | Some brs =>
        match idx bitrate brs with
        | None => Raise EIndex
        | Some kbps =>
          let bitrate' := kbps * 1000 in
          match assoc_z version10 gen_mpeg_rates with
          | None => Raise EKey
          | Some rates =>
            match idx sample_rate rates with
            | None => Raise EIndex
            | Some sr =>
              let '(frame_size, slot) :=
                if layer' =? 1 then (384, 4)
                else if (version10 >=? 20) && (layer' =? 3) then (576, 1) else (1152, 1) in
              if sr =? 0 then Raise EZeroDiv
              else
              let frame_length := ((frame_size / 8 / slot * bitrate') / sr + padding) * slot in
              Ok [bitrate'; sr; channels; layer'; version10; mode; b2z (protection =? 0);
                  padding; frame_size; frame_length]
            end
          end
        end
      end
  | Some _ => Raise EAssert
  end.

(* ------------------------------------------------------------------ finite domain of the exhaustive theorem *)
Fixpoint zrange_from (lo : Z) (n : nat) : list Z :=
  match n with O => [] | S n' => lo :: zrange_from (lo + 1) n' end.
(* lo, lo+1, .., hi *)
Definition zrange (lo hi : Z) : list Z := zrange_from lo (Z.to_nat (hi + 1 - lo)).

Definition mpeg_domain : list mpeg_p :=
  flat_map (fun vb => flat_map (fun lb => flat_map (fun prot => flat_map (fun bri => flat_map (fun sri =>
  flat_map (fun pad => flat_map (fun priv => map (fun mode => mkMpeg vb lb prot bri sri pad priv mode 0)
    (zrange 0 3)) (zrange 0 1)) (zrange 0 1)) (zrange 0 2)) (zrange 1 14)) (zrange 0 1)) [1; 2; 3]) [0; 2; 3].

Definition result_list_eqb (r : result (list Z)) (l : list Z) : bool :=
  match r with Ok x => list_eqb x l | Raise _ => false end.
Definition mpeg_check (p : mpeg_p) : bool := result_list_eqb (decode_mpeg_frame (build_mpeg_frame p)) (expected_mpeg p).

(* every header with one reserved / forbidden field value (all other fields over their whole range) *)
Definition mpeg_invalid_domain : list mpeg_p :=
  filter (fun p => (mp_vb p =? 1) || (mp_lb p =? 0) || (mp_bri p =? 0) || (mp_bri p =? 15) || (mp_sri p =? 3))
  (flat_map (fun vb => flat_map (fun lb => flat_map (fun bri => flat_map (fun sri =>
   map (fun mode => mkMpeg vb lb 1 bri sri 0 0 mode 0)
    (zrange 0 3)) (zrange 0 3)) (zrange 0 15)) (zrange 0 3)) (zrange 0 3)).
Definition mpeg_rejects (p : mpeg_p) : bool :=
  match decode_mpeg_frame (build_mpeg_header p ++ zeros 2000) with Raise EMutagen => true | _ => false end.

(* table differences: ((version*10, layer), (index, generated, specified)) *)
Definition mpeg_bitrate_table_diff : list ((Z * Z) * (Z * Z * Z)) :=
  flat_map (fun v10 => flat_map (fun layer =>
    map (fun d => ((v10, layer), d))
      (match assoc_zz (v10, layer) gen_mpeg_bitrate with
       | Some g => list_diff g (spec_mpeg_bitrates v10 layer)
       | None => [(-1, -1, -1)] end)) [1; 2; 3]) [10; 20; 25].
Definition mpeg_rate_table_diff : list (Z * (Z * Z * Z)) :=
  flat_map (fun v10 => map (fun d => (v10, d))
      (match assoc_z v10 gen_mpeg_rates with
       | Some g => list_diff g (spec_mpeg_rates v10)
       | None => [(-1, -1, -1)] end)) [10; 20; 25].

(* driver entry points *)
Definition mpeg_p_of_list (l : list Z) : mpeg_p :=
  match l with
  | [vb; lb; prot; bri; sri; pad; priv; mode; tail] => mkMpeg vb lb prot bri sri pad priv mode tail
  | _ => mkMpeg 0 0 0 0 0 0 0 0 0
  end.
(* EXTRACT: InfoMpeg.build_mpeg_frame InfoMpeg.build_mpeg_header InfoMpeg.decode_mpeg_frame InfoMpeg.expected_mpeg InfoMpeg.mpeg_p_of_list *)
