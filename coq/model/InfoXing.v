(* Model.InfoXing -- Xing/Info (+ LAME extension) and VBRI headers of MPEG Layer III streams (C05):
   the duration derived from the header's frame count.
   SPEC side: Xing VBR header / LAME tag revision 0 layout, Fraunhofer VBRI header layout, side-information
   sizes of ISO 11172-3 / 13818-3.  CODE side: MPEGFrame._parse_vbr_header, XingHeader.__init__,
   XingHeader.get_offset, LAMEHeader.parse_version (version string analysis), LAMEHeader.__init__ (the
   fields that enter the duration), VBRIHeader.__init__ of mutagen/mp3/__init__.py and mutagen/mp3/_util.py. *)
From Coq Require Import ZArith List Bool.
Import ListNotations.
Require Import Base.Py Model.InfoBase Model.InfoMpeg Gen.Gen_tables.
Open Scope Z_scope.

Definition ascii_Xing := [88;105;110;103]. Definition ascii_Info := [73;110;102;111].
Definition ascii_VBRI := [86;66;82;73].
Definition ascii_LAME := [76;65;77;69]. Definition ascii_L399 := [76;51;46;57;57].

(* ------------------------------------------------------------------ SPEC side *)
(* offset of the tag from the start of the frame: 4 header bytes + side information *)
Definition spec_xing_offset (p : mpeg_p) : Z :=
  4 + (if mp_vb p =? 3 then (if mp_mode p =? 3 then 17 else 32) else (if mp_mode p =? 3 then 9 else 17)).

Record xing_p := mkXing {
  xg_info : bool;                       (* "Info" (CBR) instead of "Xing" *)
  xg_frames : option Z; xg_bytes : option Z;   (* u32 each, flag bits 0 and 1 *)
  xg_toc : bool;                        (* 100-byte TOC, flag bit 2 *)
  xg_scale : option Z                   (* quality indicator, flag bit 3 *)
}.
Definition opt_flag {A} (o : option A) (bit : Z) : Z := match o with Some _ => bit | None => 0 end.
Definition opt_be4 (o : option Z) : list Z := match o with Some v => be_encode 4 v | None => [] end.
Definition build_xing_tag (x : xing_p) : list Z :=
  (if xg_info x then ascii_Info else ascii_Xing) ++
  be_encode 4 (opt_flag (xg_frames x) 1 + opt_flag (xg_bytes x) 2 + (if xg_toc x then 4 else 0) + opt_flag (xg_scale x) 8) ++
  opt_be4 (xg_frames x) ++ opt_be4 (xg_bytes x) ++ (if xg_toc x then repeat 0 100%nat else []) ++ opt_be4 (xg_scale x).

(* LAME tag, revision 0: 9-byte version string, revision 4 | VBR method 4, lowpass, peak 32, two gains 16+16,
   flags 4 | ATH 4, bitrate, encoder delay 12 | padding 12, misc, MP3 gain, preset/surround 16, music length 32,
   music CRC 16, tag CRC 16 *)
Definition build_lame_tag (vstring : list Z) (vbr_method lowpass delay padding : Z) : list Z :=
  firstn 9 (vstring ++ repeat 0 9%nat) ++ [vbr_method] ++ [lowpass] ++ repeat 0 4%nat ++ repeat 0 4%nat ++ [0; 0] ++
  be_encode 3 (delay * 4096 + padding) ++ repeat 0 12%nat.

(* VBRI: "VBRI", version 1, delay, quality, bytes, frames, TOC entries, TOC scale, entry size, frames per entry, TOC *)
Definition build_vbri_tag (delay quality bytes frames entries scale entry_size toc_frames : Z) : list Z :=
  ascii_VBRI ++ be_encode 2 1 ++ be_encode 2 delay ++ be_encode 2 quality ++ be_encode 4 bytes ++ be_encode 4 frames ++
  be_encode 2 entries ++ be_encode 2 scale ++ be_encode 2 entry_size ++ be_encode 2 toc_frames ++
  zeros (entries * entry_size).

(* a frame carrying a tag at offset `off`: header, zero side information, tag, zero fill up to the frame length *)
Definition build_tag_frame (p : mpeg_p) (off : Z) (tag : list Z) : list Z :=
  let head := build_mpeg_header p ++ zeros (off - 4) ++ tag in
  head ++ zeros (spec_mpeg_frame_length p - zlen head).

Definition lame399r : list Z := [76;65;77;69;51;46;57;57;114].    (* "LAME3.99r" *)
Definition opt_u32 (o : option Z) : Prop := match o with Some v => 0 <= v < 4294967296 | None => True end.
Definition opt_val (o : option Z) : Z := match o with Some v => v | None => -1 end.

(* ------------------------------------------------------------------ CODE side *)
Fixpoint lstrip_set (set l : list Z) : list Z :=
  match l with
  | [] => []
  | c :: r => if existsb (Z.eqb c) set then lstrip_set set r else l
  end.
Definition is_digit (c : Z) : bool := (48 <=? c) && (c <=? 57).
Fixpoint take_digits (l : list Z) : list Z :=
  match l with c :: r => if is_digit c then c :: take_digits r else [] | [] => [] end.
Definition digits_value (l : list Z) : Z := fold_left (fun acc c => acc * 10 + (c - 48)) l 0.
Definition pair_ltb (a b c d : Z) : bool := (a <? c) || ((a =? c) && (b <? d)).     (* (a, b) < (c, d) *)

(* LAMEHeader.parse_version on the 20 bytes read: None = LAMEError; Some (major, minor, has_header) *)
Definition lame_parse_version (data : list Z) : option (Z * Z * bool) :=
  if negb (zlen data =? 20) then None
  else if negb (starts_with ascii_LAME data || starts_with ascii_L399 data) then None
  else
    let data := lstrip_set [69; 77; 65; 76] data in
    let major := firstn 1 data in
    let data := lstrip_set [46] (skipn 1 data) in
    let minor := take_digits data in
    let data := skipn (length minor) data in
    match major with
    | [mj] =>
      if negb (is_digit mj) then None
      else match minor with
      | [] => None
      | _ =>
        let major := mj - 48 in
        let minor := digits_value minor in
        if pair_ltb major minor 3 90 ||
           ((major =? 3) && (minor =? 90) && list_eqb (zslice_c (zlen data - 11) (zlen data - 10) data) [40] && (11 <=? zlen data))
        then Some (major, minor, false)
        else if zlen data <? 11 then None
        else Some (major, minor, true)
      end
    | _ => None
    end.

(* "no (valid) VBR header": length stays unknown *)
Definition vbr_none : list Z := [0; -1; -1; 0; 0; 0; -1; 1].

(* MPEGFrame._parse_vbr_header(fileobj, frame_offset, frame_size, frame_length): `f` = file content from the
   frame offset on.  result: [kind; frames; bytes; lame; delay; padding; length numerator; length denominator]
   kind 0 = no VBR header (length unknown: -1/1), 1 = Xing, 2 = Info, 3 = VBRI; frames / bytes = -1 when absent;
   lame = 1 when a LAME extension header was parsed (delay, padding valid) *)
Definition decode_vbr_tags (frame_size sample_rate xing_offset : Z) (f : list Z) : list Z :=
  let x := zdrop_c xing_offset f in
  let data := firstn 8 x in
  (* XingHeader(fileobj): None = XingHeaderError (not a Xing header, or truncated) *)
  let xing : option (list Z) :=
    if (zlen data =? 8) && (list_eqb (firstn 4 data) ascii_Xing || list_eqb (firstn 4 data) ascii_Info) then
      let is_info := list_eqb (firstn 4 data) ascii_Info in
      let flags := be_at 4 4 data in
      let rest := skipn 8 x in
      let rd (present : bool) (n : nat) (rest : list Z) : option (option (list Z) * list Z) :=
        if present then (if Nat.eqb (length (firstn n rest)) n then Some (Some (firstn n rest), skipn n rest) else None)
        else Some (None, rest) in
      match rd (negb (flags mod 2 =? 0)) 4%nat rest with
      | None => None
      | Some (fr, rest) =>
        match rd (negb ((flags / 2) mod 2 =? 0)) 4%nat rest with
        | None => None
        | Some (by_, rest) =>
          match rd (negb ((flags / 4) mod 2 =? 0)) 100%nat rest with
          | None => None
          | Some (_, rest) =>
            match rd (negb ((flags / 8) mod 2 =? 0)) 4%nat rest with
            | None => None
            | Some (_, rest) =>
              let frames := match fr with Some b => be_decode b | None => -1 end in
              let bytes := match by_ with Some b => be_decode b | None => -1 end in
              (* LAME extension: any LAMEError leaves lame_header = None *)
              let '(lame, delay, padding) :=
                match lame_parse_version (firstn 20 rest) with
                | Some (_, _, true) =>
                  let payload := firstn 27 (skipn 9 rest) in          (* seek(-11, 1); read(27) *)
                  if negb (zlen payload =? 27) then (0, 0, 0)
                  else if negb (byte_at 0 payload / 16 =? 0) then (0, 0, 0)      (* revision *)
                  else (1, byte_at 12 payload * 16 + byte_at 13 payload / 16,
                        (byte_at 13 payload mod 16) * 256 + byte_at 14 payload)
                | _ => (0, 0, 0)
                end in
              let kind := if is_info then 2 else 1 in
              if frames =? -1 then Some [kind; frames; bytes; lame; delay; padding; -1; 1]
              else
                let samples := frame_size * frames - delay - padding in
                let samples := if samples <? 0 then 0 else samples in
                Some [kind; frames; bytes; lame; delay; padding; samples; sample_rate]
            end
          end
        end
      end
    else None in
  match xing with
  | Some l => l
  | None =>
    let v := zdrop_c 36 f in
    let data := firstn 26 v in
    if (zlen data =? 26) && starts_with ascii_VBRI data then
      if negb (be_at 4 2 data =? 1) then vbr_none
      else
        let bytes := be_at 10 4 data in
        let frames := be_at 14 4 data in
        let toc_num_entries := be_at 18 2 data in
        let toc_entry_size := be_at 22 2 data in
        let toc_size := toc_entry_size * toc_num_entries in
        if negb (zlen (ztake_c toc_size (skipn 26 v)) =? toc_size) then vbr_none
        else if negb ((toc_entry_size =? 2) || (toc_entry_size =? 4)) then vbr_none
        else [3; frames; bytes; 0; 0; 0; frame_size * frames; sample_rate]
    else vbr_none
  end.

(* XingHeader.get_offset *)
Definition code_xing_offset (version10 mode : Z) : Z :=
  if version10 =? 10 then (if negb (mode =? 3) then 36 else 21) else (if negb (mode =? 3) then 21 else 13).

(* MPEGFrame.__init__ including the VBR headers of Layer III: the ten entries of decode_mpeg_frame followed
   by the eight of decode_vbr_tags *)
Definition decode_mpeg_vbr (f : list Z) : result (list Z) :=
  match decode_mpeg_frame f with
  | Raise e => Raise e
  | Ok hdr =>
    if negb (nth 3 hdr 0 =? 3) then Ok (hdr ++ vbr_none)
    else Ok (hdr ++ decode_vbr_tags (nth 8 hdr 0) (nth 1 hdr 0) (code_xing_offset (nth 4 hdr 0) (nth 5 hdr 0)) f)
  end.

(* finite cross-check domain for the frame-level statement: every Layer III header with one tag of each kind *)
Definition xing_sample_1 := mkXing false (Some 1000) (Some 2000000) true (Some 57).
Definition xing_sample_2 := mkXing true (Some 4294967295) None false None.
Definition lame_sample := build_lame_tag [76;65;77;69;51;46;57;57;114] 4 190 576 1105.
Definition mpeg_l3_domain : list mpeg_p :=
  flat_map (fun vb => flat_map (fun bri => flat_map (fun sri => flat_map (fun pad =>
    map (fun mode => mkMpeg vb 1 1 bri sri pad 0 mode 0) (zrange 0 3)) (zrange 0 1)) (zrange 0 2)) (zrange 1 14)) [0; 2; 3].
Definition vbr_check (p : mpeg_p) : bool :=
  let spf := spec_mpeg_samples_per_frame p in let sr := spec_mpeg_rate p in
  result_list_eqb (decode_mpeg_vbr (build_tag_frame p (spec_xing_offset p) (build_xing_tag xing_sample_1 ++ lame_sample)))
                  (expected_mpeg p ++ [1; 1000; 2000000; 1; 576; 1105; spf * 1000 - 576 - 1105; sr]) &&
  result_list_eqb (decode_mpeg_vbr (build_tag_frame p (spec_xing_offset p) (build_xing_tag xing_sample_2)))
                  (expected_mpeg p ++ [2; 4294967295; -1; 0; 0; 0; spf * 4294967295; sr]) &&
  result_list_eqb (decode_mpeg_vbr (build_tag_frame p 36 (build_vbri_tag 0 75 123456 7890 3 1 2 100)))
                  (expected_mpeg p ++ [3; 7890; 123456; 0; 0; 0; spf * 7890; sr]) &&
  result_list_eqb (decode_mpeg_vbr (build_mpeg_frame p)) (expected_mpeg p ++ [0; -1; -1; 0; 0; 0; -1; 1]).

Definition xing_p_of (info : Z) (frames bytes : option Z) (toc : Z) (scale : option Z) : xing_p :=
  mkXing (negb (info =? 0)) frames bytes (negb (toc =? 0)) scale.
(* EXTRACT: InfoXing.build_xing_tag InfoXing.build_lame_tag InfoXing.build_vbri_tag InfoXing.build_tag_frame
            InfoXing.spec_xing_offset InfoXing.decode_mpeg_vbr InfoXing.decode_vbr_tags InfoXing.xing_p_of *)
