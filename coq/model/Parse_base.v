(* Model.Parse_base -- the reader monad of the C04 loader mirrors.
   A loader K is mirrored as `K_load : list Z -> result info`; inside, the caller's file object is a
   BytesIO over the fixed byte list `d`, the state is the stream position, and the position survives a
   Raise (so that `try: ... except X:` handlers continue from where the failing call left the stream).
   Semantics of read/seek/tell are those of CPython's _io.BytesIO (Modules/_io/bytesio.c):
     read(n)         n < 0 reads to the end; past the end returns b"" and leaves the position
     seek(o, 0)      o < 0 -> ValueError
     seek(o, 1|2)    base + o > PY_SSIZE_T_MAX -> OverflowError ; a negative target is clamped to 0
     any argument outside the C ssize_t range -> OverflowError
   Definitions only. *)
From Coq Require Import ZArith List Bool.
Import ListNotations.
Require Import Base.Py.
Open Scope Z_scope.

Definition c04_two63 : Z := 9223372036854775808.
Definition c04_two62 : Z := 4611686018427387904.

(* what a byte string handed to an opener is: bytes, and no longer than a BytesIO can hold *)
Definition c04_input (d : list Z) : Prop := Forall (fun x => 0 <= x < 256) d /\ zlen d < c04_two62.
Definition c04_inputb (d : list Z) : bool := all_bytes d && (zlen d <? c04_two62).

Definition P (A : Type) := list Z -> Z -> result A * Z.
Definition pret {A} (a : A) : P A := fun _ p => (Ok a, p).
Definition praise {A} (e : exc) : P A := fun _ p => (Raise e, p).
Definition pbind {A B} (m : P A) (k : A -> P B) : P B :=
  fun d p => match m d p with (Ok a, p') => k a d p' | (Raise e, p') => (Raise e, p') end.
Notation "x <~ m ;; k" := (pbind m (fun x => k)) (at level 61, m at next level, right associativity).
Notation "' pat <~ m ;; k" := (pbind m (fun x => match x with pat => k end))
  (at level 61, pat pattern, m at next level, right associativity).
Notation "m ;;~ k" := (pbind m (fun _ => k)) (at level 61, right associativity).
Definition plift {A} (r : result A) : P A := fun _ p => (r, p).

(* try: m  except <class test>: h e *)
Definition pcatch {A} (m : P A) (c : exc -> bool) (h : exc -> P A) : P A :=
  fun d p => match m d p with
             | (Raise e, p') => if c e then h e d p' else (Raise e, p')
             | r => r
             end.
(* @convert_error(IOError, error): `except error: raise` / `except IOError: raise error` *)
Definition pconvert_io {A} (m : P A) : P A := pcatch m is_eio (fun _ => praise EMutagen).

Definition in_ssize (n : Z) : bool := (- c04_two63 <=? n) && (n <? c04_two63).

(* take / drop with a Z count, by recursion on the list (equal to ztake / zdrop -- Proofs.C04_lib -- but the
   extracted code never builds a unary number from a length field found in the input) *)
Fixpoint ltake (n : Z) (l : list Z) : list Z :=
  match l with [] => [] | x :: t => if n <=? 0 then [] else x :: ltake (n - 1) t end.
Fixpoint ldrop (n : Z) (l : list Z) : list Z :=
  match l with [] => [] | x :: t => if n <=? 0 then l else ldrop (n - 1) t end.
Definition lslice (a b : Z) (l : list Z) : list Z := ltake (b - a) (ldrop a l).      (* = zslice a b l *)
(* the bytes a read(n) at position p returns *)
Definition rd (n p : Z) (d : list Z) : list Z := if n <? 0 then ldrop p d else ltake n (ldrop p d).
Definition p_read (n : Z) : P (list Z) := fun d p =>
  if negb (in_ssize n) then (Raise EOverflow, p)
  else let r := rd n p d in (Ok r, p + zlen r).
Definition p_tell : P Z := fun _ p => (Ok p, p).
Definition p_seek (off whence : Z) : P unit := fun d p =>
  if negb (in_ssize off) then (Raise EOverflow, p)
  else if whence =? 0 then (if off <? 0 then (Raise EValue, p) else (Ok tt, off))
  else
    let base := if whence =? 1 then p else zlen d in
    if c04_two63 - 1 - base <? off then (Raise EOverflow, p)
    else (Ok tt, Z.max 0 (base + off)).

Definition prun {A} (m : P A) (d : list Z) : result A := fst (m d 0).

(* struct.unpack of one unsigned little-/big-endian integer of exactly n bytes (cdata.uint_le ...):
   a slice of the wrong length is struct.error (cdata.error is struct.error) *)
Definition unpack_le (n : Z) (l : list Z) : result Z := if zlen l =? n then Ok (le_decode l) else Raise EStruct.
Definition unpack_be (n : Z) (l : list Z) : result Z := if zlen l =? n then Ok (be_decode l) else Raise EStruct.
Definition to_signed_bits (bits v : Z) : Z := if v <? 2 ^ (bits - 1) then v else v - 2 ^ bits.
(* x[i] on a bytes/bytearray/list *)
Definition index_at (i : Z) (l : list Z) : result Z :=
  if (0 <=? i) && (i <? zlen l) then Ok (znth i l) else Raise EIndex.
Definition list_index {A} (i : Z) (l : list A) : result A :=
  if i <? 0 then Raise EIndex
  else match nth_error l (Z.to_nat i) with Some a => Ok a | None => Raise EIndex end.

(* the outcome predicate of C04: accepted, or rejected with a MutagenError-class exception *)
Definition total {A} (r : result A) : Prop := match r with Ok _ => True | Raise e => e = EMutagen end.
Definition totalb {A} (r : result A) : bool := match r with Ok _ => true | Raise e => exc_eqb e EMutagen end.

(* linear fuel a * len + b *)
Definition lin_fuel (a b : Z) (d : list Z) : nat := Z.to_nat (a * zlen d + b).

(* printable outcome for the vm_compute cross-check shard: (0, info) or (exception code, []) *)
Definition c04_exc_code (e : exc) : Z :=
  match e with
  | EValue => 1 | EKey => 2 | EType => 3 | EIndex => 4 | EStruct => 5 | EUnicode => 6 | EOverflow => 7
  | EZeroDiv => 8 | EAttr => 9 | EIO _ => 10 | EEOF => 11 | EAssert => 12 | ENotImpl => 13 | EMutagen => 14
  | EOutOfFuel => 15
  end.
Definition c04_show {A} (f : A -> list Z) (r : result A) : Z * list Z :=
  match r with Ok a => (0, f a) | Raise e => (c04_exc_code e, []) end.
