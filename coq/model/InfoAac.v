(* Model.InfoAac -- AAC ADIF header (C05).
   SPEC side: ISO/IEC 13818-7 adif_header() and program_config_element(), written bit by bit (MSB first):
     adif_id "ADIF"; copyright_id_present 1; [copyright_id 72]; original_copy 1; home 1; bitstream_type 1; bitrate 23;
     num_program_config_elements 4; then (num_program_config_elements + 1) times
       { [adif_buffer_fullness 20 -- only when bitstream_type = 0 (constant rate)]; program_config_element() }
     program_config_element(): element_instance_tag 4; object_type 2; sampling_frequency_index 4; num_front 4; num_side 4;
       num_back 4; num_lfe 2; num_assoc_data 3; num_valid_cc 4; mono_mixdown_present 1 [element_number 4];
       stereo_mixdown_present 1 [element_number 4]; matrix_mixdown_idx_present 1 [matrix_mixdown_idx 2, pseudo_surround 1];
       front/side/back: is_cpe 1, tag_select 4 each; lfe: tag_select 4 each; assoc_data: tag_select 4 each;
       cc: is_ind_sw 1, tag_select 4 each; byte_alignment(); comment_field_bytes 8; comment_field_data 8 each.
   CODE side: mutagen.aac.AACInfo.__init__ (ID3v2 size skip, "ADIF" test), AACInfo._parse_adif and
   ProgramConfigElement.__init__ over mutagen._util.BitReader (Model.InfoMpeg.bitreader). *)
From Coq Require Import ZArith List Bool.
Import ListNotations.
Require Import Base.Py Model.InfoBase Model.InfoMpeg Gen.Gen_tables.
Open Scope Z_scope.

(* ------------------------------------------------------------------ SPEC side *)
(* MSB-first packing of (value, width) fields; the value of a field list is defined from the right so that the first field
   occupies the most significant bits *)
Fixpoint fields_width (fs : list (Z * Z)) : Z :=
  match fs with [] => 0 | (_, w) :: r => w + fields_width r end.
Fixpoint fields_value (fs : list (Z * Z)) : Z :=
  match fs with [] => 0 | (x, w) :: r => x * 2 ^ fields_width r + fields_value r end.
Definition pack_fields (fs : list (Z * Z)) : list Z :=
  let n := fields_width fs in
  let pad := (- n) mod 8 in
  be_encode (Z.to_nat ((n + pad) / 8)) (fields_value fs * 2 ^ pad).

Definition spec_aac_freqs : list Z := [96000; 88200; 64000; 48000; 44100; 32000; 24000; 22050; 16000; 12000; 11025; 8000; 7350].

(* element lists hold 5-bit values is_cpe * 16 + tag_select (front/side/back), 4-bit tag_selects (lfe, assoc_data) and
   5-bit values is_ind_sw * 16 + tag_select (cc); mixdown options: None = the present flag is 0 *)
Record pce_p := mkPce {
  pc_tag : Z; pc_object_type : Z; pc_sfi : Z;
  pc_front : list Z; pc_side : list Z; pc_back : list Z; pc_lfe : list Z; pc_assoc : list Z; pc_cc : list Z;
  pc_mono : option Z; pc_stereo : option Z; pc_matrix : option Z; pc_comment : list Z
}.
Definition opt_field (o : option Z) (w : Z) : list (Z * Z) :=
  match o with None => [(0, 1)] | Some v => [(1, 1); (v, w)] end.
Definition elem5 (e : Z) : list (Z * Z) := [(e / 16, 1); (e mod 16, 4)].
Definition pce_head (p : pce_p) : list (Z * Z) :=
  [(pc_tag p, 4); (pc_object_type p, 2); (pc_sfi p, 4); (zlen (pc_front p), 4); (zlen (pc_side p), 4); (zlen (pc_back p), 4);
   (zlen (pc_lfe p), 2); (zlen (pc_assoc p), 3); (zlen (pc_cc p), 4)] ++
  opt_field (pc_mono p) 4 ++ opt_field (pc_stereo p) 4 ++ opt_field (pc_matrix p) 3 ++
  flat_map elem5 (pc_front p ++ pc_side p ++ pc_back p) ++
  map (fun t => (t, 4)) (pc_lfe p) ++ map (fun t => (t, 4)) (pc_assoc p) ++ flat_map elem5 (pc_cc p).
(* n0 = number of bits written since the start of the header (byte_alignment() is relative to it) *)
Definition pce_fields (n0 : Z) (p : pce_p) : list (Z * Z) :=
  let h := pce_head p in
  h ++ [(0, (- (n0 + fields_width h)) mod 8); (zlen (pc_comment p), 8)] ++ map (fun b => (b, 8)) (pc_comment p).

Record adif_p := mkAdif {
  ad_copyright : option (list Z);      (* 9 bytes *)
  ad_original : Z; ad_home : Z; ad_bitstream_type : Z; ad_bitrate : Z; ad_fullness : Z;
  ad_pces : list pce_p                 (* num_program_config_elements + 1 of them *)
}.
Fixpoint adif_pces (bstype fullness n0 : Z) (ps : list pce_p) : list (Z * Z) :=
  match ps with
  | [] => []
  | p :: r =>
    let pre := if bstype =? 0 then [(fullness, 20)] else [] in
    let fs := pre ++ pce_fields (n0 + fields_width pre) p in
    fs ++ adif_pces bstype fullness (n0 + fields_width fs) r
  end.
Definition adif_head (p : adif_p) : list (Z * Z) :=
  (match ad_copyright p with None => [(0, 1)] | Some c => (1, 1) :: map (fun b => (b, 8)) c end) ++
  [(ad_original p, 1); (ad_home p, 1); (ad_bitstream_type p, 1); (ad_bitrate p, 23); (zlen (ad_pces p) - 1, 4)].
Definition adif_fields (p : adif_p) : list (Z * Z) :=
  let h := adif_head p in
  h ++ adif_pces (ad_bitstream_type p) (ad_fullness p) (fields_width h) (ad_pces p).
Definition ascii_ADIF : list Z := [65; 68; 73; 70].
(* the header (byte aligned) followed by the raw data stream *)
Definition build_adif (p : adif_p) (tail : list Z) : list Z := ascii_ADIF ++ pack_fields (adif_fields p) ++ tail.

(* channels of a program: one per single channel element, two per channel pair element, one per LFE element *)
Definition pce_channels (p : pce_p) : Z :=
  fold_left (fun acc e => acc + 1 + e / 16) (pc_front p ++ pc_side p ++ pc_back p) 0 + zlen (pc_lfe p).
(* [sample_rate (0 for the reserved indices 13..15); channels; bitrate] of the first program *)
Definition expected_adif (p : adif_p) : list Z :=
  match ad_pces p with
  | [] => []
  | p0 :: _ => [nth (Z.to_nat (pc_sfi p0)) spec_aac_freqs 0; pce_channels p0; ad_bitrate p]
  end.

(* field ranges (the bit widths of the syntax) *)
Definition opt_in (w : Z) (o : option Z) : Prop := match o with None => True | Some v => 0 <= v < 2 ^ w end.
Definition elems_in (count_bits elem_bits : Z) (l : list Z) : Prop :=
  zlen l < 2 ^ count_bits /\ Forall (fun e => 0 <= e < 2 ^ elem_bits) l.
Definition valid_pce (p : pce_p) : Prop :=
  0 <= pc_tag p < 16 /\ 0 <= pc_object_type p < 4 /\ 0 <= pc_sfi p < 16 /\
  elems_in 4 5 (pc_front p) /\ elems_in 4 5 (pc_side p) /\ elems_in 4 5 (pc_back p) /\
  elems_in 2 4 (pc_lfe p) /\ elems_in 3 4 (pc_assoc p) /\ elems_in 4 5 (pc_cc p) /\
  opt_in 4 (pc_mono p) /\ opt_in 4 (pc_stereo p) /\ opt_in 3 (pc_matrix p) /\ elems_in 8 8 (pc_comment p).
Definition valid_adif (p : adif_p) : Prop :=
  match ad_copyright p with None => True | Some c => zlen c = 9 /\ Forall (fun b => 0 <= b < 256) c end /\
  0 <= ad_original p < 2 /\ 0 <= ad_home p < 2 /\ 0 <= ad_bitstream_type p < 2 /\ 0 <= ad_bitrate p < 2 ^ 23 /\
  0 <= ad_fullness p < 2 ^ 20 /\ 1 <= zlen (ad_pces p) <= 16 /\ Forall valid_pce (ad_pces p).
(* [sample_rate; channels; bitrate; length numerator; length denominator] for a raw data stream of n bytes *)
Definition expected_adif_info (p : adif_p) (n : Z) : list Z :=
  expected_adif p ++ (if ad_bitrate p =? 0 then [0; 1] else [8 * n; ad_bitrate p]).

(* ------------------------------------------------------------------ CODE side *)
(* BitReader plus the number of bytes a `seek(n_bytes, 1)` in skip() went past the end of the file (tell() reports them) *)
Definition ard : Type := bitreader * Z.
Definition a_bits (n : Z) (s : ard) : option (Z * ard) :=
  match br_read n (fst s) with None => None | Some (v, r') => Some (v, (r', snd s)) end.
Definition a_skip (n : Z) (s : ard) : option ard :=
  let r := fst s in
  let over := if n <=? br_bits r then 0 else Z.max 0 ((n - br_bits r) / 8 - zlen (br_rest r)) in
  match br_skip n r with None => None | Some r' => Some (r', snd s + over) end.
Definition a_align (s : ard) : ard := (mkBR 0 0 (br_rest (fst s)), snd s).
(* `if flag == 1: r.skip(n)` *)
Definition a_skip_if (flag n : Z) (s : ard) : option ard := if flag =? 1 then a_skip n s else Some s.

(* for i in range(elms): channels += 1; if r.bits(1): channels += 1; r.skip(4) *)
Fixpoint pce_elements (n : nat) (channels : Z) (s : ard) : option (Z * ard) :=
  match n with
  | O => Some (channels, s)
  | S n' =>
    obind (a_bits 1 s) (fun '(cpe, s) =>
    obind (a_skip 4 s) (fun s =>
    pce_elements n' (channels + 1 + (if negb (cpe =? 0) then 1 else 0)) s))
  end.

(* ProgramConfigElement.__init__: Some ((sampling_frequency_index, channels), reader) | None = BitReaderError *)
Definition read_pce (s : ard) : option ((Z * Z) * ard) :=
  obind (a_bits 4 s) (fun '(_, s) =>
  obind (a_bits 2 s) (fun '(_, s) =>
  obind (a_bits 4 s) (fun '(sfi, s) =>
  obind (a_bits 4 s) (fun '(nfront, s) =>
  obind (a_bits 4 s) (fun '(nside, s) =>
  obind (a_bits 4 s) (fun '(nback, s) =>
  obind (a_bits 2 s) (fun '(nlfe, s) =>
  obind (a_bits 3 s) (fun '(nassoc, s) =>
  obind (a_bits 4 s) (fun '(ncc, s) =>
  obind (a_bits 1 s) (fun '(mono, s) =>
  obind (a_skip_if mono 4 s) (fun s =>
  obind (a_bits 1 s) (fun '(stereo, s) =>
  obind (a_skip_if stereo 4 s) (fun s =>
  obind (a_bits 1 s) (fun '(matrix, s) =>
  obind (a_skip_if matrix 3 s) (fun s =>
  obind (pce_elements (Z.to_nat (nfront + nside + nback)) 0 s) (fun '(channels, s) =>
  obind (a_skip (4 * nlfe) s) (fun s =>
  obind (a_skip (4 * nassoc) s) (fun s =>
  obind (a_skip (5 * ncc) s) (fun s =>
  obind (a_bits 8 (a_align s)) (fun '(comment_bytes, s) =>
  obind (a_skip (8 * comment_bytes) s) (fun s =>
  Some ((sfi, channels + nlfe), s)))))))))))))))))))))).

(* for i in range(npce): if bitstream_type == 0: r.skip(20); ProgramConfigElement(r) *)
Fixpoint read_more_pces (bitstream_type : Z) (n : nat) (s : ard) : option ard :=
  match n with
  | O => Some s
  | S n' =>
    obind (if bitstream_type =? 0 then a_skip 20 s else Some s) (fun s =>
    obind (read_pce s) (fun '(_, s) => read_more_pces bitstream_type n' s))
  end.

(* AACInfo._parse_adif up to and including the final r.align(): Some ([bitrate; sfi; channels], reader) *)
Definition read_adif (s : ard) : option (list Z * ard) :=
  obind (a_bits 1 s) (fun '(copyright_id_present, s) =>
  obind (if negb (copyright_id_present =? 0) then a_skip 72 s else Some s) (fun s =>
  obind (a_skip 2 s) (fun s =>
  obind (a_bits 1 s) (fun '(bitstream_type, s) =>
  obind (a_bits 23 s) (fun '(bitrate, s) =>
  obind (a_bits 4 s) (fun '(npce, s) =>
  obind (if bitstream_type =? 0 then a_skip 20 s else Some s) (fun s =>
  obind (read_pce s) (fun '((sfi, channels), s) =>
  obind (read_more_pces bitstream_type (Z.to_nat npce) s) (fun s =>
  Some ([bitrate; sfi; channels], a_align s)))))))))).

(* BitPaddedInt(header[6:]) *)
Definition bitpadded7 (l : list Z) : Z := fold_left (fun acc b => acc * 128 + b mod 128) l 0.

(* AACInfo.__init__ on a whole file that carries an ADIF header.
   result: [sample_rate; channels; bitrate; length numerator; length denominator]
   length = 8.0 * (file size - position after the header) / bitrate; (0, 1) when bitrate = 0 (the class default 0).
   A file without "ADIF" at the (ID3-skipped) start goes to the ADTS scanner, which is outside this model: ENotImpl. *)
Definition decode_adif (f : list Z) : result (list Z) :=
  let header := sub_at 0 10 f in
  let start := if starts_with [73; 68; 51] header then bitpadded7 (skipn 6 header) + 10 else 0 in
  let body := zdrop_c start f in
  if negb (list_eqb (sub_at 0 4 body) ascii_ADIF) then Raise ENotImpl
  else
    match read_adif (br_new (skipn 4 body), 0) with
    | None => Raise EMutagen                                  (* BitReaderError -> AACError *)
    | Some ([bitrate; sfi; channels], s) =>
      let rate := match idx sfi gen_aac_freqs with Some r => r | None => 0 end in   (* IndexError: sample_rate stays 0 *)
      let left := zlen (br_rest (fst s)) - snd s in           (* end of file - fileobj.tell() *)
      if bitrate =? 0 then Ok [rate; channels; bitrate; 0; 1]
      else Ok [rate; channels; bitrate; 8 * left; bitrate]
    | Some _ => Raise EAssert
    end.

Definition aac_table_diffs : list (Z * Z * Z) := list_diff gen_aac_freqs spec_aac_freqs.

(* line-protocol constructors *)
Definition pce_of (tag ot sfi : Z) (front side back lfe assoc cc : list Z) (mono stereo matrix : option Z) (comment : list Z) : pce_p :=
  mkPce tag ot sfi front side back lfe assoc cc mono stereo matrix comment.
Definition adif_of (cid : option (list Z)) (orig home bstype bitrate fullness : Z) (pces : list pce_p) : adif_p :=
  mkAdif cid orig home bstype bitrate fullness pces.
(* EXTRACT: InfoAac.build_adif InfoAac.decode_adif InfoAac.pce_of InfoAac.adif_of InfoAac.expected_adif *)
