(* Model.Parse_aac -- exception-faithful mirror of mutagen/aac.py AACInfo.__init__ (what AAC.load runs) over a
   BytesIO, on the BitReader model of Model.Parse_ac3 (br_bits / br_skip; BitReaderError is ENotImpl there):
     AACInfo.__init__    read(10), ID3v2 skip (BitPaddedInt(header[6:]) + 10), seek, read(4) == b"ADIF" dispatch
     _parse_adif         the header bits, ProgramConfigElement(r) (its `for i in range(elms)` loop, the skips, align,
                         comment field), `_FREQS[...]` with `except IndexError: pass`, the npce loop,
                         `except BitReaderError: raise AACError`, the length estimate
     _parse_adts         the `for i in range(max_sync_tries)` / `for i in range(frames_max)` loops (for-else: AACError),
                         seek(offset), _ADTSStream.find_stream / sync / parse_frame / _parse_frame
                         (`except BitReaderError: return False`; the fixed-header key survives a failing frame;
                         `assert r.is_aligned()`), the properties frequency / channels / bitrate / samples / size
                         with their `assert self.parsed_frames`, the length estimate and its division
   BitReader.get_position() = (tell() - pos) * 8 - bits, pos = tell() when the reader was made.
   The stream's floats are exact multiples of 1/8 here: _payload and _last are kept as their numerators
   (payload8 = 8 * _payload, last8 = 8 * _last = get_position()); _start is 0.  Definitions only. *)
From Coq Require Import ZArith List Bool.
Import ListNotations.
Require Import Base.Py Model.Parse_base Model.Parse_musepack Model.Parse_ac3.
Open Scope Z_scope.

Definition aac_freqs : list Z := [96000; 88200; 64000; 48000; 44100; 32000; 24000; 22050; 16000; 12000; 11025; 8000; 7350].
Definition is_eindex (e : exc) : bool := exc_eqb e EIndex.
Definition aac_ID3  := [73;68;51].
Definition aac_ADIF := [65;68;73;70].

Definition br_get_position (pos0 : Z) (s : brs) : P Z := p <~ p_tell ;; pret ((p - pos0) * 8 - snd s).
(* r.bytes(1): the byte value *)
Definition br_byte (s : brs) : P (Z * brs) :=
  if snd s =? 0 then
    data <~ p_read 1 ;;
    if negb (zlen data =? 1) then praise EBitReader else pret (znth 0 data, s)
  else br_bits 8 s.
(* `if r.bits(1) == 1: r.skip(n)` *)
Definition br_flag_skip (n : Z) (s : brs) : P brs :=
  ' (b, s) <~ br_bits 1 s ;;
  if b =? 1 then br_skip n s else pret s.

(* ---------------------------------------------------------------- ADIF *)
(* `for i in range(elms): channels += 1; if r.bits(1): channels += 1; r.skip(4)` *)
Fixpoint pce_elements (n : nat) (channels : Z) (s : brs) : P (Z * brs) :=
  match n with
  | O => pret (channels, s)
  | S n' =>
      ' (cpe, s) <~ br_bits 1 s ;;
      s <~ br_skip 4 s ;;
      pce_elements n' (if negb (cpe =? 0) then channels + 2 else channels + 1) s
  end.
(* ProgramConfigElement(r): (sampling_frequency_index, channels) *)
Definition aac_pce (s : brs) : P (Z * Z * brs) :=
  ' (_, s) <~ br_bits 4 s ;;
  ' (_, s) <~ br_bits 2 s ;;
  ' (sfi, s) <~ br_bits 4 s ;;
  ' (nfront, s) <~ br_bits 4 s ;;
  ' (nside, s) <~ br_bits 4 s ;;
  ' (nback, s) <~ br_bits 4 s ;;
  ' (nlfe, s) <~ br_bits 2 s ;;
  ' (nassoc, s) <~ br_bits 3 s ;;
  ' (ncc, s) <~ br_bits 4 s ;;
  s <~ br_flag_skip 4 s ;;
  s <~ br_flag_skip 4 s ;;
  s <~ br_flag_skip 3 s ;;
  ' (channels, s) <~ pce_elements (Z.to_nat (nfront + nside + nback)) 0 s ;;
  s <~ br_skip (4 * nlfe) s ;;
  s <~ br_skip (4 * nassoc) s ;;
  s <~ br_skip (5 * ncc) s ;;
  ' (comment_field_bytes, s) <~ br_bits 8 (0, 0) ;;                            (* r.align() *)
  s <~ br_skip (8 * comment_field_bytes) s ;;
  pret (sfi, channels + nlfe, s).
(* `for i in range(npce): if bitstream_type == 0: r.skip(20); ProgramConfigElement(r)` *)
Fixpoint aac_other_pces (n : nat) (bitstream_type : Z) (s : brs) : P brs :=
  match n with
  | O => pret s
  | S n' =>
      s <~ (if bitstream_type =? 0 then br_skip 20 s else pret s) ;;
      ' (_, _, s) <~ aac_pce s ;;
      aac_other_pces n' bitstream_type s
  end.
(* _parse_adif: [0; sample_rate; channels; bitrate; size - start]  (length = 8.0 * (size - start) / bitrate if bitrate != 0) *)
Definition aac_parse_adif : P (list Z) :=
  ' (bitrate, sample_rate, channels) <~
    pcatch (
      ' (cip, s) <~ br_bits 1 (0, 0) ;;
      s <~ (if negb (cip =? 0) then br_skip 72 s else pret s) ;;
      s <~ br_skip 2 s ;;
      ' (bitstream_type, s) <~ br_bits 1 s ;;
      ' (bitrate, s) <~ br_bits 23 s ;;
      ' (npce, s) <~ br_bits 4 s ;;
      s <~ (if bitstream_type =? 0 then br_skip 20 s else pret s) ;;
      ' (sfi, channels, s) <~ aac_pce s ;;
      sample_rate <~ pcatch (plift (list_index sfi aac_freqs)) is_eindex (fun _ => pret 0) ;;   (* class attribute 0 *)
      s <~ aac_other_pces (Z.to_nat npce) bitstream_type s ;;
      pret (bitrate, sample_rate, channels))
      is_ebitreader (fun _ => praise EMutagen) ;;
  start <~ p_tell ;;
  p_seek 0 2 ;;~
  size <~ p_tell ;;
  (if negb (bitrate =? 0) then (if bitrate =? 0 then praise EZeroDiv else pret tt) else pret tt) ;;~
  pret [0; sample_rate; channels; bitrate; size - start].

(* ---------------------------------------------------------------- ADTS *)
(* _ADTSStream: (_fixed_header_key, parsed_frames, _samples, 8 * _payload, 8 * _last) *)
Definition adts := (option (list Z) * Z * Z * Z * Z)%type.
Definition adts_key (st : adts) : option (list Z) := fst (fst (fst (fst st))).
Definition adts_parsed (st : adts) : Z := snd (fst (fst (fst st))).
Definition adts_samples (st : adts) : Z := snd (fst (fst st)).
Definition adts_payload8 (st : adts) : Z := snd (fst st).
Definition adts_last8 (st : adts) : Z := snd st.

(* sync(): `while max_bytes > 0:` -- one round: Some b = `return b`, None = go on *)
Fixpoint adts_sync_loop (fuel : nat) (max_bytes : Z) (s : brs) : P (bool * brs) :=
  match fuel with
  | O => praise EOutOfFuel
  | S f =>
      if negb (0 <? max_bytes) then pret (false, s)
      else
        ' (ret, s', mb) <~
          pcatch (
            ' (b, s1) <~ br_byte s ;;
            if b =? 255 then
              ' (v, s2) <~ br_bits 4 s1 ;;
              if v =? 15 then pret (Some true, s2, max_bytes)
              else pret (None, (0, 0), max_bytes - 2)                           (* r.align() *)
            else pret (None, s1, max_bytes - 1))
            is_ebitreader (fun _ => pret (Some false, s, max_bytes)) ;;
        match ret with
        | Some b => pret (b, s')
        | None => adts_sync_loop f mb s'
        end
  end.
Definition adts_sync (max_bytes : Z) : P (bool * brs) :=
  let mb := Z.max max_bytes 2 in
  adts_sync_loop (Z.to_nat mb + 1) mb (0, 0).                                   (* r.align() *)

(* parse_frame(): (ok, stream, reader) *)
Definition adts_parse_frame (pos0 : Z) (st : adts) (s : brs) : P (bool * adts * brs) :=
  (* up to the fixed header key *)
  a <~ pcatch (
         gp <~ br_get_position pos0 s ;;
         ' (id_, s) <~ br_bits 1 s ;;
         ' (layer, s) <~ br_bits 2 s ;;
         ' (protection_absent, s) <~ br_bits 1 s ;;
         ' (profile, s) <~ br_bits 2 s ;;
         ' (sfi, s) <~ br_bits 4 s ;;
         ' (private_bit, s) <~ br_bits 1 s ;;
         ' (chan, s) <~ br_bits 3 s ;;
         ' (original_copy, s) <~ br_bits 1 s ;;
         ' (home, s) <~ br_bits 1 s ;;
         pret (Some (gp - 12, protection_absent, [id_; layer; protection_absent; profile; sfi; private_bit; chan; original_copy; home], s)))
       is_ebitreader (fun _ => pret None) ;;
  match a with
  | None => pret (false, st, s)
  | Some (start, protection_absent, key, s) =>
      let '(okey, parsed, samples, payload8, last8) := st in
      let same := match okey with None => true | Some k => list_eqb k key end in
      if negb same then pret (false, st, s)
      else
        let key' := match okey with None => Some key | Some k => Some k end in
        let st1 : adts := (key', parsed, samples, payload8, last8) in
        b <~ pcatch (
               s <~ br_skip 2 s ;;
               ' (frame_length, s) <~ br_bits 13 s ;;
               s <~ br_skip 11 s ;;
               ' (nordbif, s) <~ br_bits 2 s ;;
               let crc_overhead :=
                 if protection_absent =? 0 then
                   (if negb (nordbif =? 0) then (nordbif + 1) * 16 * 2 else (nordbif + 1) * 16)
                 else 0 in
               gp <~ br_get_position pos0 s ;;
               let left := frame_length * 8 - (gp - start) in
               if left <? 0 then pret None
               else
                 s <~ br_skip left s ;;
                 if negb (snd s =? 0) then praise EAssert                     (* assert r.is_aligned() *)
                 else
                   last <~ br_get_position pos0 s ;;
                   pret (Some ((key', parsed + 1, samples + (nordbif + 1) * 1024, payload8 + (left - crc_overhead), last) : adts, s)))
             is_ebitreader (fun _ => pret None) ;;
        match b with
        | None => pret (false, st1, s)
        | Some (st2, s) => pret (true, st2, s)
        end
  end.

(* `for i in range(frames_max): if not s.parse_frame(): break; if not s.sync(max_resync_read): break` *)
Fixpoint adts_frames (n : nat) (pos0 : Z) (st : adts) (s : brs) : P adts :=
  match n with
  | O => pret st
  | S n' =>
      ' (ok, st, s) <~ adts_parse_frame pos0 st s ;;
      if negb ok then pret st
      else
        ' (ok2, s) <~ adts_sync 10 ;;
        if negb ok2 then pret st else adts_frames n' pos0 st s
  end.

(* _ADTSStream.find_stream(fileobj, 512): None, or (pos0, stream offset, reader) *)
Definition adts_find_stream : P (option (Z * Z * brs)) :=
  pos0 <~ p_tell ;;
  ' (ok, s) <~ adts_sync 512 ;;
  if negb ok then pret None
  else gp <~ br_get_position pos0 s ;; pret (Some (pos0, (gp - 12) / 8, s)).

(* the `for i in range(max_sync_tries)` loop: (offset, s.offset, stream) *)
Fixpoint adts_tries (n : nat) (offset : Z) : P (Z * Z * adts) :=
  match n with
  | O => praise EMutagen                                                       (* for ... else: raise AACError *)
  | S n' =>
      p_seek offset 0 ;;~
      f <~ adts_find_stream ;;
      match f with
      | None => praise EMutagen                                                (* sync not found *)
      | Some (pos0, soff, s) =>
          let offset := offset + (soff + 1) in
          st <~ adts_frames 100 pos0 (None, 0, 0, 0, 0) s ;;
          if 3 <=? adts_parsed st then pret (offset, soff, st) else adts_tries n' offset
      end
  end.

(* `assert self.parsed_frames, "no frame parsed yet"` *)
Definition adts_assert_parsed (st : adts) : P unit := if adts_parsed st =? 0 then praise EAssert else pret tt.
(* self._fixed_header_key[i] *)
Definition adts_key_at (st : adts) (i : Z) : P Z :=
  match adts_key st with None => praise EType | Some k => plift (list_index i k) end.
Definition adts_frequency (st : adts) : P Z :=
  adts_assert_parsed st ;;~
  f_index <~ adts_key_at st 4 ;;
  pcatch (plift (list_index f_index aac_freqs)) is_eindex (fun _ => pret 0).
Definition adts_channels (st : adts) : P Z :=
  adts_assert_parsed st ;;~
  b_index <~ adts_key_at st 6 ;;
  pret (if b_index =? 7 then 8 else if 7 <? b_index then 0 else b_index).

(* _parse_adts: [1; sample_rate; channels; has_float_bitrate; bitrate; samples; stream_size; 8 * size]
   bitrate = (8 * _payload * frequency) // _samples (a float) unless _samples == 0 (int 0);
   length = float(samples * stream_size) / (size * frequency) if frequency != 0 else 0.0 *)
Definition aac_parse_adts (start_offset : Z) : P (list Z) :=
  ' (offset, soff, st) <~ adts_tries 10 start_offset ;;
  frequency <~ adts_frequency st ;;
  channels <~ adts_channels st ;;
  adts_assert_parsed st ;;~
  ' (hasf, bitrate) <~
    (if adts_samples st =? 0 then pret (0, 0)
     else
       f <~ adts_frequency st ;;
       pret (1, (adts_payload8 st * f) / adts_samples st)) ;;
  p_seek 0 2 ;;~
  size <~ p_tell ;;
  let stream_size := size - (offset + soff) in
  f <~ adts_frequency st ;;
  (if negb (f =? 0) then
     adts_assert_parsed st ;;~ adts_assert_parsed st ;;~
     f2 <~ adts_frequency st ;;
     if (adts_last8 st - 0) * f2 =? 0 then praise EZeroDiv else pret tt
   else pret tt) ;;~
  pret [1; frequency; channels; hasf; bitrate; adts_samples st; stream_size; adts_last8 st].

Definition aac_init : P (list Z) :=
  pconvert_io (
    header <~ p_read 10 ;;
    let start_offset := if starts_with aac_ID3 header then mpc_bpi7 (zdrop 6 header) + 10 else 0 in
    p_seek start_offset 0 ;;~
    adif <~ p_read 4 ;;
    if list_eqb adif aac_ADIF then aac_parse_adif else aac_parse_adts start_offset).
Definition aac_load (d : list Z) : result (list Z) := prun aac_init d.

Definition aac_id (l : list Z) : list Z := l.
(* EXTRACT: aac_load aac_id *)
