(* Model.Ogg: mutagen/ogg.py class OggPage -- __init__ (parse), write, size, the flag properties,
   to_packets, from_packets, _from_packets_try_preserve, renumber, replace, find_last.
   The model follows the Python text (same loops, guards, order of checks, exception classes).
   Python bytes = list Z, int = Z.  A file is its content `list Z` plus explicit positions; the
   byte-level effect of `resize_bytes(...); seek(offset); write(data)` is the splice that property
   C11 proves for resize_bytes (tied to the implementation by the C15 correspondence run).
   Definitions only. *)
From Coq Require Import ZArith List Bool.
Import ListNotations.
Require Import Base.Py Base.FileModel Model.Crc.
Open Scope Z_scope.

Record page := mkPage {
  p_version : Z;            (* version *)
  p_flags : Z;              (* __type_flags, the whole byte *)
  p_position : Z;           (* position (granule), signed 64 bit *)
  p_serial : Z;
  p_sequence : Z;
  p_complete : bool;
  p_packets : list (list Z)
}.

(* OggPage(): class attribute defaults *)
Definition new_page : page := mkPage 0 0 0 0 0 true [].

Definition set_flags (p : page) v := mkPage (p_version p) v (p_position p) (p_serial p) (p_sequence p) (p_complete p) (p_packets p).
Definition set_position (p : page) v := mkPage (p_version p) (p_flags p) v (p_serial p) (p_sequence p) (p_complete p) (p_packets p).
Definition set_serial (p : page) v := mkPage (p_version p) (p_flags p) (p_position p) v (p_sequence p) (p_complete p) (p_packets p).
Definition set_sequence (p : page) v := mkPage (p_version p) (p_flags p) (p_position p) (p_serial p) v (p_complete p) (p_packets p).
Definition set_complete (p : page) v := mkPage (p_version p) (p_flags p) (p_position p) (p_serial p) (p_sequence p) v (p_packets p).
Definition set_packets (p : page) v := mkPage (p_version p) (p_flags p) (p_position p) (p_serial p) (p_sequence p) (p_complete p) v.

(* cdata.test_bit / __set_flag *)
Definition test_flag (bit : Z) (p : page) : bool := Z.testbit (p_flags p) bit.
Definition set_flag (bit : Z) (v : bool) (p : page) : page :=
  let mask := Z.shiftl 1 bit in
  set_flags p (if v then Z.lor (p_flags p) mask else Z.land (p_flags p) (Z.lnot mask)).
Definition continued := test_flag 0.
Definition first := test_flag 1.
Definition last_flag := test_flag 2.
Definition set_continued v := set_flag 0 v.
Definition set_first v := set_flag 1 v.
Definition set_last v := set_flag 2 v.

(* ---- lacing, size, write ---------------------------------------------------------------- *)

(* b"\xff" * quot + bchr(rem) *)
Definition lacing_of (d : list Z) : list Z :=
  repeat 255 (Z.to_nat (zlen d / 255)) ++ [zlen d mod 255].

Definition lacing_data (p : page) : list Z :=
  let l := concat (map lacing_of (p_packets p)) in
  if negb (p_complete p) && (last l 1 =? 0) then removelast l else l.

Definition lacing_count (p : page) : Z := zlen (lacing_data p).

Definition data_len (pk : list (list Z)) : Z := fold_right (fun d acc => zlen d + acc) 0 pk.

(* the `size` property.  (Python: an incomplete page WITHOUT packets raises UnboundLocalError on
   `rem`; no page built by __init__ or from_packets is in that state; the model returns 27.) *)
Definition page_size (p : page) : Z :=
  let n := fold_right (fun d acc => zlen d / 255 + 1 + acc) 0 (p_packets p) in
  let n' := match p_packets p with
            | [] => n
            | _ => if negb (p_complete p) && (zlen (last (p_packets p) []) mod 255 =? 0) then n - 1 else n
            end in
  27 + n' + data_len (p_packets p).

Definition oggs : list Z := [79; 103; 103; 83].
Definition two63 : Z := 9223372036854775808.
Definition two64 : Z := 18446744073709551616.
Definition two32 : Z := 4294967296.

(* struct.pack("<4sBBqIIi", b"OggS", version, flags, position, serial, sequence, 0): 26 bytes *)
Definition header_ok (p : page) : bool :=
  (0 <=? p_version p) && (p_version p <? 256) && (0 <=? p_flags p) && (p_flags p <? 256) &&
  (- two63 <=? p_position p) && (p_position p <? two63) &&
  (0 <=? p_serial p) && (p_serial p <? two32) && (0 <=? p_sequence p) && (p_sequence p <? two32).
Definition header26 (p : page) : list Z :=
  oggs ++ [p_version p; p_flags p] ++ le_encode 8 (p_position p mod two64) ++
  le_encode 4 (p_serial p) ++ le_encode 4 (p_sequence p) ++ [0; 0; 0; 0].

(* data[:22] + crc + data[26:] with the little-endian CRC of the page whose field is zero *)
Definition put_crc (body : list Z) : list Z :=
  ztake 22 body ++ le_encode 4 (ogg_crc body) ++ zdrop 26 body.

Definition page_write (p : page) : result (list Z) :=
  if negb (header_ok p) then Raise EStruct
  else
    let l := lacing_data p in
    if 255 <? zlen l then Raise EValue     (* bchr(len(lacing_data)) *)
    else Ok (put_crc (header26 p ++ [zlen l] ++ l ++ concat (p_packets p))).

(* ---- parse (OggPage.__init__ on a file object positioned at the start of bs) --------------- *)

(* the lacing loop: returns (lacings reversed, total) *)
Fixpoint lacing_scan (bs : list Z) (total : Z) (acc : list Z) : list Z * Z :=
  match bs with
  | [] => (acc, total)
  | c :: r => let total := total + c in
              if c <? 255 then lacing_scan r 0 (total :: acc) else lacing_scan r total acc
  end.

Fixpoint read_packets (lacings : list Z) (bs : list Z) : option (list (list Z) * list Z) :=
  match lacings with
  | [] => Some ([], bs)
  | l :: r =>
    let d := ztake l bs in
    if negb (zlen d =? l) then None
    else match read_packets r (zdrop l bs) with
         | Some (ps, rest) => Some (d :: ps, rest)
         | None => None
         end
  end.

Definition signed64 (v : Z) : Z := if v <? two63 then v else v - two64.

(* returns the page and the unread remainder of bs *)
Definition page_parse (bs : list Z) : result (page * list Z) :=
  let header := ztake 27 bs in
  if zlen header =? 0 then Raise EEOF
  else if zlen header <? 27 then Raise EMutagen
  else if negb (list_eqb (ztake 4 header) oggs) then Raise EMutagen
  else if negb (znth 4 header =? 0) then Raise EMutagen
  else
    let segments := znth 26 header in
    let rest := zdrop 27 bs in
    let lacing_bytes := ztake segments rest in
    if negb (zlen lacing_bytes =? segments) then Raise EMutagen
    else
      let '(racc, total) := lacing_scan lacing_bytes 0 [] in
      let lacings := rev (if total =? 0 then racc else total :: racc) in
      match read_packets lacings (zdrop segments rest) with
      | None => Raise EMutagen
      | Some (pk, rest') =>
        Ok (mkPage (znth 4 header) (znth 5 header) (signed64 (le_decode (zslice 6 14 header)))
                   (le_decode (zslice 14 18 header)) (le_decode (zslice 18 22 header))
                   (total =? 0) pk, rest')
      end.

(* ---- to_packets ---------------------------------------------------------------------------- *)

(* packets[-1] += d *)
Fixpoint app_last (pk : list (list Z)) (d : list Z) : list (list Z) :=
  match pk with
  | [] => [d]
  | x :: r => match r with [] => [x ++ d] | _ => x :: app_last r d end
  end.

(* one iteration of `for page in pages`; state = (sequence, packets) *)
Definition tp_step (serial : Z) (st : Z * list (list Z)) (p : page) : result (Z * list (list Z)) :=
  let '(sequence, acc) := st in
  if negb (serial =? p_serial p) then Raise EValue
  else if negb (sequence =? p_sequence p) then Raise EValue
  else
    match p_packets p with
    | [] => Ok (sequence + 1, acc)
    | f :: others =>
      if continued p then
        match acc with
        | [] => Raise EIndex                      (* packets[-1] on an empty list *)
        | _ => Ok (sequence + 1, app_last acc f ++ others)
        end
      else Ok (sequence + 1, (acc ++ [f]) ++ others)
    end.

Fixpoint tp_loop (serial : Z) (st : Z * list (list Z)) (pages : list page) : result (Z * list (list Z)) :=
  match pages with
  | [] => Ok st
  | p :: r => match tp_step serial st p with
              | Ok st' => tp_loop serial st' r
              | Raise e => Raise e
              end
  end.

Definition to_packets (strict : bool) (pages : list page) : result (list (list Z)) :=
  match pages with
  | [] => Raise EIndex                            (* pages[0] *)
  | p0 :: _ =>
    let go acc := rmap snd (tp_loop (p_serial p0) (p_sequence p0, acc) pages) in
    if strict then
      if continued p0 then Raise EValue
      else if negb (p_complete (last pages p0)) then Raise EValue
      else go []
    else go (if continued p0 then [[]] else [])
  end.

(* ---- from_packets -------------------------------------------------------------------------- *)

Section FromPackets.
Variables default_size wiggle_room : Z.
Definition chunk_size : Z := (default_size / 255) * 255.

(* page.packets[-1] += d *)
Definition add_to_last (cur : page) (d : list Z) : page := set_packets cur (app_last (p_packets cur) d).

(* the page appended to `pages` when the current one is full *)
Definition close_page (cur : page) : page :=
  if negb (zlen (last (p_packets cur) []) =? 0)
  then let c := set_complete cur false in
       if zlen (p_packets c) =? 1 then set_position c (-1) else c
  else set_packets cur (removelast (p_packets cur)).

(* the page started after `done` with the chunk `data` *)
Definition next_page (done : page) (data : list Z) : page :=
  set_packets (set_sequence (set_continued (negb (p_complete done)) new_page) (p_sequence done + 1)) [data].

(* the if/else on `page.size < default_size and len(page.packets) < 255` *)
Definition place_chunk (data : list Z) (pages_rev : list page) (cur : page) : list page * page :=
  if (page_size cur <? default_size) && (zlen (p_packets cur) <? 255)
  then (pages_rev, add_to_last cur data)
  else let done := close_page cur in (done :: pages_rev, next_page done data).

(* one iteration of `while packet:`; returns (packet, pages reversed, page) *)
Definition chunk_step (packet : list Z) (pages_rev : list page) (cur : page) : list Z * list page * page :=
  let data := ztake chunk_size packet in
  let packet := zdrop chunk_size packet in
  let '(pages_rev, cur) := place_chunk data pages_rev cur in
  if zlen packet <? wiggle_room
  then ([], pages_rev, add_to_last cur packet)
  else (packet, pages_rev, cur).

(* `while packet:` with fuel (the Python loop does not terminate when chunk_size = 0 and
   len(packet) >= wiggle_room) *)
Fixpoint chunks (fuel : nat) (packet : list Z) (pages_rev : list page) (cur : page)
  : result (list page * page) :=
  match packet with
  | [] => Ok (pages_rev, cur)
  | _ =>
    match fuel with
    | O => Raise EOutOfFuel
    | S fuel' => let '(packet', pr, c) := chunk_step packet pages_rev cur in chunks fuel' packet' pr c
    end
  end.

Fixpoint fp_loop (packets : list (list Z)) (pages_rev : list page) (cur : page) : result (list page * page) :=
  match packets with
  | [] => Ok (pages_rev, cur)
  | pk :: rest =>
    let cur := set_packets cur (p_packets cur ++ [[]]) in
    match chunks (S (length pk)) pk pages_rev cur with
    | Ok (pr, c) => fp_loop rest pr c
    | Raise e => Raise e
    end
  end.

Definition from_packets (packets : list (list Z)) (sequence : Z) : result (list page) :=
  match fp_loop packets [] (set_sequence new_page sequence) with
  | Ok (pr, cur) => Ok (rev (match p_packets cur with [] => pr | _ => cur :: pr end))
  | Raise e => Raise e
  end.
End FromPackets.

(* ---- _from_packets_try_preserve ------------------------------------------------------------ *)

(* for p in old.packets: data, new_data = new_data[:len(p)], new_data[len(p):] *)
Fixpoint take_like (olds : list (list Z)) (data : list Z) : list (list Z) * list Z :=
  match olds with
  | [] => ([], data)
  | o :: r => let '(ps, rest) := take_like r (zdrop (zlen o) data) in (ztake (zlen o) data :: ps, rest)
  end.

Fixpoint preserve_loop (old_pages : list page) (data : list Z) : list page * list Z :=
  match old_pages with
  | [] => ([], data)
  | old :: r =>
    let '(pk, data') := take_like (p_packets old) data in
    let new := set_packets (set_position (set_continued (continued old)
                 (set_complete (set_sequence new_page (p_sequence old)) (p_complete old))) (p_position old)) pk in
    let '(ps, rest) := preserve_loop r data' in (new :: ps, rest)
  end.

Definition from_packets_try_preserve (packets : list (list Z)) (old_pages : list page) : result (list page) :=
  match to_packets false old_pages with
  | Raise e => Raise e
  | Ok old_packets =>
    if negb (list_eqb (map (@zlen Z) packets) (map (@zlen Z) old_packets))
    then match old_pages with
         | [] => Raise EIndex
         | o :: _ => from_packets 4096 2048 packets (p_sequence o)
         end
    else
      let '(ps, rest) := preserve_loop old_pages (concat packets) in
      match rest with [] => Ok ps | _ => Raise EAssert end
  end.

(* ---- file level: renumber, replace, find_last ---------------------------------------------- *)

(* OggPage(fileobj) with the file object at pos: page and the position after it *)
Definition page_at (f : list Z) (pos : Z) : result (page * Z) :=
  match page_parse (zdrop pos f) with
  | Ok (p, rest) => Ok (p, zlen f - zlen rest)
  | Raise e => Raise e
  end.

(* renumber(fileobj, serial, start) with fileobj at pos; returns (outcome, file content) *)
Fixpoint renumber_loop (fuel : nat) (f : list Z) (pos serial number : Z) : result unit * list Z :=
  match fuel with
  | O => (Raise EOutOfFuel, f)
  | S fuel' =>
    match page_at f pos with
    | Raise EEOF => (Ok tt, f)
    | Raise e => (Raise e, f)
    | Ok (p, after) =>
      if negb (p_serial p =? serial) then renumber_loop fuel' f after serial number
      else
        let back := after - page_size p in                 (* fileobj.seek(-page.size, 1) *)
        match page_write (set_sequence p number) with
        | Raise e => (Raise e, f)
        | Ok bs => renumber_loop fuel' (write_at f back bs) (pos + page_size p) serial (number + 1)
        end
    end
  end.
Definition renumber (f : list Z) (pos serial start : Z) : result unit * list Z :=
  renumber_loop (S (length f)) f pos serial start.

(* resize_bytes(fileobj, old_size, len(data), offset); fileobj.seek(offset); fileobj.write(data) *)
Definition replace_slot (f : list Z) (offset old_size : Z) (data : list Z) : result (list Z) :=
  let new_size := zlen data in
  if (old_size <? 0) || (offset <? 0) then Raise EValue
  else if new_size =? old_size then Ok (write_at f offset data)
  else if zlen f <? offset + old_size then Raise EValue
  else Ok (ztake offset f ++ data ++ zdrop (offset + old_size) f).

Fixpoint map_result {A B} (g : A -> result B) (l : list A) : result (list B) :=
  match l with
  | [] => Ok []
  | x :: r => match g x with
              | Raise e => Raise e
              | Ok y => match map_result g r with Ok ys => Ok (y :: ys) | Raise e => Raise e end
              end
  end.

Fixpoint number_from (serial seq : Z) (l : list page) : list page :=
  match l with
  | [] => []
  | p :: r => set_serial (set_sequence p seq) serial :: number_from serial (seq + 1) r
  end.

Definition map_head {A} (g : A -> A) (l : list A) : list A :=
  match l with [] => [] | x :: r => g x :: r end.
Fixpoint map_last {A} (g : A -> A) (l : list A) : list A :=
  match l with [] => [] | x :: r => match r with [] => [g x] | _ => x :: map_last g r end end.

(* the in-place edits replace() makes on new_pages before rendering them *)
Definition prepare_new (old0 oldl : page) (new_pages : list page) : list page :=
  let l := number_from (p_serial old0) (p_sequence old0) new_pages in
  let l := map_head (fun p => set_continued (continued old0) (set_first (first old0) p)) l in
  map_last (fun p =>
    let p := set_complete (set_last (last_flag oldl) p) (p_complete oldl) in
    if negb (p_complete p) && (zlen (p_packets p) =? 1) then set_position p (-1) else p) l.

(* new_data.extend([b""] * diff)  /  new_data[diff - 1:] = [b"".join(new_data[diff - 1:])] *)
Definition fit_slots (n_old : Z) (new_data : list (list Z)) : list (list Z) :=
  let diff := n_old - zlen new_data in
  if 0 <? diff then new_data ++ repeat [] (Z.to_nat diff)
  else if diff <? 0 then ztake (n_old - 1) new_data ++ [concat (zdrop (n_old - 1) new_data)]
  else new_data.

(* the slot loop: old pages are given as (offset, size); returns (outcome, file, new_data_end) *)
Fixpoint slot_loop (f : list Z) (olds : list (Z * Z)) (datas : list (list Z)) (adjust new_end : Z)
  : result unit * list Z * Z :=
  match olds, datas with
  | (off, size) :: olds', data :: datas' =>
    let offset := off + adjust in
    match replace_slot f offset size data with
    | Raise e => (Raise e, f, new_end)
    | Ok f' => slot_loop f' olds' datas' (adjust + (zlen data - size)) (offset + zlen data)
    end
  | _, _ => (Ok tt, f, new_end)
  end.

(* replace(fileobj, old_pages, new_pages); old pages come with the offset they were read from *)
Definition replace (f : list Z) (old_pages : list (Z * page)) (new_pages : list page) : result unit * list Z :=
  match old_pages, new_pages with
  | [], _ | _, [] => (Raise EValue, f)
  | (_, old0) :: _, _ :: _ =>
    let oldl := snd (last old_pages (0, old0)) in
    let news := prepare_new old0 oldl new_pages in
    match map_result page_write news with
    | Raise e => (Raise e, f)
    | Ok new_data =>
      let datas := fit_slots (zlen old_pages) new_data in
      match slot_loop f (map (fun op => (fst op, page_size (snd op))) old_pages) datas 0 0 with
      | (Raise e, f', _) => (Raise e, f')
      | (Ok _, f', new_end) =>
        if zlen old_pages =? zlen new_pages then (Ok tt, f')
        else let lastn := last news old0 in
             renumber f' new_end (p_serial lastn) (p_sequence lastn + 1)
      end
    end
  end.

(* data.rindex(b"OggS") over a window; None = ValueError *)
Fixpoint rindex_oggs (data : list Z) (i : Z) (best : option Z) : option Z :=
  match data with
  | [] => best
  | _ :: r => rindex_oggs r (i + 1) (if starts_with oggs data then Some i else best)
  end.

(* the slow way: scan pages from the start.  returns best_page *)
Fixpoint find_last_scan (fuel : nat) (bs : list Z) (serial : Z) (finishing : bool) (best : option page) : option page :=
  match fuel with
  | O => best
  | S fuel' =>
    match page_parse bs with
    | Raise _ => best                              (* except error / except EOFError: return best_page *)
    | Ok (p, rest) =>
      if p_serial p =? serial then
        let best := if negb finishing || negb (p_position p =? -1) then Some p else best in
        if last_flag p then best else find_last_scan fuel' rest serial finishing best
      else find_last_scan fuel' rest serial finishing best
    end
  end.

Definition find_last (f : list Z) (serial : Z) (finishing : bool) : result (option page) :=
  let data := zdrop (zlen f - 65536) f in            (* seek_end(fileobj, 256 * 256); read() *)
  match rindex_oggs data 0 None with
  | None => Raise EMutagen
  | Some index =>
    let valid p := negb finishing || negb (p_position p =? -1) in
    let quick :=
      match page_parse (zdrop index data) with
      | Ok (p, _) => if (p_serial p =? serial) && valid p then (if last_flag p then (true, Some p) else (false, Some p))
                     else (false, None)
      | Raise EMutagen => (false, None)
      | Raise _ => (false, None)
      end in
    if fst quick then Ok (snd quick)
    else Ok (find_last_scan (S (length f)) f serial finishing (snd quick))
  end.

(* EXTRACT: page_size lacing_count page_write page_parse to_packets from_packets from_packets_try_preserve renumber replace find_last *)
