(* Model.Parse_file: mutagen.File's dispatch on a BytesIO, composed from the regenerated score functions
   (Gen.Gen_scores, selection Model.Score.detect) and a family of loaders.  DEFINITIONS ONLY.

   Mirrors /repo/mutagen/_file.py File() for a byte string handed over as BytesIO(data) with name `fname`:
       header = fileobj.read(128)                       -> the first 128 bytes
       APEv2File.score: seek_end(fileobj, 160); read()  -> the last 160 bytes (the whole file when shorter)
       (score, name), Kind = max ...; if score > 0: fileobj.seek(0, 0); return Kind(fileobj, ...)
       else: return None
   No read/seek of a BytesIO raises here, so the only exceptions that can leave File are those of the chosen
   loader.  `load k d` is the outcome of Kind(BytesIO(d)); the theorems of Props.C04_file are parametric in it
   and are instantiated with the exception-faithful mirrors Model.Parse_* where one exists. *)
From Coq Require Import ZArith List Bool.
Import ListNotations.
Require Import Base.Py Model.ScorePrims Gen.Gen_scores Model.Score.
Open Scope Z_scope.

Definition file_header (d : list Z) : list Z := zslice 0 header_len d.
Definition file_trailer (d : list Z) : list Z := zslice (Z.max 0 (zlen d - trailer_len)) (zlen d) d.

(* the class File hands the stream to; None = File returns None *)
Definition file_choice (fname d : list Z) : result (option cls) :=
  match detect fname (file_header d) (Some (file_trailer d)) with
  | None => Ok None
  | Some n => match cls_of_name n with
              | Some k => Ok (Some k)
              | None => Raise EIndex            (* a name outside the options: excluded by C04_File_choice_total *)
              end
  end.

Definition file_dispatch {A} (load : cls -> list Z -> result A) (fname d : list Z) : result (option (cls * A)) :=
  match file_choice fname d with
  | Raise e => Raise e
  | Ok None => Ok None
  | Ok (Some k) => match load k d with Ok a => Ok (Some (k, a)) | Raise e => Raise e end
  end.

