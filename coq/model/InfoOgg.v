(* Model.InfoOgg -- identification header packets of the Ogg codecs (C05), at packet level: the models
   take the first packet of the stream and the granule position of the last page (the Ogg page layer is
   property C15's; the harness wraps the packets into pages).
   SPEC side: Vorbis I identification header, RFC 7845 OpusHead, Speex header, Theora identification
   header, Ogg FLAC mapping 1.0.  CODE side: the *Info.__init__ / _post_tags of
   mutagen/{oggvorbis,oggopus,oggspeex,oggtheora,oggflac}.py. *)
From Coq Require Import ZArith List Bool.
Import ListNotations.
Require Import Base.Py Model.InfoBase Model.InfoFlac.
Open Scope Z_scope.

Definition ascii_vorbis1 := [1;118;111;114;98;105;115].
Definition ascii_OpusHead := [79;112;117;115;72;101;97;100].
Definition ascii_Speex := [83;112;101;101;120;32;32;32].
Definition ascii_theora80 := [128;116;104;101;111;114;97].
Definition ascii_7fFLAC := [127;70;76;65;67].
Definition ascii_fLaC := [102;76;97;67].

(* ================================================================== Vorbis *)
(* SPEC: packet type 1, "vorbis", u32 version 0, u8 channels, u32 rate, s32 bitrate max/nominal/min,
   4+4 bits block sizes, framing bit *)
Definition build_vorbis_id (channels rate maxbr nombr minbr blocksizes : Z) : list Z :=
  ascii_vorbis1 ++ le_encode 4 0 ++ [channels] ++ le_encode 4 rate ++
  le_encode 4 (of_signed 4294967296 maxbr) ++ le_encode 4 (of_signed 4294967296 nombr) ++
  le_encode 4 (of_signed 4294967296 minbr) ++ [blocksizes] ++ [1].
(* the bitrate the property prescribes (mutagen's documented rule) *)
Definition spec_vorbis_bitrate (maxbr nombr minbr : Z) : Z :=
  let mx := Z.max 0 maxbr in let mn := Z.max 0 minbr in let nm := Z.max 0 nombr in
  if nm =? 0 then (mx + mn) / 2
  else if negb (mx =? 0) && (mx <? nm) then mx
  else if mn >? nm then mn else nm.

(* CODE: OggVorbisInfo.__init__ on page.packets[0] + _post_tags with the last page's position.
   result: [channels; sample_rate; bitrate; length numerator; length denominator] *)
Definition decode_vorbis_id (pkt : list Z) (granule : Z) : result (list Z) :=
  if zlen pkt <? 28 then Raise EMutagen
  else
    let channels := byte_at 11 pkt in
    let sample_rate := le_at 12 4 pkt in
    let max_bitrate := to_signed 4294967296 (le_at 16 4 pkt) in
    let nominal_bitrate := to_signed 4294967296 (le_at 20 4 pkt) in
    let min_bitrate := to_signed 4294967296 (le_at 24 4 pkt) in
    if sample_rate =? 0 then Raise EMutagen
    else
      let max_bitrate := Z.max 0 max_bitrate in
      let min_bitrate := Z.max 0 min_bitrate in
      let nominal_bitrate := Z.max 0 nominal_bitrate in
      let bitrate :=
        if nominal_bitrate =? 0 then (max_bitrate + min_bitrate) / 2
        else if negb (max_bitrate =? 0) && (max_bitrate <? nominal_bitrate) then max_bitrate
        else if min_bitrate >? nominal_bitrate then min_bitrate
        else nominal_bitrate in
      Ok [channels; sample_rate; bitrate; granule; sample_rate].

(* ================================================================== Opus *)
(* SPEC (RFC 7845 5.1): "OpusHead", version, channel count, u16 pre-skip, u32 input rate, s16 gain, mapping family *)
Definition build_opus_head (version channels pre_skip rate gain family : Z) (table : list Z) : list Z :=
  ascii_OpusHead ++ [version] ++ [channels] ++ le_encode 2 pre_skip ++ le_encode 4 rate ++
  le_encode 2 (of_signed 65536 gain) ++ [family] ++ table.

(* CODE: OggOpusInfo.__init__ + _post_tags.  result: [channels; length numerator; length denominator] *)
Definition decode_opus_head (pkt : list Z) (granule : Z) : result (list Z) :=
  let d := sub_at 8 11 pkt in
  if negb (zlen d =? 11) then Raise EMutagen                      (* struct.error -> OggOpusHeaderError *)
  else
    let version := byte_at 0 d in
    let channels := byte_at 1 d in
    let pre_skip := le_at 2 2 d in
    if negb (version / 16 =? 0) then Raise EMutagen
    else Ok [channels; granule - pre_skip; 48000].

(* ================================================================== Speex *)
(* SPEC (Speex header, 80 bytes): "Speex   ", 20-byte version string, version id, header size, rate, mode,
   mode bitstream version, channels, bitrate, frame size, vbr, frames per packet, extra headers, 2 reserved *)
Definition build_speex_header (vstring : list Z) (rate mode channels bitrate frame_size vbr fpp : Z) : list Z :=
  ascii_Speex ++ firstn 20 (vstring ++ zeros 20) ++ le_encode 4 1 ++ le_encode 4 80 ++ le_encode 4 rate ++
  le_encode 4 mode ++ le_encode 4 4 ++ le_encode 4 channels ++ le_encode 4 (of_signed 4294967296 bitrate) ++
  le_encode 4 frame_size ++ le_encode 4 vbr ++ le_encode 4 fpp ++ le_encode 4 0 ++ le_encode 4 0 ++ le_encode 4 0.

(* CODE: OggSpeexInfo.__init__ + _post_tags.  result: [sample_rate; channels; bitrate; granule; sample_rate] *)
Definition decode_speex_header (pkt : list Z) (granule : Z) : result (list Z) :=
  if zlen pkt <? 56 then Raise EMutagen                               (* header packet too short *)
  else
    let sample_rate := le_at 36 4 pkt in
    let channels := le_at 48 4 pkt in
    let bitrate := Z.max 0 (to_signed 4294967296 (le_at 52 4 pkt)) in
    if sample_rate =? 0 then Raise EMutagen                            (* sample rate can't be zero *)
    else Ok [sample_rate; channels; bitrate; granule; sample_rate].

(* ================================================================== Theora *)
(* SPEC (Theora I, 6.2): 0x80 "theora", VMAJ 3, VMIN 2, VREV, FMBW 16, FMBH 16, PICW 24, PICH 24, PICX 8, PICY 8,
   FRN 32, FRD 32, PARN 24, PARD 24, CS 8, NOMBR 24, QUAL 6 | KFGSHIFT 5 | PF 2 | reserved 3 *)
Definition build_theora_id (vrev fmbw fmbh picw pich picx picy frn frd parn pard cs nombr qual kfgshift pf : Z) : list Z :=
  ascii_theora80 ++ [3; 2; vrev] ++ be_encode 2 fmbw ++ be_encode 2 fmbh ++ be_encode 3 picw ++ be_encode 3 pich ++
  [picx; picy] ++ be_encode 4 frn ++ be_encode 4 frd ++ be_encode 3 parn ++ be_encode 3 pard ++ [cs] ++
  be_encode 3 nombr ++ be_encode 2 (qual * 1024 + kfgshift * 32 + pf * 8).

(* CODE: OggTheoraInfo.__init__ + _post_tags.
   result: [fps numerator; fps denominator; bitrate; frames; granule_shift]
   (fps = num / den, length = frames / fps) *)
Definition decode_theora_id (pkt : list Z) (granule : Z) : result (list Z) :=
  if zlen pkt <? 42 then Raise EMutagen
  else if negb ((byte_at 7 pkt =? 3) && (byte_at 8 pkt =? 2)) then Raise EMutagen
  else
    let fps_num := be_at 22 4 pkt in
    let fps_den := be_at 26 4 pkt in
    if (fps_den =? 0) || (fps_num =? 0) then Raise EMutagen
    else
      let bitrate := be_at 37 3 pkt in
      let granule_shift := (be_at 40 2 pkt / 32) mod 32 in
      let frames := granule / 2 ^ granule_shift + granule mod 2 ^ granule_shift in
      Ok [fps_num; fps_den; bitrate; frames; granule_shift].

(* ================================================================== Ogg FLAC *)
(* SPEC (Ogg FLAC mapping 1.0): 0x7F "FLAC", major 1, minor 0, u16 BE number of header packets, "fLaC",
   metadata block header (type 0, length 34), STREAMINFO *)
Definition build_oggflac_id (header_packets : Z) (p : flac_p) : list Z :=
  ascii_7fFLAC ++ [1; 0] ++ be_encode 2 header_packets ++ ascii_fLaC ++ [0; 0; 0; 34] ++ build_flac_streaminfo p.

(* CODE: OggFLACStreamInfo.__init__ + _post_tags.
   result: [min_blocksize; max_blocksize; sample_rate; channels; bits_per_sample; total_samples;
            length numerator; length denominator; header packets] *)
Definition decode_oggflac_id (pkt : list Z) (granule : Z) : result (list Z) :=
  let d := sub_at 5 8 pkt in
  if negb (zlen d =? 8) then Raise EMutagen                       (* struct.error -> OggFLACHeaderError *)
  else
    let major := byte_at 0 d in
    let minor := byte_at 1 d in
    let packets := be_at 2 2 d in
    if negb (list_eqb (sub_at 4 4 d) ascii_fLaC) then Raise EMutagen
    else if negb ((major =? 1) && (minor =? 0)) then Raise EMutagen
    else
      match decode_flac_streaminfo (skipn 17 pkt) with
      | Raise _ => Raise EMutagen
      | Ok [minbs; maxbs; _; _; rate; channels; bps; total; _; _; _] =>
        (* length = total / rate; when that is 0.0, _post_tags uses the last granule position *)
        let '(ln, ld) := if total =? 0 then (granule, rate) else (total, rate) in
        Ok [minbs; maxbs; rate; channels; bps; total; ln; ld; packets]
      | Ok _ => Raise EAssert
      end.
(* EXTRACT: InfoOgg.build_vorbis_id InfoOgg.decode_vorbis_id InfoOgg.build_opus_head InfoOgg.decode_opus_head
            InfoOgg.build_speex_header InfoOgg.decode_speex_header InfoOgg.build_theora_id InfoOgg.decode_theora_id
            InfoOgg.build_oggflac_id InfoOgg.decode_oggflac_id *)
