(* Model.Parse_ac3 -- exception-faithful mirror of mutagen/ac3.py AC3Info.__init__ (what AC3.load runs) over a
   BytesIO, including the _util.BitReader calls it performs:
     BitReader.bits(count)   ValueError on a negative count; reads ceil((count - bits) / 8) bytes when the
                             buffer is short, BitReaderError when fewer arrive; `assert self._bits < 8`
     BitReader.skip(count)   ValueError on a negative count; bits(count) when buffered, else align(), a
                             RELATIVE seek over the whole bytes (BytesIO lets it pass the end) and bits(rest)
     AC3Info.__init__        read(6), sync word, bitstream_id = header[5] >> 3, seek(2), _read_header
     _read_header            `except BitReaderError: raise AC3Error`; then _guess_length (tell, seek(0, 2), tell)
     _read_header_normal / _read_header_enhanced / _skip_unused_header_bits_* / _get_channels
                             list indexing (IndexError) inside `try: ... except KeyError: raise AC3Error`,
                             the dict AC3_CHANNELS (KeyError -> AC3Error), the integer division
   The reader state is (buffer, bits).  On non-negative integers and bytes b:  (x << 8) | b = x * 256 + b,
   x >> n = x / 2^n,  x & ((1 << n) - 1) = x mod 2^n,  m & 1 = m mod 2,  m & 4 <> 0 iff (m / 4) mod 2 <> 0.
   BitReaderError (an Exception, NOT a MutagenError) is represented by ENotImpl: NotImplementedError
   cannot arise in this code.  Definitions only. *)
From Coq Require Import ZArith List Bool.
Import ListNotations.
Require Import Base.Py Model.Parse_base.
Open Scope Z_scope.

Definition EBitReader : exc := ENotImpl.
Definition brs := (Z * Z)%type.                      (* BitReader._buffer, BitReader._bits *)

Definition br_bits (count : Z) (s : brs) : P (Z * brs) :=
  let '(buffer, bits) := s in
  if count <? 0 then praise EValue
  else
    ' (buffer, bits) <~
      (if bits <? count then
         let n_bytes := (count - bits + 7) / 8 in
         data <~ p_read n_bytes ;;
         if negb (zlen data =? n_bytes) then praise EBitReader
         else pret (be_decode_acc buffer data, bits + n_bytes * 8)
       else pret (buffer, bits)) ;;
    let bits := bits - count in
    let value := buffer / 2 ^ bits in
    let buffer := buffer mod 2 ^ bits in
    if negb (bits <? 8) then praise EAssert
    else pret (value, (buffer, bits)).

Definition br_skip (count : Z) (s : brs) : P brs :=
  let '(buffer, bits) := s in
  if count <? 0 then praise EValue
  else if count <=? bits then (' (_, s') <~ br_bits count s ;; pret s')
  else
    let count := count - bits in                     (* count -= self.align() *)
    let n_bytes := count / 8 in
    p_seek n_bytes 1 ;;~
    ' (_, s') <~ br_bits (count - n_bytes * 8) (0, 0) ;;
    pret s'.

(* `if r.bits(1): r.skip(n)` *)
Definition br_opt_skip (n : Z) (s : brs) : P brs :=
  ' (b, s) <~ br_bits 1 s ;;
  if negb (b =? 0) then br_skip n s else pret s.

Definition ac3_sample_rates : list Z := [48000; 44100; 32000].
Definition ac3_bitrates : list Z := [32; 40; 48; 56; 64; 80; 96; 112; 128; 160; 192; 224; 256; 320; 384; 448; 512; 576; 640].
Definition eac3_blocks : list Z := [1; 2; 3; 6].
(* AC3_CHANNELS[channel_mode] *)
Definition ac3_channels (m : Z) : result Z :=
  if m =? 0 then Ok 2 else if m =? 1 then Ok 1 else if m =? 2 then Ok 2 else if m =? 3 then Ok 3
  else if m =? 4 then Ok 3 else if m =? 5 then Ok 4 else if m =? 6 then Ok 4 else if m =? 7 then Ok 5
  else Raise EKey.
Definition is_ekey (e : exc) : bool := exc_eqb e EKey.
(* _get_channels *)
Definition ac3_get_channels (channel_mode lfe_on : Z) : P Z :=
  pcatch (n <~ plift (ac3_channels channel_mode) ;; pret (n + lfe_on)) is_ekey (fun _ => praise EMutagen).

Definition ac3_skip_unused_normal (channel_mode : Z) (s : brs) : P brs :=
  s <~ br_skip 5 s ;;
  s <~ br_opt_skip 8 s ;;
  s <~ br_opt_skip 8 s ;;
  s <~ br_opt_skip 7 s ;;
  s <~ (if channel_mode =? 0 then
          s <~ br_skip 5 s ;;
          s <~ br_opt_skip 8 s ;;
          s <~ br_opt_skip 8 s ;;
          br_opt_skip 7 s
        else pret s) ;;
  s <~ br_skip 2 s ;;
  ' (timecod1e, s) <~ br_bits 1 s ;;
  ' (timecod2e, s) <~ br_bits 1 s ;;
  s <~ (if negb (timecod1e =? 0) then br_skip 14 s else pret s) ;;
  s <~ (if negb (timecod2e =? 0) then br_skip 14 s else pret s) ;;
  ' (addbsie, s) <~ br_bits 1 s ;;
  if negb (addbsie =? 0) then
    (' (addbsil, s) <~ br_bits 6 s ;; br_skip ((addbsil + 1) * 8) s)
  else pret s.

(* [sample_rate; bitrate; channels] *)
Definition ac3_read_header_normal (bitstream_id : Z) (s : brs) : P (list Z * brs) :=
  s <~ br_skip 16 s ;;
  ' (sr_code, s) <~ br_bits 2 s ;;
  if sr_code =? 3 then praise EMutagen
  else
    ' (frame_size_code, s) <~ br_bits 6 s ;;
    if 37 <? frame_size_code then praise EMutagen
    else
      s <~ br_skip 5 s ;;
      s <~ br_skip 3 s ;;
      ' (channel_mode, s) <~ br_bits 3 s ;;
      s <~ (if negb (channel_mode mod 2 =? 0) && negb (channel_mode =? 1) then br_skip 2 s else pret s) ;;
      s <~ (if negb ((channel_mode / 4) mod 2 =? 0) then br_skip 2 s else pret s) ;;
      s <~ (if channel_mode =? 2 then br_skip 2 s else pret s) ;;
      ' (lfe_on, s) <~ br_bits 1 s ;;
      let sr_shift := Z.max bitstream_id 8 - 8 in
      ' (sample_rate, bitrate) <~
        pcatch (
          if sr_shift <? 0 then praise EValue                                    (* negative shift count *)
          else
            r <~ plift (list_index sr_code ac3_sample_rates) ;;
            b <~ plift (list_index (frame_size_code / 2) ac3_bitrates) ;;
            pret (r / 2 ^ sr_shift, (b * 1000) / 2 ^ sr_shift))
          is_ekey (fun _ => praise EMutagen) ;;
      channels <~ ac3_get_channels channel_mode lfe_on ;;
      s <~ ac3_skip_unused_normal channel_mode s ;;
      pret ([sample_rate; bitrate; channels], s).

Definition ac3_skip_unused_enhanced (frame_type channel_mode sr_code numblocks_code : Z) (s : brs) : P brs :=
  s <~ br_skip 5 s ;;
  s <~ br_opt_skip 8 s ;;
  s <~ (if channel_mode =? 0 then (s <~ br_skip 5 s ;; br_opt_skip 8 s) else pret s) ;;
  s <~ (if frame_type =? 1 then br_opt_skip 16 s else pret s) ;;
  ' (mixmdate, s) <~ br_bits 1 s ;;
  if negb (mixmdate =? 0) then pret s                                            (* FIXME in the code: return *)
  else
    ' (infomdate, s) <~ br_bits 1 s ;;
    s <~ (if negb (infomdate =? 0) then
            s <~ br_skip 5 s ;;
            s <~ (if channel_mode =? 2 then br_skip 4 s
                  else if 6 <=? channel_mode then br_skip 2 s else pret s) ;;
            s <~ br_opt_skip 8 s ;;
            s <~ (if channel_mode =? 0 then br_opt_skip 8 s else pret s) ;;
            (if sr_code <? 3 then br_skip 1 s else pret s)
          else pret s) ;;
    s <~ (if (frame_type =? 0) && (numblocks_code =? 3) then br_skip 1 s else pret s) ;;
    s <~ (if frame_type =? 2 then (if negb (numblocks_code =? 3) then br_opt_skip 6 s else pret s) else pret s) ;;
    ' (addbsie, s) <~ br_bits 1 s ;;
    if negb (addbsie =? 0) then
      (' (addbsil, s) <~ br_bits 6 s ;; br_skip ((addbsil + 1) * 8) s)
    else pret s.

Definition ac3_read_header_enhanced (s : brs) : P (list Z * brs) :=
  ' (frame_type, s) <~ br_bits 2 s ;;
  if frame_type =? 3 then praise EMutagen
  else
    s <~ br_skip 3 s ;;
    ' (fs, s) <~ br_bits 11 s ;;
    let frame_size := (fs + 1) * 2 in
    if frame_size <? 7 then praise EMutagen
    else
      ' (sr_code, s) <~ br_bits 2 s ;;
      ' (numblocks_code, sample_rate, channel_mode, lfe_on, bitrate, s) <~
        pcatch (
          ' (numblocks_code, sample_rate, s) <~
            (if sr_code =? 3 then
               ' (sr_code2, s) <~ br_bits 2 s ;;
               if sr_code2 =? 3 then praise EMutagen
               else
                 r <~ plift (list_index sr_code2 ac3_sample_rates) ;;
                 pret (3, r / 2, s)
             else
               ' (numblocks_code, s) <~ br_bits 2 s ;;
               r <~ plift (list_index sr_code ac3_sample_rates) ;;
               pret (numblocks_code, r, s)) ;;
          ' (channel_mode, s) <~ br_bits 3 s ;;
          ' (lfe_on, s) <~ br_bits 1 s ;;
          blocks <~ plift (list_index numblocks_code eac3_blocks) ;;
          if blocks * 256 =? 0 then praise EZeroDiv
          else pret (numblocks_code, sample_rate, channel_mode, lfe_on, (8 * frame_size * sample_rate) / (blocks * 256), s))
          is_ekey (fun _ => praise EMutagen) ;;
      s <~ br_skip 5 s ;;
      channels <~ ac3_get_channels channel_mode lfe_on ;;
      s <~ ac3_skip_unused_enhanced frame_type channel_mode sr_code numblocks_code s ;;
      pret ([sample_rate; bitrate; channels], s).

Definition is_ebitreader (e : exc) : bool := exc_eqb e EBitReader.

(* _read_header + _guess_length: [codec (0 ac-3 | 1 ec-3); sample_rate; bitrate; channels; has_length; size - start]
   (length = 8.0 * (size - start) / bitrate; None when the bitrate is 0) *)
Definition ac3_read_header (bitstream_id : Z) : P (list Z) :=
  ' (info, _) <~
    pcatch (if bitstream_id <=? 10 then ac3_read_header_normal bitstream_id (0, 0)
            else ac3_read_header_enhanced (0, 0))
           is_ebitreader (fun _ => praise EMutagen) ;;
  let codec := if bitstream_id <=? 10 then 0 else 1 in
  match info with
  | [sample_rate; bitrate; channels] =>
      if bitrate =? 0 then pret [codec; sample_rate; bitrate; channels; 0; 0]
      else
        start <~ p_tell ;;
        p_seek 0 2 ;;~
        size <~ p_tell ;;
        pret [codec; sample_rate; bitrate; channels; 1; size - start]
  | _ => praise EAssert
  end.

Definition ac3_init : P (list Z) :=
  pconvert_io (
    header <~ p_read 6 ;;
    if zlen header <? 6 then praise EMutagen
    else if negb (starts_with [11; 119] header) then praise EMutagen
    else
      b5 <~ plift (index_at 5 header) ;;
      let bitstream_id := b5 / 8 in
      if 16 <? bitstream_id then praise EMutagen
      else
        p_seek 2 0 ;;~
        ac3_read_header bitstream_id).
Definition ac3_load (d : list Z) : result (list Z) := prun ac3_init d.

Definition ac3_id (l : list Z) : list Z := l.
(* EXTRACT: ac3_load ac3_id *)
