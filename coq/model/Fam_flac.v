(* Model.Fam_flac: the FLAC container family (mutagen/flac.py) and the Vorbis comment codec
   (mutagen/_vorbis.py, VComment.load / write / validate) as one executable reference model.
   Definitions only.  Two readers live here on purpose:
     - the STRICT, independent ones written from the format layout (vc_parse, walk_blocks, flac_parse,
       flac_load, flac_wf): declared block sizes are believed, every comment must contain '=' ...
     - the MIRRORS of mutagen's lenient code (mut_check_header, mut_walk = __read_metadata_block /
       __find_audio_offset with _distrust_size, flac_open = FLAC.load, flac_save_obj = FLAC._save +
       MetadataBlock._writeblocks/_writeblock, flac_delete_obj = FLAC.delete, flac_delete = module delete).
   Bytes are list Z.  A block of the object model carries its raw payload: mutagen re-renders STREAMINFO /
   SEEKTABLE / CUESHEET / PICTURE / secondary VORBIS_COMMENT blocks from parsed fields, which is the identity on
   blocks in canonical form (hypothesis of the theorems, observation of the harness). *)
From Coq Require Import ZArith List Bool.
Import ListNotations.
Require Import Base.Py Gen.Gen_tags Model.Splice.
Open Scope Z_scope.

(* ------------------------------------------------------------------ Vorbis comment *)
Definition comment := (list Z * list Z)%type.          (* key bytes (ASCII), value bytes (UTF-8) *)
Record vc := mkVC { vendor : list Z; comments : list comment }.

Definition render_comment (kv : comment) : list Z :=
  let c := fst kv ++ [61] ++ snd kv in le_encode 4 (zlen c) ++ c.
(* VComment.write(framing=False) after validation *)
Definition vc_render (t : vc) : list Z :=
  le_encode 4 (zlen (vendor t)) ++ vendor t ++ le_encode 4 (zlen (comments t)) ++ flat_map render_comment (comments t).

(* is_valid_key: non-empty, 0x20..0x7D, no '=' *)
Definition valid_key_char (c : Z) : bool := (32 <=? c) && (c <=? 125) && negb (c =? 61).
Definition valid_key (k : list Z) : bool := match k with [] => false | _ => forallb valid_key_char k end.
Definition vc_valid (t : vc) : bool := forallb (fun kv => valid_key (fst kv)) (comments t).
Definition U32 : Z := 4294967296.
Definition vc_fits32 (t : vc) : bool :=
  (zlen (vendor t) <? U32) && (zlen (comments t) <? U32) &&
  forallb (fun kv => zlen (fst kv) + 1 + zlen (snd kv) <? U32) (comments t).
(* VComment.write: validate() raises ValueError; cdata.to_uint_le raises struct.error beyond 32 bits *)
Definition vc_write (t : vc) : result (list Z) :=
  if negb (vc_valid t) then Raise EValue else
  if negb (vc_fits32 t) then Raise EStruct else Ok (vc_render t).

(* strict independent reader: key = bytes before the first '=' (which must exist) *)
Fixpoint split_eq (l : list Z) : option (list Z * list Z) :=
  match l with
  | [] => None
  | b :: r => if b =? 61 then Some ([], r) else
              match split_eq r with Some (k, v) => Some (b :: k, v) | None => None end
  end.

Fixpoint vc_items (n : nat) (d : list Z) : result (list comment * list Z) :=
  match n with
  | O => Ok ([], d)
  | S n' =>
    if zlen d <? 4 then Raise EMutagen else
    let len := le_decode (ztake 4 d) in
    let d1 := zdrop 4 d in
    if (len <? 0) || (zlen d1 <? len) then Raise EMutagen else
    match split_eq (ztake len d1) with
    | None => Raise EMutagen
    | Some kv => match vc_items n' (zdrop len d1) with
                 | Ok (cs, rest) => Ok (kv :: cs, rest)
                 | Raise e => Raise e end
    end
  end.

(* returns the tags and the unread rest *)
Definition vc_parse (d : list Z) : result (vc * list Z) :=
  if zlen d <? 4 then Raise EMutagen else
  let vl := le_decode (ztake 4 d) in
  let d1 := zdrop 4 d in
  if (vl <? 0) || (zlen d1 <? vl + 4) then Raise EMutagen else
  let v := ztake vl d1 in
  let d2 := zdrop vl d1 in
  let cnt := le_decode (ztake 4 d2) in
  let d3 := zdrop 4 d2 in
  if (cnt <? 0) || (zlen d3 <? 4 * cnt) then Raise EMutagen else
  match vc_items (Z.to_nat cnt) d3 with
  | Ok (cs, rest) => Ok (mkVC v cs, rest)
  | Raise e => Raise e end.

(* mirror of the positions VComment.load(framing=False, errors='replace') reads: how many bytes a comment
   block occupies in a stream, whatever its items contain (short reads -> error) *)
Fixpoint vc_skip (n : nat) (d : list Z) (used : Z) : result Z :=
  match n with
  | O => Ok used
  | S n' =>
    if zlen d <? 4 then Raise EMutagen else
    let len := le_decode (ztake 4 d) in
    let d1 := zdrop 4 d in
    if (len <? 0) || (zlen d1 <? len) then Raise EMutagen else vc_skip n' (zdrop len d1) (used + 4 + len)
  end.
Definition vc_extent (d : list Z) : result Z :=
  if zlen d <? 4 then Raise EMutagen else
  let vl := le_decode (ztake 4 d) in
  let d1 := zdrop 4 d in
  if (vl <? 0) || (zlen d1 <? vl + 4) then Raise EMutagen else
  let d2 := zdrop vl d1 in
  let cnt := le_decode (ztake 4 d2) in
  let d3 := zdrop 4 d2 in
  if (cnt <? 0) || (zlen d3 <? 4 * cnt) then Raise EMutagen else
  vc_skip (Z.to_nat cnt) d3 (8 + vl).

(* Picture.load: >2I type, mime length; mime; >I desc length; desc; >5I width height depth colors data length; data *)
Definition pic_extent (d : list Z) : result Z :=
  if zlen d <? 8 then Raise EMutagen else
  let l1 := be_decode (zslice 4 8 d) in
  let d1 := zdrop 8 d in
  if (l1 <? 0) || (zlen d1 <? l1 + 4) then Raise EMutagen else
  let d1' := zdrop l1 d1 in
  let l2 := be_decode (ztake 4 d1') in
  let d2 := zdrop 4 d1' in
  if (l2 <? 0) || (zlen d2 <? l2 + 20) then Raise EMutagen else
  let d2' := zdrop l2 d2 in
  let l3 := be_decode (zslice 16 20 d2') in
  let d3 := zdrop 20 d2' in
  if (l3 <? 0) || (zlen d3 <? l3) then Raise EMutagen else Ok (32 + l1 + l2 + l3).

(* ------------------------------------------------------------------ blocks *)
(* bovf = MetadataBlock._invalid_overflow_size (-1: none) *)
Record block := mkB { bcode : Z; bdata : list Z; bovf : Z }.
Record flac := mkFlac { fprefix : list Z; fblocks : list block; faudio : list Z }.

Definition MAGIC : list Z := [102; 76; 97; 67].        (* fLaC *)
Definition ID3MAGIC : list Z := [73; 68; 51].          (* ID3 *)
Definition MAXSZ : Z := 16777215.                      (* MetadataBlock._MAX_SIZE = 2^24 - 1 *)
Definition is_vcb (b : block) : bool := bcode b =? 4.
Definition is_pad (b : block) : bool := bcode b =? 1.
Definition distrust (c : Z) : bool := (c =? 4) || (c =? 6).   (* VCFLACDict, Picture: _distrust_size *)

Definition block_bytes (b : block) (n : Z) (last : bool) : list Z :=
  ((if last then 128 else 0) + bcode b) :: be_encode 3 n ++ bdata b.
(* the format's rendering of a block list: size field = payload length, last flag on the final block only *)
Definition render_block (b : block) (last : bool) : list Z := block_bytes b (zlen (bdata b)) last.
Fixpoint render_blocks (bs : list block) : list Z :=
  match bs with
  | [] => []
  | [b] => render_block b true
  | b :: r => render_block b false ++ render_blocks r
  end.
Definition block_extent (b : block) : Z := 4 + zlen (bdata b).
Definition blocks_extent (bs : list block) : Z := fold_right (fun b a => block_extent b + a) 0 bs.

(* ------------------------------------------------------------------ strict walker (format layout) *)
Definition syncsafe4 (l : list Z) : Z := fold_left (fun a b => a * 128 + b) l 0.
Definition is_7bit (b : Z) : bool := (0 <=? b) && (b <? 128).

(* length of the ID3v2 prefix in front of the stream marker (0: none) *)
Definition id3_prefix_len (f : list Z) : result Z :=
  if starts_with MAGIC f then Ok 0 else
  if starts_with ID3MAGIC f then
    if zlen f <? 10 then Raise EMutagen else
    let sz := zslice 6 10 f in
    if negb (forallb is_7bit sz) then Raise EMutagen else
    let off := 10 + syncsafe4 sz in
    if starts_with MAGIC (zdrop off f) then Ok off else Raise EMutagen
  else Raise EMutagen.

Fixpoint walk_blocks (fuel : nat) (d : list Z) : result (list block * list Z) :=
  match fuel with
  | O => Raise EOutOfFuel
  | S k =>
    match d with
    | h :: s1 :: s2 :: s3 :: body =>
      if negb (is_byte h && is_byte s1 && is_byte s2 && is_byte s3) then Raise EMutagen else
      let n := be_decode [s1; s2; s3] in
      let code := h mod 128 in
      if code =? 127 then Raise EMutagen else
      if zlen body <? n then Raise EMutagen else
      let b := mkB code (ztake n body) (-1) in
      if 128 <=? h then Ok ([b], zdrop n body)
      else match walk_blocks k (zdrop n body) with
           | Ok (bs, rest) => Ok (b :: bs, rest)
           | Raise e => Raise e end
    | _ => Raise EMutagen
    end
  end.

Definition flac_parse (f : list Z) : result flac :=
  match id3_prefix_len f with
  | Raise e => Raise e
  | Ok off =>
    match walk_blocks (S (length f)) (zdrop (off + 4) f) with
    | Ok (bs, rest) => Ok (mkFlac (ztake off f) bs rest)
    | Raise e => Raise e end
  end.

(* independent reader of the tags: the first VORBIS_COMMENT block, read strictly and completely *)
Definition flac_load (f : list Z) : result (option vc) :=
  match flac_parse f with
  | Raise e => Raise e
  | Ok s =>
    match find is_vcb (fblocks s) with
    | None => Ok None
    | Some b => match vc_parse (bdata b) with
                | Ok (t, []) => Ok (Some t)
                | Ok (_, _ :: _) => Raise EMutagen
                | Raise e => Raise e end
    end
  end.

(* ------------------------------------------------------------------ well-formedness (C03) *)
(* CueSheet.load needs 396 header bytes, then per track 36 bytes + 12 per index *)
Fixpoint cue_tracks (n : nat) (d : list Z) : bool :=
  match n with
  | O => true
  | S k => if zlen d <? 36 then false else
           let ni := znth 35 d in
           let d' := zdrop 36 d in
           if (ni <? 0) || (zlen d' <? 12 * ni) then false else cue_tracks k (zdrop (12 * ni) d')
  end.
Definition cuesheet_ok (d : list Z) : bool :=
  if zlen d <? 396 then false else
  let nt := znth 395 d in
  if (nt <? 0) || (256 <=? nt) then false else cue_tracks (Z.to_nat nt) (zdrop 396 d).
(* StreamInfo.load reads 34 bytes and rejects sample rate 0 *)
Definition streaminfo_rate (d : list Z) : Z := be_decode (zslice 10 12 d) * 16 + znth 12 d / 16.
Definition streaminfo_loadable (d : list Z) : bool := (34 <=? zlen d) && negb (streaminfo_rate d =? 0).

(* per-block rules: sizes equal extents for the block types mutagen reads by content; loadable; zero padding *)
Definition block_ok (b : block) : bool :=
  let c := bcode b in let d := bdata b in
  (bovf b =? -1) &&
  (if c =? 0 then (zlen d =? 34) && streaminfo_loadable d
   else if c =? 1 then forallb (Z.eqb 0) d
   else if c =? 4 then match vc_extent d with Ok n => n =? zlen d | Raise _ => false end
   else if c =? 5 then cuesheet_ok d
   else if c =? 6 then match pic_extent d with Ok n => n =? zlen d | Raise _ => false end
   else true).
Definition count_code (c : Z) (bs : list block) : Z := zlen (filter (fun b => bcode b =? c) bs).
(* audio frames start with the 14-bit sync code 11111111111110 *)
Definition audio_ok (a : list Z) : bool :=
  match a with [] => true | x :: y :: _ => (x =? 255) && (y / 4 =? 62) | _ => false end.

Definition struct_wf (s : flac) : bool :=
  match fblocks s with
  | b0 :: _ => (bcode b0 =? 0)
  | [] => false end
  && forallb block_ok (fblocks s)
  && (count_code 0 (fblocks s) =? 1) && (count_code 3 (fblocks s) <=? 1) && (count_code 5 (fblocks s) <=? 1)
  && audio_ok (faudio s).
Definition flac_wf (f : list Z) : bool :=
  match flac_parse f with Ok s => struct_wf s | Raise _ => false end.

(* ------------------------------------------------------------------ mirrors of mutagen's readers *)
(* FLAC.__check_header: offset just behind "fLaC" *)
Definition mut_check_header (f : list Z) : result Z :=
  if zlen f <? 4 then Raise EMutagen else
  if starts_with MAGIC f then Ok 4 else
  if starts_with ID3MAGIC f then
    if zlen f <? 10 then Raise EMutagen else
    let size := 14 + syncsafe4 (map (fun b => b mod 128) (zslice 6 10 f)) in
    if zlen f <? size then Raise EMutagen else
    if starts_with MAGIC (zdrop (size - 4) f) then Ok size else Raise EMutagen
  else Raise EMutagen.

(* the loop shared by __read_metadata_block and __find_audio_offset: code 4 and 6 are read by content *)
Fixpoint mut_walk (fuel : nat) (d : list Z) : result (list block * list Z) :=
  match fuel with
  | O => Raise EOutOfFuel
  | S k =>
    match d with
    | h :: s1 :: s2 :: s3 :: body =>
      let size := be_decode [s1; s2; s3] in
      let code := h mod 128 in
      match (if code =? 4 then vc_extent body else if code =? 6 then pic_extent body
             else if zlen body <? size then Raise EMutagen else Ok size) with
      | Raise e => Raise e
      | Ok n =>
        let b := mkB code (ztake n body) (if distrust code && (n >? MAXSZ) then size else -1) in
        if 128 <=? h then Ok ([b], zdrop n body)
        else match mut_walk k (zdrop n body) with
             | Ok (bs, rest) => Ok (b :: bs, rest)
             | Raise e => Raise e end
      end
    | _ => Raise EMutagen
    end
  end.

Definition mut_audio_offset (f : list Z) (header : Z) : result Z :=
  match mut_walk (S (length f)) (zdrop header f) with
  | Ok (_, rest) => Ok (zlen f - zlen rest)
  | Raise e => Raise e end.

(* what the block classes' load() demand beyond the walk *)
Definition block_loadable (b : block) : bool :=
  if bcode b =? 0 then streaminfo_loadable (bdata b)
  else if bcode b =? 5 then cuesheet_ok (bdata b) else true.
(* FLAC.load: the object's metadata_blocks *)
Definition flac_open (f : list Z) : result (list block) :=
  match mut_check_header f with
  | Raise e => Raise e
  | Ok header =>
    match mut_walk (S (length f)) (zdrop header f) with
    | Raise e => Raise e
    | Ok (bs, _) =>
      if forallb block_loadable bs && (1 <=? count_code 0 bs) && (count_code 3 bs <=? 1) && (count_code 5 bs <=? 1)
      then Ok bs else Raise EMutagen
    end
  end.

(* ------------------------------------------------------------------ writer (mirror) *)
(* MetadataBlock._writeblock *)
Definition wsize (b : block) : result Z :=
  let n := zlen (bdata b) in
  if n >? MAXSZ then
    (if distrust (bcode b) && negb (bovf b =? -1) then Ok (bovf b) else Raise EMutagen)
  else Ok n.
Definition write_block (b : block) (last : bool) : result (list Z) :=
  match wsize b with Ok n => Ok (block_bytes b n last) | Raise e => Raise e end.
(* "write everything except padding" *)
Fixpoint write_nonpad (bs : list block) : result (list Z) :=
  match bs with
  | [] => Ok []
  | b :: r =>
    if is_pad b then write_nonpad r else
    match write_block b false with
    | Raise e => Raise e
    | Ok d => match write_nonpad r with Ok d' => Ok (d ++ d') | Raise e => Raise e end
    end
  end.
Definition pad_block (n : Z) : block := mkB 1 (zeros n) (-1).   (* b"\x00" * length: empty for length <= 0 *)
(* MetadataBlock._writeblocks *)
Definition writeblocks (bs : list block) (available cont_size : Z) (cb : option (Z -> Z -> Z)) : result (list Z) :=
  match write_nonpad bs with
  | Raise e => Raise e
  | Ok data =>
    let blockssize := zlen data + 4 in
    (* info = PaddingInfo(available - blockssize, cont_size); info._get_padding(padding_func) *)
    let padlen := Z.min (_get_padding cb (available - blockssize) cont_size) MAXSZ in
    match write_block (pad_block padlen) true with
    | Raise e => Raise e
    | Ok p => Ok (data ++ p) end
  end.

(* the tags object sits in the block list where the first comment block was loaded, or at the end (add_tags) *)
Fixpoint set_vc (bs : list block) (d : list Z) : list block :=
  match bs with
  | [] => [mkB 4 d (-1)]
  | b :: r => if is_vcb b then mkB 4 d (bovf b) :: r else b :: set_vc r d
  end.

(* padding=None (no callback: the default policy, Gen.Gen_tags) or a callback on (info.padding, info.size) *)
Record opts := mkOpts { o_cb : option (Z -> Z -> Z); o_deleteid3 : bool }.
Definition TAGMAGIC : list Z := [84; 65; 71].
(* "Delete ID3v1": filesize = get_size(f); if filesize - 128 >= header + data_size: seek(filesize - 128);
   if read(3) == b"TAG": truncate there.  lo = header + data_size: the tag is only looked for behind the blocks just written *)
Definition strip_id3v1 (lo : Z) (f : list Z) : list Z :=
  if (lo <=? zlen f - 128) && starts_with TAGMAGIC (zdrop (zlen f - 128) f) then ztake (zlen f - 128) f else f.

(* FLAC._save with the object's block list bs; t = Some tags: the tags object is rendered into its block *)
Definition flac_save_obj (f : list Z) (bs : list block) (t : option vc) (o : opts) : result (list Z) :=
  match mut_check_header f with
  | Raise e => Raise e
  | Ok header0 =>
    match mut_audio_offset f header0 with
    | Raise e => Raise e
    | Ok audio_offset =>
      let available0 := audio_offset - header0 in
      let del := o_deleteid3 o && (header0 >? 4) in
      let available := if del then available0 + (header0 - 4) else available0 in
      let header := if del then 4 else header0 in
      let content_size := zlen f - audio_offset in
      match (match t with
             | None => Ok bs
             | Some t => match vc_write t with Ok d => Ok (set_vc bs d) | Raise e => Raise e end end) with
      | Raise e => Raise e
      | Ok bs' =>
        match writeblocks bs' available content_size (o_cb o) with
        | Raise e => Raise e
        | Ok data =>
          let out := patch (splice f header available data) (header - 4) MAGIC in
          Ok (if o_deleteid3 o then strip_id3v1 (header + zlen data) out else out)
        end
      end
    end
  end.

(* FLAC(file).tags = t; .save(padding=cb, deleteid3=..) through a freshly loaded object *)
Definition flac_save (f : list Z) (t : vc) (o : opts) : result (list Z) :=
  match flac_open f with
  | Raise e => Raise e
  | Ok bs => flac_save_obj f bs (Some t) o end.

(* FLAC.delete of an object holding bs; nothing happens when the object has no tags *)
Definition delete_opts : opts := mkOpts (Some (fun _ _ => 0)) false.
Definition flac_delete_obj (f : list Z) (bs : list block) : result (list Z) :=
  if existsb is_vcb bs then flac_save_obj f (filter (fun b => negb (is_vcb b)) bs) None delete_opts else Ok f.
(* module-level delete(filething) *)
Definition flac_delete (f : list Z) : result (list Z) :=
  match flac_open f with
  | Raise e => Raise e
  | Ok bs => flac_delete_obj f bs end.

(* ------------------------------------------------------------------ edit histories (C03) *)
(* an operation is a save of some tags with some padding choice (through a freshly loaded object) or a delete;
   an operation that raises leaves the file as it is *)
Inductive flac_op := OpSave (t : vc) (cb : option (Z -> Z -> Z)) | OpDelete.
Definition flac_step (f : list Z) (o : flac_op) : list Z :=
  match o with
  | OpSave t cb => match flac_save f t (mkOpts cb false) with Ok f' => f' | Raise _ => f end
  | OpDelete => match flac_delete f with Ok f' => f' | Raise _ => f end
  end.

(* ------------------------------------------------------------------ sessions: a live object next to the file *)
(* FLAC.delete ends with self.tags.clear(): the tags object stays in metadata_blocks with its vendor and no comments,
   the other comment blocks leave the list *)
Definition vc_cleared (d : list Z) : list Z := ztake (4 + le_decode (ztake 4 d)) d ++ [0; 0; 0; 0].
Fixpoint clear_tags (bs : list block) : list block :=
  match bs with
  | [] => []
  | b :: r => if is_vcb b then mkB 4 (vc_cleared (bdata b)) (bovf b) :: filter (fun x => negb (is_vcb x)) r
              else b :: clear_tags r
  end.
(* the file and the FLAC instance the caller keeps (None: no instance; the next operation loads one) *)
Record sess := mkSess { ss_file : list Z; ss_obj : option (list block) }.
(* SSave (Some t): the tags object (created by add_tags at the end of the list if the file had none) holds t;
   SSave None: the object's blocks are written as they are;
   SAddTags vendor: FLAC.add_tags() on an object without tags appends an empty VCFLACDict (with mutagen's vendor
   string) to metadata_blocks -- from then on delete() acts (and strips the padding) even if the file has no tags *)
Inductive sess_op := SReload | SAddTags (vendor : list Z) | SSave (t : option vc) (cb : option (Z -> Z -> Z)) | SDelete | SModDelete.
Definition add_tags (bs : list block) (vendor : list Z) : list block :=
  if existsb is_vcb bs || negb (zlen vendor <? U32) then bs else bs ++ [mkB 4 (vc_render (mkVC vendor [])) (-1)].
Definition sess_open (f : list Z) : option (list block) := match flac_open f with Ok bs => Some bs | Raise _ => None end.
Definition sess_step (s : sess) (o : sess_op) : sess :=
  let f := ss_file s in
  let ob := match o with
            | SReload => sess_open f
            | _ => match ss_obj s with Some bs => Some bs | None => sess_open f end end in
  match o with
  | SReload => mkSess f ob
  | SAddTags vendor => mkSess f (match ob with Some bs => Some (add_tags bs vendor) | None => None end)
  | SModDelete => match flac_delete f with Ok f' => mkSess f' None | Raise _ => mkSess f None end
  | SSave t cb =>
    match ob with
    | None => mkSess f None
    | Some bs =>
      match flac_save_obj f bs t (mkOpts cb false) with
      | Ok f' => mkSess f' (Some (match t with Some t => set_vc bs (vc_render t) | None => bs end))
      | Raise _ => mkSess f None end
    end
  | SDelete =>
    match ob with
    | None => mkSess f None
    | Some bs =>
      match flac_delete_obj f bs with
      | Ok f' => mkSess f' (Some (clear_tags bs))
      | Raise _ => mkSess f None end
    end
  end.

(* ------------------------------------------------------------------ measurements and the builder *)
Definition flac_padding (s : flac) : Z := fold_right (fun b a => (if is_pad b then zlen (bdata b) else 0) + a) 0 (fblocks s).
Definition foreign_blocks (bs : list block) : list block := filter (fun b => negb (is_vcb b) && negb (is_pad b)) bs.
Definition nonpad (bs : list block) : list block := filter (fun b => negb (is_pad b)) bs.

Definition syncsafe_enc (n : Z) : list Z := [(n / 2097152) mod 128; (n / 16384) mod 128; (n / 128) mod 128; n mod 128].
(* synthetic layout: optional ID3v2.4 prefix with the given body, blocks (code, payload), audio bytes *)
Definition flac_build (id3 : option (list Z)) (bs : list (Z * list Z)) (audio : list Z) : list Z :=
  (match id3 with None => [] | Some body => ID3MAGIC ++ [4; 0; 0] ++ syncsafe_enc (zlen body) ++ body end)
  ++ MAGIC ++ render_blocks (map (fun cb => mkB (fst cb) (snd cb) (-1)) bs) ++ audio.

(* padding modes of the harness *)
Definition cb_const (n : Z) : Z -> Z -> Z := fun _ _ => n.
Definition cb_keep : Z -> Z -> Z := fun p _ => Z.max p 0.
Definition cb_default : Z -> Z -> Z := get_default_padding.
(* EXTRACT: vc_render vc_parse vc_write flac_parse flac_load flac_wf flac_open flac_save flac_save_obj flac_delete
   flac_delete_obj flac_build flac_padding cb_const cb_keep cb_default mkOpts sess_step *)
