(* Model.Parse_flac -- exception-faithful mirror of mutagen/flac.py FLAC.load over a BytesIO:
     StrictFileObject.read(size)   `if size >= 0 and len(data) != size: raise error`  (tryread / read() do not check)
     __check_header                'fLaC', or 'ID3' + BitPaddedInt size: seek(size - 4), 'fLaC' again; else FLACNoHeaderError
     __read_metadata_block         ord(read(1)), to_int_be(read(3)), METADATA_BLOCKS[code] (None / IndexError ->
                                   MetadataBlock), _distrust_size blocks (VCFLACDict, Picture) parsed from the stream
                                   itself, the others from read(size) through their own BytesIO + StrictFileObject;
                                   one CueSheet / SeekTable at most (error), the first VCFLACDict is the tags
     StreamInfo.load               the strict reads, the field arithmetic, sample rate 0 -> error, the length division
     CueSheet.load                 read(396), num_tracks x (read(36), num_indexes x read(12))
     Picture.load                  read(8), read(length), read(4), read(length), read(20), read(length)
     VCFLACDict.load               VComment.load(errors='replace', framing=False): strict reads,
                                   `except (OverflowError, MemoryError)`, `except (cdata.error, TypeError)`
     Padding / SeekTable / MetadataBlock .load   read() / tryread(18) loop: nothing can be raised; only the counts
     FLAC.load                     the `while self.__read_metadata_block(fileobj)` loop, `self.info.length`
                                   (IndexError -> FLACNoHeaderError), the bitrate estimate
   On non-negative integers: x >> n = x / 2^n, x & (2^n - 1) = x mod 2^n.  Text decoding with errors='replace'
   cannot raise and is not modelled (see Model.Parse_vcomment, whose vc_kept is reused).  Definitions only. *)
From Coq Require Import ZArith List Bool.
Import ListNotations.
Require Import Base.Py Model.Parse_base Model.Parse_musepack Model.Parse_vcomment.
Open Scope Z_scope.

Definition flac_fLaC := [102;76;97;67].
Definition flac_ID3  := [73;68;51].

(* StrictFileObject.read(size) *)
Definition s_read (n : Z) : P (list Z) :=
  data <~ p_read n ;;
  if (0 <=? n) && negb (zlen data =? n) then praise EMutagen else pret data.
(* block_type(data) for bytes: the block's load runs over its own BytesIO *)
Definition psub {A} (m : P A) (data : list Z) : P A := fun _ p => (fst (m data 0), p).

(* __check_header *)
Definition flac_check_header : P Z :=
  header <~ s_read 4 ;;
  if list_eqb header flac_fLaC then pret 4
  else if list_eqb (zslice 0 3 header) flac_ID3 then
    x <~ s_read 6 ;;
    let size := 14 + mpc_bpi7 (zdrop 2 x) in
    p_seek (size - 4) 0 ;;~
    h <~ s_read 4 ;;
    if list_eqb h flac_fLaC then pret size else praise EMutagen
  else praise EMutagen.

(* StreamInfo.load: [min_blocksize; max_blocksize; sample_rate; channels; bits_per_sample; total_samples] *)
Definition flac_streaminfo : P (list Z) :=
  a <~ s_read 2 ;; b <~ s_read 2 ;; _c <~ s_read 3 ;; _d <~ s_read 3 ;;
  sf <~ s_read 2 ;; scb <~ s_read 1 ;; bt <~ s_read 5 ;;
  let sample_first := be_decode sf in
  let sample_channels_bps := be_decode scb in
  let bps_total := be_decode bt in
  let sample_rate := sample_first * 16 + sample_channels_bps / 16 in
  if sample_rate =? 0 then praise EMutagen
  else
    let channels := (sample_channels_bps / 2) mod 8 + 1 in
    let bits_per_sample := (sample_channels_bps mod 2) * 16 + bps_total / 2 ^ 36 + 1 in
    let total_samples := bps_total mod 2 ^ 36 in
    (* self.length = self.total_samples / float(self.sample_rate) *)
    if sample_rate =? 0 then praise EZeroDiv
    else
      _md5 <~ s_read 16 ;;
      pret [be_decode a; be_decode b; sample_rate; channels; bits_per_sample; total_samples].

(* CueSheet.load: the number of tracks *)
Fixpoint flac_cue_indexes (n : nat) : P unit :=
  match n with O => pret tt | S n' => s_read 12 ;;~ flac_cue_indexes n' end.
Fixpoint flac_cue_tracks (n : nat) : P unit :=
  match n with
  | O => pret tt
  | S n' =>
      track <~ s_read 36 ;;
      if negb (zlen track =? 36) then praise EStruct                          (* struct.unpack('>QB12sB13xB', track) *)
      else flac_cue_indexes (Z.to_nat (znth 35 track)) ;;~ flac_cue_tracks n'
  end.
Definition flac_cuesheet : P Z :=
  header <~ s_read 396 ;;
  if negb (zlen header =? 396) then praise EStruct                            (* struct.unpack('>128sQB258xB', header) *)
  else
    let num_tracks := znth 395 header in
    flac_cue_tracks (Z.to_nat num_tracks) ;;~ pret num_tracks.

(* Picture.load (on the stream itself) *)
Definition flac_picture : P unit :=
  h <~ s_read 8 ;;
  if negb (zlen h =? 8) then praise EStruct
  else
    s_read (be_decode (zslice 4 8 h)) ;;~
    l <~ s_read 4 ;;
    if negb (zlen l =? 4) then praise EStruct
    else
      s_read (be_decode l) ;;~
      g <~ s_read 20 ;;
      if negb (zlen g =? 20) then praise EStruct
      else s_read (be_decode (zslice 16 20 g)) ;;~ pret tt.

(* VCFLACDict(fileobj): VComment.load(errors='replace', framing=False) with strict reads: the number of kept comments *)
Fixpoint flac_vc_loop (fuel : nat) (i count kept : Z) : P Z :=
  match fuel with
  | O => praise EOutOfFuel
  | S f =>
    if count <=? i then pret kept
    else
      lb <~ s_read 4 ;;
      length <~ plift (unpack_le 4 lb) ;;
      string <~ pcatch (s_read length) vc_is_overflow_or_memory (fun _ => praise EMutagen) ;;
      flac_vc_loop f (i + 1) count (if vc_kept string then kept + 1 else kept)
  end.
Definition flac_vcomment (fuel : nat) : P Z :=
  pcatch (
    vb <~ s_read 4 ;;
    vendor_length <~ plift (unpack_le 4 vb) ;;
    s_read vendor_length ;;~
    cb <~ s_read 4 ;;
    count <~ plift (unpack_le 4 cb) ;;
    flac_vc_loop fuel 0 count 0) vc_is_cdata_or_type (fun _ => praise EMutagen).

(* what FLAC.load keeps: first StreamInfo, tags (kept comments of the first VCFLACDict), cuesheet (tracks),
   seektable (points), number of pictures, block codes in file order (reversed here) *)
Record flac_st := mkFl { fl_info : option (list Z); fl_tags : option Z; fl_cue : option Z; fl_seek : option Z;
                         fl_pics : Z; fl_codes : list Z }.

(* __read_metadata_block: (not last_block, state) *)
Definition flac_read_block (fuel : nat) (st : flac_st) : P (bool * flac_st) :=
  b <~ s_read 1 ;;
  byte <~ (match b with [x] => pret x | _ => praise EType end) ;;             (* ord() *)
  sz <~ s_read 3 ;;
  let size := be_decode sz in
  let code := byte mod 128 in
  let more := byte <? 128 in                                                   (* not bool(byte & 0x80) *)
  let st' := mkFl (fl_info st) (fl_tags st) (fl_cue st) (fl_seek st) (fl_pics st) (code :: fl_codes st) in
  if code =? 4 then
    (* _distrust_size: start = tell(); block = VCFLACDict(fileobj); real_size = tell() - start *)
    kept <~ flac_vcomment fuel ;;
    pret (more, mkFl (fl_info st) (match fl_tags st with None => Some kept | t => t end) (fl_cue st) (fl_seek st)
                     (fl_pics st) (code :: fl_codes st))
  else if code =? 6 then
    flac_picture ;;~
    pret (more, mkFl (fl_info st) (fl_tags st) (fl_cue st) (fl_seek st) (fl_pics st + 1) (code :: fl_codes st))
  else
    data <~ s_read size ;;
    if code =? 0 then
      info <~ psub flac_streaminfo data ;;
      pret (more, mkFl (match fl_info st with None => Some info | i => i end) (fl_tags st) (fl_cue st) (fl_seek st)
                       (fl_pics st) (code :: fl_codes st))
    else if code =? 5 then
      n <~ psub flac_cuesheet data ;;
      match fl_cue st with
      | None => pret (more, mkFl (fl_info st) (fl_tags st) (Some n) (fl_seek st) (fl_pics st) (code :: fl_codes st))
      | Some _ => praise EMutagen                                              (* > 1 CueSheet block found *)
      end
    else if code =? 3 then
      match fl_seek st with
      | None => pret (more, mkFl (fl_info st) (fl_tags st) (fl_cue st) (Some (zlen data / 18)) (fl_pics st) (code :: fl_codes st))
      | Some _ => praise EMutagen                                              (* > 1 SeekTable block found *)
      end
    else pret (more, st').                                                     (* Padding, MetadataBlock *)

Fixpoint flac_blocks (fuel n : nat) (st : flac_st) : P flac_st :=
  match n with
  | O => praise EOutOfFuel
  | S n' =>
      ' (more, st) <~ flac_read_block fuel st ;;
      if more then flac_blocks fuel n' st else pret st
  end.

Definition oz (o : option Z) : Z := match o with Some v => v | None => -1 end.
(* FLAC.load: info ++ [has length; size - start; tags; cuesheet tracks; seekpoints; pictures] ++ codes *)
Definition flac_init (fuel : nat) : P (list Z) :=
  pconvert_io (
    flac_check_header ;;~
    st <~ flac_blocks fuel fuel (mkFl None None None None 0 []) ;;
    match fl_info st with
    | None => praise EMutagen                                                  (* IndexError -> FLACNoHeaderError *)
    | Some info =>
        let total := nth 5 info 0 in
        ' (has, n) <~
          (if negb (total =? 0) then
             start <~ p_tell ;;
             p_seek 0 2 ;;~
             size <~ p_tell ;;
             if total =? 0 then praise EZeroDiv else pret (1, size - start)
           else pret (0, 0)) ;;
        pret (info ++ [has; n; oz (fl_tags st); oz (fl_cue st); oz (fl_seek st); fl_pics st] ++ rev (fl_codes st))
    end).
Definition flac_load (d : list Z) : result (list Z) := prun (flac_init (lin_fuel 1 1 d)) d.

Definition flac_id (l : list Z) : list Z := l.
(* EXTRACT: flac_load flac_id *)
