(* Model.SeekEnd: hand model of mutagen/_util.py get_size / seek_end / read_full (try/finally is not in
   the translator's subset); tied by correspondence in the C17 check. *)
From Coq Require Import ZArith List Bool.
Import ListNotations.
Require Import Base.Py Base.FileModel.
Open Scope Z_scope.

(* try: m finally: fin *)
Definition finally {A} (m : M A) (fin : M unit) : M A := fun s =>
  let '(r, s') := m s in
  match fin s' with
  | (Ok _, s'') => (r, s'')
  | (Raise e, s'') => (Raise e, s'')
  end.

Definition get_size : M Z :=
  old_pos <- f_tell ;;
  finally (f_seek 0 2 ;; f_tell) (f_seek old_pos 0).

Definition seek_end (offset : Z) : M unit :=
  if offset <? 0 then raise EValue else
  size <- get_size ;;
  if size <? offset then f_seek 0 0 else f_seek (- offset) 2.

Definition read_full (size : Z) : M (list Z) :=
  if size <? 0 then raise EValue else
  data <- f_read size ;;
  if negb (zlen data =? size) then raise (EIO 0) else ret data.

(* what seek_end replaces: a plain end-relative seek *)
Definition naive_seek_end (offset : Z) : M unit := f_seek (- offset) 2.
(* EXTRACT: get_size seek_end read_full naive_seek_end *)
