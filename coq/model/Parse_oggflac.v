(* Model.Parse_oggflac -- exception-faithful mirror of OggFLAC loading (mutagen/oggflac.py under OggFileType.load of
   mutagen/ogg.py) up to, not including, OggFLACStreamInfo._post_tags (OggPage.find_last, which only runs when the
   STREAMINFO says total_samples = 0), on top of Model.Ogg.page_parse (= OggPage.__init__, through Parse_ogg.ogg_read_page),
   Model.Ogg.to_packets, Parse_flac.flac_streaminfo (= flac.StreamInfo.load over StrictFileObject) and
   Parse_vcomment.vc_loop (= the comment loop of VComment.load):
     OggFLACStreamInfo.__init__   the page loop for b"\x7FFLAC", struct.unpack(">BBH4s", packets[0][5:13])
                                  (`except struct.error`), the fLaC marker and the mapping version,
                                  FLACStreamInfo(BytesIO(packets[0][17:])) (`except FLACError`)
     OggFLACVComment.__init__     the page loop collecting this serial's pages until one completes a packet,
                                  OggPage.to_packets(pages)[0][4:], VComment.load(errors='replace', framing=False) on bytes
     OggFileType.load             `except (ValueError, IndexError)` around the tags, `except (error, IOError)`, `except EOFError`
   Definitions only. *)
From Coq Require Import ZArith List Bool.
Import ListNotations.
Require Import Base.Py Model.Parse_base Model.Ogg Model.Parse_ogg Model.Parse_vcomment Model.Parse_flac.
Open Scope Z_scope.

Definition ogf_magic := [127;70;76;65;67].                     (* b"\x7FFLAC" *)
Definition ogf_is_estruct (e : exc) : bool := exc_eqb e EStruct.
Definition ogf_is_value_or_index (e : exc) : bool := exc_eqb e EValue || exc_eqb e EIndex.

(* OggFLACStreamInfo.__init__: flac stream info fields ++ [serial] *)
Definition ogf_info (fuel : nat) : P (list Z) :=
  pg <~ ogg_read_page ;;
  pg <~ ogg_find fuel ogf_magic pg ;;
  pk <~ plift (list_index 0 (p_packets pg)) ;;                   (* page.packets[0] *)
  s <~ pcatch (plift (let s := zslice 5 13 pk in if zlen s =? 8 then Ok s else Raise EStruct))
              ogf_is_estruct (fun _ => praise EMutagen) ;;
  let major := znth 0 s in
  let minor := znth 1 s in
  if negb (list_eqb (zslice 4 8 s) flac_fLaC) then praise EMutagen
  else if negb ((major =? 1) && (minor =? 0)) then praise EMutagen
  else
    info <~ psub flac_streaminfo (zdrop 17 pk) ;;                (* except FLACError: raise OggFLACHeaderError *)
    pret (info ++ [p_serial pg]).

(* `while not complete: page = OggPage(fileobj); if page.serial == info.serial: ...` *)
Fixpoint ogf_gather (fuel : nat) (serial : Z) (pages_rev : list page) : P (list page) :=
  match fuel with
  | O => praise EOutOfFuel
  | S f =>
      pg <~ ogg_read_page ;;
      if p_serial pg =? serial then
        if p_complete pg || (1 <? zlen (p_packets pg)) then pret (rev (pg :: pages_rev))
        else ogf_gather f serial (pg :: pages_rev)
      else ogf_gather f serial pages_rev
  end.

(* VComment.load(errors='replace', framing=False) over a BytesIO: the number of kept comments *)
Definition ogf_vc_body (fuel : nat) : P Z :=
  pcatch (
    vb <~ p_read 4 ;;
    vendor_length <~ plift (unpack_le 4 vb) ;;
    p_read vendor_length ;;~
    cb <~ p_read 4 ;;
    count <~ plift (unpack_le 4 cb) ;;
    vc_loop fuel 0 count 0) vc_is_cdata_or_type (fun _ => praise EMutagen).

(* OggFLACVComment.__init__ *)
Definition ogf_tags (fuel : nat) (serial : Z) : P Z :=
  pages <~ ogf_gather fuel serial [] ;;
  packets <~ plift (to_packets false pages) ;;
  pk0 <~ plift (list_index 0 packets) ;;
  let comment := zdrop 4 pk0 in
  psub (ogf_vc_body (Z.to_nat (zlen comment + 1))) comment.

(* OggFileType.load without _post_tags: stream info ++ [serial; kept comments] *)
Definition ogf_init (fuel : nat) : P (list Z) :=
  pcatch (pconvert_io (
    info <~ ogf_info fuel ;;
    kept <~ pcatch (ogf_tags fuel (last info 0)) ogf_is_value_or_index (fun _ => praise EMutagen) ;;
    pret (info ++ [kept]))) ogg_is_eof (fun _ => praise EMutagen).
Definition oggflac_load (d : list Z) : result (list Z) := prun (ogf_init (lin_fuel 1 1 d)) d.

Definition oggflac_id (l : list Z) : list Z := l.
(* EXTRACT: oggflac_load oggflac_id *)
