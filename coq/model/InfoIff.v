(* Model.InfoIff -- WAVE `fmt ` chunk and AIFF `COMM` chunk (C05), at chunk level: the models take the
   chunk payload (the chunk walk of mutagen._iff is exercised by the harness, which wraps the payloads
   into RIFF/WAVE and FORM/AIFF containers).
   SPEC side: WAVEFORMAT(EX) of the RIFF/WAVE specification; AIFF 1.3 Common chunk with the IEEE 754
   80-bit extended sample rate.  CODE side: mutagen.wave.WaveStreamInfo.__init__, mutagen.aiff.AIFFInfo.__init__
   and mutagen.aiff.read_float. *)
From Coq Require Import ZArith List Bool.
Import ListNotations.
Require Import Base.Py Model.InfoBase.
Open Scope Z_scope.

(* ================================================================== WAVE *)
(* SPEC: wFormatTag, nChannels, nSamplesPerSec, nAvgBytesPerSec, nBlockAlign, wBitsPerSample, then any
   extension bytes (cbSize ...) *)
Definition build_wave_fmt (format channels rate byte_rate block_align bits : Z) (ext : list Z) : list Z :=
  le_encode 2 format ++ le_encode 2 channels ++ le_encode 4 rate ++ le_encode 4 byte_rate ++
  le_encode 2 block_align ++ le_encode 2 bits ++ ext.

(* CODE: `fmt` is format_chunk.read(); data_size = Some (data_chunk.data_size) when a `data` chunk exists.
   result: [audio_format; channels; sample_rate; bits_per_sample; bitrate;
            number_of_samples numerator; number_of_samples denominator; sample_rate > 0]
   length = (numerator / denominator) / sample_rate when the last entry is 1, else 0.0 *)
Definition decode_wave_fmt (fmt : list Z) (data_size : option Z) : result (list Z) :=
  if zlen fmt <? 16 then Raise EMutagen
  else
    let audio_format := le_at 0 2 fmt in
    let channels := le_at 2 2 fmt in
    let sample_rate := le_at 4 4 fmt in
    let block_align := le_at 12 2 fmt in
    let bits_per_sample := le_at 14 2 fmt in
    let bitrate := channels * bits_per_sample * sample_rate in
    let '(ns_num, ns_den) :=
      if block_align >? 0 then
        match data_size with Some ds => (ds, block_align) | None => (0, 1) end
      else (0, 1) in
    Ok [audio_format; channels; sample_rate; bits_per_sample; bitrate; ns_num; ns_den; b2z (sample_rate >? 0)].

(* ================================================================== AIFF *)
(* SPEC: 80-bit extended: sign 1, biased exponent 15 (bias 16383), mantissa 64 with explicit integer bit;
   a positive integer rate r with e = floor(log2 r) is  r = (r * 2^(63-e)) * 2^(e-63) *)
Definition aiff_ext80 (rate : Z) : list Z :=
  if rate =? 0 then [0;0;0;0;0;0;0;0;0;0]
  else let e := Z.log2 rate in be_encode 2 (16383 + e) ++ be_encode 8 (rate * 2 ^ (63 - e)).
(* numChannels s16, numSampleFrames u32, sampleSize s16, sampleRate ext80 (+ compression fields of AIFF-C) *)
Definition build_aiff_comm (channels frames bits rate : Z) (ext : list Z) : list Z :=
  be_encode 2 channels ++ be_encode 4 frames ++ be_encode 2 bits ++ aiff_ext80 rate ++ ext.

(* int -> binary64 conversion of a non-negative integer: round to 53 significant bits, ties to even *)
Definition round53 (m : Z) : Z :=
  let nb := Z.log2 m + 1 in
  if nb <=? 53 then m
  else
    let sh := nb - 53 in
    let q := m / 2 ^ sh in
    let r := m mod 2 ^ sh in
    let half := 2 ^ (sh - 1) in
    (if (r >? half) || ((r =? half) && Z.odd q) then q + 1 else q) * 2 ^ sh.

(* CODE: int(read_float(data)) with the binary64 arithmetic made explicit:
   f = float(himant * 2^32 + lomant) * pow(2.0, expon - 63); pow raises OverflowError from 2.0**1024 on,
   the product is exact unless it overflows to inf (int(inf) raises OverflowError) or is subnormal
   (then the integer part is 0 either way). *)
Definition aiff_read_float_int (d : list Z) : result Z :=
  let expon0 := to_signed 65536 (be_at 0 2 d) in
  let himant := be_at 2 4 d in
  let lomant := be_at 6 4 d in
  let sign := if expon0 <? 0 then -1 else 1 in
  let expon := if expon0 <? 0 then expon0 + 32768 else expon0 in
  if (expon =? 0) && (himant =? 0) && (lomant =? 0) then Ok 0
  else if expon =? 32767 then Raise EOverflow
  else
    let k := expon - 16383 - 63 in
    if k >=? 1024 then Raise EOverflow
    else
      let m := round53 (himant * 4294967296 + lomant) in
      if k >=? 0 then
        (if m * 2 ^ k >=? 2 ^ 1024 then Raise EOverflow else Ok (sign * (m * 2 ^ k)))
      else Ok (sign * (m / 2 ^ (- k))).

(* result: [channels; sample_rate; bits_per_sample; bitrate; frame_count; sample_rate <> 0]
   length = frame_count / sample_rate when the last entry is 1, else 0 *)
Definition decode_aiff_comm (data : list Z) : result (list Z) :=
  if zlen data <? 18 then Raise EMutagen
  else
    let channels := to_signed 65536 (be_at 0 2 data) in
    let frame_count := be_at 2 4 data in
    let sample_size := to_signed 65536 (be_at 6 2 data) in
    match aiff_read_float_int (sub_at 8 10 data) with
    | Raise _ => Raise EMutagen
    | Ok sample_rate =>
      if sample_rate <? 0 then Raise EMutagen
      else Ok [channels; sample_rate; sample_size; channels * sample_size * sample_rate; frame_count;
               b2z (negb (sample_rate =? 0))]
    end.
(* EXTRACT: InfoIff.build_wave_fmt InfoIff.decode_wave_fmt InfoIff.build_aiff_comm InfoIff.decode_aiff_comm *)
