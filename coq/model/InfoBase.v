(* Model.InfoBase -- shared helpers of the C05 stream-info models (definitions only).
   Conventions of every Info*.v file:
     build_K   : SPEC side.  Bytes of a minimal valid header written from the format specification.
     decode_K  : CODE side.  Mirrors the *Info constructor of /repo/mutagen (same offsets, masks, shifts,
                 table look-ups through the tables REGENERATED from the live classes (Gen.Gen_tables),
                 same error conditions).  Returns the reported attributes as a list of Z in a fixed,
                 documented order; durations are exact rationals (numerator, denominator), never floats.
   Offsets and widths of byte fields are nat literals (so that proofs reduce them structurally);
   all values are Z. *)
From Coq Require Import ZArith List Bool.
Import ListNotations.
Require Import Base.Py.
Open Scope Z_scope.

(* data[off:off+n] and the struct.unpack / cdata integer readers over it (Python slicing clamps) *)
Definition sub_at (off n : nat) (h : list Z) : list Z := firstn n (skipn off h).
Definition le_at (off n : nat) (h : list Z) : Z := le_decode (sub_at off n h).
Definition be_at (off n : nat) (h : list Z) : Z := be_decode (sub_at off n h).
Definition byte_at (off : nat) (h : list Z) : Z := match skipn off h with x :: _ => x | [] => 0 end.

(* two's complement reinterpretation of an unsigned field of the given modulus (2^bits) *)
Definition to_signed (modulus v : Z) : Z := if v * 2 >=? modulus then v - modulus else v.
Definition of_signed (modulus v : Z) : Z := if v <? 0 then v + modulus else v.

(* Python list indexing with a non-negative index: None = IndexError *)
Definition idx (i : Z) (l : list Z) : option Z :=
  if (0 <=? i) && (i <? zlen l) then Some (nth (Z.to_nat i) l 0) else None.

Fixpoint assoc_z {B} (k : Z) (t : list (Z * B)) : option B :=
  match t with [] => None | (k', v) :: r => if k =? k' then Some v else assoc_z k r end.
Fixpoint assoc_zz {B} (k : Z * Z) (t : list ((Z * Z) * B)) : option B :=
  match t with [] => None
  | ((a, b), v) :: r => if (fst k =? a) && (snd k =? b) then Some v else assoc_zz k r end.

(* Python slicing with bounds taken from the file: clamp BEFORE converting to nat (a 2^60 offset must
   not be turned into a unary number) *)
Definition zdrop_c {A} (n : Z) (l : list A) : list A := if zlen l <=? n then [] else zdrop n l.
Definition ztake_c {A} (n : Z) (l : list A) : list A := if zlen l <=? n then l else ztake n l.
Definition zslice_c {A} (a b : Z) (l : list A) : list A := ztake_c (b - a) (zdrop_c a l).

Definition b2z (b : bool) : Z := if b then 1 else 0.

(* ASCII of short tags *)
Definition ascii_RIFF := [82;73;70;70]. Definition ascii_WAVE := [87;65;86;69].
Definition ascii_fmt_ := [102;109;116;32]. Definition ascii_data := [100;97;116;97].
Definition ascii_FORM := [70;79;82;77]. Definition ascii_AIFF := [65;73;70;70].
Definition ascii_COMM := [67;79;77;77]. Definition ascii_SSND := [83;83;78;68].

(* differences between a generated table and a specification table, as (index, generated, specified)
   triples; -1 stands for "missing".  [] iff the tables are equal. *)
Fixpoint list_missing_from (i : Z) (s : list Z) : list (Z * Z * Z) :=
  match s with [] => [] | y :: s' => (i, -1, y) :: list_missing_from (i + 1) s' end.
Fixpoint list_diff_from (i : Z) (g s : list Z) {struct g} : list (Z * Z * Z) :=
  match g with
  | [] => list_missing_from i s
  | x :: g' =>
    match s with
    | [] => (i, x, -1) :: list_diff_from (i + 1) g' []
    | y :: s' => (if x =? y then [] else [(i, x, y)]) ++ list_diff_from (i + 1) g' s'
    end
  end.
Definition list_diff := list_diff_from 0.
