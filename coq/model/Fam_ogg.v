(* Model.Fam_ogg: file-level save / delete of the comment packet of the five Ogg codecs
   (mutagen/ogg.py OggFileType.save/delete + the _inject methods of oggvorbis / oggopus / oggspeex / oggtheora /
   oggflac), built on the page-level model Model.Ogg (property C15) and the Vorbis comment codec of Model.Fam_flac.
   Definitions only.  Two readers live here on purpose:
     - the MIRRORS of mutagen's code: ogg_f_scan (OggPage(fileobj) until it raises), ogg_f_locate (the page search of
       each codec's _inject), ogg_f_collect (old pages until one is complete or carries more than one packet),
       ogg_f_new_packet (prefix + VComment.write + padding arithmetic), ogg_f_inject, ogg_save_obj (= _inject +
       OggPage.replace), ogg_open (what load keeps in the tags object: vendor, Opus _pad_data), ogg_save, ogg_delete;
     - the STRICT, independent ones written from the format layout: ogg_parse (every page is the canonical rendering,
       with the RFC 3533 checksum of Model.Crc, of the page it parses to), ogg_wf (per logical stream: gapless
       sequence numbers, continued <=> the previous page of the stream left a packet open, first-page flag exactly on
       the first page, nothing after a last-page flag, granule -1 on pages finishing no packet: ogg_f_walk), ogg_load (second
       packet of the first stream whose first packet is the codec's identification header, decoded with
       Fam_flac.vc_parse).
   Bytes are list Z.  What is modelled rather than mirrored: the identification-header checks of the *Info classes
   (property C05; only OggOpusInfo's, which _inject re-runs, are here) and the utf-8 'replace' decoding of the vendor
   string at load (the vendor bytes are taken as they are). *)
From Coq Require Import ZArith List Bool.
Import ListNotations.
Require Import Base.Py Gen.Gen_tags Model.Crc Model.Ogg Model.Fam_flac.
Open Scope Z_scope.

Inductive ogg_codec := OVorbis | OOpus | OSpeex | OTheora | OFlac.

(* b"\x03vorbis" b"\x01vorbis" b"OpusTags" b"OpusHead" b"Speex   " b"\x81theora" b"\x80theora" b"\x7FFLAC" *)
Definition ogg_f_vorbis3 : list Z := [3; 118; 111; 114; 98; 105; 115].
Definition ogg_f_vorbis1 : list Z := [1; 118; 111; 114; 98; 105; 115].
Definition ogg_f_opustags : list Z := [79; 112; 117; 115; 84; 97; 103; 115].
Definition ogg_f_opushead : list Z := [79; 112; 117; 115; 72; 101; 97; 100].
Definition ogg_f_speex : list Z := [83; 112; 101; 101; 120; 32; 32; 32].
Definition ogg_f_theora81 : list Z := [129; 116; 104; 101; 111; 114; 97].
Definition ogg_f_theora80 : list Z := [128; 116; 104; 101; 111; 114; 97].
Definition ogg_f_7fflac : list Z := [127; 70; 76; 65; 67].

(* first packet of the identification header page / prefix of the comment packet *)
Definition ogg_f_idprefix (c : ogg_codec) : list Z :=
  match c with OVorbis => ogg_f_vorbis1 | OOpus => ogg_f_opushead | OSpeex => ogg_f_speex
             | OTheora => ogg_f_theora80 | OFlac => ogg_f_7fflac end.
Definition ogg_f_tagprefix (c : ogg_codec) : list Z :=
  match c with OVorbis => ogg_f_vorbis3 | OOpus => ogg_f_opustags | OSpeex => [] | OTheora => ogg_f_theora81 | OFlac => [] end.

(* ------------------------------------------------------------------ mirror: reading pages *)
(* page = OggPage(fileobj) repeated from `pos` until it raises: the pages with their offsets (page.offset) and the
   exception that ended the reading (EOFError at a clean end, ogg.error on junk) *)
Fixpoint ogg_f_scan (fuel : nat) (bs : list Z) (pos : Z) : list (Z * page) * exc :=
  match fuel with
  | O => ([], EOutOfFuel)
  | S k =>
    match page_parse bs with
    | Raise e => ([], e)
    | Ok (p, rest) => let '(l, e) := ogg_f_scan k rest (pos + (zlen bs - zlen rest)) in ((pos, p) :: l, e)
    end
  end.

(* page.packets and page.packets[0].startswith(pre) *)
Definition ogg_f_pk0 (pre : list Z) (p : page) : bool :=
  match p_packets p with [] => false | d :: _ => starts_with pre d end.

(* `while not test(page): page = OggPage(fileobj)`: the rest of the page sequence from the first hit on *)
Fixpoint ogg_f_find (test : page -> bool) (l : list (Z * page)) : option (list (Z * page)) :=
  match l with
  | [] => None
  | op :: r => if test (snd op) then Some l else ogg_f_find test r
  end.

Definition ogg_f_need {A} (eof : exc) (o : option A) : result A :=
  match o with Some x => Ok x | None => Raise eof end.

(* the page search at the start of each _inject; result: the pages from the first comment page on *)
Definition ogg_f_locate (c : ogg_codec) (l : list (Z * page)) (eof : exc) : result (list (Z * page)) :=
  match c with
  | OVorbis =>
    (* the stream of the first identification header, then its first page starting the comment header *)
    match ogg_f_find (ogg_f_pk0 ogg_f_vorbis1) l with
    | Some (h :: r) => ogg_f_need eof (ogg_f_find (fun p => (p_serial p =? p_serial (snd h)) && ogg_f_pk0 ogg_f_vorbis3 p) r)
    | _ => Raise eof
    end
  | OTheora =>
    match ogg_f_find (ogg_f_pk0 ogg_f_theora80) l with
    | Some (h :: r) => ogg_f_need eof (ogg_f_find (fun p => (p_serial p =? p_serial (snd h)) && ogg_f_pk0 ogg_f_theora81 p) r)
    | _ => Raise eof
    end
  | OSpeex =>
    match ogg_f_find (ogg_f_pk0 ogg_f_speex) l with
    | Some (h :: r) => ogg_f_need eof (ogg_f_find (fun p => p_serial p =? p_serial (snd h)) r)
    | _ => Raise eof
    end
  | OOpus =>
    (* OggOpusInfo(fileobj), then __get_comment_pages *)
    match ogg_f_find (ogg_f_pk0 ogg_f_opushead) l with
    | Some (h :: r) =>
      if negb (first (snd h)) then Raise EMutagen
      else
        let d := zslice 8 19 (hd [] (p_packets (snd h))) in
        if negb (zlen d =? 11) then Raise EStruct
        else if negb (znth 0 d / 16 =? 0) then Raise EMutagen
        else ogg_f_need eof (ogg_f_find (fun p => (p_serial p =? p_serial (snd h)) && ogg_f_pk0 ogg_f_opustags p) r)
    | _ => Raise eof
    end
  | OFlac =>
    match ogg_f_find (ogg_f_pk0 ogg_f_7fflac) l with
    | Some (h :: r) => ogg_f_need eof (ogg_f_find (fun p => (p_sequence p =? 1) && (p_serial p =? p_serial (snd h))) (h :: r))
    | _ => Raise eof
    end
  end.

(* page.complete or len(page.packets) > 1 *)
Definition ogg_f_finished (p : page) : bool := p_complete p || (1 <? zlen (p_packets p)).

(* `while not finished(pages[-1]): page = OggPage(fileobj); if page.serial == serial: pages.append(page)` *)
Fixpoint ogg_f_collect (serial : Z) (l : list (Z * page)) (eof : exc) : result (list (Z * page)) :=
  match l with
  | [] => Raise eof
  | op :: r =>
    if p_serial (snd op) =? serial then
      if ogg_f_finished (snd op) then Ok [op]
      else match ogg_f_collect serial r eof with Ok olds => Ok (op :: olds) | Raise e => Raise e end
    else ogg_f_collect serial r eof
  end.

(* ------------------------------------------------------------------ mirror: the new comment packet *)
(* pad: OggOpusVComment._pad_data (empty for the other codecs); fsize = get_size(fileobj); old = packets[0] *)
Definition ogg_f_new_packet (c : ogg_codec) (t : vc) (pad : list Z) (cb : option (Z -> Z -> Z)) (fsize : Z) (old : list Z)
  : result (list Z) :=
  match vc_write t with
  | Raise e => Raise e
  | Ok data =>
    match c with
    | OFlac =>
      (* packets[0][:1] + struct.pack(">I", len(data))[-3:] + data *)
      (* if len(data) > 0xFFFFFF: raise error(...) -- the block length field has 24 bits *)
      if MAXSZ <? zlen data then Raise EMutagen else Ok (ztake 1 old ++ be_encode 3 (zlen data) ++ data)
    | _ =>
      let vdata := ogg_f_tagprefix c ++ data ++ (match c with OVorbis => [1] | _ => [] end) in
      match c, pad with
      | OOpus, _ :: _ => Ok (vdata ++ pad)
      | _, _ =>
        let content_size := fsize - zlen old in
        let padding_left := zlen old - zlen vdata in
        Ok (vdata ++ zeros (_get_padding cb padding_left content_size))
      end
    end
  end.

(* _inject up to the call of OggPage.replace: the old pages (with offsets) and the new pages *)
Definition ogg_f_inject (c : ogg_codec) (t : vc) (pad : list Z) (cb : option (Z -> Z -> Z)) (f : list Z)
  : result (list (Z * page) * list page) :=
  let '(all, eof) := ogg_f_scan (S (length f)) f 0 in
  match ogg_f_locate c all eof with
  | Raise e => Raise e
  | Ok l =>
    match l with
    | [] => Raise EAssert
    | h :: _ =>
      match ogg_f_collect (p_serial (snd h)) l eof with
      | Raise e => Raise e
      | Ok olds =>
        match to_packets false (map snd olds) with
        | Raise e => Raise e
        | Ok packets =>
          match packets with
          | [] => Raise EIndex
          | p0 :: rest =>
            match ogg_f_new_packet c t pad cb (zlen f) p0 with
            | Raise e => Raise e
            | Ok d =>
              match (match c with
                     | OFlac => from_packets 4096 2048 (d :: rest) (p_sequence (snd h))
                     | _ => from_packets_try_preserve (d :: rest) (map snd olds) end) with
              | Raise e => Raise e
              | Ok news => Ok (olds, news)
              end
            end
          end
        end
      end
    end
  end.

(* OggFileType.save / delete: ogg.error and IOError are re-raised as the codec's error class, EOFError too *)
Definition ogg_f_conv (e : exc) : exc :=
  match e with EEOF => EMutagen | EIO _ => EMutagen | _ => e end.

(* tags._inject(fileobj, padding) for a tags object holding t and _pad_data = pad *)
Definition ogg_save_obj (f : list Z) (c : ogg_codec) (t : vc) (pad : list Z) (cb : option (Z -> Z -> Z)) : result (list Z) :=
  match ogg_f_inject c t pad cb f with
  | Raise e => Raise (ogg_f_conv e)
  | Ok (olds, news) =>
    match replace f olds news with
    | (Ok _, f') => Ok f'
    | (Raise e, _) => Raise (ogg_f_conv e)
    end
  end.

(* ------------------------------------------------------------------ mirror: what load keeps *)
Definition ogg_f_conv_load (e : exc) : exc :=
  match e with EEOF => EMutagen | EIO _ => EMutagen | EValue => EMutagen | EIndex => EMutagen | _ => e end.
Definition ogg_f_odd (b : Z) : bool := Z.odd b.

(* the pages the *VComment.__init__ of the codec reads (after the *Info.__init__ found the header page) *)
Definition ogg_f_open_pages (c : ogg_codec) (all : list (Z * page)) (eof : exc) : result (list (Z * page)) :=
  match c with
  | OOpus => match ogg_f_locate OOpus all eof with
             | Ok (h :: r) => ogg_f_collect (p_serial (snd h)) (h :: r) eof
             | Ok [] => Raise EAssert
             | Raise e => Raise e end
  | _ => match ogg_f_find (ogg_f_pk0 (ogg_f_idprefix c)) all with
         | Some (h :: r) => ogg_f_collect (p_serial (snd h)) r eof
         | _ => Raise eof end
  end.
Definition ogg_f_striplen (c : ogg_codec) : Z :=
  match c with OVorbis => 7 | OOpus => 8 | OSpeex => 0 | OTheora => 7 | OFlac => 4 end.

(* (vendor bytes, _pad_data) of a freshly loaded tags object *)
Definition ogg_open (f : list Z) (c : ogg_codec) : result (list Z * list Z) :=
  let '(all, eof) := ogg_f_scan (S (length f)) f 0 in
  match ogg_f_open_pages c all eof with
  | Raise e => Raise (ogg_f_conv_load e)
  | Ok pages =>
    match to_packets false (map snd pages) with
    | Raise e => Raise (ogg_f_conv_load e)
    | Ok [] => Raise EMutagen
    | Ok (p0 :: _) =>
      let data := zdrop (ogg_f_striplen c) p0 in
      match vc_extent data with
      | Raise e => Raise e
      | Ok n =>
        let vendor := ztake (le_decode (ztake 4 data)) (zdrop 4 data) in
        let rest := zdrop n data in
        match c with
        | OVorbis => match rest with
                     | b :: _ => if ogg_f_odd b then Ok (vendor, []) else Raise EMutagen
                     | [] => Raise EMutagen end
        | OOpus => match rest with
                   | b :: _ => if ogg_f_odd b then Ok (vendor, rest) else Ok (vendor, [])
                   | [] => Ok (vendor, []) end
        | _ => Ok (vendor, [])
        end
      end
    end
  end.

(* K(file).tags = t; .save(padding=cb) through a freshly loaded object *)
Definition ogg_save (f : list Z) (c : ogg_codec) (t : vc) (cb : option (Z -> Z -> Z)) : result (list Z) :=
  match ogg_open f c with
  | Raise e => Raise e
  | Ok (_, pad) => ogg_save_obj f c t pad cb
  end.
(* delete() of an object whose tags hold `vendor`: tags.clear(); tags._inject(fileobj, lambda x: 0) *)
Definition ogg_delete_obj (f : list Z) (c : ogg_codec) (vendor pad : list Z) : result (list Z) :=
  ogg_save_obj f c (mkVC vendor []) pad (Some (fun _ _ => 0)).
(* module-level delete(filething) *)
Definition ogg_delete (f : list Z) (c : ogg_codec) : result (list Z) :=
  match ogg_open f c with
  | Raise e => Raise e
  | Ok (vendor, pad) => ogg_delete_obj f c vendor pad
  end.

(* the same machinery with an arbitrary new comment packet (builder of synthetic layouts for the harness: Opus
   packets with a preserved tail, non-zero granule positions ...) *)
Definition ogg_set_packet (f : list Z) (c : ogg_codec) (d : list Z) : result (list Z) :=
  let '(all, eof) := ogg_f_scan (S (length f)) f 0 in
  match ogg_f_locate c all eof with
  | Ok (h :: r) =>
    match ogg_f_collect (p_serial (snd h)) (h :: r) eof with
    | Ok olds =>
      match to_packets false (map snd olds) with
      | Ok (_ :: rest) =>
        match from_packets_try_preserve (d :: rest) (map snd olds) with
        | Ok news => match replace f olds news with (Ok _, f') => Ok f' | (Raise e, _) => Raise e end
        | Raise e => Raise e end
      | Ok [] => Raise EIndex
      | Raise e => Raise e end
    | Raise e => Raise e end
  | Ok [] => Raise EAssert
  | Raise e => Raise e
  end.

(* ------------------------------------------------------------------ strict walker (format layout) *)
(* `complete` is what the lacing table says: an incomplete page ends in a non-empty piece that is a multiple of 255 *)
Definition ogg_f_canonical (p : page) : bool :=
  p_complete p ||
  (negb (zlen (last (p_packets p) []) =? 0) && (zlen (last (p_packets p) []) mod 255 =? 0)).

(* one page: it parses, and the bytes are exactly the rendering of the parsed page -- capture pattern, version 0,
   field ranges, at most 255 lacing values in canonical form, and the checksum of RFC 3533 (Model.Crc) in its field *)
Definition ogg_f_page_strict (bs : list Z) : result (page * list Z) :=
  match page_parse bs with
  | Raise e => Raise e
  | Ok (p, rest) =>
    match page_write p with
    | Ok w => if ogg_f_canonical p && starts_with w bs then Ok (p, rest) else Raise EMutagen
    | Raise _ => Raise EMutagen
    end
  end.

Fixpoint ogg_f_pages (fuel : nat) (bs : list Z) : result (list page) :=
  match fuel with
  | O => Raise EOutOfFuel
  | S k =>
    match bs with
    | [] => Ok []
    | _ => match ogg_f_page_strict bs with
           | Raise e => Raise e
           | Ok (p, rest) => match ogg_f_pages k rest with Ok l => Ok (p :: l) | Raise e => Raise e end
           end
    end
  end.
(* F_struct of this family: the page list *)
Definition ogg_parse (f : list Z) : result (list page) := ogg_f_pages (S (length f)) f.

(* the rules of one logical stream (its pages in file order) *)
Definition ogg_f_is_serial (s : Z) (p : page) : bool := p_serial p =? s.
(* a page on which no packet ends carries granule position -1 *)
Definition ogg_f_granule_ok (p : page) : bool :=
  if negb (p_complete p) && (zlen (p_packets p) =? 1) then p_position p =? -1 else true.
(* the walk along the pages of one stream.  State: has the stream started, the sequence number the next page must
   carry, whether the previous page left a packet open, whether a last-page flag has been seen.
   The first page carries the first-page flag (and no later page does) and may have any number; no page follows a
   last-page flag; numbers are consecutive; continued <=> a packet is open; the granule rule holds on every page. *)
Fixpoint ogg_f_walk (started : bool) (seq : Z) (open eos : bool) (l : list page) : bool :=
  match l with
  | [] => true
  | p :: r =>
    negb eos && (if started then (p_sequence p =? seq) && negb (first p) else first p) &&
    Bool.eqb (continued p) open && ogg_f_granule_ok p &&
    ogg_f_walk true (p_sequence p + 1) (negb (p_complete p)) (last_flag p) r
  end.
Definition ogg_f_stream_ok (l : list page) : bool := ogg_f_walk false 0 false false l.
Definition ogg_f_streams_ok (pages : list page) : bool :=
  forallb (fun p => ogg_f_stream_ok (filter (ogg_f_is_serial (p_serial p)) pages)) pages.

Definition ogg_wf (f : list Z) : bool :=
  match ogg_parse f with Ok pages => ogg_f_streams_ok pages | Raise _ => false end.

(* ------------------------------------------------------------------ independent reader of the comment *)
(* packets of a stream, reassembled from its pages (a trailing unfinished packet is the last element) *)
Definition ogg_f_unpage_step (acc : list (list Z)) (p : page) : list (list Z) :=
  match p_packets p with
  | [] => acc
  | f :: others => (if continued p then app_last acc f else acc ++ [f]) ++ others
  end.
Definition ogg_f_unpage (l : list page) : list (list Z) := fold_left ogg_f_unpage_step l [].
Definition ogg_f_stream_packets (s : Z) (pages : list page) : list (list Z) :=
  ogg_f_unpage (filter (ogg_f_is_serial s) pages).

(* the tagged stream: the first one (in order of appearance) whose first packet is the identification header of the
   codec and that has a second packet *)
Definition ogg_f_is_tagged (c : ogg_codec) (pages : list page) (p : page) : bool :=
  match ogg_f_stream_packets (p_serial p) pages with
  | a :: _ :: _ => starts_with (ogg_f_idprefix c) a
  | _ => false
  end.
Definition ogg_f_tagged (c : ogg_codec) (pages : list page) : option Z :=
  match find (ogg_f_is_tagged c pages) pages with Some p => Some (p_serial p) | None => None end.

Definition ogg_f_all_zero (l : list Z) : bool := forallb (Z.eqb 0) l.

(* the comment packet decoded: tags and the padding found behind them (-1: Opus tail to be preserved / OggFLAC) *)
Definition ogg_f_decode (c : ogg_codec) (pk : list Z) : result (vc * Z) :=
  match c with
  | OFlac =>
    match pk with
    | h :: s1 :: s2 :: s3 :: body =>
      if negb (h mod 128 =? 4) then Raise EMutagen
      else if negb (be_decode [s1; s2; s3] =? zlen body) then Raise EMutagen
      else match vc_parse body with
           | Ok (t, []) => Ok (t, -1)
           | Ok (_, _ :: _) => Raise EMutagen
           | Raise e => Raise e end
    | _ => Raise EMutagen
    end
  | _ =>
    if negb (starts_with (ogg_f_tagprefix c) pk) then Raise EMutagen
    else
      match vc_parse (zdrop (zlen (ogg_f_tagprefix c)) pk) with
      | Raise e => Raise e
      | Ok (t, rest) =>
        match c with
        | OVorbis => match rest with
                     | b :: pad => if ogg_f_odd b && ogg_f_all_zero pad then Ok (t, zlen pad) else Raise EMutagen
                     | [] => Raise EMutagen end
        | OOpus => (* RFC 7845 5.2: first byte odd = data to preserve; otherwise padding, whatever its bytes *)
                   match rest with
                   | b :: _ => if ogg_f_odd b then Ok (t, -1) else Ok (t, zlen rest)
                   | [] => Ok (t, 0) end
        | _ => if ogg_f_all_zero rest then Ok (t, zlen rest) else Raise EMutagen
        end
      end
  end.

Definition ogg_f_load_pages (c : ogg_codec) (pages : list page) : result (vc * Z) :=
  match ogg_f_tagged c pages with
  | None => Raise EMutagen
  | Some s => match ogg_f_stream_packets s pages with
              | _ :: pk :: _ => ogg_f_decode c pk
              | _ => Raise EMutagen end
  end.
Definition ogg_load (f : list Z) (c : ogg_codec) : result (vc * Z) :=
  match ogg_parse f with
  | Raise e => Raise e
  | Ok pages => ogg_f_load_pages c pages
  end.

(* ------------------------------------------------------------------ edit histories (C03) *)
(* an operation is a save of some tags with some padding choice (through a freshly loaded object) or a delete;
   an operation that raises leaves the file as it is *)
Inductive ogg_op := OggSave (t : vc) (cb : option (Z -> Z -> Z)) | OggDelete.
Definition ogg_step (c : ogg_codec) (f : list Z) (o : ogg_op) : list Z :=
  match o with
  | OggSave t cb => match ogg_save f c t cb with Ok f' => f' | Raise _ => f end
  | OggDelete => match ogg_delete f c with Ok f' => f' | Raise _ => f end
  end.
(* EXTRACT: ogg_save ogg_save_obj ogg_delete ogg_delete_obj ogg_open ogg_set_packet ogg_parse ogg_wf ogg_load
   ogg_f_streams_ok ogg_f_load_pages ogg_f_tagged ogg_f_stream_packets ogg_step *)
