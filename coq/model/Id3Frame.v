(* Model.Id3Frame: Gallina model of Frame._readData/_writeData/_fromData (mutagen/id3/_frames.py) and of
   save_frame / read_frames / determine_bpi (mutagen/id3/_tags.py), driven by the frame description table
   that py2v/gen_frames.py regenerates from the live registry (Gen.Gen_frames).  DEFINITIONS ONLY.
   Outside the model (EOutOfFuel): zlib streams containing a non-stored deflate block.
   ID3EncryptionUnsupportedError / NotImplementedError = ENotImpl; zlib.error is internal (EValue). *)
From Coq Require Import ZArith List Bool.
Import ListNotations.
Require Import Base.Py Model.Id3Spec.
Open Scope Z_scope.

(* ---------------------------------------------------------------- unsynchronisation, zlib (stored) *)
Fixpoint fr_unsynch_decode (l : list Z) : result (list Z) :=
  match l with
  | [] => Ok []
  | b :: r =>
    if b =? 255 then
      match r with
      | [] => Raise EValue
      | n :: r' => if 224 <=? n then Raise EValue
                   else if n =? 0 then rcons 255 (fr_unsynch_decode r') else rcons 255 (fr_unsynch_decode r)
      end
    else rcons b (fr_unsynch_decode r)
  end.
Fixpoint fr_unsynch_encode (l : list Z) : list Z :=
  match l with
  | [] => []
  | b :: r =>
    if b =? 255 then
      match r with
      | [] => [255; 0]
      | n :: _ => if (224 <=? n) || (n =? 0) then 255 :: 0 :: fr_unsynch_encode r else 255 :: fr_unsynch_encode r
      end
    else b :: fr_unsynch_encode r
  end.

Definition adler_step (st : Z * Z) (x : Z) : Z * Z :=
  let a := (fst st + x) mod 65521 in (a, (snd st + a) mod 65521).
Definition adler32 (l : list Z) : Z := let st := fold_left adler_step l (1, 0) in snd st * 65536 + fst st.
(* the stored deflate blocks of a zlib stream: (payload, bytes after the final block) *)
Fixpoint stored_blocks (fuel : nat) (l : list Z) : result (list Z * list Z) :=
  match fuel with
  | O => Raise EOutOfFuel
  | S f =>
    match l with
    | hdr :: l0 :: l1 :: n0 :: n1 :: r =>
      if negb ((hdr / 2) mod 4 =? 0) then Raise EOutOfFuel          (* Huffman block: outside the model *)
      else let len := l0 + 256 * l1 in
           if negb (len + (n0 + 256 * n1) =? 65535) then Raise EValue
           else if zlen r <? len then Raise EValue
           else if hdr mod 2 =? 1 then Ok (ztake len r, zdrop len r)
           else match stored_blocks f (zdrop len r) with
                | Ok (d, rest) => Ok (ztake len r ++ d, rest)
                | Raise e => Raise e
                end
    | hdr :: _ => if negb ((hdr / 2) mod 4 =? 0) then Raise EOutOfFuel else Raise EValue
    | [] => Raise EValue
    end
  end.
(* zlib.decompress restricted to stored blocks (what zlib.compress(x, 0) produces); trailing bytes ignored *)
Definition inflate_stored (l : list Z) : result (list Z) :=
  match l with
  | cmf :: flg :: body =>
    if negb ((cmf mod 16 =? 8) && (cmf / 16 <=? 7) && ((cmf * 256 + flg) mod 31 =? 0) && ((flg / 32) mod 2 =? 0))
    then Raise EValue
    else match stored_blocks (S (length body)) body with
         | Ok (d, rest) => if (4 <=? zlen rest) && (be_decode (ztake 4 rest) =? adler32 d) then Ok d else Raise EValue
         | Raise e => Raise e
         end
  | _ => Raise EValue
  end.
(* a single-stored-block zlib stream (payload up to 65535 bytes) *)
Definition zlib_store (d : list Z) : list Z :=
  let n := zlen d in
  [120; 1; 1; n mod 256; n / 256; (65535 - n) mod 256; (65535 - n) / 256] ++ d ++ be_encode 4 (adler32 d).

(* ---------------------------------------------------------------- table lookups *)
Fixpoint frame_lookup (tbl : list frame_desc) (id : list Z) : option frame_desc :=
  match tbl with
  | [] => None
  | fr :: r => if list_eqb (fr_id fr) id then Some fr else frame_lookup r id
  end.
Definition is_text_frame (fr : frame_desc) : bool := existsb (list_eqb n_TextFrame) (fr_bases fr).
Definition all_fields (fr : frame_desc) : list field := fr_spec fr ++ fr_opt fr.
Definition handle_nodata (k : spec_kind) : bool :=
  match k with KPrim KBinaryData | KPrim KID3Frames => true | _ => false end.
Definition is_upper_alnum (c : Z) : bool := ((65 <=? c) && (c <=? 90)) || ((48 <=? c) && (c <=? 57)).
(* is_valid_frame_id: isalnum() and isupper() on an ASCII name *)
Definition valid_frame_id (id : list Z) : bool :=
  forallb is_upper_alnum id && existsb (fun c => (65 <=? c) && (c <=? 90)) id.

Section Frames.
Variable sub : list Z -> result (value * list Z).
Variable subw : value -> result (list Z).
Variable subvalid : value -> bool.
Variable ver : Z.

(* ---------------------------------------------------------------- Frame._readData / _writeData *)
(* nmand = number of fields still mandatory (_framespec); the rest is _optionalspec *)
Fixpoint read_fields (c : rctx) (nmand : nat) (fs : list field) (data : list Z) : result (list value * list Z) :=
  match fs with
  | [] => Ok ([], data)
  | f :: fs' =>
    if negb (is_nil data) || handle_nodata (f_kind f) then
      match spec_read sub ver c (f_kind f) data with
      | Ok (v, rest) =>
        match read_fields (ctx_set c (f_name f) v) (Nat.pred nmand) fs' rest with
        | Ok (vs, r) => Ok (v :: vs, r)
        | Raise e => Raise e
        end
      | Raise e => Raise e
      end
    else match nmand with O => Ok ([], data) | S _ => Raise EMutagen end
  end.
Definition frame_read (fr : frame_desc) (data : list Z) : result (list value * list Z) :=
  read_fields ctx0 (length (fr_spec fr)) (all_fields fr) data.

(* values: one per _framespec field, then a prefix of the _optionalspec fields *)
Fixpoint write_fields (c : rctx) (fs : list field) (vs : list value) : result (list Z) :=
  match vs with
  | [] => Ok []
  | v :: vs' =>
    match fs with
    | [] => Raise EType
    | f :: fs' => match spec_write subw c (f_kind f) v with
                  | Ok b => rmap (app b) (write_fields (ctx_set c (f_name f) v) fs' vs')
                  | Raise e => Raise e
                  end
    end
  end.
(* Frame._get_v23_frame with sep=None: only EncodingSpec._validate23 changes a value (nested frames are
   converted by the nested writer) *)
Fixpoint to_v23 (fs : list field) (vs : list value) : list value :=
  match fs, vs with
  | f :: fs', v :: vs' =>
    (match f_kind f, v with
     | KPrim KEncoding, VInt e => if (e =? 0) || (e =? 1) then v else VInt 1
     | _, _ => v
     end) :: to_v23 fs' vs'
  | _, _ => vs
  end.
Definition frame_write (fr : frame_desc) (vs : list value) : result (list Z) :=
  if (length vs <? length (fr_spec fr))%nat then Raise EAttr
  else write_fields ctx0 (all_fields fr) (if ver =? 3 then to_v23 (all_fields fr) vs else vs).

(* ---------------------------------------------------------------- save_frame *)
Fixpoint field_value (fs : list field) (vs : list value) (name : list Z) : option value :=
  match fs, vs with
  | f :: fs', v :: vs' => if list_eqb (f_name f) name then Some v else field_value fs' vs' name
  | _, _ => None
  end.
(* len(str(frame)) == 0 for a TextFrame: the joined text is empty *)
Definition text_is_empty (fr : frame_desc) (vs : list value) : bool :=
  match field_value (all_fields fr) vs n_text with
  | Some (VList []) | Some (VList [VText []]) => true
  | _ => false
  end.
Definition size_bits : Z := if ver =? 4 then 7 else 8.
Definition save_frame (fr : frame_desc) (vs : list value) : result (list Z) :=
  if is_text_frame fr && text_is_empty fr vs then Ok []
  else match frame_write fr vs with
       | Ok d => match bpi_to_str size_bits 4 (zlen d) with
                 | Ok sz => Ok (fr_id fr ++ sz ++ [0; 0] ++ d)
                 | Raise e => Raise e
                 end
       | Raise e => Raise e
       end.

(* ---------------------------------------------------------------- Frame._fromData *)
Definition has_flag (flags bit : Z) : bool := (flags / bit) mod 2 =? 1.
Definition inflate_or_junk (d : list Z) : result (list Z) :=
  match inflate_stored d with
  | Ok x => Ok x
  | Raise EOutOfFuel => Raise EOutOfFuel
  | Raise _ => Raise EMutagen
  end.
Definition from_data (gunsync : bool) (fr : frame_desc) (flags : Z) (data : list Z) : result (list value * list Z) :=
  if 4 <=? ver then
    let skip := has_flag flags 8 || has_flag flags 1 in
    let dl := if skip then ztake 4 data else [] in
    let d1 := if skip then zdrop 4 data else data in
    let d2 := if has_flag flags 2 || gunsync
              then match fr_unsynch_decode d1 with Ok d => d | Raise _ => d1 end else d1 in
    if has_flag flags 4 then Raise ENotImpl
    else if has_flag flags 8 then
      match inflate_stored d2 with
      | Ok d => frame_read fr d
      | Raise EOutOfFuel => Raise EOutOfFuel
      | Raise _ => match inflate_or_junk (dl ++ d2) with Ok d => frame_read fr d | Raise e => Raise e end
      end
    else frame_read fr d2
  else if 3 <=? ver then
    if has_flag flags 128 && (zlen data <? 4) then Raise EMutagen
    else let d1 := if has_flag flags 128 then zdrop 4 data else data in
         if has_flag flags 64 then Raise ENotImpl
         else if has_flag flags 128 then
           match inflate_or_junk d1 with Ok d => frame_read fr d | Raise e => Raise e end
         else frame_read fr d1
  else frame_read fr data.

(* ---------------------------------------------------------------- determine_bpi *)
Definition empty10 : list Z := [0;0;0;0;0;0;0;0;0;0].
(* one of the two counting loops: (number of known ascii names, final offset value) *)
Fixpoint bpi_scan (fuel : nat) (tbl : list frame_desc) (bits : Z) (data : list Z) (o cnt : Z) : Z * Z :=
  match fuel with
  | O => (cnt, o - zlen data)
  | S f =>
    if o <? zlen data - 10 then
      let part := zslice o (o + 10) data in
      if list_eqb part empty10 then (cnt, - ((zlen data - o) mod 10))
      else let name := ztake 4 part in
           let size := bpi_decode bits (zslice 4 8 part) in
           let hit := forallb ascii_cp name && match frame_lookup tbl name with Some _ => true | None => false end in
           bpi_scan f tbl bits data (o + 10 + size) (if hit then cnt + 1 else cnt)
    else (cnt, o - zlen data)
  end.
(* true = BitPaddedInt (syncsafe sizes), false = plain int *)
Definition determine_bpi (tbl : list frame_desc) (data : list Z) : bool :=
  let '(asbpi, bpioff) := bpi_scan (S (length data)) tbl 7 data 0 0 in
  let '(asint, intoff) := bpi_scan (S (length data)) tbl 8 data 0 0 in
  negb ((asbpi <? asint) || ((asint =? asbpi) && (1 <=? bpioff) && (intoff <=? 1))).

(* ---------------------------------------------------------------- read_frames *)
Definition loaded := (list Z * list value)%type.       (* frame class name, field values *)
Record parsed := mkParsed { p_frames : list loaded; p_unknown : list (list Z); p_rest : list Z }.
Definition add_frame (x : loaded) (p : parsed) := mkParsed (x :: p_frames p) (p_unknown p) (p_rest p).
Definition add_unknown (x : list Z) (p : parsed) := mkParsed (p_frames p) (x :: p_unknown p) (p_rest p).

(* "someone writes 2.3 frames with 2.2 names": NAM\0 -> base class of Frames_2_2[NAM] *)
Definition resolve_name (tbl22 : list frame_desc) (name : list Z) : option (list Z) :=
  match rev name with
  | 0 :: pre => match frame_lookup tbl22 (rev pre) with
                | Some fr => match fr_bases fr with b :: _ => Some b | [] => None end
                | None => None
                end
  | _ => Some name
  end.

Fixpoint frames_loop (fuel : nat) (gunsync : bool) (tbl22 tbl : list frame_desc) (bits : Z) (data : list Z) : result parsed :=
  match fuel with
  | O => Raise EOutOfFuel
  | S f =>
    if is_nil data then Ok (mkParsed [] [] data)
    else if zlen data <? 10 then Ok (mkParsed [] [] data)
    else
      let header := ztake 10 data in
      let name := ztake 4 header in
      if all_zero name then Ok (mkParsed [] [] data)
      else
        let size := bpi_decode bits (zslice 4 8 header) in
        let flags := be_decode (zslice 8 10 header) in
        let take := Z.min size (zlen data) in             (* Python slices clamp to the data *)
        let framedata := zslice 10 (10 + take) data in
        let next := frames_loop f gunsync tbl22 tbl bits (zdrop (10 + take) data) in
        if size =? 0 then next
        else if negb (forallb ascii_cp name) then next
        else
          match (match resolve_name tbl22 name with Some n => frame_lookup tbl n | None => None end) with
          | None =>
            if match resolve_name tbl22 name with Some n => valid_frame_id n | None => false end
            then rmap (add_unknown (header ++ framedata)) next else next
          | Some fr =>
            match from_data gunsync fr flags framedata with
            | Ok (vs, _) => rmap (add_frame (fr_id fr, vs)) next
            | Raise ENotImpl => rmap (add_unknown (header ++ framedata)) next
            | Raise EMutagen => next
            | Raise e => Raise e
            end
          end
  end.
Fixpoint frames_loop22 (fuel : nat) (tbl22 : list frame_desc) (data : list Z) : result parsed :=
  match fuel with
  | O => Raise EOutOfFuel
  | S f =>
    if zlen data <? 6 then Ok (mkParsed [] [] data)
    else
      let header := ztake 6 data in
      let name := ztake 3 header in
      if all_zero name then Ok (mkParsed [] [] data)
      else
        let size := be_decode (zslice 3 6 header) in
        let take := Z.min size (zlen data) in
        let framedata := zslice 6 (6 + take) data in
        let next := frames_loop22 f tbl22 (zdrop (6 + take) data) in
        if size =? 0 then next
        else if negb (forallb ascii_cp name) then next
        else match frame_lookup tbl22 name with
             | None => if valid_frame_id name then rmap (add_unknown (header ++ framedata)) next else next
             | Some fr =>
               match from_data false fr 0 framedata with
               | Ok (vs, _) => rmap (add_frame (fr_id fr, vs)) next
               | Raise ENotImpl => rmap (add_unknown (header ++ framedata)) next
               | Raise EMutagen => next
               | Raise e => Raise e
               end
             end
  end.
Definition read_frames (gunsync : bool) (tbl22 tbl : list frame_desc) (data : list Z) : result parsed :=
  let data := if (ver <? 4) && gunsync
              then match fr_unsynch_decode data with Ok d => d | Raise _ => data end else data in
  if 3 <=? ver then
    let bits := if ver <? 4 then 8 else if determine_bpi tbl data then 7 else 8 in
    frames_loop (S (length data)) gunsync tbl22 tbl bits data
  else frames_loop22 (S (length data)) tbl22 data.

(* ---------------------------------------------------------------- validity of a frame's values *)
Definition strips (k : spec_kind) : bool :=
  (ver <? 4) && match k with KPrim p => is_enc_text p | KMulti _ => false end.
Fixpoint fields_valid (c : rctx) (fs : list field) (vs : list value) : bool :=
  match vs with
  | [] => match fs with [] => true | f :: _ => negb (handle_nodata (f_kind f)) end
  | v :: vs' =>
    match fs with
    | [] => false
    | f :: fs' =>
      let c' := ctx_set c (f_name f) v in
      spec_valid subw subvalid ver c (f_kind f) v && fields_valid c' fs' vs' &&
      (negb (strips (f_kind f)) || match write_fields c' fs' vs' with Ok b => zero_rest_ok b | Raise _ => false end)
    end
  end.
Definition frame_valid (fr : frame_desc) (vs : list value) : bool :=
  (length (fr_spec fr) <=? length vs)%nat && fields_valid ctx0 (all_fields fr) vs.
End Frames.

(* ---------------------------------------------------------------- Frame._to_other / _upgrade_frame (v2.2 -> v2.3/v2.4) *)
Definition names_of (fs : list field) : list (list Z) := map f_name fs.
Fixpoint names_eqb (a b : list (list Z)) : bool :=
  match a, b with
  | [], [] => true
  | x :: a', y :: b' => list_eqb x y && names_eqb a' b'
  | _, _ => false
  end.
(* the _framespec loop: getattr(self, name) for each of the nmand mandatory fields (AttributeError if unset); the
   _optionalspec loop: copied `if hasattr(self, name)`.  A frame's optional values are a prefix of _optionalspec (they are
   the tail of the value list), so the copy ends at the first optional field self does not have *)
Fixpoint copy_fields (self : list field) (vs : list value) (nmand : nat) (fs : list field) : result (list value) :=
  match fs with
  | [] => Ok []
  | f :: r => match field_value self vs (f_name f) with
              | Some v => rmap (cons v) (copy_fields self vs (Nat.pred nmand) r)
              | None => match nmand with O => Ok [] | S _ => Raise EAttr end
              end
  end.
(* `other._framespec is not self._framespec` / `other._optionalspec is not self._optionalspec` -> ValueError: identity of
   the spec lists, modelled as equality of the field names (classes overriding _to_other -- PIC, LNK, RVA -- are not modelled) *)
Definition to_other (self other : frame_desc) (vs : list value) : result (list value) :=
  if names_eqb (names_of (fr_spec other)) (names_of (fr_spec self)) &&
     names_eqb (names_of (fr_opt other)) (names_of (fr_opt self))
  then copy_fields (all_fields self) vs (length (fr_spec other)) (all_fields other) else Raise EValue.
(* Frame._upgrade_frame: a three-letter class becomes base(self), base = its first base class; None if that is Frame itself *)
Definition upgrade_frame (tbl : list frame_desc) (fr : frame_desc) (vs : list value) : result (option (list Z * list value)) :=
  if zlen (fr_id fr) =? 3 then
    match fr_bases fr with
    | b :: _ => match frame_lookup tbl b with
                | Some base => rmap (fun vs' => Some (fr_id base, vs')) (to_other fr base vs)
                | None => Ok None
                end
    | [] => Ok None
    end
  else Ok (Some (fr_id fr, vs)).

(* ---------------------------------------------------------------- decidable composability of a spec list *)
Definition self_delim (k : prim_kind) : bool :=
  match k with
  | KByte | KEncoding | KPictureType | KCTOCFlags | KChannel | KLatin1Text
  | KEncodedText | KEncodedNumericText | KEncodedNumericPartText | KTimeStamp
  | KVolumeAdjustment | KVolumePeak | KLatin1TextList => true
  | KSizedInteger n | KString n | KFrameID n => 1 <=? n
  | _ => false
  end.
Definition last_ok (k : prim_kind) : bool :=
  match k with
  | KSizedInteger n | KString n | KFrameID n => 1 <=? n
  | _ => true
  end.
Definition needs_enc (k : spec_kind) : bool :=
  match k with
  | KPrim p => is_enc_text p || match p with KSynchronizedText => true | _ => false end
  | KMulti _ => true
  end.
Definition has_field (seen : list field) (name : list Z) (ok : prim_kind -> bool) : bool :=
  existsb (fun f => list_eqb (f_name f) name && match f_kind f with KPrim p => ok p | _ => false end) seen.
Definition is_kencoding (k : prim_kind) : bool := match k with KEncoding => true | _ => false end.
Definition is_kbyte (k : prim_kind) : bool := match k with KByte => true | _ => false end.
Definition is_ksized (k : prim_kind) : bool := match k with KSizedInteger _ => true | _ => false end.
(* `seen` = the fields before this one, most recent first *)
Fixpoint fields_ok (seen : list field) (fs : list field) : bool :=
  match fs with
  | [] => true
  | f :: fs' =>
    negb (existsb (fun g => list_eqb (f_name g) (f_name f)) seen) &&
    (match f_kind f with
     | KPrim p => if is_nil fs' then last_ok p else self_delim p
     | KMulti subs => is_nil fs' && negb (is_nil subs) && forallb is_enc_text subs
     end) &&
    (negb (needs_enc (f_kind f)) || has_field seen n_encoding is_kencoding) &&
    (match f_kind f with
     | KPrim KASPIIndex => has_field seen n_b is_kbyte && has_field seen n_N is_ksized
     | _ => true
     end) &&
    fields_ok (f :: seen) fs'
  end.
Definition spec_list_ok (fr : frame_desc) : bool := fields_ok [] (all_fields fr).

(* ---------------------------------------------------------------- nested frames: tying the knot by depth *)
Definition loaded_value (x : loaded) : value := VList [VBytes (fst x); VList (snd x)].
Definition as_loaded (v : value) : result loaded :=
  match v with VList [VBytes id; VList vs] => Ok (id, vs) | _ => Raise EType end.

(* ID3FramesSpec.read clears the tag-level unsynchronisation flag (on a copy of the header) for the nested
   reader: the enclosing frame / tag body has been decoded already *)
Definition nested_gunsync (ver : Z) (g : bool) : bool := false.

Definition nesting_limit : nat := 16.

Section Tag.
Variable tbl22 tbl : list frame_desc.
Variable ver : Z.

(* ID3Tags._read / read_frames with ID3FramesSpec recursion bounded by depth d: tag_read d may open d - 1 further
   levels of sub-frames.  ID3FramesSpec.read counts the levels in header._nesting and raises SpecError beyond
   nesting_limit (16); Frame._readData turns that into ID3JunkFrameError, so the frame that would open level 17 is
   dropped (EMutagen).  The implementation's reader of a whole tag is tag_read (S nesting_limit). *)
Fixpoint tag_read (d : nat) (gunsync : bool) (data : list Z) : result parsed :=
  match d with
  | O => Raise EMutagen
  | S d' =>
    read_frames (fun x => match tag_read d' (nested_gunsync ver gunsync) x with
                          | Ok p => Ok (VList (map loaded_value (p_frames p)), p_rest p)
                          | Raise e => Raise e
                          end) ver gunsync tbl22 tbl data
  end.
(* ID3Tags._write for frames given in wire order (the sort by priority/size/HashKey is not modelled) *)
Fixpoint tag_write (d : nat) (v : value) : result (list Z) :=
  match d with
  | O => Raise EOutOfFuel
  | S d' =>
    rbind (as_list v) (rconcat (fun e =>
      rbind (as_loaded e) (fun x =>
        match frame_lookup (if ver <? 3 then tbl22 else tbl) (fst x) with
        | Some fr => save_frame (tag_write d') ver fr (snd x)
        | None => Raise EKey
        end)))
  end.
Fixpoint no_dup_ids (seen : list (list Z)) (l : list value) : bool :=
  match l with
  | [] => true
  | VList [VBytes id; VList _] :: r => negb (existsb (list_eqb id) seen) && no_dup_ids (id :: seen) r
  | _ => false
  end.
(* nested frames: known distinct classes, each valid, each written non-empty, v2.4 sizes syncsafe-detectable *)
Fixpoint tag_valid (d : nat) (v : value) : bool :=
  match d with
  | O => false
  | S d' =>
    match v with
    | VList l =>
      no_dup_ids [] l &&
      forallb (fun e => match e with
                        | VList [VBytes id; VList vs] =>
                          match frame_lookup tbl id with
                          | Some fr => frame_valid (tag_write d') (tag_valid d') ver fr vs &&
                                       match save_frame (tag_write d') ver fr vs with
                                       | Ok b => 10 <? zlen b
                                       | Raise _ => false
                                       end
                          | None => false
                          end
                        | _ => false
                        end) l &&
      match tag_write d v with
      | Ok b => (ver <? 4) || determine_bpi tbl b
      | Raise _ => false
      end
    | _ => false
    end
  end.

(* the nested reader handed to ID3FramesSpec.read by a frame parsed under tag-level flag gunsync *)
Definition sub_of (d : nat) (gunsync : bool) (x : list Z) : result (value * list Z) :=
  match tag_read d (nested_gunsync ver gunsync) x with
  | Ok p => Ok (VList (map loaded_value (p_frames p)), p_rest p)
  | Raise e => Raise e
  end.
(* entry points at nesting depth d (d = 0: no nested frames can be read or written) *)
Definition frame_read_d (d : nat) (gunsync : bool) := frame_read (sub_of d gunsync) ver.
Definition frame_write_d (d : nat) := frame_write (tag_write d) ver.
Definition save_frame_d (d : nat) := save_frame (tag_write d) ver.
Definition from_data_d (d : nat) (gunsync : bool) := from_data (sub_of d gunsync) ver gunsync.
Definition frame_valid_d (d : nat) := frame_valid (tag_write d) (tag_valid d) ver.
End Tag.

(* EXTRACT: frame_read_d frame_write_d save_frame_d from_data_d frame_valid_d tag_read tag_write tag_valid
   spec_list_ok determine_bpi inflate_stored fr_unsynch_decode fr_unsynch_encode zlib_store frame_lookup nesting_limit upgrade_frame *)
