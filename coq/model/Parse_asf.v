(* Model.Parse_asf -- exception-faithful mirror of mutagen/asf ASF.load over a BytesIO:
     HeaderObject.parse_size / parse_full   read(30), GUID check, '<QL'; the `for i in range(num_objects)` loop:
                                 remaining-size checks, read(24), '<16sQ', BaseObject._get_object, read(payload_size)
                                 (`except (OverflowError, MemoryError)`; a negative size reads to the end), and
                                 obj.parse under `except struct.error / UnicodeDecodeError / KeyError: raise ASFHeaderError`
     obj.parse by GUID           ContentDescription, ExtendedContentDescription, FileProperties, StreamProperties,
                                 CodecList (_parse_entry through cdata.uint16_le_from / uint32_le_from, `except cdata.error`),
                                 HeaderExtension (its `while datapos < datasize` loop over sub-objects: a nested
                                 HeaderExtension is refused, the others are parsed by the same dispatch), Metadata,
                                 MetadataLibrary, a nested HeaderObject (ASFHeaderError), everything else (BaseObject.parse: nothing)
     _attrs.ASF*Attribute.parse  by value type: UTF-16 decode (UnicodeDecodeError -> ASFError), struct.unpack of exactly
                                 4 / 2 / 4 / 8 / 2 bytes (BOOL is 2 bytes when dword=False), bytes / GUID as they are;
                                 ASFBaseAttribute._get_type: KeyError for an unknown type
     ASF.load                    collecting the tags, `assert not self._tags`
   Nesting: a header extension object is only parsed as a child of the header object; HeaderExtensionObject.parse
   raises ASFHeaderError("nested header extension object") for a sub-object with the header extension GUID (before
   parsing it), as HeaderObject.parse does for a nested header object: the dispatch is not recursive.
   str.decode('utf-16-le') is modelled by its only effect here, whether it raises (asf_utf16_ok).  Slices use
   Parse_base.lslice (= zslice): offsets are 64-bit numbers taken from the file.  Definitions only. *)
From Coq Require Import ZArith List Bool.
Import ListNotations.
Require Import Base.Py Model.Parse_base.
Open Scope Z_scope.

Definition guid_header   := [48;38;178;117;142;102;207;17;166;217;0;170;0;98;206;108].
Definition guid_content  := [51;38;178;117;142;102;207;17;166;217;0;170;0;98;206;108].
Definition guid_extcont  := [64;164;208;210;7;227;210;17;151;240;0;160;201;94;168;80].
Definition guid_fileprop := [161;220;171;140;71;169;207;17;142;228;0;192;12;32;83;101].
Definition guid_stream   := [145;7;220;183;183;169;207;17;142;230;0;192;12;32;83;101].
Definition guid_codecs   := [64;82;209;134;29;49;208;17;163;164;0;160;201;3;72;246].
Definition guid_hdrext   := [181;3;191;95;46;169;207;17;142;227;0;192;12;32;83;101].
Definition guid_metadata := [234;203;248;197;175;91;119;72;132;103;170;140;68;250;76;202].
Definition guid_metalib  := [148;28;35;68;152;148;209;73;161;65;29;19;78;69;112;84].

Notation "x <- m ;;; k" := (rbind m (fun x => k)) (at level 61, m at next level, right associativity).
Notation "' pat <- m ;;; k" := (rbind m (fun x => match x with pat => k end))
  (at level 61, pat pattern, m at next level, right associativity).

Notation "m ;;;; k" := (rbind m (fun _ => k)) (at level 61, right associativity).

(* struct.unpack(fmt, data[a:b]) with calcsize(fmt) = b - a: the bytes, or struct.error *)
Definition asf_unpack (a b : Z) (data : list Z) : result (list Z) :=
  let s := lslice a b data in if zlen s =? b - a then Ok s else Raise EStruct.
(* bytes.decode('utf-16-le'): does it succeed?  (odd length, lone or unpaired surrogate: UnicodeDecodeError) *)
Fixpoint asf_utf16_ok (l : list Z) : bool :=
  match l with
  | [] => true
  | [_] => false
  | lo :: hi :: t =>
      let u := lo + 256 * hi in
      if (55296 <=? u) && (u <? 56320) then
        match t with
        | lo2 :: hi2 :: t' => let u2 := lo2 + 256 * hi2 in (56320 <=? u2) && (u2 <? 57344) && asf_utf16_ok t'
        | _ => false
        end
      else if (56320 <=? u) && (u <? 57344) then false
      else asf_utf16_ok t
  end.
Definition asf_decode (l : list Z) : result unit := if asf_utf16_ok l then Ok tt else Raise EUnicode.

(* ASFBaseAttribute._get_type(value_type)(data=value, dword=...) *)
Definition asf_attr (value_type : Z) (dword : bool) (value : list Z) : result unit :=
  let exactly n := if zlen value =? n then Ok tt else Raise EStruct in
  if value_type =? 0 then (if asf_utf16_ok value then Ok tt else Raise EMutagen)   (* reraise(ASFError, ...) *)
  else if value_type =? 1 then Ok tt
  else if value_type =? 2 then exactly (if dword then 4 else 2)
  else if value_type =? 3 then exactly 4
  else if value_type =? 4 then exactly 8
  else if value_type =? 5 then exactly 2
  else if value_type =? 6 then Ok tt
  else Raise EKey.

(* what load keeps: FileProperties (length, preroll), StreamProperties (channels, sample_rate, bitrate),
   the first audio codec entry (codec id | -1, name bytes, description bytes; [] when they do not decode), number of tags *)
Record asf_st := mkAsf { as_fp : option (Z * Z); as_sp : option (Z * Z * Z); as_codec : option (Z * list Z * list Z);
                         as_tags : Z }.
Definition asf_add_tags (st : asf_st) (n : Z) : asf_st := mkAsf (as_fp st) (as_sp st) (as_codec st) (as_tags st + n).

(* ContentDescriptionObject.parse: the number of texts *)
Fixpoint asf_cd_texts (lengths : list Z) (data : list Z) (pos n : Z) : result Z :=
  match lengths with
  | [] => Ok n
  | length :: t =>
      let end_ := pos + length in
      if 0 <? length then (asf_decode (lslice pos end_ data) ;;;; asf_cd_texts t data end_ (n + 1))
      else asf_cd_texts t data end_ n
  end.
Definition asf_content (data : list Z) (st : asf_st) : result asf_st :=
  h <- asf_unpack 0 10 data ;;;
  n <- asf_cd_texts [le_decode (lslice 0 2 h); le_decode (lslice 2 4 h); le_decode (lslice 4 6 h);
                     le_decode (lslice 6 8 h); le_decode (lslice 8 10 h)] data 10 0 ;;;
  Ok (asf_add_tags st n).

(* ExtendedContentDescriptionObject.parse: `for i in range(num_attributes)` *)
Fixpoint asf_ecd_loop (n : nat) (data : list Z) (pos : Z) : result unit :=
  match n with
  | O => Ok tt
  | S n' =>
      nl <- asf_unpack pos (pos + 2) data ;;;
      let name_length := le_decode nl in
      let pos := pos + 2 in
      asf_decode (lslice pos (pos + name_length) data) ;;;;
      let pos := pos + name_length in
      tv <- asf_unpack pos (pos + 4) data ;;;
      let value_type := le_decode (lslice 0 2 tv) in
      let value_length := le_decode (lslice 2 4 tv) in
      let pos := pos + 4 in
      asf_attr value_type true (lslice pos (pos + value_length) data) ;;;;
      asf_ecd_loop n' data (pos + value_length)
  end.
Definition asf_extcont (data : list Z) (st : asf_st) : result asf_st :=
  c <- asf_unpack 0 2 data ;;;
  asf_ecd_loop (Z.to_nat (le_decode c)) data 2 ;;;;
  Ok (asf_add_tags st (le_decode c)).

(* MetadataObject.parse / MetadataLibraryObject.parse (the same reads; BOOL values are 2 bytes here) *)
Fixpoint asf_md_loop (n : nat) (data : list Z) (pos : Z) : result unit :=
  match n with
  | O => Ok tt
  | S n' =>
      h <- asf_unpack pos (pos + 12) data ;;;
      let name_length := le_decode (lslice 4 6 h) in
      let value_type := le_decode (lslice 6 8 h) in
      let value_length := le_decode (lslice 8 12 h) in
      let pos := pos + 12 in
      asf_decode (lslice pos (pos + name_length) data) ;;;;
      let pos := pos + name_length in
      asf_attr value_type (negb (value_type =? 2)) (lslice pos (pos + value_length) data) ;;;;
      asf_md_loop n' data (pos + value_length)
  end.
Definition asf_metadata (data : list Z) (st : asf_st) : result asf_st :=
  c <- asf_unpack 0 2 data ;;;
  asf_md_loop (Z.to_nat (le_decode c)) data 2 ;;;;
  Ok (asf_add_tags st (le_decode c)).

Definition asf_fileprop (data : list Z) (st : asf_st) : result asf_st :=
  if zlen data <? 64 then Raise EMutagen
  else
    s <- asf_unpack 40 64 data ;;;
    Ok (mkAsf (Some (le_decode (lslice 0 8 s), le_decode (lslice 16 24 s))) (as_sp st) (as_codec st) (as_tags st)).
Definition asf_stream (data : list Z) (st : asf_st) : result asf_st :=
  s <- asf_unpack 56 66 data ;;;
  Ok (mkAsf (as_fp st) (Some (le_decode (lslice 0 2 s), le_decode (lslice 2 6 s), le_decode (lslice 6 10 s) * 8)) (as_codec st) (as_tags st)).

(* cdata.uintN_le_from(data, offset): struct.unpack_from *)
Definition asf_uint_from (n : Z) (data : list Z) (offset : Z) : result (Z * Z) :=
  if (0 <=? offset) && (offset + n <=? zlen data) then Ok (le_decode (lslice offset (offset + n) data), offset + n)
  else Raise EStruct.
(* a text that does not decode becomes u"" *)
Definition asf_text_or_empty (l : list Z) : list Z := if asf_utf16_ok l then l else [].
(* CodecListObject._parse_entry: (offset, type, name, desc, codec id | -1) *)
Definition asf_codec_entry (data : list Z) (offset : Z) : result (Z * Z * list Z * list Z * Z) :=
  ' (type_, offset) <- asf_uint_from 2 data offset ;;;
  ' (units, offset) <- asf_uint_from 2 data offset ;;;
  let next := offset + units * 2 in
  let name := asf_text_or_empty (lslice offset next data) in
  ' (units, offset) <- asf_uint_from 2 data next ;;;
  let next := offset + units * 2 in
  let desc := asf_text_or_empty (lslice offset next data) in
  ' (bytes_, offset) <- asf_uint_from 2 data next ;;;
  let next := offset + bytes_ in
  codec <- (if bytes_ =? 2 then (' (id, _) <- asf_uint_from 2 data offset ;;; Ok id) else Ok (-1)) ;;;
  Ok (next, type_, name, desc, codec).
Definition asf_is_estruct (e : exc) : bool := exc_eqb e EStruct.
Fixpoint asf_codec_loop (fuel : nat) (i count : Z) (data : list Z) (offset : Z) : result (option (Z * list Z * list Z)) :=
  match fuel with
  | O => Raise EOutOfFuel
  | S f =>
      if count <=? i then Ok None
      else
        ' (offset, type_, name, desc, codec) <-
          (match asf_codec_entry data offset with
           | Raise e => if asf_is_estruct e then Raise EMutagen else Raise e   (* except cdata.error: raise ASFError *)
           | r => r
           end) ;;;
        if type_ =? 2 then Ok (Some (codec, name, desc)) else asf_codec_loop f (i + 1) count data offset
  end.
Definition asf_codecs (data : list Z) (st : asf_st) : result asf_st :=
  ' (count, offset) <- asf_uint_from 4 data 16 ;;;
  c <- asf_codec_loop (Z.to_nat (zlen data + 1)) 0 count data offset ;;;
  Ok (match c with Some e => mkAsf (as_fp st) (as_sp st) (Some e) (as_tags st) | None => st end).

(* BaseObject._get_object(guid).parse(asf, data) for every object but the header extension *)
Definition asf_parse_leaf (guid data : list Z) (st : asf_st) : result asf_st :=
  if list_eqb guid guid_header then Raise EMutagen                           (* nested header object *)
  else if list_eqb guid guid_content then asf_content data st
  else if list_eqb guid guid_extcont then asf_extcont data st
  else if list_eqb guid guid_fileprop then asf_fileprop data st
  else if list_eqb guid guid_stream then asf_stream data st
  else if list_eqb guid guid_codecs then asf_codecs data st
  else if list_eqb guid guid_metadata then asf_metadata data st
  else if list_eqb guid guid_metalib then asf_metadata data st
  else Ok st.                                                                  (* BaseObject.parse *)

(* HeaderExtensionObject.parse: `while datapos < datasize:` *)
Fixpoint asf_ext_loop (fuel : nat) (data : list Z) (datasize datapos : Z) (st : asf_st) : result asf_st :=
  match fuel with
  | O => Raise EOutOfFuel
  | S f =>
      if negb (datapos <? datasize) then Ok st
      else
        h <- asf_unpack (22 + datapos) (22 + datapos + 24) data ;;;
        let guid := lslice 0 16 h in
        let size := le_decode (lslice 16 24 h) in
        if size <? 1 then Raise EMutagen
        else if list_eqb guid guid_hdrext then Raise EMutagen                 (* nested header extension object *)
        else
          st <- asf_parse_leaf guid (lslice (22 + datapos + 24) (22 + datapos + size) data) st ;;;
          asf_ext_loop f data datasize (datapos + size) st
  end.

(* BaseObject._get_object(guid).parse(asf, data) for a child of the header object *)
Definition asf_parse_obj (guid data : list Z) (st : asf_st) : result asf_st :=
  if list_eqb guid guid_hdrext then
    ds <- asf_unpack 18 22 data ;;;
    asf_ext_loop (Z.to_nat (zlen data + 1)) data (le_decode ds) 0 st
  else asf_parse_leaf guid data st.

Definition asf_is_caught (e : exc) : bool := exc_eqb e EStruct || exc_eqb e EUnicode || exc_eqb e EKey.
Definition asf_is_overflow (e : exc) : bool := exc_eqb e EOverflow.

(* HeaderObject.parse_full: `for i in range(num_objects)` *)
Fixpoint asf_objects (fuel : nat) (i num_objects remaining : Z) (st : asf_st) (nobj : Z) : P (asf_st * Z) :=
  match fuel with
  | O => praise EOutOfFuel
  | S f =>
      if num_objects <=? i then pret (st, nobj)
      else if remaining <? 24 then praise EMutagen
      else
        data <~ p_read 24 ;;
        if negb (zlen data =? 24) then praise EMutagen
        else
          let remaining := remaining - 24 in
          let guid := lslice 0 16 data in
          let size := le_decode (lslice 16 24 data) in
          let payload_size := size - 24 in
          if remaining <? payload_size then praise EMutagen
          else
            let remaining := remaining - payload_size in
            payload <~ pcatch (p_read payload_size) asf_is_overflow (fun _ => praise EMutagen) ;;
            if negb (zlen payload =? payload_size) then praise EMutagen
            else
              st <~ pcatch (plift (asf_parse_obj guid payload st)) asf_is_caught (fun _ => praise EMutagen) ;;
              asf_objects f (i + 1) num_objects remaining st (nobj + 1)
  end.

Definition oz2 (o : option (Z * Z)) : list Z := match o with Some (a, b) => [1; a; b] | None => [0; 0; 0] end.
(* ASF.load: [has FileProperties; length; preroll; channels; sample_rate; bitrate; tags; header objects;
              has codec; codec id; len name] ++ name ++ [len desc] ++ desc *)
Definition asf_init (fuel : nat) : P (list Z) :=
  pconvert_io (
    header <~ p_read 30 ;;
    if negb (zlen header =? 30) || negb (list_eqb (lslice 0 16 header) guid_header) then praise EMutagen
    else
      let s := lslice 16 28 header in
      if negb (zlen s =? 12) then praise EStruct
      else
        let size := le_decode (lslice 0 8 s) in
        let num_objects := le_decode (lslice 8 12 s) in
        ' (st, nobj) <~ asf_objects fuel 0 num_objects (size - 30) (mkAsf None None None 0) 0 ;;
        let '(ch, rate, br) := match as_sp st with Some x => x | None => (0, 0, 0) end in
        pret (oz2 (as_fp st) ++ [ch; rate; br; as_tags st; nobj] ++
              match as_codec st with
              | Some (id, name, desc) => [1; id; zlen name] ++ name ++ [zlen desc] ++ desc
              | None => [0]
              end)).
Definition asf_load (d : list Z) : result (list Z) := prun (asf_init (lin_fuel 1 1 d)) d.

Definition asf_id (l : list Z) : list Z := l.
(* EXTRACT: asf_load asf_id *)
