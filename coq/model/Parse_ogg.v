(* Model.Parse_ogg -- exception-faithful mirror of mutagen.oggvorbis.OggVorbisInfo.__init__ (the page loop
   that looks for the identification header) on top of Model.Ogg.page_parse (= OggPage.__init__), and of
   the exception mapping of OggFileType.load around it (error/IOError -> _Error, EOFError -> _Error).
   Definitions only. *)
From Coq Require Import ZArith List Bool.
Import ListNotations.
Require Import Base.Py Model.Parse_base Model.Ogg.
Open Scope Z_scope.

(* OggPage(fileobj): page_parse on what the file still holds; the position moves by what was consumed *)
Definition ogg_read_page : P page := fun d p =>
  let bs := ldrop p d in
  match page_parse bs with
  | Ok (pg, rest) => (Ok pg, p + (zlen bs - zlen rest))
  | Raise e => (Raise e, p)
  end.

Definition ogg_vorbis_id := [1;118;111;114;98;105;115].        (* b"\x01vorbis" *)
Definition ogg_opus_id := [79;112;117;115;72;101;97;100].       (* b"OpusHead" *)
Definition ogg_speex_id := [83;112;101;101;120;32;32;32].       (* b"Speex   " *)
Definition ogg_theora_id := [128;116;104;101;111;114;97].       (* b"\x80theora" *)
Definition ogg_first_is (magic : list Z) (pg : page) : bool :=
  match p_packets pg with [] => false | pk :: _ => starts_with magic pk end.
Definition ogg_first_is_id := ogg_first_is ogg_vorbis_id.

(* while not (page.packets and page.packets[0].startswith(magic)): page = OggPage(fileobj) *)
Fixpoint ogg_find (fuel : nat) (magic : list Z) (pg : page) : P page :=
  match fuel with
  | O => praise EOutOfFuel
  | S f => if ogg_first_is magic pg then pret pg else pg' <~ ogg_read_page ;; ogg_find f magic pg'
  end.
Definition ogg_find_id (fuel : nat) := ogg_find fuel ogg_vorbis_id.

Record ogv_info := mkOgv { ov_channels : Z; ov_rate : Z; ov_bitrate : Z; ov_serial : Z }.

Definition ogv_init (fuel : nat) : P ogv_info :=
  pg <~ ogg_read_page ;;
  match p_packets pg with
  | [] => praise EMutagen                                            (* page has not packets *)
  | _ =>
    pg <~ ogg_find_id fuel pg ;;
    if negb (first pg) then praise EMutagen
    else
      pk <~ plift (list_index 0 (p_packets pg)) ;;                   (* page.packets[0] *)
      if zlen pk <? 28 then praise EMutagen
      else
        (* struct.unpack("<BI3i", page.packets[0][11:28]) *)
        let s := zslice 11 28 pk in
        if negb (zlen s =? 17) then praise EStruct
        else
          let channels := znth 0 s in
          let rate := le_decode (zslice 1 5 s) in
          let maxb := to_signed_bits 32 (le_decode (zslice 5 9 s)) in
          let nomb := to_signed_bits 32 (le_decode (zslice 9 13 s)) in
          let minb := to_signed_bits 32 (le_decode (zslice 13 17 s)) in
          if rate =? 0 then praise EMutagen
          else
            let maxb := Z.max 0 maxb in let minb := Z.max 0 minb in let nomb := Z.max 0 nomb in
            let bitrate :=
              if nomb =? 0 then (maxb + minb) / 2
              else if negb (maxb =? 0) && (maxb <? nomb) then maxb
              else if nomb <? minb then minb
              else nomb in
            pret (mkOgv channels rate bitrate (p_serial pg))
  end.

(* every page costs at least its 27 header bytes: len/27 + 1 pages; the wrapper gives len + 1 *)
Definition ogv_fuel (d : list Z) : nat := lin_fuel 1 1 d.
(* OggVorbisInfo(fileobj) as called: EOFError may escape *)
Definition oggvorbis_info_load (d : list Z) : result ogv_info := prun (ogv_init (ogv_fuel d)) d.
(* ... and inside OggFileType.load:  except (error, IOError): reraise(_Error)   except EOFError: raise _Error *)
Definition ogg_is_eof (e : exc) : bool := exc_eqb e EEOF.
Definition oggvorbis_load (d : list Z) : result ogv_info :=
  prun (pcatch (pconvert_io (ogv_init (ogv_fuel d))) ogg_is_eof (fun _ => praise EMutagen)) d.
Definition ogv_info_list (i : ogv_info) : list Z := [ov_channels i; ov_rate i; ov_bitrate i; ov_serial i].


(* ---- the other codec header finders: same page loop, different identification packet ---- *)
(* OggOpusInfo.__init__ *)
Definition ogo_init (fuel : nat) : P (list Z) :=
  pg <~ ogg_read_page ;;
  pg <~ ogg_find fuel ogg_opus_id pg ;;
  if negb (first pg) then praise EMutagen
  else
    pk <~ plift (list_index 0 (p_packets pg)) ;;
    (* try: struct.unpack("<BBHIhB", page.packets[0][8:19]) except struct.error: raise error *)
    let s := zslice 8 19 pk in
    s <~ pcatch (plift (if zlen s =? 11 then Ok s else Raise EStruct)) (fun e => exc_eqb e EStruct) (fun _ => praise EMutagen) ;;
    let version := znth 0 s in
    if negb (version / 16 =? 0) then praise EMutagen
    else pret [znth 1 s; le_decode (zslice 2 4 s); p_serial pg].
(* OggSpeexInfo.__init__ *)
Definition ogs_init (fuel : nat) : P (list Z) :=
  pg <~ ogg_read_page ;;
  pg <~ ogg_find fuel ogg_speex_id pg ;;
  if negb (first pg) then praise EMutagen
  else
    pk <~ plift (list_index 0 (p_packets pg)) ;;
    if zlen pk <? 56 then praise EMutagen
    else
      rate <~ plift (unpack_le 4 (zslice 36 40 pk)) ;;
      if rate =? 0 then praise EMutagen
      else
        channels <~ plift (unpack_le 4 (zslice 48 52 pk)) ;;
        br <~ plift (unpack_le 4 (zslice 52 56 pk)) ;;
        pret [rate; channels; Z.max 0 (to_signed_bits 32 br); p_serial pg].
(* OggTheoraInfo.__init__ *)
Definition ogt_init (fuel : nat) : P (list Z) :=
  pg <~ ogg_read_page ;;
  pg <~ ogg_find fuel ogg_theora_id pg ;;
  if negb (first pg) then praise EMutagen
  else
    data <~ plift (list_index 0 (p_packets pg)) ;;
    if zlen data <? 42 then praise EMutagen
    else
      let v := zslice 7 9 data in                                   (* struct.unpack("2B", data[7:9]) *)
      if negb (zlen v =? 2) then praise EStruct
      else if negb ((znth 0 v =? 3) && (znth 1 v =? 2)) then praise EMutagen
      else
        let f := zslice 22 30 data in                               (* struct.unpack(">2I", data[22:30]) *)
        if negb (zlen f =? 8) then praise EStruct
        else
          let fps_num := be_decode (zslice 0 4 f) in
          let fps_den := be_decode (zslice 4 8 f) in
          if (fps_den =? 0) || (fps_num =? 0) then praise EMutagen
          else if fps_den =? 0 then praise EZeroDiv                 (* fps_num / float(fps_den) *)
          else
            bitrate <~ plift (unpack_be 4 (0 :: zslice 37 40 data)) ;;
            gs <~ plift (unpack_be 2 (zslice 40 42 data)) ;;
            pret [fps_num; fps_den; bitrate; (gs / 32) mod 32; p_serial pg].

Definition ogg_mapped (m : nat -> P (list Z)) (d : list Z) : result (list Z) :=
  prun (pcatch (pconvert_io (m (ogv_fuel d))) ogg_is_eof (fun _ => praise EMutagen)) d.
Definition oggopus_info_load (d : list Z) := prun (ogo_init (ogv_fuel d)) d.
Definition oggspeex_info_load (d : list Z) := prun (ogs_init (ogv_fuel d)) d.
Definition oggtheora_info_load (d : list Z) := prun (ogt_init (ogv_fuel d)) d.
Definition oggopus_load := ogg_mapped ogo_init.
Definition oggspeex_load := ogg_mapped ogs_init.
Definition oggtheora_load := ogg_mapped ogt_init.
Definition ogg_id (l : list Z) : list Z := l.

(* EXTRACT: oggvorbis_info_load oggvorbis_load ogv_info_list oggopus_info_load oggspeex_info_load oggtheora_info_load
            oggopus_load oggspeex_load oggtheora_load ogg_id *)
