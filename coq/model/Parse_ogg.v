(* Model.Parse_ogg -- exception-faithful mirror of mutagen.oggvorbis.OggVorbisInfo.__init__ (the page loop
   that looks for the identification header) on top of Model.Ogg.page_parse (= OggPage.__init__), and of
   the exception mapping of OggFileType.load around it (error/IOError -> _Error, EOFError -> _Error).
   Definitions only. *)
From Coq Require Import ZArith List Bool.
Import ListNotations.
Require Import Base.Py Model.Parse_base Model.Ogg.
Open Scope Z_scope.

(* OggPage(fileobj): page_parse on what the file still holds; the position moves by what was consumed *)
Definition ogg_read_page : P page := fun d p =>
  let bs := ldrop p d in
  match page_parse bs with
  | Ok (pg, rest) => (Ok pg, p + (zlen bs - zlen rest))
  | Raise e => (Raise e, p)
  end.

Definition ogg_vorbis_id := [1;118;111;114;98;105;115].        (* b"\x01vorbis" *)
Definition ogg_first_is_id (pg : page) : bool :=
  match p_packets pg with [] => false | pk :: _ => starts_with ogg_vorbis_id pk end.

(* while not (page.packets and page.packets[0].startswith(b"\x01vorbis")): page = OggPage(fileobj) *)
Fixpoint ogg_find_id (fuel : nat) (pg : page) : P page :=
  match fuel with
  | O => praise EOutOfFuel
  | S f => if ogg_first_is_id pg then pret pg else pg' <~ ogg_read_page ;; ogg_find_id f pg'
  end.

Record ogv_info := mkOgv { ov_channels : Z; ov_rate : Z; ov_bitrate : Z; ov_serial : Z }.

Definition ogv_init (fuel : nat) : P ogv_info :=
  pg <~ ogg_read_page ;;
  match p_packets pg with
  | [] => praise EMutagen                                            (* page has not packets *)
  | _ =>
    pg <~ ogg_find_id fuel pg ;;
    if negb (first pg) then praise EMutagen
    else
      pk <~ plift (list_index 0 (p_packets pg)) ;;                   (* page.packets[0] *)
      if zlen pk <? 28 then praise EMutagen
      else
        (* struct.unpack("<BI3i", page.packets[0][11:28]) *)
        let s := zslice 11 28 pk in
        if negb (zlen s =? 17) then praise EStruct
        else
          let channels := znth 0 s in
          let rate := le_decode (zslice 1 5 s) in
          let maxb := to_signed_bits 32 (le_decode (zslice 5 9 s)) in
          let nomb := to_signed_bits 32 (le_decode (zslice 9 13 s)) in
          let minb := to_signed_bits 32 (le_decode (zslice 13 17 s)) in
          if rate =? 0 then praise EMutagen
          else
            let maxb := Z.max 0 maxb in let minb := Z.max 0 minb in let nomb := Z.max 0 nomb in
            let bitrate :=
              if nomb =? 0 then (maxb + minb) / 2
              else if negb (maxb =? 0) && (maxb <? nomb) then maxb
              else if nomb <? minb then minb
              else nomb in
            pret (mkOgv channels rate bitrate (p_serial pg))
  end.

(* every page costs at least its 27 header bytes: len/27 + 1 pages; the wrapper gives len + 1 *)
Definition ogv_fuel (d : list Z) : nat := lin_fuel 1 1 d.
(* OggVorbisInfo(fileobj) as called: EOFError may escape *)
Definition oggvorbis_info_load (d : list Z) : result ogv_info := prun (ogv_init (ogv_fuel d)) d.
(* ... and inside OggFileType.load:  except (error, IOError): reraise(_Error)   except EOFError: raise _Error *)
Definition ogg_is_eof (e : exc) : bool := exc_eqb e EEOF.
Definition oggvorbis_load (d : list Z) : result ogv_info :=
  prun (pcatch (pconvert_io (ogv_init (ogv_fuel d))) ogg_is_eof (fun _ => praise EMutagen)) d.
Definition ogv_info_list (i : ogv_info) : list Z := [ov_channels i; ov_rate i; ov_bitrate i; ov_serial i].

(* EXTRACT: oggvorbis_info_load oggvorbis_load ogv_info_list *)
