(* Model.Fam_carrier: what the chunk/pointer carriers of an ID3v2 tag (families iff and dsf) share.
   The tag itself is opaque for these families -- the frame codecs are C12, the file-start carrier is
   family id3f -- except for what ID3._prepare_data(fileobj, start, available, v2_version, v23_sep, pad_func)
   (mutagen/id3/_file.py) does with the rendered frame data:

        needed = len(framedata) + 10
        fileobj.seek(0, 2); trailing_size = max(0, fileobj.tell() - start - available)
        info = PaddingInfo(available - needed, trailing_size)
        new_padding = info._get_padding(pad_func)
        if new_padding < 0: raise error("invalid padding")
        new_size = needed + new_padding
        new_framesize = BitPaddedInt.to_str(new_size - 10, width=4)
        header = struct.pack('>3sBBB4s', b'ID3', v2_version, 0, 0, new_framesize)
        data = header + framedata + (new_size - len(data)) * b'\x00'

   DEFINITIONS ONLY.  The syncsafe codec is Model.Id3Util (property C14), the default policy is
   Gen.Gen_tags (regenerated from mutagen/_tags.py, property C09). *)
From Coq Require Import ZArith List Bool.
Import ListNotations.
Require Import Base.Py Gen.Gen_tags Model.Id3Util.
Open Scope Z_scope.

Definition ID3_MAGIC : list Z := [73; 68; 51].           (* b"ID3" *)

(* the padding callbacks the harness uses (engine.pad_callback) *)
Definition cb_default : Z -> Z -> Z := get_default_padding.
Definition cb_keep (padding size : Z) : Z := Z.max padding 0.
Definition cb_const (c : Z) (padding size : Z) : Z := c.

(* the data following the tag; the old tag itself doesn't count *)
Definition trailing_size (file_size start available : Z) : Z := Z.max 0 (file_size - start - available).

(* PaddingInfo handed to the callback: (available - needed, trailing_size) *)
Definition pad_info (framedata : list Z) (available trailing : Z) : Z * Z :=
  (available - (zlen framedata + 10), trailing).

(* ID3._prepare_data after self._write(config) returned framedata *)
Definition id3_prepare (framedata : list Z) (v2_version : Z) (cb : Z -> Z -> Z) (available trailing : Z)
  : result (list Z) :=
  let needed := zlen framedata + 10 in
  let info := pad_info framedata available trailing in
  let new_padding := _get_padding (Some cb) (fst info) (snd info) in
  if new_padding <? 0 then Raise EMutagen else
  let new_size := needed + new_padding in
  rbind (to_str (new_size - 10) 7 true 4 4) (fun new_framesize =>
  Ok (ID3_MAGIC ++ [v2_version; 0; 0] ++ new_framesize ++ framedata ++ zeros new_padding)).

(* strict reading of an ID3v2 tag header from the specification: "ID3", version, revision, flags, four syncsafe
   size bytes (bit 7 clear); the tag occupies 10 + size bytes.  None: no well-formed header. *)
Definition id3_tag_extent (t : list Z) : option Z :=
  if zlen t <? 10 then None else
  if negb (list_eqb (ztake 3 t) ID3_MAGIC) then None else
  let sz := zslice 6 10 t in
  if negb (forallb (fun b => (0 <=? b) && (b <? 128)) sz) then None else
  match bpi_of_bytes 7 true sz with Ok n => Some (10 + n) | Raise _ => None end.

(* the tag bytes t are exactly one ID3v2 tag (header + body, nothing after it) *)
Definition id3_tag_exact (t : list Z) : bool :=
  match id3_tag_extent t with Some n => n =? zlen t | None => false end.

(* EXTRACT: Fam_carrier.cb_default Fam_carrier.cb_keep Fam_carrier.cb_const Fam_carrier.trailing_size Fam_carrier.pad_info Fam_carrier.id3_prepare Fam_carrier.id3_tag_extent Fam_carrier.id3_tag_exact *)
