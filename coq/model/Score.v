(* Model.Score: mutagen.File's type selection over the regenerated score functions (Gen.Gen_scores),
   plus the hand-written SPECIFICATION side of property C18: which headers a well-formed file of each
   concrete type can show in its first 128 bytes before/after tag edits through that type ("family"),
   the usual extensions, and the property's marker assumption.  DEFINITIONS ONLY.

   Mirrors /repo/mutagen/_file.py File():
       header  = fileobj.read(128)                    (b"" on IOError)
       results = [(Kind.score(filething.name, fileobj, header), Kind.__name__) for Kind in options]
       results = list(zip(results, options)); results.sort(); (score, name), Kind = results[-1]
       if score > 0: return Kind(fileobj, ...)  else: return None         (and None for empty options)
   The shape of exactly this code is re-checked by py2v/gen_scores.py on every run (CANON_FILE_TAIL).
   With pairwise distinct class names (C18_names_distinct) the sort never compares two classes and
   `results[-1]` is the unique maximum of the (score, name) pairs in Python's tuple order. *)
From Coq Require Import ZArith List Bool.
Import ListNotations.
Require Import Base.Py Model.ScorePrims Gen.Gen_scores.
Open Scope Z_scope.

Definition name := list Z.

(* ---- selection ---- *)
Definition kmax (p q : Z * name) : Z * name := if key_ltb p q then q else p.
Definition pick (m : Z * name) : option name := if fst m >? 0 then Some (snd m) else None.
Definition choose (l : list (Z * name)) : option name :=
  match l with
  | [] => None
  | x :: r => pick (fold_left kmax r x)
  end.

(* the same, literally as the code does it: stable ascending sort, last element *)
Fixpoint insert_key (x : Z * name) (l : list (Z * name)) : list (Z * name) :=
  match l with
  | [] => [x]
  | y :: r => if key_ltb x y then x :: l else y :: insert_key x r
  end.
Definition sort_keys (l : list (Z * name)) : list (Z * name) := fold_right insert_key [] l.
Definition choose_sorted (l : list (Z * name)) : option name :=
  match rev (sort_keys l) with
  | [] => None
  | m :: _ => pick m
  end.

Definition scores_with (nm : cls -> name) (opts : list cls) (fname header : list Z) (trailer : option (list Z))
  : list (Z * name) := map (fun c => (score_of c fname header trailer, nm c)) opts.
(* File(name, options=opts): the __name__ of the chosen class *)
Definition detect_with (opts : list cls) (fname header : list Z) (trailer : option (list Z)) : option name :=
  choose (scores_with cls_name opts fname header trailer).
Definition detect := detect_with options.                       (* File(f) *)
Definition detect_easy (fname header : list Z) (trailer : option (list Z)) : option name :=   (* File(f, easy=True) *)
  choose (scores_with easy_name options fname header trailer).

(* ---- the property's assumption: no marker of ANOTHER type's score in the first 128 bytes ----
   markers_of j header (generated) lists the boolean sub-string / fixed-offset tests (`b".." in header`,
   `header[a:b] == b".."`) that occur in j's score. *)
Definition cls_eqb (a b : cls) : bool := list_eqb (cls_name a) (cls_name b).
Definition has_marker (j : cls) (header : list Z) : bool := existsb (fun b : bool => b) (markers_of j header).
Definition no_foreign_marker (k : cls) (header : list Z) : bool :=
  forallb (fun j => cls_eqb j k || negb (has_marker j header)) options.

(* no magic that any score looks for at offset 0 (Musepack SV4-SV6 streams have none) *)
Definition no_known_magic (header : list Z) : bool :=
  forallb (fun c => forallb (fun p => negb (starts_with p header)) (prefixes_of c)) options.

(* ---- specification of the formats (independent of the scores) ---- *)
Definition starts (magic header : list Z) : Prop := starts_with magic header = true.
Definition has (marker header : list Z) : Prop := contains marker header = true.
Definition ape_in_trailer (trailer : option (list Z)) : bool :=
  match trailer with Some t => contains [65; 80; 69; 84; 65; 71; 69; 88] t | None => false end.

Definition m_ID3 := [73; 68; 51].
Definition m_OggS := [79; 103; 103; 83].
Definition m_fLaC := [102; 76; 97; 67].
Definition m_ftyp := [102; 116; 121; 112].
Definition m_WAVE := [87; 65; 86; 69].
Definition m_ASF := [48; 38; 178; 117; 142; 102; 207; 17; 166; 217; 0; 170; 0; 98; 206; 108].

(* What the first 128 bytes (and the last 160) of a well-formed file of the type look like, before and
   after tag edits made through the type:
   - MP3, TrueAudio: an ID3v2 tag (added by save) or the stream itself (after delete); an APEv2 tag may
     sit at the end (any trailer).  MP3 streams start with a frame sync byte 0xFF.
   - FLAC: "fLaC", or a foreign ID3v2 tag in front that FLAC.save(deleteid3=False) keeps.
   - Ogg*: "OggS" and the codec's identification packet in the first page (tags live in later packets).
   - MP4: a leading `ftyp` atom shorter than 2^24 bytes.
   - APEv2 carriers (WavPack Musepack MonkeysAudio OptimFROG TAK): magic at 0, any trailer.
   - chunk formats (AIFF WAVE DSF DSDIFF ASF): magic at 0 (ID3 lives in a chunk).
   - AAC AC3 SMF: no tag support in mutagen (the file never changes); AAC: ADTS sync or "ADIF", and no
     APEv2 tag at the end (mutagen's AAC cannot write one). *)
Definition family (k : cls) (header : list Z) (trailer : option (list Z)) : Prop :=
  match k with
  | C_MP3 => starts m_ID3 header \/ starts [255] header
  | C_TrueAudio => starts m_ID3 header \/ starts [84; 84; 65] header
  | C_OggTheora => starts m_OggS header /\ has [128; 116; 104; 101; 111; 114; 97] header
  | C_OggSpeex => starts m_OggS header /\ has [83; 112; 101; 101; 120; 32; 32; 32] header
  | C_OggVorbis => starts m_OggS header /\ has [1; 118; 111; 114; 98; 105; 115] header
  | C_OggFLAC => starts m_OggS header /\ has [127; 70; 76; 65; 67] header /\ has m_fLaC header
  | C_OggOpus => starts m_OggS header /\ has [79; 112; 117; 115; 72; 101; 97; 100] header
  | C_FLAC => starts m_fLaC header \/ starts m_ID3 header
  | C_AIFF => starts [70; 79; 82; 77] header
  | C_MP4 => starts [0] header /\ list_eqb (zslice 4 8 header) m_ftyp = true
  | C_WavPack => starts [119; 118; 112; 107] header
  | C_Musepack => starts [77; 80; 43] header \/ starts [77; 80; 67; 75] header
  | C_MonkeysAudio => starts [77; 65; 67; 32] header
  | C_OptimFROG => starts [79; 70; 82] header
  | C_ASF => starts m_ASF header
  | C_AAC => (starts [255; 240] header \/ starts [255; 241] header \/ starts [255; 248] header \/
              starts [255; 249] header \/ starts [65; 68; 73; 70] header) /\ ape_in_trailer trailer = false
  | C_AC3 => starts [11; 119] header
  | C_SMF => starts [77; 84; 104; 100] header
  | C_TAK => starts [116; 66; 97; 75] header
  | C_DSF => starts [68; 83; 68; 32] header
  | C_DSDIFF => starts [70; 82; 77; 56] header
  | C_WAVE => starts [82; 73; 70; 70] header /\ list_eqb (zslice 8 12 header) m_WAVE = true
  | C_APEv2File | C_ID3FileType => False          (* generic fallbacks: not concrete types *)
  end.

(* the family restricted to "magic stays at offset 0 whatever tags are added" (nameless streams) *)
Definition family0 (k : cls) (header : list Z) (trailer : option (list Z)) : Prop :=
  match k with
  | C_MP3 | C_TrueAudio | C_AAC | C_SMF => False   (* ID3 goes in front / the score needs the name *)
  | C_FLAC => starts m_fLaC header
  | _ => family k header trailer
  end.

(* usual extensions (lower case); the theorems take the lower-cased file name *)
Definition usual_exts (k : cls) : list (list Z) :=
  match k with
  | C_MP3 => [[46; 109; 112; 51]; [46; 109; 112; 50]; [46; 109; 112; 103]; [46; 109; 112; 101; 103]]
  | C_TrueAudio => [[46; 116; 116; 97]]
  | C_OggTheora => [[46; 111; 103; 118]; [46; 111; 103; 103]; [46; 111; 103; 103; 116; 104; 101; 111; 114; 97]]
  | C_OggSpeex => [[46; 115; 112; 120]; [46; 111; 103; 103]]
  | C_OggVorbis => [[46; 111; 103; 103]; [46; 111; 103; 97]]
  | C_OggFLAC => [[46; 111; 103; 103; 102; 108; 97; 99]; [46; 111; 103; 97]; [46; 111; 103; 103]]
  | C_OggOpus => [[46; 111; 112; 117; 115]; [46; 111; 103; 103]]
  | C_FLAC => [[46; 102; 108; 97; 99]]
  | C_AIFF => [[46; 97; 105; 102]; [46; 97; 105; 102; 102]; [46; 97; 105; 102; 99]]
  | C_MP4 => [[46; 109; 112; 52]; [46; 109; 52; 97]; [46; 109; 52; 98]; [46; 109; 52; 112]; [46; 109; 52; 118];
              [46; 109; 52; 114]; [46; 51; 103; 112]; [46; 51; 103; 50]]
  | C_WavPack => [[46; 119; 118]]
  | C_Musepack => [[46; 109; 112; 99]]
  | C_MonkeysAudio => [[46; 97; 112; 101]]
  | C_OptimFROG => [[46; 111; 102; 114]; [46; 111; 102; 115]]
  | C_ASF => [[46; 119; 109; 97]; [46; 97; 115; 102]; [46; 119; 109; 118]]
  | C_AAC => [[46; 97; 97; 99]; [46; 97; 100; 116; 115]; [46; 97; 100; 105; 102]]
  | C_AC3 => [[46; 97; 99; 51]; [46; 101; 97; 99; 51]]
  | C_SMF => [[46; 109; 105; 100]; [46; 109; 105; 100; 105]]
  | C_TAK => [[46; 116; 97; 107]]
  | C_DSF => [[46; 100; 115; 102]]
  | C_DSDIFF => [[46; 100; 102; 102]]
  | C_WAVE => [[46; 119; 97; 118]; [46; 119; 97; 118; 101]]
  | C_APEv2File | C_ID3FileType => []
  end.
(* the file name carries a usual extension of k in any letter case *)
Definition named_as (k : cls) (fname : list Z) : Prop :=
  exists ext, In ext (usual_exts k) /\ ends_with ext (lower fname) = true.

(* the types whose theorem uses the property's marker assumption (the others are proved without it) *)
Definition assumes_no_foreign_marker (k : cls) : bool :=
  match k with
  | C_MP3 | C_AAC | C_OggSpeex | C_OggVorbis | C_OggFLAC | C_OggOpus | C_DSDIFF | C_ASF | C_MP4 | C_AC3 | C_SMF => true
  | _ => false
  end.
(* nameless streams: every type except those that win on the magic alone against any marker *)
Definition assumes_no_foreign_marker0 (k : cls) : bool :=
  match k with
  | C_OggTheora | C_WavPack | C_WAVE => false
  | _ => true
  end.
Definition marker_assumption (needed : bool) (k : cls) (header : list Z) : Prop :=
  needed = true -> no_foreign_marker k header = true.

(* what C18 claims for a type k on one input: File(f) and File(f, easy=True) pick k resp. its Easy counterpart *)
Definition picks (k : cls) (fname header : list Z) (trailer : option (list Z)) : Prop :=
  detect fname header trailer = Some (cls_name k) /\ detect_easy fname header trailer = Some (easy_name k).

(* EXTRACT: choose choose_sorted detect detect_easy detect_with no_foreign_marker *)
