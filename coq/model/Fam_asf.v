(* Model.Fam_asf: the ASF/WMA container family (mutagen/asf/__init__.py, _objects.py, _attrs.py) as one
   executable reference model.  Definitions only.  Two readers live here on purpose:
     - the STRICT, independent ones written from the format layout (walk_objs, asf_parse, asf_wf, asf_load):
       the header size is believed and must be tiled exactly by the declared number of objects, the header
       extension's data size must equal the extent of its children, tag objects must be tiled exactly by their
       entries, integer values must have their exact width;
     - the MIRRORS of mutagen's lenient code (mut_objects = HeaderObject.parse_full, mut_children =
       HeaderExtensionObject.parse, mut_cd / mut_ecd / mut_meta = the parse methods of the four tag objects,
       mut_val = ASF*Attribute.parse, asf_open = ASF.load; place = the placement loop of ASF.save; add_missing,
       retag_obj, asf_save = ASF.save + HeaderObject.render_full + the render methods; asf_delete = ASF.delete).
   Bytes are list Z.  Text (attribute names, UNICODE values) is a list of UTF-16 code units: the byte form is
   bytes_of_units (UTF-16-LE); writers append the 00 00 terminator, readers strip NUL units (mutagen: both ends,
   the independent reader: trailing ones).
   The object tree has two levels (top-level header objects; children of a header extension object).  A header
   extension object nested inside a header extension is outside the model: asf_open answers Raise EOutOfFuel
   (mutagen recurses). *)
From Coq Require Import ZArith List Bool.
Import ListNotations.
Require Import Base.Py Gen.Gen_tags Model.Splice.
Open Scope Z_scope.

(* ------------------------------------------------------------------ constants *)
Definition G_HDR : list Z := [48;38;178;117;142;102;207;17;166;217;0;170;0;98;206;108].
Definition G_CD : list Z := [51;38;178;117;142;102;207;17;166;217;0;170;0;98;206;108].
Definition G_ECD : list Z := [64;164;208;210;7;227;210;17;151;240;0;160;201;94;168;80].
Definition G_HEXT : list Z := [181;3;191;95;46;169;207;17;142;227;0;192;12;32;83;101].
Definition G_PAD : list Z := [116;212;6;24;223;202;9;69;164;186;154;171;203;150;170;232].
Definition G_META : list Z := [234;203;248;197;175;91;119;72;132;103;170;140;68;250;76;202].
Definition G_LIB : list Z := [148;28;35;68;152;148;209;73;161;65;29;19;78;69;112;84].
Definition G_FILE : list Z := [161;220;171;140;71;169;207;17;142;228;0;192;12;32;83;101].
Definition G_STREAM : list Z := [145;7;220;183;183;169;207;17;142;230;0;192;12;32;83;101].
Definition G_CODEC : list Z := [64;82;209;134;29;49;208;17;163;164;0;160;201;3;72;246].
(* reserved field 1 (GUID) + reserved field 2 (06 00) of the header extension object *)
Definition HEXT_FIXED : list Z := [17;210;211;171;186;169;207;17;142;230;0;192;12;32;83;101;6;0].
Definition U16 : Z := 65536.
Definition U32 : Z := 4294967296.
Definition U64 : Z := 18446744073709551616.

Inductive ocls := KCD | KECD | KMETA | KLIB | KPAD | KHEXT | KHDR | KFILE | KSTREAM | KCODEC | KOTHER.
Definition cls_of (g : list Z) : ocls :=
  if list_eqb g G_CD then KCD else if list_eqb g G_ECD then KECD else if list_eqb g G_META then KMETA
  else if list_eqb g G_LIB then KLIB else if list_eqb g G_PAD then KPAD else if list_eqb g G_HEXT then KHEXT
  else if list_eqb g G_HDR then KHDR else if list_eqb g G_FILE then KFILE else if list_eqb g G_STREAM then KSTREAM
  else if list_eqb g G_CODEC then KCODEC else KOTHER.
Definition is_hext (g : list Z) : bool := list_eqb g G_HEXT.
Definition is_pad (g : list Z) : bool := list_eqb g G_PAD.
(* the four tag-object classes: 0 CD, 1 ECD, 2 Metadata, 3 MetadataLibrary *)
Definition tagcls (g : list Z) : option Z :=
  match cls_of g with KCD => Some 0 | KECD => Some 1 | KMETA => Some 2 | KLIB => Some 3 | _ => None end.

(* ------------------------------------------------------------------ text *)
Fixpoint units_of_bytes (l : list Z) : option (list Z) :=
  match l with
  | [] => Some []
  | a :: b :: r => match units_of_bytes r with Some u => Some ((a + 256 * b) :: u) | None => None end
  | [_] => None
  end.
Definition bytes_of_units (u : list Z) : list Z := flat_map (fun x => [x mod 256; x / 256]) u.
Definition nonempty {A} (l : list A) : bool := match l with [] => false | _ => true end.
Fixpoint rstrip0 (u : list Z) : list Z :=
  match u with
  | [] => []
  | x :: r => let r' := rstrip0 r in if (x =? 0) && negb (nonempty r') then [] else x :: r'
  end.
Fixpoint lstrip0 (u : list Z) : list Z :=
  match u with x :: r => if x =? 0 then lstrip0 r else u | [] => [] end.
Definition is_high (u : Z) : bool := (55296 <=? u) && (u <? 56320).
Definition is_low (u : Z) : bool := (56320 <=? u) && (u <? 57344).
(* what bytes.decode("utf-16-le") accepts *)
Fixpoint utf16_ok (l : list Z) : bool :=
  match l with
  | [] => true
  | u :: r => if is_high u then match r with v :: r' => is_low v && utf16_ok r' | [] => false end
              else if is_low u then false else utf16_ok r
  end.
(* data.decode("utf-16-le").strip("\x00") *)
Definition mut_text (b : list Z) : result (list Z) :=
  match units_of_bytes b with
  | None => Raise EUnicode
  | Some u => if utf16_ok u then Ok (rstrip0 (lstrip0 u)) else Raise EUnicode
  end.

(* ------------------------------------------------------------------ attributes *)
Inductive aval :=
| VText (u : list Z) | VBytes (b : list Z) | VBool (b : bool) | VDword (n : Z) | VQword (n : Z) | VWord (n : Z)
| VGuid (b : list Z).
Record attr := mkA { a_name : list Z; a_val : aval; a_lang : option Z; a_stream : option Z }.

Definition vtype (v : aval) : Z :=
  match v with VText _ => 0 | VBytes _ => 1 | VBool _ => 2 | VDword _ => 3 | VQword _ => 4 | VWord _ => 5 | VGuid _ => 6 end.
(* _render() / _render(dword=False) *)
Definition render_val (v : aval) (dword : bool) : list Z :=
  match v with
  | VText u => bytes_of_units u ++ [0; 0]
  | VBytes b => b
  | VBool b => le_encode (if dword then 4 else 2) (if b then 1 else 0)
  | VDword n => le_encode 4 n
  | VQword n => le_encode 8 n
  | VWord n => le_encode 2 n
  | VGuid b => b
  end.
Definition data_size (v : aval) : Z :=
  match v with
  | VText u => 2 * zlen u + 2
  | VBytes b => zlen b
  | VBool _ => 4 | VDword _ => 4 | VQword _ => 8 | VWord _ => 2
  | VGuid b => zlen b
  end.
(* struct.pack accepts the integer *)
Definition val_packs (v : aval) : bool :=
  match v with
  | VDword n => (0 <=? n) && (n <? U32)
  | VQword n => (0 <=? n) && (n <? U64)
  | VWord n => (0 <=? n) && (n <? U16)
  | _ => true
  end.
Definition name_bytes (n : list Z) : list Z := bytes_of_units n ++ [0; 0].
Definition oz (o : option Z) : Z := match o with Some z => z | None => 0 end.      (* `x or 0` *)
Definition is_some {A} (o : option A) : bool := match o with Some _ => true | None => false end.

(* ASFBaseAttribute.render (ExtendedContentDescription layout) *)
Definition render_ecd_attr (a : attr) : list Z :=
  let nm := name_bytes (a_name a) in let d := render_val (a_val a) true in
  le_encode 2 (zlen nm) ++ nm ++ le_encode 2 (vtype (a_val a)) ++ le_encode 2 (zlen d) ++ d.
(* render_m / render_ml *)
Definition render_meta_attr (lib : bool) (a : attr) : list Z :=
  let nm := name_bytes (a_name a) in let d := render_val (a_val a) false in
  le_encode 2 (if lib then oz (a_lang a) else 0) ++ le_encode 2 (oz (a_stream a)) ++ le_encode 2 (zlen nm) ++
  le_encode 2 (vtype (a_val a)) ++ le_encode 4 (zlen d) ++ nm ++ d.
Definition fits16 (n : Z) : bool := (0 <=? n) && (n <? U16).
Definition ecd_attr_packs (a : attr) : bool :=
  val_packs (a_val a) && (zlen (name_bytes (a_name a)) <? U16) && (zlen (render_val (a_val a) true) <? U16).
Definition meta_attr_packs (lib : bool) (a : attr) : bool :=
  val_packs (a_val a) && (zlen (name_bytes (a_name a)) <? U16) && (zlen (render_val (a_val a) false) <? U32) &&
  fits16 (oz (a_stream a)) && (if lib then fits16 (oz (a_lang a)) else true).

(* ------------------------------------------------------------------ placement (ASF.save, first loop) *)
Definition N_TITLE : list Z := [84;105;116;108;101].
Definition N_AUTHOR : list Z := [65;117;116;104;111;114].
Definition N_COPYRIGHT : list Z := [67;111;112;121;114;105;103;104;116].
Definition N_DESCRIPTION : list Z := [68;101;115;99;114;105;112;116;105;111;110].
Definition N_RATING : list Z := [82;97;116;105;110;103].
Definition CD_NAMES : list (list Z) := [N_TITLE; N_AUTHOR; N_COPYRIGHT; N_DESCRIPTION; N_RATING].
Definition is_cd_name (n : list Z) : bool := existsb (list_eqb n) CD_NAMES.
Definition has_name (n : list Z) (l : list attr) : bool := existsb (fun a => list_eqb (a_name a) n) l.
Definition is_text (v : aval) : bool := match v with VText _ => true | _ => false end.
Definition is_guidv (v : aval) : bool := match v with VGuid _ => true | _ => false end.

(* the dicts keep insertion order; only the first value per name enters them *)
Record placement := mkP { p_cd : list attr; p_ecd : list attr; p_m : list attr; p_ml : list attr }.
Definition P0 : placement := mkP [] [] [] [].
Definition to_ml (P : placement) (a : attr) := mkP (p_cd P) (p_ecd P) (p_m P) (p_ml P ++ [a]).
Definition place1 (P : placement) (a : attr) : placement :=
  let n := a_name a in
  let library_only := (data_size (a_val a) >? 65535) || is_guidv (a_val a) in
  if library_only || is_some (a_lang a) then to_ml P a
  else if is_some (a_stream a) then
    (if has_name n (p_m P) then to_ml P a else mkP (p_cd P) (p_ecd P) (p_m P ++ [a]) (p_ml P))
  else if is_cd_name n then
    (if negb (has_name n (p_cd P)) && is_text (a_val a) then mkP (p_cd P ++ [a]) (p_ecd P) (p_m P) (p_ml P)
     else to_ml P a)
  else
    (if has_name n (p_ecd P) then to_ml P a else mkP (p_cd P) (p_ecd P ++ [a]) (p_m P) (p_ml P)).
Definition place (tags : list attr) : placement := fold_left place1 tags P0.

(* ------------------------------------------------------------------ payloads of the four tag objects *)
Definition cd_text (P : placement) (n : list Z) : list Z :=
  match find (fun a => list_eqb (a_name a) n) (p_cd P) with
  | Some a => render_val (a_val a) true        (* str(value).encode("utf-16-le") + b"\x00\x00" ; value is UNICODE *)
  | None => []
  end.
Definition cd_payload (P : placement) : list Z :=
  let texts := map (cd_text P) CD_NAMES in
  flat_map (fun t => le_encode 2 (zlen t)) texts ++ concat texts.
Definition ecd_payload (P : placement) : list Z :=
  le_encode 2 (zlen (p_ecd P)) ++ flat_map render_ecd_attr (p_ecd P).
Definition m_payload (P : placement) : list Z :=
  le_encode 2 (zlen (p_m P)) ++ flat_map (render_meta_attr false) (p_m P).
Definition ml_payload (P : placement) : list Z :=
  le_encode 2 (zlen (p_ml P)) ++ flat_map (render_meta_attr true) (p_ml P).
(* every struct.pack of the four render methods succeeds *)
Definition place_packs (P : placement) : bool :=
  forallb (fun n => zlen (cd_text P n) <? U16) CD_NAMES &&
  (zlen (p_ecd P) <? U16) && forallb ecd_attr_packs (p_ecd P) &&
  (zlen (p_m P) <? U16) && forallb (meta_attr_packs false) (p_m P) &&
  (zlen (p_ml P) <? U16) && forallb (meta_attr_packs true) (p_ml P).

(* ------------------------------------------------------------------ object tree and its rendering *)
Definition rawobj := (list Z * list Z)%type.                        (* GUID, payload *)
Inductive obj := OLeaf (g d : list Z) | OExt (fixed : list Z) (ch : list rawobj).
Record asf_struct := mkS { sobjs : list obj; sdata : list Z }.

Definition render_raw (o : rawobj) : list Z := fst o ++ le_encode 8 (24 + zlen (snd o)) ++ snd o.
Definition render_raws (l : list rawobj) : list Z := flat_map render_raw l.
Definition ext_payload (fx : list Z) (ch : list rawobj) : list Z :=
  fx ++ le_encode 4 (zlen (render_raws ch)) ++ render_raws ch.
Definition obj_raw (o : obj) : rawobj :=
  match o with OLeaf g d => (g, d) | OExt fx ch => (G_HEXT, ext_payload fx ch) end.
Definition render_objs (l : list obj) : list Z := render_raws (map obj_raw l).
Definition render_header (l : list obj) : list Z :=
  G_HDR ++ le_encode 8 (30 + zlen (render_objs l)) ++ le_encode 4 (zlen l) ++ [1; 2] ++ render_objs l.

Definition raw_packs (o : rawobj) : bool := 24 + zlen (snd o) <? U64.
Definition obj_packs (o : obj) : bool :=
  match o with
  | OLeaf g d => raw_packs (g, d)
  | OExt fx ch => forallb raw_packs ch && (zlen (render_raws ch) <? U32) && raw_packs (obj_raw o)
  end.
Definition header_packs (l : list obj) : bool := (30 + zlen (render_objs l) <? U64) && (zlen l <? U32).

(* ------------------------------------------------------------------ strict walker (format layout) *)
Fixpoint walk_objs (fuel : nat) (d : list Z) : result (list rawobj) :=
  match fuel with
  | O => Raise EOutOfFuel
  | S k =>
    match d with
    | [] => Ok []
    | _ =>
      if zlen d <? 24 then Raise EMutagen else
      let n := le_decode (zslice 16 24 d) in
      if (n <? 24) || (zlen d <? n) then Raise EMutagen else
      match walk_objs k (zdrop n d) with
      | Ok r => Ok ((ztake 16 d, zslice 24 n d) :: r)
      | Raise e => Raise e end
    end
  end.

Definition parse_ext (pl : list Z) : result obj :=
  if zlen pl <? 22 then Raise EMutagen else
  if negb (le_decode (zslice 18 22 pl) =? zlen pl - 22) then Raise EMutagen else
  match walk_objs (S (length pl)) (zdrop 22 pl) with
  | Ok ch => Ok (OExt (ztake 18 pl) ch)
  | Raise e => Raise e end.
Fixpoint classify (l : list rawobj) : result (list obj) :=
  match l with
  | [] => Ok []
  | o :: r =>
    match (if is_hext (fst o) then parse_ext (snd o) else Ok (OLeaf (fst o) (snd o))) with
    | Raise e => Raise e
    | Ok x => match classify r with Ok r' => Ok (x :: r') | Raise e => Raise e end
    end
  end.

Definition asf_parse (f : list Z) : result asf_struct :=
  if (zlen f <? 30) || negb (starts_with G_HDR f) then Raise EMutagen else
  let size := le_decode (zslice 16 24 f) in
  let cnt := le_decode (zslice 24 28 f) in
  if negb (list_eqb (zslice 28 30 f) [1; 2]) then Raise EMutagen else
  if (size <? 30) || (zlen f <? size) then Raise EMutagen else
  match walk_objs (S (length f)) (zslice 30 size f) with
  | Raise e => Raise e
  | Ok raw =>
    if negb (zlen raw =? cnt) then Raise EMutagen else
    match classify raw with
    | Raise e => Raise e
    | Ok objs => Ok (mkS objs (zdrop size f)) end
  end.

(* C03: sizes and counts at both levels (asf_parse succeeds) and the reserved fields of the header extension *)
Definition ext_fixed_ok (o : obj) : bool :=
  match o with OExt fx _ => list_eqb fx HEXT_FIXED | OLeaf _ _ => true end.
Definition asf_wf (f : list Z) : bool :=
  match asf_parse f with Ok s => forallb ext_fixed_ok (sobjs s) | Raise _ => false end.

(* cardinality / level rules of the specification: CD, ECD, header extension at most once and only at top level;
   Metadata, MetadataLibrary at most once and only inside the header extension; no header object inside *)
Definition count_top (k : Z) (l : list obj) : Z :=
  zlen (filter (fun o => match o with OLeaf g _ => match tagcls g with Some c => c =? k | None => false end | _ => false end) l).
Definition count_raw (k : Z) (l : list rawobj) : Z :=
  zlen (filter (fun o => match tagcls (fst o) with Some c => c =? k | None => false end) l).
Definition is_ext (o : obj) : bool := match o with OExt _ _ => true | _ => false end.
Definition ext_canon (o : obj) : bool :=
  match o with
  | OExt _ ch => (count_raw 0 ch =? 0) && (count_raw 1 ch =? 0) && (count_raw 2 ch <=? 1) && (count_raw 3 ch <=? 1) &&
                 forallb (fun c => negb (is_hext (fst c))) ch
  | OLeaf g _ => true
  end.
Definition tree_canon (l : list obj) : bool :=
  (count_top 0 l <=? 1) && (count_top 1 l <=? 1) && (count_top 2 l =? 0) && (count_top 3 l =? 0) &&
  (zlen (filter is_ext l) <=? 1) && forallb ext_canon l.
Definition asf_canon (f : list Z) : bool :=
  match asf_parse f with Ok s => tree_canon (sobjs s) | Raise _ => false end.

(* ------------------------------------------------------------------ independent reader of the tags *)
Record ltag := mkT { t_cls : Z; t_name : list Z; t_lang : Z; t_stream : Z; t_val : aval }.

Definition dec_text (b : list Z) : result (list Z) :=
  match units_of_bytes b with Some u => Ok (rstrip0 u) | None => Raise EMutagen end.
Definition exact (w : Z) (v : list Z) (x : aval) : result aval := if zlen v =? w then Ok x else Raise EMutagen.
Definition dec_val (ty : Z) (v : list Z) (boolw : Z) : result aval :=
  if ty =? 0 then match dec_text v with Ok u => Ok (VText u) | Raise e => Raise e end
  else if ty =? 1 then Ok (VBytes v)
  else if ty =? 2 then exact boolw v (VBool (negb (le_decode v =? 0)))
  else if ty =? 3 then exact 4 v (VDword (le_decode v))
  else if ty =? 4 then exact 8 v (VQword (le_decode v))
  else if ty =? 5 then exact 2 v (VWord (le_decode v))
  else if ty =? 6 then Ok (VGuid v)
  else Raise EMutagen.

(* Content Description: five 16-bit byte lengths, then the five strings; absent = length 0 *)
Fixpoint load_cd_texts (names : list (list Z)) (lens : list Z) (d : list Z) : result (list ltag) :=
  match names, lens with
  | n :: names', l :: lens' =>
    if zlen d <? l then Raise EMutagen else
    match load_cd_texts names' lens' (zdrop l d) with
    | Raise e => Raise e
    | Ok r =>
      if l =? 0 then Ok r else
      match dec_text (ztake l d) with Ok u => Ok (mkT 0 n 0 0 (VText u) :: r) | Raise e => Raise e end
    end
  | _, _ => match d with [] => Ok [] | _ => Raise EMutagen end
  end.
Definition load_cd (d : list Z) : result (list ltag) :=
  if zlen d <? 10 then Raise EMutagen else
  load_cd_texts CD_NAMES (map (fun i => le_decode (zslice (2 * i) (2 * i + 2) d)) [0; 1; 2; 3; 4]) (zdrop 10 d).

Fixpoint load_ecd (n : nat) (d : list Z) : result (list ltag) :=
  match n with
  | O => match d with [] => Ok [] | _ => Raise EMutagen end
  | S k =>
    if zlen d <? 2 then Raise EMutagen else
    let nl := le_decode (ztake 2 d) in let d1 := zdrop 2 d in
    if zlen d1 <? nl + 4 then Raise EMutagen else
    let ty := le_decode (zslice nl (nl + 2) d1) in
    let vl := le_decode (zslice (nl + 2) (nl + 4) d1) in
    let d2 := zdrop (nl + 4) d1 in
    if zlen d2 <? vl then Raise EMutagen else
    match dec_text (ztake nl d1), dec_val ty (ztake vl d2) 4, load_ecd k (zdrop vl d2) with
    | Ok name, Ok v, Ok r => Ok (mkT 1 name 0 0 v :: r)
    | Raise e, _, _ => Raise e
    | _, Raise e, _ => Raise e
    | _, _, Raise e => Raise e
    end
  end.
(* Metadata (cls 2: the first field is reserved) and Metadata Library (cls 3: language list index) *)
Fixpoint load_meta (cls : Z) (n : nat) (d : list Z) : result (list ltag) :=
  match n with
  | O => match d with [] => Ok [] | _ => Raise EMutagen end
  | S k =>
    if zlen d <? 12 then Raise EMutagen else
    let lang := le_decode (ztake 2 d) in
    let stream := le_decode (zslice 2 4 d) in
    let nl := le_decode (zslice 4 6 d) in
    let ty := le_decode (zslice 6 8 d) in
    let vl := le_decode (zslice 8 12 d) in
    let d1 := zdrop 12 d in
    if zlen d1 <? nl + vl then Raise EMutagen else
    match dec_text (ztake nl d1), dec_val ty (zslice nl (nl + vl) d1) 2, load_meta cls k (zdrop (nl + vl) d1) with
    | Ok name, Ok v, Ok r => Ok (mkT cls name lang stream v :: r)
    | Raise e, _, _ => Raise e
    | _, Raise e, _ => Raise e
    | _, _, Raise e => Raise e
    end
  end.
Definition counted (f : nat -> list Z -> result (list ltag)) (d : list Z) : result (list ltag) :=
  if zlen d <? 2 then Raise EMutagen else
  let n := le_decode (ztake 2 d) in
  if (n <? 0) || (U16 <=? n) then Raise EMutagen else f (Z.to_nat n) (zdrop 2 d).
Definition load_raw (o : rawobj) : result (list ltag) :=
  match cls_of (fst o) with
  | KCD => load_cd (snd o)
  | KECD => counted load_ecd (snd o)
  | KMETA => counted (load_meta 2) (snd o)
  | KLIB => counted (load_meta 3) (snd o)
  | _ => Ok []
  end.
Fixpoint load_raws (l : list rawobj) : result (list ltag) :=
  match l with
  | [] => Ok []
  | o :: r => match load_raw o, load_raws r with
              | Ok a, Ok b => Ok (a ++ b)
              | Raise e, _ => Raise e
              | _, Raise e => Raise e end
  end.
Fixpoint load_objs (l : list obj) : result (list ltag) :=
  match l with
  | [] => Ok []
  | o :: r => match (match o with OLeaf g d => load_raw (g, d) | OExt _ ch => load_raws ch end), load_objs r with
              | Ok a, Ok b => Ok (a ++ b)
              | Raise e, _ => Raise e
              | _, Raise e => Raise e end
  end.
(* all attributes of the four tag objects, in file order *)
Definition asf_load (f : list Z) : result (list ltag) :=
  match asf_parse f with Raise e => Raise e | Ok s => load_objs (sobjs s) end.

(* ------------------------------------------------------------------ mirrors of mutagen's readers *)
(* ASF*Attribute(data=...) ; dword: ExtendedContentDescription layout *)
Definition mexact (w : Z) (v : list Z) (x : aval) : result aval := if zlen v =? w then Ok x else Raise EMutagen.
Definition mut_val (ty : Z) (v : list Z) (dword : bool) : result aval :=
  if ty =? 0 then match mut_text v with Ok u => Ok (VText u) | Raise _ => Raise EMutagen end
  else if ty =? 1 then Ok (VBytes v)
  else if ty =? 2 then mexact (if dword then 4 else 2) v (VBool (le_decode v =? 1))
  else if ty =? 3 then mexact 4 v (VDword (le_decode v))
  else if ty =? 4 then mexact 8 v (VQword (le_decode v))
  else if ty =? 5 then mexact 2 v (VWord (le_decode v))
  else if ty =? 6 then Ok (VGuid v)
  else Raise EKey.

(* ContentDescriptionObject.parse *)
Fixpoint mut_cd_texts (names : list (list Z)) (lens : list Z) (d : list Z) : result (list attr) :=
  match names, lens with
  | n :: names', l :: lens' =>
    if 0 <? l then
      match mut_text (ztake l d) with
      | Raise e => Raise e
      | Ok u => match mut_cd_texts names' lens' (zdrop l d) with
                | Ok r => Ok (mkA n (VText u) None None :: r) | Raise e => Raise e end
      end
    else mut_cd_texts names' lens' (zdrop l d)
  | _, _ => Ok []
  end.
Definition mut_cd (d : list Z) : result (list attr) :=
  if zlen d <? 10 then Raise EMutagen else
  mut_cd_texts CD_NAMES (map (fun i => le_decode (zslice (2 * i) (2 * i + 2) d)) [0; 1; 2; 3; 4]) (zdrop 10 d).

(* ExtendedContentDescriptionObject.parse *)
Fixpoint mut_ecd (n : nat) (d : list Z) : result (list attr) :=
  match n with
  | O => Ok []
  | S k =>
    if zlen d <? 2 then Raise EMutagen else
    let nl := le_decode (ztake 2 d) in let d1 := zdrop 2 d in
    match mut_text (ztake nl d1) with
    | Raise e => Raise e
    | Ok name =>
      let d2 := zdrop nl d1 in
      if zlen d2 <? 4 then Raise EMutagen else
      let ty := le_decode (ztake 2 d2) in let vl := le_decode (zslice 2 4 d2) in
      let d3 := zdrop 4 d2 in
      match mut_val ty (ztake vl d3) true with
      | Raise e => Raise e
      | Ok v => match mut_ecd k (zdrop vl d3) with
                | Ok r => Ok (mkA name v None None :: r) | Raise e => Raise e end
      end
    end
  end.
(* MetadataObject.parse (lib = false) / MetadataLibraryObject.parse (lib = true) *)
Fixpoint mut_meta (lib : bool) (n : nat) (d : list Z) : result (list attr) :=
  match n with
  | O => Ok []
  | S k =>
    if zlen d <? 12 then Raise EMutagen else
    let lang := le_decode (ztake 2 d) in
    let stream := le_decode (zslice 2 4 d) in
    let nl := le_decode (zslice 4 6 d) in
    let ty := le_decode (zslice 6 8 d) in
    let vl := le_decode (zslice 8 12 d) in
    let d1 := zdrop 12 d in
    match mut_text (ztake nl d1) with
    | Raise e => Raise e
    | Ok name =>
      let d2 := zdrop nl d1 in
      match mut_val ty (ztake vl d2) false with
      | Raise e => Raise e
      | Ok v => match mut_meta lib k (zdrop vl d2) with
                | Ok r => Ok (mkA name v (if lib then Some lang else None) (Some stream) :: r) | Raise e => Raise e end
      end
    end
  end.
Definition mcounted (f : nat -> list Z -> result (list attr)) (d : list Z) : result (list attr) :=
  if zlen d <? 2 then Raise EMutagen else f (Z.to_nat (le_decode (ztake 2 d))) (zdrop 2 d).

(* CodecListObject.parse: entries are walked until the first audio entry (type 2); unpack_from beyond the data fails *)
Definition u16_at (d : list Z) (off : Z) : option Z :=
  if (0 <=? off) && (off + 2 <=? zlen d) then Some (le_decode (zslice off (off + 2) d)) else None.
Fixpoint codec_entries (n : nat) (more : bool) (d : list Z) (off : Z) : bool :=
  match n with
  | O => negb more
  | S k =>
    match u16_at d off with None => false | Some ty =>
    match u16_at d (off + 2) with None => false | Some u1 =>
    let o2 := off + 4 + u1 * 2 in
    match u16_at d o2 with None => false | Some u2 =>
    let o3 := o2 + 2 + u2 * 2 in
    match u16_at d o3 with None => false | Some nb =>
    let o4 := o3 + 2 in
    if (nb =? 2) && negb (is_some (u16_at d o4)) then false else
    if ty =? 2 then true else codec_entries k more d (o4 + nb)
    end end end end
  end.
Definition codec_ok (d : list Z) : bool :=
  if zlen d <? 20 then false else
  let cnt := le_decode (zslice 16 20 d) in
  codec_entries (Z.to_nat (Z.min cnt (zlen d))) (zlen d <? cnt) d 20.

(* obj.parse(asf, data) for everything but the header extension: the attributes it contributes, by class *)
Definition mut_leaf (g d : list Z) : result (list (Z * attr)) :=
  let tag (c : Z) (r : result (list attr)) := match r with Ok l => Ok (map (pair c) l) | Raise e => Raise e end in
  match cls_of g with
  | KCD => tag 0 (mut_cd d)
  | KECD => tag 1 (mcounted mut_ecd d)
  | KMETA => tag 2 (mcounted (mut_meta false) d)
  | KLIB => tag 3 (mcounted (mut_meta true) d)
  | KFILE => if zlen d <? 64 then Raise EMutagen else Ok []
  | KSTREAM => if zlen d <? 66 then Raise EMutagen else Ok []
  | KCODEC => if codec_ok d then Ok [] else Raise EMutagen
  | KHDR => Raise ENotImpl                      (* HeaderObject.parse raises NotImplementedError *)
  | _ => Ok []
  end.

(* HeaderExtensionObject.parse: the loop over data[22:], `remaining` = datasize - datapos *)
Fixpoint mut_children (fuel : nat) (d : list Z) (remaining : Z) : result (list rawobj * list (Z * attr)) :=
  match fuel with
  | O => Raise EOutOfFuel
  | S k =>
    if remaining <=? 0 then Ok ([], []) else
    if zlen d <? 24 then Raise EMutagen else
    let size := le_decode (zslice 16 24 d) in
    if size <? 1 then Raise EMutagen else
    let g := ztake 16 d in let pl := zslice 24 size d in
    match (if is_hext g then Raise EOutOfFuel else mut_leaf g pl) with
    | Raise e => Raise e
    | Ok ts =>
      match mut_children k (zdrop size d) (remaining - size) with
      | Ok (ch, ts') => Ok ((g, pl) :: ch, ts ++ ts')
      | Raise e => Raise e end
    end
  end.
Definition mut_ext (pl : list Z) : result (obj * list (Z * attr)) :=
  if zlen pl <? 22 then Raise EMutagen else
  match mut_children (S (length pl)) (zdrop 22 pl) (le_decode (zslice 18 22 pl)) with
  | Ok (ch, ts) => Ok (OExt (ztake 18 pl) ch, ts)
  | Raise e => Raise e end.

(* HeaderObject.parse_full: d = the file behind the 30 header bytes, remaining = header size - 30 - consumed;
   n iterations; `more`: the declared count exceeds n (only when it exceeds the number of bytes available) *)
Fixpoint mut_objects (n : nat) (more : bool) (d : list Z) (remaining : Z) : result (list obj * list (Z * attr)) :=
  match n with
  | O => if more then Raise EMutagen else Ok ([], [])
  | S k =>
    if remaining <? 24 then Raise EMutagen else
    if zlen d <? 24 then Raise EMutagen else
    let g := ztake 16 d in
    let psz := le_decode (zslice 16 24 d) - 24 in
    if remaining - 24 <? psz then Raise EMutagen else
    let d1 := zdrop 24 d in
    if (psz <? 0) || (zlen d1 <? psz) then Raise EMutagen else
    let pl := ztake psz d1 in
    match (if is_hext g then mut_ext pl
           else match mut_leaf g pl with Ok ts => Ok (OLeaf g pl, ts) | Raise e => Raise e end) with
    | Raise e => Raise e
    | Ok (o, ts) =>
      match mut_objects k more (zdrop psz d1) (remaining - 24 - psz) with
      | Ok (os, ts') => Ok (o :: os, ts ++ ts')
      | Raise e => Raise e end
    end
  end.

Definition of_cls (c : Z) (ts : list (Z * attr)) : list attr := map snd (filter (fun x => fst x =? c) ts).
(* ASF.load: the header's object list and the tags in mutagen's order (CD, ECD, Metadata, MetadataLibrary) *)
Definition asf_open (f : list Z) : result (list obj * list attr) :=
  if (zlen f <? 30) || negb (starts_with G_HDR f) then Raise EMutagen else
  let size := le_decode (zslice 16 24 f) in
  let cnt := le_decode (zslice 24 28 f) in
  let d := zdrop 30 f in
  match mut_objects (Z.to_nat (Z.min cnt (zlen d))) (zlen d <? cnt) d (size - 30) with
  | Raise e => Raise e
  | Ok (objs, ts) => Ok (objs, of_cls 0 ts ++ of_cls 1 ts ++ of_cls 2 ts ++ of_cls 3 ts)
  end.

(* ------------------------------------------------------------------ writer (mirror) *)
Definition top_has (g0 : list Z) (l : list obj) : bool :=
  existsb (fun o => match o with OLeaf g _ => list_eqb g g0 | OExt _ _ => false end) l.
Definition raw_has (g0 : list Z) (l : list rawobj) : bool := existsb (fun o => list_eqb (fst o) g0) l.
Fixpoint upd_first_ext (f : list rawobj -> list rawobj) (l : list obj) : list obj :=
  match l with
  | [] => []
  | OExt fx ch :: r => OExt fx (f ch) :: r
  | o :: r => o :: upd_first_ext f r
  end.
Definition add_children (ch : list rawobj) : list rawobj :=
  let c1 := if raw_has G_META ch then ch else ch ++ [(G_META, [])] in
  if raw_has G_LIB c1 then c1 else c1 ++ [(G_LIB, [])].
(* "Add missing objects" *)
Definition add_missing (l : list obj) : list obj :=
  let l1 := if top_has G_CD l then l else l ++ [OLeaf G_CD []] in
  let l2 := if top_has G_ECD l1 then l1 else l1 ++ [OLeaf G_ECD []] in
  let l3 := if existsb is_ext l2 then l2 else l2 ++ [OExt HEXT_FIXED []] in
  upd_first_ext add_children l3.

(* obj.render(asf): tag objects from the placement, everything else from its raw payload *)
Definition retag_raw (P : placement) (o : rawobj) : rawobj :=
  (fst o, match cls_of (fst o) with
          | KCD => cd_payload P | KECD => ecd_payload P | KMETA => m_payload P | KLIB => ml_payload P
          | _ => snd o end).
Definition nonpad_raw (o : rawobj) : bool := negb (is_pad (fst o)).
Definition nonpad_obj (o : obj) : bool := match o with OLeaf g _ => negb (is_pad g) | OExt _ _ => true end.
Definition retag_obj (P : placement) (o : obj) : obj :=
  match o with
  | OLeaf g d => OLeaf g (snd (retag_raw P (g, d)))
  | OExt _ ch => OExt HEXT_FIXED (map (retag_raw P) (filter nonpad_raw ch))
  end.
(* everything except padding, as render_full renders it *)
Definition core_objs (P : placement) (objs : list obj) : list obj :=
  map (retag_obj P) (filter nonpad_obj (add_missing objs)).
Definition pad_obj (n : Z) : obj := OLeaf G_PAD (zeros n).          (* b"\x00" * padding: empty for padding <= 0 *)
Definition header_size (f : list Z) : Z := le_decode (zslice 16 24 f).

(* ASF.save through a freshly loaded object whose tags were replaced by `tags` (in list order) *)
Definition asf_save (f : list Z) (tags : list attr) (cb : Z -> Z -> Z) : result (list Z) :=
  match asf_open f with
  | Raise e => Raise e
  | Ok (objs, _) =>
    let P := place tags in
    if negb (place_packs P) then Raise EStruct else
    let core := core_objs P objs in
    if negb (forallb obj_packs core) then Raise EStruct else
    let old := header_size f in
    let needed := zlen (render_objs core) + 30 + 24 in
    let content := zlen f - old in
    if content <? 0 then Raise EMutagen else
    let pad := cb (old - needed) content in
    let tree := core ++ [pad_obj pad] in
    if negb (obj_packs (pad_obj pad) && header_packs tree) then Raise EStruct else
    Ok (splice f 0 old (render_header tree))
  end.
(* ASF.delete: tags.clear(); save(padding=lambda x: 0) *)
Definition asf_delete (f : list Z) : result (list Z) := asf_save f [] (fun _ _ => 0).
(* what the callback is handed by asf_save (for the harness and C09) *)
Definition asf_info (f : list Z) (tags : list attr) : result (Z * Z) :=
  match asf_open f with
  | Raise e => Raise e
  | Ok (objs, _) =>
    let old := header_size f in
    Ok (old - (zlen (render_objs (core_objs (place tags) objs)) + 30 + 24), zlen f - old)
  end.

(* ------------------------------------------------------------------ measurements and the builder *)
(* payload bytes of the top-level padding objects *)
Definition asf_padding (s : asf_struct) : Z :=
  fold_right (fun o a => (match o with OLeaf g d => if is_pad g then zlen d else 0 | _ => 0 end) + a) 0 (sobjs s).
(* C02: what a tag edit must keep: unknown top-level objects, per header extension its fixed part and unknown children *)
Definition foreign_raw (o : rawobj) : bool := negb (is_some (tagcls (fst o))) && negb (is_pad (fst o)).
Inductive felem := FTop (o : rawobj) | FExt (fixed : list Z) (ch : list rawobj).
Fixpoint foreign (l : list obj) : list felem :=
  match l with
  | [] => []
  | OLeaf g d :: r => if foreign_raw (g, d) then FTop (g, d) :: foreign r else foreign r
  | OExt fx ch :: r => FExt fx (filter foreign_raw ch) :: foreign r
  end.
(* the reloaded form of a placement: what ASF.load returns for a file written from it
   (the ContentDescription object stores its five fields in the fixed order of CD_NAMES) *)
Definition cd_sorted (P : placement) : list attr :=
  flat_map (fun n => match find (fun a => list_eqb (a_name a) n) (p_cd P) with Some a => [a] | None => [] end) CD_NAMES.
Definition reload_attrs (P : placement) : list attr :=
  map (fun a => mkA (a_name a) (a_val a) None None) (cd_sorted P) ++
  map (fun a => mkA (a_name a) (a_val a) None None) (p_ecd P) ++
  map (fun a => mkA (a_name a) (a_val a) None (Some (oz (a_stream a)))) (p_m P) ++
  map (fun a => mkA (a_name a) (a_val a) (Some (oz (a_lang a))) (Some (oz (a_stream a)))) (p_ml P).
(* the independent reading of a placement *)
Definition placed_tags (P : placement) : list ltag * list ltag * list ltag * list ltag :=
  (map (fun a => mkT 0 (a_name a) 0 0 (a_val a)) (cd_sorted P),
   map (fun a => mkT 1 (a_name a) 0 0 (a_val a)) (p_ecd P),
   map (fun a => mkT 2 (a_name a) 0 (oz (a_stream a)) (a_val a)) (p_m P),
   map (fun a => mkT 3 (a_name a) (oz (a_lang a)) (oz (a_stream a)) (a_val a)) (p_ml P)).

(* synthetic layout: any object tree + data section *)
Definition asf_build (l : list obj) (data : list Z) : list Z := render_header l ++ data.

(* padding modes of the harness *)
Definition cb_const (n : Z) : Z -> Z -> Z := fun _ _ => n.
Definition cb_keep : Z -> Z -> Z := fun p _ => Z.max p 0.
Definition cb_default : Z -> Z -> Z := get_default_padding.
(* EXTRACT: asf_parse asf_wf asf_canon asf_load asf_open asf_save asf_delete asf_info asf_build asf_padding foreign
   place placed_tags reload_attrs units_of_bytes bytes_of_units cb_const cb_keep cb_default mkA mkT mkS *)
