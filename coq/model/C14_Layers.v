(* Model.C14_Layers: the flag layers of Frame._fromData (mutagen/id3/_frames.py) and of the head of
   read_frames (mutagen/id3/_tags.py) -- data length indicator, unsynchronisation, encryption check,
   zlib -- in the order of the source, up to the call of _readData; and the writer side as the ID3v2.3 /
   v2.4 specification lays it out (hand-built in harness/props/c14.py).  DEFINITIONS ONLY.
   zlib is not modelled: `inflate` (zlib.decompress, Raise _ = zlib.error) and `deflate` are Section
   variables.  Not extracted; tied to /repo by the tag-level oracle of harness/props/c14.py, which builds
   exactly enc_v24 / enc_v23 by hand (Python's zlib as deflate) and reads the result with mutagen. *)
From Coq Require Import ZArith List Bool.
Import ListNotations.
Require Import Base.Py Model.Id3Util.
Open Scope Z_scope.

Definition has_flag (tflags m : Z) : bool := negb (Z.land tflags m =? 0).

Definition FLAG24_COMPRESS := 0x0008.
Definition FLAG24_ENCRYPT := 0x0004.
Definition FLAG24_UNSYNCH := 0x0002.
Definition FLAG24_DATALEN := 0x0001.
Definition FLAG23_COMPRESS := 0x0080.
Definition FLAG23_ENCRYPT := 0x0040.

(*  try: data = unsynch.decode(data)
    except ValueError: pass                                                                       *)
Definition unsynch_decode_or_keep (data : list Z) : result (list Z) :=
  match unsynch_decode data with
  | Ok d => Ok d
  | Raise EValue => Ok data
  | Raise e => Raise e
  end.

Section Layers.
Variable inflate : list Z -> result (list Z).

(* Frame._fromData, `if header.version >= header._V24:` branch; the result is the data given to _readData.
   ID3EncryptionUnsupportedError is a NotImplementedError, ID3JunkFrameError a MutagenError. *)
Definition from_data_v24 (f_unsynch : bool) (tflags : Z) (data : list Z) : result (list Z) :=
  let strip := has_flag tflags (Z.lor FLAG24_COMPRESS FLAG24_DATALEN) in
  let datalen_bytes := ztake 4 data in
  let data := if strip then zdrop 4 data else data in
  rbind (if has_flag tflags FLAG24_UNSYNCH || f_unsynch then unsynch_decode_or_keep data else Ok data) (fun data =>
  if has_flag tflags FLAG24_ENCRYPT then Raise ENotImpl else
  if has_flag tflags FLAG24_COMPRESS then
    match inflate data with
    | Ok d => Ok d
    | Raise _ =>
      (* QL 0.12 did not write the 4 bytes of uncompressed size *)
      match inflate (datalen_bytes ++ data) with
      | Ok d => Ok d
      | Raise _ => Raise EMutagen
      end
    end
  else Ok data).

(* `elif header.version >= header._V23:` branch *)
Definition from_data_v23 (tflags : Z) (data : list Z) : result (list Z) :=
  let c := has_flag tflags FLAG23_COMPRESS in
  if c && (zlen data <? 4) then Raise EMutagen else
  let data := if c then zdrop 4 data else data in
  if has_flag tflags FLAG23_ENCRYPT then Raise ENotImpl else
  if c then match inflate data with Ok d => Ok d | Raise _ => Raise EMutagen end
  else Ok data.

(* read_frames: `if id3.version < ID3Header._V24 and id3.f_unsynch:` -- the whole tag body is destuffed *)
Definition tag_body_v23 (f_unsynch : bool) (data : list Z) : result (list Z) :=
  if f_unsynch then unsynch_decode_or_keep data else Ok data.

(* read_frames for any major version (2, 3, 4): v2.2 and v2.3 tags are destuffed as a whole before the frames are
   cut, v2.4 tags per frame (from_data_v24).  `id3.version < ID3Header._V24` on (2, major, 0) is major < 4. *)
Definition read_frames_head (major : Z) (f_unsynch : bool) (data : list Z) : result (list Z) :=
  if (major <? 4) && f_unsynch then unsynch_decode_or_keep data else Ok data.

(* v2.2 frames (6-byte header, no flags): `tag._fromData(id3, 0, framedata)` with version (2, 2, 0) takes
   neither branch of Frame._fromData -- the frame data goes to _readData as it is *)
Definition from_data_v22 (data : list Z) : result (list Z) := Ok data.

(* ---- writer side (specification): compression innermost, then the data length indicator, then the
   unsynchronisation scheme over everything after the frame header (v2.4) / over the whole tag (v2.3) *)
Variable deflate : list Z -> list Z.

Definition tflags_v24 (frame_unsynch compress datalen : bool) : Z :=
  (if compress then FLAG24_COMPRESS else 0) + (if frame_unsynch then FLAG24_UNSYNCH else 0)
  + (if datalen then FLAG24_DATALEN else 0).

(* dl4: the four syncsafe bytes of len(body); unsynch: frame flag or tag flag *)
Definition enc_v24 (unsynch compress datalen : bool) (dl4 body : list Z) : list Z :=
  let d := if compress then deflate body else body in
  let d := if compress || datalen then dl4 ++ d else d in
  if unsynch then unsynch_encode d else d.

(* sz4: the four plain big-endian bytes of len(body) *)
Definition enc_v23 (compress : bool) (sz4 body : list Z) : list Z :=
  if compress then sz4 ++ deflate body else body.

End Layers.
