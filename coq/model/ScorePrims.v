(* Model.ScorePrims: the byte-string / name primitives the generated score functions (Gen.Gen_scores)
   are written in.  DEFINITIONS ONLY.  Python bytes and str are both `list Z` (byte values, resp.
   code points); `bytes.startswith` is Base.Py.starts_with. *)
From Coq Require Import ZArith List Bool.
Import ListNotations.
Require Import Base.Py.
Open Scope Z_scope.

(* int(bool) / the implicit bool -> int coercion of Python arithmetic *)
Definition b2z (b : bool) : Z := if b then 1 else 0.

(* text.endswith(e) *)
Definition ends_with (e l : list Z) : bool := starts_with (rev e) (rev l).

(* m in l   (sub-string test of bytes) *)
Fixpoint contains (m l : list Z) : bool :=
  starts_with m l || match l with [] => false | _ :: r => contains m r end.

(* bytes.lower(), and str.lower() on the ASCII range.  Python's str.lower also rewrites some non-ASCII
   code points; the only ones that yield an ASCII letter are U+212A (Kelvin sign -> k) and U+0130
   (-> i + U+0307); names carrying them in the extension are outside the property (harness note). *)
Definition lower1 (c : Z) : Z := if (65 <=? c) && (c <=? 90) then c + 32 else c.
Definition lower (l : list Z) : list Z := map lower1 l.

(* Python's str < str : lexicographic on code points, a proper prefix is smaller *)
Fixpoint str_ltb (a b : list Z) : bool :=
  match a, b with
  | _, [] => false
  | [], _ :: _ => true
  | x :: a', y :: b' => (x <? y) || ((x =? y) && str_ltb a' b')
  end.

(* Python's (int, str) < (int, str) *)
Definition key_ltb (p q : Z * list Z) : bool :=
  (fst p <? fst q) || ((fst p =? fst q) && str_ltb (snd p) (snd q)).
